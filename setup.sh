#!/bin/sh
# Offline setup after a fresh restore: regenerate tables, build the Lean project (all property
# modules + driver) and the Go harness. Idempotent.
set -e
cd "$(dirname "$0")"
python3 - <<'PY'
import sys, os
sys.path.insert(0, os.getcwd())
from vlib import core, props
gens = sorted({g for p in props.PROPS.values() for g in p.gen})
with core.Lock():
    ok, msg = core.regenerate(gens)
    print("regenerate", gens, ok, msg)
    mods = sorted({p.lean_module for p in props.PROPS.values() if p.lean_module})
    ok, out = core.lake_build(["driver"] + mods)
    print(out[-3000:])
    if not ok:
        sys.exit(1)
    ok, se = core.go_build("corr", os.path.join(core.BIN, "corr"))
    print("go build corr", ok, se[-2000:])
    if not ok:
        sys.exit(1)
PY
