#!/bin/sh
# Offline setup after a fresh restore: regenerate tables, build the Lean project (driver + all property modules) and
# the Go harness. Idempotent. The driver and the harness must build (exit 1 otherwise); a property module that does
# not build is reported here and again, as a broken proof obligation, by that property's own check.
set -e
cd "$(dirname "$0")"
python3 - <<'PY'
import sys, os
sys.path.insert(0, os.getcwd())
from vlib import core, props
gens = sorted({g for p in props.PROPS.values() for g in p.gen})
with core.Lock():
    ok, msg = core.regenerate(gens)
    print("regenerate", gens, ok, msg)
    ok, out = core.lake_build(["driver"])
    print(out[-2000:])
    if not ok:
        print("setup: the Lean driver does not build")
        sys.exit(1)
    mods = sorted({m for p in props.PROPS.values() if p.lean_module for m in [p.lean_module] + list(p.extra_modules)})
    ok, out = core.lake_build(mods)
    if not ok:
        # build one by one so that every module that can be built is built
        bad = []
        for m in mods:
            ok1, out1 = core.lake_build([m])
            if not ok1:
                bad.append(m)
                print(out1[-1500:])
        print("setup: property modules that do not build (their checks will report it):", bad)
    ok, se = core.go_build("corr", os.path.join(core.BIN, "corr"))
    print("go build corr", ok, se[-2000:])
    if not ok:
        sys.exit(1)
PY
