from .check import Prop, Domain
from .props import reg


@reg
class C16(Prop):
    id = "C16"
    title = "Emulated UEs have distinct identities derived from the configured IMSI"
    lean_module = "Stgutg.Props.C16"
    gen = []
    theorems = []
    domains = [Domain("ue", 300, 6000)]
    rule = ("ue: whole populations CreateUE(imsi, 0..n-1) (op uepop: n in {1,2,3,10,100,999,1000,1001,4096,9999,10000} and random, "
            "MSIN lengths 1..10, MSIN exactly exhausted by the last UE / leading zeros / random, 2- and 3-digit MNC, MCC 00x, random "
            "K/OPC/OP) judged against the property predicate (all SUPIs distinct, all RAN-UE-NGAP-IDs distinct, same length, same "
            "MCC/MNC prefix, credentials carried); single CreateUE calls with random indices/credentials and malformed IMSIs (op createue); "
            "GetUESecurityCapability for every algorithm pair 0..7 x 0..7 and random octets (op uecap); "
            "non-trivial = population of at least 2 UEs, or an accepted single call; distinct by op line")
    trusted_base = []
    assumptions = []

    def key(self, op, impl, model, spec):
        t = op.split(" ")
        if t[0] == "uepop":
            names = ["supi-not-distinct", "ranid-not-distinct", "supi-length", "supi-plmn-prefix", "credentials"]
            a, b = impl.split(" ")[1:], spec.split(" ")[1:]
            bad = [n for n, x, y in zip(names, a, b) if x != y]
            return "uepop:" + ("+".join(bad) if bad else impl.split(" ")[0])
        return t[0]

    def nontrivial(self, op, impl):
        t = op.split(" ")
        if not impl.startswith("ok"):
            return False
        return t[0] != "uepop" or int(t[3]) >= 2
