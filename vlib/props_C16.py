from .check import Prop, Domain
from .props import reg


@reg
class C16(Prop):
    id = "C16"
    title = "Emulated UEs have distinct identities derived from the configured IMSI"
    lean_module = "Stgutg.Props.C16"
    extra_modules = ["Stgutg.Props.Glue.stgutg_CreateUE", "Stgutg.Props.Glue.tglib_NewRanUeContext", "Stgutg.Props.Glue.tglib_RanUeContext_GetUESecurityCapability", "Stgutg.Props.Glue.tglib_RanUeContext_Get5GMMCapability", "Stgutg.Props.Glue.tglib_GetAuthSubscription", "Stgutg.Proofs.GenTieUe", "Stgutg.Gen.PureSelftest"]
    gen = ["pure-ue", "pure-selftest", "procs"]
    theorems = ["Stgutg.Props.GluePinned." + t for t in [
        # the glue functions this property depends on are still the text the models were written from (gen procs)
        "stgutg_CreateUE", "tglib_NewRanUeContext", "tglib_RanUeContext_GetUESecurityCapability", "tglib_RanUeContext_Get5GMMCapability", "tglib_GetAuthSubscription"]] + [
        # tie by translation: the RAN-UE-NGAP-ID / SUPI arithmetic regenerated from ue.go IS the hand model; the rest of CreateUE is pinned as text
        "Stgutg.Proofs.GenTie.Ue.CreateUE_ids", "Stgutg.Proofs.GenTie.Ue.CreateUE_eq", "Stgutg.Proofs.GenTie.Ue.CreateUE_tail",
        "Stgutg.Props.C16.C16_supi_distinct",
        "Stgutg.Props.C16.C16_supi_in_plmn",
        "Stgutg.Props.C16.C16_suci_of_ue",
        "Stgutg.Props.C16.C16_ran_id_distinct",
        "Stgutg.Props.C16.C16_credentials",
        "Stgutg.Props.C16.C16_capability",
        "Stgutg.Props.C16.C16_capability_of_created_ue",
    ]
    domains = [Domain("ue", 2000, 60000)]
    rule = ("ue: whole populations CreateUE(imsi, 0..n-1) (op uepop: n in {1,2,3,10,100,999,1000,1001,4096,9999,10000} and random, "
            "MSIN lengths 1..10, MSIN exactly exhausted by the last UE / leading zeros / random, 2- and 3-digit MNC, MCC 00x, random "
            "K/OPC/OP) judged against the property predicate (all SUPIs distinct, all RAN-UE-NGAP-IDs distinct, same length, same "
            "MCC/MNC prefix, credentials carried); single CreateUE calls with random indices/credentials and malformed IMSIs (op createue); "
            "the SUCI RegisterUE builds from a created UE's SUPI, first / last / random member of a population (op uesuci); "
            "GetUESecurityCapability for every algorithm pair 0..7 x 0..7 and random octets (op uecap); "
            "non-trivial = population of at least 2 UEs, or an accepted single call; distinct by op line")
    trusted_base = [
        'TIE BY TRANSLATION (gen pure-ue, harness/cmd/gen/pure*.go -> lean/Stgutg/Gen/PureUe.lean, regenerated from the source text on every run): the statements of stgutg.CreateUE before `ue := tglib.NewRanUeContext(` (parsedIMSI, ranUeNgapId := (parsedIMSI + ueNumber) % 1e4, supi := Sprintf("imsi-%0*d", len(imsi), parsedIMSI+ueNumber)), with strconv.Atoi and the %0*d verb as parameters instantiated by the hand models atoi / fmtPad0; the remaining three statements and the signature are pinned as text (CreateUE_tail). The theorems GenTie.Ue.{CreateUE_ids, CreateUE_eq, CreateUE_tail} prove generated definition = hand model for ALL inputs, so a change of the Go text changes the generated definition and the theorem stops checking, whatever input would show it. Trusted here instead of sampling: the translator\'s grammar and its runtime Gen/PureRt.lean (Go\'s fixed-width arithmetic, index / slice panics, value semantics of slices under the translator\'s no-alias check, go/types constant evaluation); a construct outside the grammar fails closed (TRANSLATOR-FAILED file:line); the translator and its runtime are themselves checked against the Go compiler on every run: gen pure-selftest translates harness/cmd/gen/pureselftest/fns.go and writes the results of EXECUTING the compiled functions beside the translation (Gen/PureSelftest.lean: 97 calls incl. wrap-around, MinInt / -1, division by zero, index / slice panics, shadowing, break / continue, receiver mutation, as kernel-checked equalities)',
        'Model/UeIdentity.lean (CreateUE, NewRanUeContext, GetAuthSubscription, GetUESecurityCapability with the four EA / four IA setters) is a hand model tied by the ue domain',
        'strconv.Atoi and fmt.Sprintf("%0*d") are standard-library calls modelled in the same file (atoi incl. sign / syntax error -> 0 / range clamp; fmtPad0 = exactly w digits when the value fits, plain decimal otherwise, sign handling for negatives); Go int = 64-bit wrap-around (wrap64). All of it is compared with the real calls on malformed IMSIs, overflowing values and negative indices in the ue domain',
        'Spec/Ts24501Identity.lean eaSupported / iaSupported: bit numbering of TS 24.501 9.11.3.54 octets 3 and 4',
    ]
    assumptions = [
        "the configured IMSI is a non-empty decimal string of at most 18 digits (Go's int holds it; real IMSIs have at most 15); UE indices are 0..n-1 as in the loops of stg-utg.go",
        'SUPI distinctness / PLMN membership are claimed for populations the digits can accommodate: decVal(MSIN) + n <= 10^|MSIN| (Fits / MsinFits); RAN-UE-NGAP-ID distinctness for n <= 10 000',
    ]
    partial_note = ('no theorem is partial')

    def key(self, op, impl, model, spec):
        t = op.split(" ")
        if t[0] == "uepop":
            names = ["supi-not-distinct", "ranid-not-distinct", "supi-length", "supi-plmn-prefix", "credentials"]
            a, b = impl.split(" ")[1:], spec.split(" ")[1:]
            bad = [n for n, x, y in zip(names, a, b) if x != y]
            return "uepop:" + ("+".join(bad) if bad else impl.split(" ")[0])
        return t[0]

    def nontrivial(self, op, impl):
        t = op.split(" ")
        if not impl.startswith("ok"):
            return False
        return t[0] != "uepop" or int(t[3]) >= 2
