from .check import Prop, Domain
from .props import reg


@reg
class C17(Prop):
    id = "C17"
    title = "Identifier conversion helpers produce the 3GPP encodings and invert exactly"
    lean_module = "Stgutg.Props.C17"
    gen = []
    theorems = []
    domains = [Domain("conv", 400, 20000)]
    rule = ("conv: PlmnIDToNas (boundary digits x positions, random, malformed strings); SnssaiToNas (every SST 0..255 x SD "
            "absent/present, int32 edges, bad SD text); AmfIdToNas (field boundaries, random ids, malformed text, and op amfid-range: "
            "EVERY id of 17 whole regions in quick / all 256 regions = all 2^24 ids in thorough, each checked to recombine to the id); "
            "PCO Marshal / UnMarshal / round trip (lists of 0..6 units, contents 0..255 octets, inconsistent length fields, arbitrary "
            "octets); IPAddressToNgap / IPAddressToString / round trip (IPv4, IPv6 with zero runs / small groups / v4-mapped, dual, "
            "non-canonical spellings, 46 malformed texts, odd bit lengths); Dnn; and the standard-library calls themselves (x-*); "
            "non-trivial = the call returned a value; distinct by op line")
    trusted_base = []
    assumptions = []

    def key(self, op, impl, model, spec):
        t = op.split(" ")
        if t[0] == "ngap2ip":
            return "ngap2ip:%s" % t[1]
        if t[0] in ("iprt", "ip2ngap"):
            kind = {(False, False): "none", (True, False): "v4", (False, True): "v6", (True, True): "dual"}[(t[1] != "-", t[2] != "-")]
            return "%s:%s" % (t[0], kind)
        return t[0]

    def nontrivial(self, op, impl):
        return impl.startswith("ok")
