from .check import Prop, Domain
from .props import reg


@reg
class C17(Prop):
    id = "C17"
    title = "Identifier conversion helpers produce the 3GPP encodings and invert exactly"
    lean_module = "Stgutg.Props.C17"
    extra_modules = ["Stgutg.Proofs.GenTieConvert", "Stgutg.Gen.PureSelftest"]
    gen = ["pure-convert", "pure-selftest"]
    theorems = [
        # tie by translation: AmfIdToNas / PlmnIDToNas / SnssaiToNas regenerated from nasConvert/*.go ARE the hand models
        "Stgutg.Proofs.GenTie.Convert.AmfIdToNas_eq", "Stgutg.Proofs.GenTie.Convert.PlmnIDToNas_eq",
        "Stgutg.Proofs.GenTie.Convert.SnssaiToNas_eq",
        "Stgutg.Props.C17.C17_plmn",
        "Stgutg.Props.C17.C17_plmn_defined",
        "Stgutg.Props.C17.C17_snssai_sst",
        "Stgutg.Props.C17.C17_snssai_sd",
        "Stgutg.Props.C17.C17_amfid",
        "Stgutg.Props.C17.C17_amfid_fields_invert",
        "Stgutg.Props.C17.C17_tla_v4",
        "Stgutg.Props.C17.C17_tla_v6",
        "Stgutg.Props.C17.C17_tla_dual",
        "Stgutg.Props.C17.C17_tla_roundtrip",
        "Stgutg.Props.C17.C17_tla_spec_inverts",
        "Stgutg.Props.C17.C17_pco_roundtrip",
        "Stgutg.Props.C17.C17_pco_unmarshal_total",
        "Stgutg.Props.C17.C17_pco_is_ts24008",
        "Stgutg.Props.C17.C17_dnn",
    ]
    domains = [Domain("conv", 4000, 200000)]
    rule = ("conv: PlmnIDToNas (boundary digits x positions, random, malformed strings); SnssaiToNas (every SST 0..255 x SD "
            "absent/present, int32 edges, bad SD text); AmfIdToNas (field boundaries, random ids, malformed text, and op amfid-range: "
            "EVERY id of 17 whole regions in quick / all 256 regions = all 2^24 ids in thorough, each checked to recombine to the id); "
            "PCO Marshal / UnMarshal / round trip (lists of 0..6 units, contents 0..255 octets, inconsistent length fields, arbitrary "
            "octets); IPAddressToNgap / IPAddressToString / round trip (IPv4, IPv6 with zero runs / small groups / v4-mapped, dual, "
            "non-canonical spellings, 46 malformed texts, odd bit lengths); Dnn; and the standard-library calls themselves (x-*); "
            "non-trivial = the call returned a value; distinct by op line")
    trusted_base = [
        "TIE BY TRANSLATION (gen pure-convert, harness/cmd/gen/pure*.go -> lean/Stgutg/Gen/PureConvert.lean, regenerated from the source text on every run): nasConvert.AmfIdToNas, PlmnIDToNas, SnssaiToNas (hex.DecodeString stays a parameter on both sides; ProtocolConfigurationOptions.go, ngapConvert and util_3gpp stay tied by the conv domain only). The theorems GenTie.Convert.{AmfIdToNas_eq, PlmnIDToNas_eq, SnssaiToNas_eq} prove generated definition = hand model for ALL inputs, so a change of the Go text changes the generated definition and the theorem stops checking, whatever input would show it. Trusted here instead of sampling: the translator's grammar and its runtime Gen/PureRt.lean (Go's fixed-width arithmetic, index / slice panics, value semantics of slices under the translator's no-alias check, go/types constant evaluation); a construct outside the grammar fails closed (TRANSLATOR-FAILED file:line); the translator and its runtime are themselves checked against the Go compiler on every run: gen pure-selftest translates harness/cmd/gen/pureselftest/fns.go and writes the results of EXECUTING the compiled functions beside the translation (Gen/PureSelftest.lean: 97 calls incl. wrap-around, MinInt / -1, division by zero, index / slice panics, shadowing, break / continue, receiver mutation, as kernel-checked equalities)",
        'Model/Convert.lean is a hand model of nasConvert/{PlmnId,Snssai,AmfId,ProtocolConfigurationOptions}.go, ngapConvert/IpAddress.go, util_3gpp/3gpp_type.go tied by the conv domain',
        'encoding/hex.DecodeString, net.ParseIP, net.IP.String (and IP.To4/To16/net.IPv4, modelled concretely) are EXTERNALS: every theorem quantifies over an arbitrary Ext; the transport-layer-address theorems assume of it exactly V4Text / V6Text (ParseIP reads the text as the address and IP.String prints the address as that text, i.e. the text is canonical); the S-NSSAI and AMF-ID theorems assume hex.DecodeString returns the three octets. Model/NetExt.lean re-implements the three calls (Go 1.23 netip parser/printer) for the comparator only and is itself compared with the real functions (ops x-hexdec, x-parseip, x-ipstr, 46 malformed texts included)',
        'bytes.Buffer / binary.Write / binary.Read of uint8, uint16 (big endian) and []byte are modelled by list operations in pcoMarshal / pcoLoop',
        'Spec/Convert3gpp.lean: my transcription of TS 24.501 9.11.2.8 (S-NSSAI lengths 1 and 4), TS 23.003 2.10.1 (AMF identifier), TS 38.414 5.1 (transport layer address), TS 24.008 10.5.6.3 (PCO), DNN as length+value',
    ]
    assumptions = [
        "PCO: every unit's LengthOfContents equals len(Contents) (hence 0..255 octets); Marshal writes the two independently, so inconsistent units are outside the property (they are still compared model vs implementation)",
        'S-NSSAI: 0 <= SST <= 255 and SD empty or the hex text of 3 octets; AMF-ID: the text is the 6-hex-digit form of a 24-bit number; IP texts are canonical (see trusted base)',
    ]
    partial_note = ('no theorem is partial. The AMF-ID theorem C17_amfid covers all 2^24 identifiers by arithmetic on the three octets (UInt16 shift/mask lemmas + omega), not by enumeration; the exhaustive enumeration is done on the implementation side only (op amfid-range).')

    def key(self, op, impl, model, spec):
        t = op.split(" ")
        if t[0] == "ngap2ip":
            return "ngap2ip:%s" % t[1]
        if t[0] in ("iprt", "ip2ngap"):
            kind = {(False, False): "none", (True, False): "v4", (False, True): "v6", (True, True): "dual"}[(t[1] != "-", t[2] != "-")]
            return "%s:%s" % (t[0], kind)
        return t[0]

    def nontrivial(self, op, impl):
        return impl.startswith("ok")
