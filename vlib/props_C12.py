from .check import Prop, Domain
from .props import reg


@reg
class C12(Prop):
    id = "C12"
    title = "UE address, TEID and UPF address are extracted exactly from the setup request"
    lean_module = "Stgutg.Props.C12"
    extra_modules = ["Stgutg.Props.Glue.stgutg_FindPDUSessionResourceSetupListSUReq", "Stgutg.Props.Glue.stgutg_EstablishPDU",
                     "Stgutg.Proofs.GenTieExtract", "Stgutg.Gen.PureSelftestExt", "Stgutg.Gen.PureSelftest"]
    gen = ["extract", "procs", "pure-extract", "pure-selftest-ext", "pure-selftest"]
    theorems = ["Stgutg.Proofs.GenTie.Extract." + t for t in [
        # the two extractors ARE the hand model: translated from the source text on every run (gen pure-extract)
        "DecodePDUSessionNASPDU_eq", "DecodePDUSessionResourceSetupRequestTransfer_eq", "decodeNasPdu_eq", "decodeTransferPdu_eq"]] + ["Stgutg.Props.GluePinned." + t for t in [
        # the glue functions this property depends on are still the text the models were written from (gen procs)
        "stgutg_FindPDUSessionResourceSetupListSUReq", "stgutg_EstablishPDU"]] + ["Stgutg.Props.C12." + t for t in [
        "C12_ip", "C12_ip_pdu", "C12_ip_size",
        "C12_teid_upf_container", "C12_teid_upf",
        "C12_terminates_nas", "C12_terminates_nas_pdu", "model_is_repaired",
        "C12_terminates_transfer", "C12_terminates_transfer_pdu",
        "F9_original_never_returns", "F9_repaired_returns",
        "C12_setup_list_selected", "F16_positional_selection", "table_cause",
    ]]
    domains = [Domain("extract", 1500, 60000)]
    rule = ("extract: PDU SESSION ESTABLISHMENT ACCEPT in a protected DL NAS TRANSPORT built with the real nasMessage/nasType "
            "encoders (QoS rules 0..4000 octets incl. 0,1,2,255,256,4000; every optional IE drawn present/absent; IPv4 and, "
            "rarely, other PDU address types) and setup-request transfers built with ngapType + aper.MarshalWithParams "
            "(bit rates log-uniform and at every octet-count edge of 0..4e12, AMBR present/absent, IPv4/IPv6/dual addresses), "
            "each also compared octet for octet with the Lean TS 24.501 / X.691 encoders; the real EstablishPDU over a "
            "socketpair against requests with/without RAN Paging Priority and NAS-PDU; random, truncated and mutated byte "
            "strings with hidden capacity (classes ok/panic/hang). non-trivial = an extraction that returned an address; "
            "distinct by op line")
    trusted_base = ["TIE BY TRANSLATION of the two extractors (gen pure-extract, harness/cmd/gen/pure_extract.go -> lean/Stgutg/Gen/PureExtract.lean, regenerated from the source text of src/stgutg/pdu.go on every run): DecodePDUSessionNASPDU and DecodePDUSessionResourceSetupRequestTransfer, with the package-level tables PDUSessionEstablishmentAcceptOptionalElementsLength (a constant association list) and ...HalfByte (the range loop over it unrolled) read from the same text. Theorems Proofs.GenTie.Extract.DecodePDUSessionNASPDU_eq (for EVERY fuel and EVERY slice = octets, length, capacity and the octets behind the length: generated = Model.Extract.decodeNas in its repaired variant, projected to the visible octets of the returned address) and DecodePDUSessionResourceSetupRequestTransfer_eq (the same against decodeTransfer, for slices of fewer than 2^62 octets: the model counts offsets in unbounded naturals, the code in 64-bit ints), plus decodeNasPdu_eq / decodeTransferPdu_eq for the functions the C12 theorems are about. For these two functions the translation tie REPLACES the text pin: renamed locals, x++ for x += 1, parentheses, x = x + k keep the theorems; a semantic edit (a skip one octet short, a length indicator of the wrong width, a table entry) breaks them whatever input would show it. Trusted here instead of sampling: the slice-walker grammar (described at the top of pure_extract.go; anything else fails closed with file:line) and its runtime Gen/PureRtSl.lean: a []byte (net.IP) is its backing array from the first element on plus its length, s[i] and s[a:] are checked against len, s[a:b] against CAP (so octets behind the length can be reached, as in Go), binary.BigEndian.Uint16/32 trap on fewer than 2/4 octets, int arithmetic wraps at 64 bits (Gen/PureRt.lean), uint16 arithmetic wraps; a `for cond` loop is a recursion on FUEL that every translated function takes as an argument (outliving it = hang; the C12 termination theorems prove cap+1 suffices); no translated function writes to memory, so slices are values; the two tables are constants BECAUSE the translator checks that nothing else in their package uses them (go/types Uses) and no other .go file of the repo mentions them. NOT described, as by the hand model: that the returned slices alias the argument; nil versus empty; a 32-bit int. The grammar and runtime are checked against the Go compiler on every run: gen pure-selftest-ext translates harness/cmd/gen/pureselftest/ext.go (every construct) and writes the outcomes of EXECUTING the compiled functions beside the translation (Gen/PureSelftestExt.lean: 479 calls on slices with hidden capacity, 260 of them panics, 17 with fuel one short of what the walk needs, as kernel-checked equalities); the integer runtime shared with the other pure-* groups by gen pure-selftest (Gen/PureSelftest.lean). FindPDUSessionResourceSetupListSUReq is NOT translated (nested pointer tests, a range over a list of structs returning a pointer: outside both grammars) and stays pinned",
                    "the op lines of acc/xfer carry the parameters; the Lean driver re-encodes them with Spec/SetupRequest.lean, "
                    "the Go side with the library encoders (encacc/encxfer compare the two encodings)",
                    "EstablishPDU is run over an AF_UNIX SOCK_SEQPACKET pair (no kernel SCTP)"]
    partial_note = ("The theorems are about the hand model (tied by the extract correspondence run, which executes the real "
                    "functions and the real EstablishPDU) and about specification encoders written from TS 24.501 / X.691 "
                    "(compared octet for octet with the library encoders by encacc/encxfer on every run). The IEs after the "
                    "tunnel IE are arbitrary in C12_teid_upf_container; the spec encoder of the QoS flow list covers items with a "
                    "non-dynamic 5QI and no optional component. EstablishPDU's use of the two functions is covered by the IE "
                    "selection theorem plus the process-level establish op, not by a model of the whole procedure.")
    level_text = ("Lean theorems over an executable model of the two extractors (Go slice semantics incl. capacity) for all "
                  "spec-built accepts/transfers and all byte strings (termination); model proved equal to the translation of the "
                  "two functions' source text (gen pure-extract) and also run differentially")
    assumptions = ["payload container shorter than 65530 octets (uint16 offset arithmetic in the extractor)",
                   "the N2 message fits the 2048-octet receive buffer of EstablishPDU (not part of the extraction functions)"]

    def key(self, op, impl, model, spec):
        t = op.split(" ")
        if t[0] == "establish":
            return "establish:rpp=%d:naspdu=%d" % (t[1] != "x", t[2] != "x")
        if spec == "nohang":
            return t[0] + ":hang"
        return t[0]

    def judge(self, op, impl, model, spec):
        if impl == "bad-op" or model == "bad-op":
            return ("corr", "harness/driver could not parse the op")
        if spec == "nohang":
            if impl == "hang":
                return ("viol", self.key(op, impl, model, spec), "the extraction does not terminate on this input")
            if impl != model:
                return ("corr", "implementation differs from the model")
            return None
        return Prop.judge(self, op, impl, model, spec)

    def nontrivial(self, op, impl):
        return impl.startswith("ok ") and not impl.endswith(" -")
