from .check import Prop, Domain
from .props import reg


@reg
class C12(Prop):
    id = "C12"
    title = "UE address, TEID and UPF address are extracted exactly from the setup request"
    lean_module = "Stgutg.Props.C12"
    extra_modules = ["Stgutg.Props.Glue.stgutg_DecodePDUSessionNASPDU", "Stgutg.Props.Glue.stgutg_DecodePDUSessionResourceSetupRequestTransfer", "Stgutg.Props.Glue.stgutg_FindPDUSessionResourceSetupListSUReq", "Stgutg.Props.Glue.stgutg_EstablishPDU"]
    gen = ["extract", "procs"]
    theorems = ["Stgutg.Props.GluePinned." + t for t in [
        # the glue functions this property depends on are still the text the models were written from (gen procs)
        "stgutg_DecodePDUSessionNASPDU", "stgutg_DecodePDUSessionResourceSetupRequestTransfer", "stgutg_FindPDUSessionResourceSetupListSUReq", "stgutg_EstablishPDU"]] + ["Stgutg.Props.C12." + t for t in [
        "C12_ip", "C12_ip_pdu", "C12_ip_size",
        "C12_teid_upf_container", "C12_teid_upf",
        "C12_terminates_nas", "C12_terminates_nas_pdu", "model_is_repaired",
        "C12_terminates_transfer", "C12_terminates_transfer_pdu",
        "F9_original_never_returns", "F9_repaired_returns",
        "C12_setup_list_selected", "F16_positional_selection", "table_cause",
    ]]
    domains = [Domain("extract", 1500, 60000)]
    rule = ("extract: PDU SESSION ESTABLISHMENT ACCEPT in a protected DL NAS TRANSPORT built with the real nasMessage/nasType "
            "encoders (QoS rules 0..4000 octets incl. 0,1,2,255,256,4000; every optional IE drawn present/absent; IPv4 and, "
            "rarely, other PDU address types) and setup-request transfers built with ngapType + aper.MarshalWithParams "
            "(bit rates log-uniform and at every octet-count edge of 0..4e12, AMBR present/absent, IPv4/IPv6/dual addresses), "
            "each also compared octet for octet with the Lean TS 24.501 / X.691 encoders; the real EstablishPDU over a "
            "socketpair against requests with/without RAN Paging Priority and NAS-PDU; random, truncated and mutated byte "
            "strings with hidden capacity (classes ok/panic/hang). non-trivial = an extraction that returned an address; "
            "distinct by op line")
    trusted_base = ["the op lines of acc/xfer carry the parameters; the Lean driver re-encodes them with Spec/SetupRequest.lean, "
                    "the Go side with the library encoders (encacc/encxfer compare the two encodings)",
                    "EstablishPDU is run over an AF_UNIX SOCK_SEQPACKET pair (no kernel SCTP)"]
    partial_note = ("The theorems are about the hand model (tied by the extract correspondence run, which executes the real "
                    "functions and the real EstablishPDU) and about specification encoders written from TS 24.501 / X.691 "
                    "(compared octet for octet with the library encoders by encacc/encxfer on every run). The IEs after the "
                    "tunnel IE are arbitrary in C12_teid_upf_container; the spec encoder of the QoS flow list covers items with a "
                    "non-dynamic 5QI and no optional component. EstablishPDU's use of the two functions is covered by the IE "
                    "selection theorem plus the process-level establish op, not by a model of the whole procedure.")
    level_text = ("Lean theorems over an executable model of the two extractors (Go slice semantics incl. capacity) for all "
                  "spec-built accepts/transfers and all byte strings (termination); model tied to the code by differential runs")
    assumptions = ["payload container shorter than 65530 octets (uint16 offset arithmetic in the extractor)",
                   "the N2 message fits the 2048-octet receive buffer of EstablishPDU (not part of the extraction functions)"]

    def key(self, op, impl, model, spec):
        t = op.split(" ")
        if t[0] == "establish":
            return "establish:rpp=%d:naspdu=%d" % (t[1] != "x", t[2] != "x")
        if spec == "nohang":
            return t[0] + ":hang"
        return t[0]

    def judge(self, op, impl, model, spec):
        if impl == "bad-op" or model == "bad-op":
            return ("corr", "harness/driver could not parse the op")
        if spec == "nohang":
            if impl == "hang":
                return ("viol", self.key(op, impl, model, spec), "the extraction does not terminate on this input")
            if impl != model:
                return ("corr", "implementation differs from the model")
            return None
        return Prop.judge(self, op, impl, model, spec)

    def nontrivial(self, op, impl):
        return impl.startswith("ok ") and not impl.endswith(" -")
