from .check import Prop, Domain
from .props import reg


def _fields(s):
    """'ok k=v k=v …' -> (head, {k: v})"""
    t = s.split(" ")
    d = {}
    for x in t[1:]:
        if "=" in x:
            k, v = x.split("=", 1)
            d[k] = v
    return t[0], d


@reg
class C13(Prop):
    id = "C13"
    title = "gNB-side NGAP messages carry the caller's values and all mandatory IEs"
    lean_module = "Stgutg.Props.C13"
    gen = ["schema", "registry", "templates"]
    theorems = []
    domains = [Domain("builders", 200, 3000)]
    rule = ""

    def key(self, op, impl, model, spec):
        t = op.split(" ")
        return "%s:%s" % (t[1] if len(t) > 1 else t[0], impl.split(" ")[0])

    def judge(self, op, impl, model, spec):
        if impl == "bad-op" or model == "bad-op":
            return ("corr", "harness/driver could not parse the op")
        t = op.split(" ")
        name = t[1] if len(t) > 1 else "?"
        if t[0] == "buildsum" and spec not in ("n/a", "undef"):
            icls = impl.split(" ", 1)[0]
            if spec == "err":
                if icls != "err":
                    return ("viol", "%s:out-of-range-id:%s" % (name, icls),
                            "an identifier outside its ASN.1 range was not refused with an error (result class %s)" % icls)
            else:
                shead, want = _fields(spec)
                if icls != "ok":
                    if shead == "ok":
                        return ("viol", "%s:in-range:%s" % (name, icls),
                                "in-range arguments did not yield an encoding (result class %s)" % icls)
                else:
                    _, got = _fields(impl)
                    for k, v in want.items():
                        if k == "mand":
                            have = set(got.get("ies", "-").split(","))
                            for m in (v.split(",") if v != "-" else []):
                                if m not in have:
                                    return ("viol", "%s:mandatory-ie:%s" % (name, m),
                                            "mandatory IE id:criticality %s of TS 38.413 clause 9.2 is not in the encoding (IEs found: %s)" % (m, got.get("ies")))
                        elif k == "plmn":
                            if got.get("plmn", "-") not in ("-", v):
                                return ("viol", "%s:plmn" % name,
                                        "a PLMN in the encoding (%s) is not the one announced at NG Setup (%s)" % (got.get("plmn"), v))
                        elif k == "psi" and shead == "okv":
                            if not set(v.split(",")) <= set(got.get("psi", "-").split(",")):
                                return ("viol", "%s:psi" % name, "PDU session ids %s not found in the encoding (%s)" % (v, got.get("psi")))
                        elif got.get(k) != v:
                            return ("viol", "%s:%s" % (name, k),
                                    "%s found in the encoding is %s, the argument / table value is %s" % (k, got.get(k), v))
        if impl != model:
            return ("corr", "implementation differs from the model")
        return None

    def nontrivial(self, op, impl):
        t = op.split(" ")
        return len(t) > 3 and any(x not in ("i0", "n", "o-", "s-", "[", "]") for x in t[3:])
