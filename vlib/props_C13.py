from .check import Prop, Domain
from .props import reg


def _fields(s):
    """'ok k=v k=v …' -> (head, {k: v})"""
    t = s.split(" ")
    d = {}
    for x in t[1:]:
        if "=" in x:
            k, v = x.split("=", 1)
            d[k] = v
    return t[0], d


@reg
class C13(Prop):
    id = "C13"
    title = "gNB-side NGAP messages carry the caller's values and all mandatory IEs"
    lean_module = "Stgutg.Props.C13"
    extra_modules = ["Stgutg.Props.Glue.names", "Stgutg.Props.Glue.tglib_GetNGSetupRequest", "Stgutg.Props.Glue.tglib_GetInitialUEMessage", "Stgutg.Props.Glue.tglib_GetUplinkNASTransport", "Stgutg.Props.Glue.tglib_GetInitialContextSetupResponse", "Stgutg.Props.Glue.tglib_GetInitialContextSetupResponseForServiceRequest", "Stgutg.Props.Glue.tglib_GetPDUSessionResourceSetupResponse", "Stgutg.Props.Glue.tglib_GetPDUSessionResourceSetupResponseForPaging", "Stgutg.Props.Glue.tglib_GetPDUSessionResourceReleaseResponse", "Stgutg.Props.Glue.tglib_GetUEContextReleaseComplete", "Stgutg.Props.Glue.tglib_GetUEContextReleaseRequest", "Stgutg.Props.Glue.tglib_GetHandoverRequired", "Stgutg.Props.Glue.tglib_GetHandoverRequestAcknowledge", "Stgutg.Props.Glue.tglib_GetHandoverNotify", "Stgutg.Props.Glue.tglib_GetPathSwitchRequest"]
    gen = ["schema", "registry", "templates", "procs"]
    theorems = ["Stgutg.Props.GluePinned." + t for t in [
        # the glue functions this property depends on are still the text the models were written from (gen procs)
        "names", "tglib_GetNGSetupRequest", "tglib_GetInitialUEMessage", "tglib_GetUplinkNASTransport", "tglib_GetInitialContextSetupResponse", "tglib_GetInitialContextSetupResponseForServiceRequest", "tglib_GetPDUSessionResourceSetupResponse", "tglib_GetPDUSessionResourceSetupResponseForPaging", "tglib_GetPDUSessionResourceReleaseResponse", "tglib_GetUEContextReleaseComplete", "tglib_GetUEContextReleaseRequest", "tglib_GetHandoverRequired", "tglib_GetHandoverRequestAcknowledge", "tglib_GetHandoverNotify", "tglib_GetPathSwitchRequest"]] + ["Stgutg.Props.C13." + t for t in [
        "class_table", "mandatory_table", "amf_table", "ran_table", "nas_table", "psi_table", "psilist_table", "name_table",
        "gnb_table", "ip_table", "plmn_table",
        "C13_class", "C13_mandatory", "C13_carries_amf", "C13_carries_ran", "C13_carries_nas", "C13_carries_psi",
        "C13_carries_name", "C13_carries_psilist", "C13_carries_gnbid_ngsetup", "C13_carries_gnbid_handover",
        "C13_carries_tla", "ip4_hole", "C13_plmn",
        "skeleton_table", "skeleton_facts", "C13_encodes", "C13_decodes_back", "C13_in_range", "reach_table", "C13_refuses",
        "reach_list_table", "C13_refuses_list",
    ]] + ["Stgutg.Proofs.BuildersOk." + t for t in ["okV_regular", "okV_conf", "okV_spec", "okV_marshal"]] + [
        "Stgutg.Proofs.BuildersTm.tmOK_sound", "Stgutg.Proofs.BuildersRoles.explicit_sound",
        "Stgutg.Proofs.BuildersRefuse.badV_refused", "Stgutg.Proofs.BuildersRefuse.tmReach_sound",
        "Stgutg.Proofs.BuildersRefuse.tmReachList_sound",
        "Stgutg.Proofs.BuildersRange.selected_builds", "Stgutg.Proofs.BuildersRange.okV_pdu_encodes",
        "Stgutg.Proofs.BuildersRange.okV_pdu_decodes"]
    domains = [Domain("builders", 200, 3000)]
    rule = ("builders: every Build*/Get* function of ngapTestpacket/packet.go (52 builders + 14 wrappers, registry regenerated from "
            "the sources) at random and boundary arguments: ids at 0, 2^32-1, 2^32, 2^40-1, 2^40 and negative, NAS-PDU of 0..5000 "
            "octets and nil, gNB ids of 22..32 bits, IPv4 corner addresses and unparsable strings, PDU session id lists of length "
            "0..3 and nil, NG Setup first / not first (TestPlmn default or announced). build = reflect dump of the PDU the real "
            "builder returns vs the template; buildsum = the real wrapper's octets decoded by the library decoder and walked by the "
            "reference IE walker vs (i) the model's octets and (ii) the specification row (procedure code, class, mandatory IEs with "
            "criticality, the argument values, the PLMN; out-of-range ids must give an error). non-trivial = some argument away from "
            "its zero value; distinct by op line")
    trusted_base = ["gen templates: probed templates (each builder run under every nil/non-nil argument class with sentinel arguments) "
                    "- a model generator by observation, tied by the builders correspondence run like a hand model",
                    "gen registry: the list of builders/wrappers and their parameter types (go/types over build.go, packet.go)",
                    "Spec/Ts38413.lean: procedure codes, message classes and the clause 9.2 mandatory-IE tables of the messages "
                    "the emulator sends, transcribed by hand",
                    "net.ParseIP and hex.DecodeString are parameters (`Ext`) of every theorem"]
    partial_note = ("Proved for every template of the table (14 wrappers, 15 hand templates, 35 probed templates), all "
                    "TestPlmn states and all externals: class/procedure code, mandatory IEs with criticality, and that the "
                    "AMF/RAN UE NGAP ids, NAS-PDU, PDU session id(s), RAN node name, gNB id, GTP transport address and every "
                    "PLMNIdentity position of the PDU are the arguments / TestPlmn (all arguments); C13_encodes: for ALL in-range "
                    "arguments (InRange; role by role in C13_in_range/ArgsInRange: AMF-UE-NGAP-ID 0..2^40-1, RAN-UE-NGAP-ID "
                    "0..2^32-1, PDU session ids 0..255 in lists of 1..256, 3-octet PLMN, IPv4 text net.ParseIP accepts, non-empty "
                    "name, gNB id of 22..32 bits, any NAS-PDU; caller-supplied ngapType values of the AMF-side builders: conforming "
                    "to the type at their position) the builder returns a PDU, ngap.Encoder (model) returns octets and they are the "
                    "X.691 encoding; C13_decodes_back: the decoder model returns that PDU; C13_refuses / C13_refuses_list: an "
                    "AMF-UE-NGAP-ID / RAN-UE-NGAP-ID / PDU session id (scalar, or an element of the PDU session id list) outside "
                    "its range (negative or above 2^40-1 / 2^32-1 / 255) is never encoded, whatever the other arguments. Method: a "
                    "kernel-decided static analysis of every skeleton against the regenerated schema (skeleton_table, reach_table, "
                    "reach_list_table) + its soundness (tmOK_sound, tmReach_sound, tmReachList_sound, badV_refused) + C03/C04. "
                    "The analysis found F37 (BuildPDUSessionResourceReleaseCommand tagged the RAN paging priority with IE id 52 "
                    "instead of 83: the library's encoder refused its own builder's PDU; fixed in /repo f4784a9, the table now passes "
                    "without exception). One stated exception remains: the constants of BuildHandoverNotify / BuildLocationReport "
                    "carry set bits beyond a 28-bit cell identity (encoded - the encoder masks them - but the decoder returns the "
                    "masked octets): excluded from C13_decodes_back only (NonCanonicalConst). Still decided by the correspondence "
                    "run only: the tie template = builder (probed / hand templates are models by observation).")
    level_text = ("Lean theorems for all arguments over hand-written and probed builder templates (kernel-decided table facts + "
                  "carrier lemmas): procedure code/class, mandatory IEs with criticality, ids/NAS-PDU/PSI/name/gNB id/address/PLMN "
                  "are the caller's; encodes for all in-range arguments (= X.691 encoding, decoded back) and refuses out-of-range "
                  "identifiers (static skeleton analysis decided by the kernel + soundness + C03/C04); templates tied to "
                  "build.go/packet.go by a differential run of every builder")
    level_note = ("templates are tied to the code differentially (probed + corresponded), not by a syntactic translator; "
                  "one stated exception for the round trip only (two builders' constants are not canonical bit strings)")

    def key(self, op, impl, model, spec):
        t = op.split(" ")
        return "%s:%s" % (t[1] if len(t) > 1 else t[0], impl.split(" ")[0])

    def judge(self, op, impl, model, spec):
        if impl == "bad-op" or model == "bad-op":
            return ("corr", "harness/driver could not parse the op")
        t = op.split(" ")
        name = t[1] if len(t) > 1 else "?"
        if t[0] == "buildsum" and spec not in ("n/a", "undef"):
            icls = impl.split(" ", 1)[0]
            if spec == "err":
                if icls != "err":
                    return ("viol", "%s:out-of-range-id:%s" % (name, icls),
                            "an identifier outside its ASN.1 range was not refused with an error (result class %s)" % icls)
            else:
                shead, want = _fields(spec)
                if icls != "ok":
                    if shead == "ok":
                        return ("viol", "%s:in-range:%s" % (name, icls),
                                "in-range arguments did not yield an encoding (result class %s)" % icls)
                else:
                    _, got = _fields(impl)
                    for k, v in want.items():
                        if k == "mand":
                            have = set(got.get("ies", "-").split(","))
                            for m in (v.split(",") if v != "-" else []):
                                if m not in have:
                                    return ("viol", "%s:mandatory-ie:%s" % (name, m),
                                            "mandatory IE id:criticality %s of TS 38.413 clause 9.2 is not in the encoding (IEs found: %s)" % (m, got.get("ies")))
                        elif k == "plmn":
                            if got.get("plmn", "-") not in ("-", v):
                                return ("viol", "%s:plmn" % name,
                                        "a PLMN in the encoding (%s) is not the one announced at NG Setup (%s)" % (got.get("plmn"), v))
                        elif k == "psi" and shead == "okv":
                            if not set(v.split(",")) <= set(got.get("psi", "-").split(",")):
                                return ("viol", "%s:psi" % name, "PDU session ids %s not found in the encoding (%s)" % (v, got.get("psi")))
                        elif got.get(k) != v:
                            return ("viol", "%s:%s" % (name, k),
                                    "%s found in the encoding is %s, the argument / table value is %s" % (k, got.get(k), v))
        if impl != model:
            return ("corr", "implementation differs from the model")
        return None

    def nontrivial(self, op, impl):
        t = op.split(" ")
        return len(t) > 3 and any(x not in ("i0", "n", "o-", "s-", "[", "]") for x in t[3:])
