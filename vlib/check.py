"""Generic property check runner. Property definitions live in vlib/props.py."""
import argparse, fnmatch, glob, hashlib, json, os, sys, time
from . import core


class Domain:
    def __init__(self, name, quick, thorough, tags=None, race=False, binary="corr"):
        self.name, self.quick, self.thorough = name, quick, thorough
        self.tags, self.race, self.binary = tags, race, binary


class Prop:
    id = None
    title = ""
    lean_module = None          # Stgutg.Props.Cxx
    extra_modules = []          # further modules holding obligations of this property
    theorems = []               # obligations: fully qualified theorem names
    gen = []                    # translators to run first
    domains = []                # list of Domain
    rule = ""                   # how cases are generated / what is non-trivial
    assumptions = []
    trusted_base = []
    partial_note = ""
    level_text = ""             # MANIFEST level_claimed.text
    level_note = "see DESIGN.md section 6 (trusted base)"
    technique = "Lean 4 theorems about an executable model + model/implementation correspondence run"

    # -- judging one case ---------------------------------------------------------------
    def key(self, op, impl, model, spec):
        """finding key for a spec violation (matched against KNOWN_FINDINGS.txt patterns)"""
        return op.split(" ", 1)[0]

    def judge(self, op, impl, model, spec):
        """None | ('corr', why) | ('viol', key, why)"""
        if impl == "bad-op" or model == "bad-op":
            return ("corr", "harness/driver could not parse the op")
        if spec not in ("n/a", "undef") and impl != spec:
            return ("viol", self.key(op, impl, model, spec), "implementation differs from the specification oracle")
        if impl != model:
            return ("corr", "implementation differs from the model")
        return None

    def nontrivial(self, op, impl):
        return impl.startswith("ok") and len(op) > 24

    # -- hooks --------------------------------------------------------------------------
    def extra(self, ctx):
        """property specific stages (process-level runs …); may call ctx.violation / ctx.count"""
        return


class Ctx:
    def __init__(self, prop, tier, seed):
        self.prop, self.tier, self.seed = prop, tier, seed
        self.t0 = time.time()
        self.evaluations = 0
        self.distinct = set()
        self.samples = []
        self.violations = []        # dicts
        self.known_hits = {}        # key -> example
        self.corr_breaks = []       # (domain, op, impl, model, spec, why)
        self.proof_breaks = []      # text
        self.histogram = {}
        self.notes = []
        self.stats = {}
        self.obligations = 0
        self.discharged = 0
        self.axioms = {}            # theorem -> axioms it depends on (from #print axioms on this run)
        self.rerun_hangs = []       # ops whose 'hang' verdict did not reproduce alone
        self.known, self.fixed = core.load_known()
        self.known = [k for k in self.known if k["property"] == prop.id]
        self.fixed = [k for k in self.fixed if k["property"] == prop.id]

    def is_known(self, key):
        for k in self.known:
            if fnmatch.fnmatchcase(key, k["key"]):
                return k
        return None

    def account(self, domain, op, impl, model, spec):
        self.evaluations += 1
        if " ARGMUT:" in impl:
            impl, what = impl.split(" ARGMUT:", 1)
            key = "%s:argument-overwritten" % what.split(" ", 1)[0]
            if self.is_known(key) is None:
                self.violations.append(dict(kind="violation", key=key, domain=domain, op=op, impl=impl + " ARGMUT:" + what,
                                            model=model, spec=spec,
                                            why="the implementation wrote into a slice it was given as an input-only argument"))
            if " ALIASED:" in what:
                impl += " ALIASED:" + what.split(" ALIASED:", 1)[1]
        if " ALIASED:" in impl:
            # retention check of the harness: what an EARLIER call handed out changed while this op ran
            impl, what = impl.split(" ALIASED:", 1)
            key = "%s:aliased" % what.split(" ", 1)[0]
            if self.is_known(key) is None:
                self.violations.append(dict(kind="violation", key=key, domain=domain, op=op, impl=impl + " ALIASED:" + what,
                                            model=model, spec=spec,
                                            why="the result of the previous op (%s) changed after this op ran: the implementation "
                                                "returned storage it reuses between calls" % what))
        opname = op.split(" ", 1)[0]
        cls = impl.split(" ", 1)[0]
        h = self.histogram.setdefault(domain, {})
        h[opname + ":" + cls] = h.get(opname + ":" + cls, 0) + 1
        if self.prop.nontrivial(op, impl):
            self.distinct.add(hashlib.sha1(op.encode()).digest()[:10])
        if len(self.samples) < 6 and (self.evaluations % 97 == 1):
            self.samples.append({"domain": domain, "op": op[:400], "impl": impl[:200], "model": model[:200], "spec": spec[:200]})
        v = self.prop.judge(op, impl, model, spec)
        if v is None:
            return
        if v[0] == "viol":
            key = v[1]
            k = self.is_known(key)
            if k is not None:
                self.known_hits.setdefault(key, dict(domain=domain, op=op, impl=impl, spec=spec, text=k["text"]))
            else:
                self.violations.append(dict(kind="violation", key=key, domain=domain, op=op, impl=impl,
                                            model=model, spec=spec, why=v[2]))
        else:
            self.corr_breaks.append(dict(kind="correspondence", domain=domain, op=op, impl=impl,
                                         model=model, spec=spec, why=v[1]))


def confirm_hangs(ctx, binp, pairs):
    """A 'hang' is a wall-clock verdict (the op did not return within its limit). On a loaded machine a slow op can be
    mistaken for one: every op that came back as 'hang' is executed again, alone, in a process of its own, and only an op
    that does not return then either keeps the verdict."""
    out, redone = [], 0
    for op, impl in pairs:
        if impl == "hang" and redone < 12 and binp and os.path.exists(binp):
            redone += 1
            try:
                rc, again, se = core.run_corr("run", 0, 0, ctx.tier, corr_bin=binp, stdin_ops=op + "\n", timeout=900)
                if again and again[0][1] != "hang":
                    # not a hang when executed alone: either the machine was loaded, or the hang depends on what ran
                    # before. The op keeps the verdict 'hang' unless the result alone ALSO agrees with what the model says
                    # for it (checked by the caller through the normal judge: the alone result replaces the verdict).
                    ctx.notes.append("op re-run alone after a wall-clock 'hang': " + op[:120] + " -> " + again[0][1][:60])
                    ctx.rerun_hangs.append(op)
                    impl = again[0][1]
            except Exception as e:  # the confirmation itself failed: keep the verdict
                ctx.notes.append("hang confirmation failed: %s" % e)
        out.append((op, impl))
    return out


def run_ops(ctx, domain_name, pairs, binp=None):
    """pairs = [(op, impl)] -> runs the driver and accounts every case"""
    pairs = confirm_hangs(ctx, binp, pairs)
    ops = [p[0] for p in pairs]
    res = core.run_driver(ops)
    for (op, impl), (model, spec) in zip(pairs, res):
        ctx.account(domain_name, op, impl, model, spec)


def bin_name(d):
    """file name (under .build/bin) of the harness binary a domain runs; coverage mode has instrumented builds of its own"""
    return d.binary + ("-" + d.tags if d.tags else "") + ("-race" if d.race else "") + ("-cover" if core.COVER else "")


def stage_build(ctx, prop):
    """regenerate + prove + audit + build harness (under the shared lock)"""
    ok_all = True
    with core.Lock():
        ok, msg = core.regenerate(prop.gen)
        if not ok:
            ctx.proof_breaks.append("translator failed (the source left its input grammar): " + msg)
            ok_all = False
        # the driver must build even when a table fact fails: it only imports Model/Spec/Gen
        ok, out = core.lake_build(["driver"])
        if not ok:
            ctx.proof_breaks.append("lake build driver failed:\n" + out[-3000:])
            ok_all = False
        ctx.obligations = len(prop.theorems)
        hits = core.scan_sources(([prop.lean_module] if prop.lean_module else []) + list(prop.extra_modules))
        if hits:
            ctx.proof_breaks.append("forbidden constructs in the Lean sources (sorry/admit/axiom/native_decide/bv_decide/"
                                    "implemented_by/unsafe/maxHeartbeats 0): " + "; ".join(hits[:8]))
            ok_all = False
        if prop.lean_module:
            mods = [prop.lean_module] + list(prop.extra_modules)
            built = []
            for m in mods:
                ok, out = core.lake_build([m])
                if not ok:
                    ctx.proof_breaks.append("lake build %s failed:\n%s" % (m, out[-3000:]))
                    ok_all = False
                else:
                    built.append(m)
            if built:
                res = core.audit(built, prop.theorems)
                for t, (st, detail) in res.items():
                    if st == "ok":
                        ctx.discharged += 1
                        ctx.axioms[t] = detail
                    elif st == "axioms":
                        ctx.proof_breaks.append("theorem %s depends on disallowed axioms %s" % (t, detail))
                    else:
                        ctx.proof_breaks.append("theorem %s not found / not checked: %s" % (t, detail))
                if ctx.tier == "thorough":
                    for m in built:
                        ok, out = core.leanchecker(m)
                        if not ok:
                            ctx.proof_breaks.append("leanchecker rejected %s: %s" % (m, out))
        built = set()
        for d in prop.domains:
            name = bin_name(d)
            if name in built:
                continue
            built.add(name)
            ok, se = core.go_build(d.binary, os.path.join(core.BIN, name), tags=d.tags, race=d.race, cover=core.COVER)
            if not ok:
                # a tree that no longer compiles against the harness breaks the tie, nothing else can run
                ctx.proof_breaks.append("go build of the harness against /repo failed:\n" + se[-3000:])
                ok_all = False
    return ok_all


def stage_corr(ctx, prop, seed_offset=0, scale=1):
    for d in prop.domains:
        name = bin_name(d)
        binp = os.path.join(core.BIN, name)
        if not os.path.exists(binp):
            continue
        # corpus first: minimised past failures and the replays of known/fixed findings
        corpus = sorted(glob.glob(os.path.join(core.HARNESS, "corpus", d.name, "*.ops")))
        if corpus and seed_offset == 0:
            text = "".join(open(c).read() for c in corpus)
            rc, pairs, se = core.run_corr("run", 0, 0, ctx.tier, corr_bin=binp, stdin_ops=text)
            run_ops(ctx, d.name, pairs, binp)
        n = (d.thorough if ctx.tier == "thorough" else d.quick) * scale
        rc, pairs, se = core.run_corr(d.name, n, ctx.seed + seed_offset, ctx.tier, corr_bin=binp)
        if rc != 0:
            ctx.corr_breaks.append(dict(kind="correspondence", domain=d.name, op="(harness exit %d)" % rc,
                                        impl=se[-500:], model="", spec="", why="harness crashed"))
        n_before = len(ctx.rerun_hangs)
        run_ops(ctx, d.name, pairs, binp)
        if len(ctx.rerun_hangs) > n_before:
            # hangs that did not reproduce alone: the whole domain is run once more with the same seed; an op that hangs
            # again in its context is a hang of the code, not of the machine
            suspects = set(ctx.rerun_hangs[n_before:])
            rc2, pairs2, se2 = core.run_corr(d.name, n, ctx.seed + seed_offset, ctx.tier, corr_bin=binp)
            again = [(op, impl) for op, impl in pairs2 if op in suspects and impl == "hang"]
            for op, impl in again:
                ctx.notes.append("hang reproduced in a second run of the whole domain: " + op[:120])
                ctx.account(d.name, op, "hang", "(see first run)", "nohang" if prop.id == "C12" else "n/a")
                ctx.corr_breaks.append(dict(kind="correspondence", domain=d.name, op=op, impl="hang", model="", spec="",
                                            why="the op does not return when executed in its context (twice)"))
        for k, v in core.STATS.items():
            old = ctx.stats.get(k)
            if old is None or v["value"] > old["value"]:
                ctx.stats[k] = dict(v, domain=d.name)


def finish(ctx, prop):
    vio_lines = []
    replay_dir = os.path.join(core.VERIF, "replay")
    os.makedirs(replay_dir, exist_ok=True)
    # known findings observed on this run
    for key, ex in sorted(ctx.known_hits.items()):
        print("KNOWN-FINDING: property=%s key=%s %s [op: %s]" % (prop.id, key, ex["text"], ex["op"][:160]))
    # genuine violations: one line per distinct key
    seen = {}
    for v in ctx.violations:
        seen.setdefault(v["key"], v)
    n = 0
    for key, v in sorted(seen.items()):
        n += 1
        path = os.path.join(replay_dir, "%s-%d-%d.json" % (prop.id, ctx.seed, n))
        v = dict(v, property=prop.id, rerun="./check %s --replay %s" % (prop.id, path))
        core.write_json(path, v)
        vio_lines.append("VIOLATION property=%s replay=%s" % (prop.id, path))
    if not seen and (ctx.proof_breaks or ctx.corr_breaks):
        path = os.path.join(replay_dir, "%s-%d-unproved.json" % (prop.id, ctx.seed))
        core.write_json(path, dict(property=prop.id, kind="no-failing-input-found",
                                   broken_obligations=ctx.proof_breaks[:20],
                                   broken_correspondence=ctx.corr_breaks[:20],
                                   note="the property is no longer shown to hold: a proof obligation or the "
                                        "model/implementation correspondence broke and the witness search found "
                                        "no input on which the implementation violates the specification"))
        vio_lines.append("VIOLATION property=%s replay=%s no-failing-input-found" % (prop.id, path))
    wall = time.time() - ctx.t0
    ev = {
        "property_id": prop.id, "tier": ctx.tier, "seed": ctx.seed, "level": "proof",
        "coverage": {
            "obligations": max(ctx.obligations, 1), "discharged": ctx.discharged,
            "checker_cmd": "cd /verif/lean && lake build %s && lake env lean <#print axioms of every obligation>%s"
                           % (prop.lean_module, " && lake env leanchecker " + prop.lean_module if ctx.tier == "thorough" else ""),
            "trusted_base": core.TRUSTED_BASE_COMMON + list(prop.trusted_base),
            "theorems": list(prop.theorems),
            "axioms_by_theorem": ctx.axioms,
            "evaluations": ctx.evaluations, "distinct_nontrivial": len(ctx.distinct),
            "rule": prop.rule, "samples": ctx.samples or [{"note": "no correspondence cases in this run"}],
            "traces_validated_against_impl": ctx.evaluations,
            "input_distribution": ctx.histogram,
            "correspondence_breaks": len(ctx.corr_breaks), "proof_breaks": ctx.proof_breaks[:10],
            "known_findings_observed": sorted(ctx.known_hits.keys()),
            "partial": prop.partial_note, "notes": ctx.notes, "measurements": ctx.stats,
        },
        "assumptions": list(prop.assumptions),
        "wall_s": round(wall, 2),
        "violations": len(vio_lines),
    }
    if core.COVERDIR:
        # opt-in (VERIF_COVER=1 / --cover): what the runs above reached in the files the property is anchored to
        rep = core.cover_report(prop.id)
        if rep:
            ev["coverage"]["anchored_functions"] = [dict(file=x["file"], func=x["func"], percent=x["percent"],
                                                         statements=x["statements"]) for x in rep.get("anchored_functions", [])]
            ev["coverage"]["uncovered_blocks"] = ["%s:%s" % (b["file"], b["range"]) for b in rep.get("uncovered_blocks", [])]
            ev["coverage"]["anchored_coverage"] = {k: rep.get(k) for k in (
                "anchored_statements", "anchored_statements_covered", "anchored_percent", "uncovered_blocks_total",
                "functions_never_entered", "files_not_in_profile", "error") if rep.get(k) is not None}
            core.cover_print(prop.id, rep)
    core.write_json(os.path.join(core.VERIF, "evidence", prop.id + ".json"), ev)
    for l in vio_lines:
        print(l)
    core.log("[%s] tier=%s seed=%d obligations=%d/%d evaluations=%d distinct=%d corr_breaks=%d violations=%d wall=%.1fs"
             % (prop.id, ctx.tier, ctx.seed, ctx.discharged, ctx.obligations, ctx.evaluations, len(ctx.distinct),
                len(ctx.corr_breaks), len(vio_lines), wall))
    for b in ctx.proof_breaks[:5]:
        core.log("  proof break: " + b[:1500])
    for b in ctx.corr_breaks[:5]:
        core.log("  corr break [%s] %s | impl=%s model=%s spec=%s" % (b["domain"], b["op"][:200], b["impl"][:100], b["model"][:100], b["spec"][:100]))
    return 1 if vio_lines else 0


def confirm_violations(ctx, prop):
    """Every violation found on a generated case is executed again, alone, in a process of its own, and judged again; one
    that does not reproduce (a timing bucket missed on a loaded machine, an interleaving that did not recur) is dropped from
    the verdict and recorded in the notes. Race-detector and aliasing findings are schedule / order dependent by nature and
    are kept as found (their replay file carries the report)."""
    if not ctx.violations:
        return
    by_dom = {d.name: d for d in prop.domains}
    kept, seen = [], {}
    for v in ctx.violations:
        key = v["key"]
        d = by_dom.get(v.get("domain"))
        # only process-level domains (real binary, sockets, sleeps) are timing dependent; an in-process domain is
        # deterministic for a seed, and a failure there may depend on the ops that ran BEFORE it (state leaking between
        # calls), so executing the op alone proves nothing
        if key in seen or d is None or d.race or d.tags != "verif" or ":aliased" in key or ":argument-overwritten" in key or len(seen) >= 6:
            seen.setdefault(key, True)
            if seen[key]:
                kept.append(v)
            continue
        name = d.binary + ("-" + d.tags if d.tags else "") + ("-race" if d.race else "")
        binp = os.path.join(core.BIN, name)
        ok = True
        try:
            for attempt in range(2):   # two more executions: a violation that shows in neither was not the code's
                rc, pairs, se = core.run_corr("run", 0, 0, ctx.tier, corr_bin=binp, stdin_ops=v["op"] + "\n", timeout=1200)
                if not pairs:
                    break
                res = core.run_driver([pairs[0][0]])
                impl2 = pairs[0][1]
                verdict = prop.judge(pairs[0][0], impl2.split(" ALIASED:")[0].split(" ARGMUT:")[0], res[0][0], res[0][1])
                ok = verdict is not None and verdict[0] == "viol"
                if ok:
                    break
        except Exception as e:
            ctx.notes.append("violation confirmation could not run (%s): kept" % e)
        seen[key] = ok
        if ok:
            kept.append(v)
        else:
            ctx.notes.append("violation not reproduced in two further executions of the op alone (dropped): key=%s op=%s impl=%s"
                             % (key, v["op"][:160], str(v.get("impl", ""))[:120]))
    ctx.violations = kept


def main_check(prop, tier, seed):
    # replay files of earlier runs of this property would be mistaken for findings of this one
    for f in glob.glob(os.path.join(core.VERIF, "replay", "%s-*.json" % prop.id)):
        try:
            os.remove(f)
        except OSError:
            pass
    ctx = Ctx(prop, tier, seed)
    t0 = time.time()
    if core.COVER:
        core.cover_begin(prop.id)
    stage_build(ctx, prop)
    t1 = time.time()
    stage_corr(ctx, prop)
    t2 = time.time()
    confirm_violations(ctx, prop)
    prop.extra(ctx)
    ctx.notes.append("stage wall: build+prove+audit %.1fs (includes waiting for the shared build lock), correspondence %.1fs, extra %.1fs"
                     % (t1 - t0, t2 - t1, time.time() - t2))
    core.log("[%s] %s" % (prop.id, ctx.notes[-1]))
    if (ctx.proof_breaks or ctx.corr_breaks) and not ctx.violations:
        # witness search: a larger, differently seeded run looking for a spec violation
        core.log("[%s] proof/correspondence broke; searching for a failing input" % prop.id)
        stage_corr(ctx, prop, seed_offset=7919, scale=4)
    return finish(ctx, prop)


def main_replay(prop, path):
    r = json.load(open(path))
    if "op" not in r:
        print(json.dumps(r, indent=1))
        return 1
    ctx = Ctx(prop, "quick", 0)
    stage_build(ctx, prop)
    d = [d for d in prop.domains if d.name == r.get("domain")] or prop.domains
    name = bin_name(d[0])
    rc, pairs, se = core.run_corr("run", 0, 0, "quick", corr_bin=os.path.join(core.BIN, name), stdin_ops=r["op"] + "\n")
    res = core.run_driver([p[0] for p in pairs])
    bad = 0
    for (op, impl), (model, spec) in zip(pairs, res):
        v = prop.judge(op, impl, model, spec)
        print("op:    %s\nimpl:  %s\nmodel: %s\nspec:  %s\nverdict: %s" % (op, impl, model, spec, v))
        if v is not None:
            bad = 1
    return bad


def cli():
    from . import props
    ap = argparse.ArgumentParser()
    ap.add_argument("prop")
    ap.add_argument("--tier", default=os.environ.get("VERIF_TIER", "quick"), choices=["quick", "thorough"])
    ap.add_argument("--replay")
    ap.add_argument("--cover", action="store_true",
                    help="also measure the statement coverage the runs reach in the property's anchored files (same as VERIF_COVER=1)")
    a = ap.parse_args()
    if a.cover:
        core.COVER = True
    seed = int(os.environ.get("VERIF_SEED", "1") or 1)
    if a.prop not in props.PROPS:
        print("unknown property", a.prop, file=sys.stderr)
        sys.exit(2)
    prop = props.PROPS[a.prop]
    if a.replay:
        sys.exit(main_replay(prop, a.replay))
    sys.exit(main_check(prop, a.tier, seed))
