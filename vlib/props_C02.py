from .check import Prop, Domain
from .props import reg
from .props_C01 import convo_judge, convo_key, witness_impl_stage


@reg
class C02(Prop):
    id = "C02"
    title = "Session lifecycle for N UEs: establish, service request, release, deregister"
    lean_module = "Stgutg.Props.C02"
    extra_modules = ["Stgutg.Props.Glue.names", "Stgutg.Props.Glue.stgutg_EstablishPDU", "Stgutg.Props.Glue.stgutg_ServiceRequest", "Stgutg.Props.Glue.stgutg_ReleasePDU", "Stgutg.Props.Glue.stgutg_DeregisterUE", "Stgutg.Props.Glue.stgutg_FindPDUSessionResourceSetupListSUReq", "Stgutg.Props.Glue.tglib_GetPDUSessionResourceSetupResponse", "Stgutg.Props.Glue.tglib_GetPDUSessionResourceReleaseResponse", "Stgutg.Props.Glue.tglib_GetInitialContextSetupResponseForServiceRequest", "Stgutg.Props.Glue.tglib_GetUEContextReleaseComplete", "Stgutg.Props.Glue.tglib_GetUplinkNASTransport", "Stgutg.Props.Glue.tglib_GetInitialUEMessage", "Stgutg.Proofs.BuildersLife", "Stgutg.Props.C02Steps", "Stgutg.Props.C02Life", "Stgutg.Props.C02History",
                     "Stgutg.Props.C02Script", "Stgutg.Proofs.EmulatorLife", "Stgutg.Props.C02Accepted",
                     "Stgutg.Proofs.EmulatorDlLife", "Stgutg.Proofs.EmulatorLifeReenc", "Stgutg.Proofs.EmulatorLifeArgs",
                     "Stgutg.Props.C02AcceptedOne", "Stgutg.Proofs.EmulatorLifeN", "Stgutg.Proofs.EmulatorLifeLoops",
                     "Stgutg.Props.C02AcceptedN", "Stgutg.Props.C02Statement", "Stgutg.Props.C02Traffic", "Stgutg.Proofs.GenTieMin", "Stgutg.Gen.PureSelftest", "Stgutg.Proofs.GenTieNas", "Stgutg.Gen.PureSelftestRich", "Stgutg.Proofs.GenTieExtract", "Stgutg.Gen.PureSelftestExt"]
    gen = ["schema", "registry", "templates", "nasie", "naslayout", "nassetters", "extract", "script", "tables", "traffic", "pure-min", "pure-selftest", "procs", "pure-count", "pure-nasprot", "pure-extract", "pure-selftest-ext"]
    theorems = ["Stgutg.Proofs.GenTie.Nas.NASEncode_eq", "Stgutg.Proofs.GenTie.Nas.EncodeNasPduWithSecurity_eq",
                # the two extractors of pdu.go are tied by translation (gen pure-extract), not pinned
                "Stgutg.Proofs.GenTie.Extract.DecodePDUSessionNASPDU_eq", "Stgutg.Proofs.GenTie.Extract.DecodePDUSessionResourceSetupRequestTransfer_eq"] + ["Stgutg.Props.GluePinned." + t for t in [
        # the glue functions this property depends on are still the text the models were written from (gen procs)
        "names", "stgutg_EstablishPDU", "stgutg_ServiceRequest", "stgutg_ReleasePDU", "stgutg_DeregisterUE", "stgutg_FindPDUSessionResourceSetupListSUReq", "tglib_GetPDUSessionResourceSetupResponse", "tglib_GetPDUSessionResourceReleaseResponse", "tglib_GetInitialContextSetupResponseForServiceRequest", "tglib_GetUEContextReleaseComplete", "tglib_GetUplinkNASTransport", "tglib_GetInitialUEMessage"]] + ["Stgutg.Proofs.GenTie.Min.Min_eq"] + ["Stgutg.Props.C02Traffic." + t for t in [
        # the traffic-mode branch of main (not runnable here: XDP) makes the calls of test mode with counts (N, N, 0, N, N)
        "C02_traffic_structure", "C02_traffic_calls", "C02_traffic_no_trap", "test_mode_skeleton", "C02_traffic_is_test_mode",
        "C02_traffic_dataplane"]] + ["Stgutg.Props.C02." + t for t in [
        "C02_generated_bounds", "genNumbers_eq", "C02_prerequisites", "C02_numbers_are_min", "C02_lifecycle", "C02_ids", "pduId_range", "C02_one_psi", "C02_reports", "C02_no_list_is_an_error", "C02_count_unique", "C02_protected_step_accepted", "cheapPrims_ok", "C02_accepted_witness",
        # judge steps of the nine uplink messages after registration (Props/C02Steps.lean)
        "step_setupResponse", "step_releaseResponse", "step_ueContextReleaseComplete", "step_icsResponseSvc",
        "step_initialUEMessage_protected", "Live.send", "setUe_setUe", "setUe_find", "onProtected_ulNasTransport",
        "onProtected_serviceRequest", "onProtected_deregistrationRequest", "gsm_parse", "onSession_establishment",
        "onSession_releaseRequest", "onSession_releaseComplete", "life_heads", "step_protected_uplink", "step_session_message",
        "C02_step_establishment_request", "C02_step_release_request", "C02_step_release_complete",
        "C02_step_deregistration_request", "C02_step_service_request", "C02_step_setup_response",
        "C02_step_ics_response_service", "C02_step_release_response", "C02_step_ue_context_release_complete",
        # whole procedures (Props/C02Life.lean), a UE's history (Props/C02History.lean), the whole script (Props/C02Script.lean)
        "setUe_find_other", "C02_establish_block", "C02_service_block", "C02_deregister_block", "C02_release_block",
        "proc_step", "stAfter_other", "C02_history_accepted", "registration_live", "finish_clean", "C02_script_accepted",
        "C02_calls_are_the_emulators",
        # through emulate, one UE, all counts 1 (Props/C02Accepted.lean)
        "C02_accepted_partial",
        # the downlink after registration SPECIFIED (Spec/AmfDownlink.lean): one UE (Props/C02AcceptedOne.lean), then N <= 10000 UEs
        # and arbitrary repetition counts (Props/C02AcceptedN.lean)
        "dlEstablish_some", "dlService_some", "dlDeregister_some", "C02_accepted_one",
        "natMin_eq", "C02_accepted_n_for_downlink", "decOr_of", "C02_accepted_n",
        # C02_accepted_statement itself, instantiated (Props/C02Statement.lean), and its kernel-checked non-vacuity witness
        "collect_some", "ulRan_eq", "ulPsi_eq", "C02_accepted_statement_spec", "wfCfg_wellFormed", "C02_accepted_statement_witness",
    ]] + ["Stgutg.Proofs.Emulator." + t for t in ["forUes_ok", "registerLoop_ok", "ueRun_counts", "estimate_next"]] \
      + ["Stgutg.Proofs.EmulatorLife." + t for t in [
        "protect_reenc", "reencOK_elim", "reenc_serviceRequest", "reenc_releaseRequest", "establishPDU_run", "serviceRequest_run",
        "releasePDU_run", "deregisterUE_run", "forUes_one", "emulate_life_run"]] \
      + ["Stgutg.Proofs.EmulatorRun.registerUE_run_result"] \
      + ["Stgutg.Proofs.EmulatorDlLife." + t for t in [
        "setupReq_static", "setupReq_roundtrip", "ueCtxRel_static", "ueCtxRel_roundtrip", "protectAt_eq", "beNat_natBE4",
        "setupReq_carries", "extractReport_spec"]] \
      + ["Stgutg.Proofs.EmulatorLifeReenc." + t for t in [
        "life_dispatch", "ulMsg_model", "ulMsg_wf", "reenc_ulNasTransport", "reenc_ulEstablishment", "reenc_ulReleaseComplete",
        "reenc_deregistrationRequest"]] \
      + ["Stgutg.Proofs.EmulatorLifeArgs." + t for t in ["supiInt_prefix", "supiInt_created", "supi_range", "ran_range", "psi_facts"]] \
      + ["Stgutg.Proofs.EmulatorLifeN." + t for t in [
        "run_cons", "run_append", "Judged.write", "find_range_map", "setUe_range_map", "ueList_get", "ueList_set", "forUes_inv",
        "psiOf_facts", "argsOf_ok", "ran_inj", "Glob.find", "Glob.known", "Glob.update", "glob_step", "proc_loop",
        "est_emul", "svc_emul", "rel_emul", "dereg_loop", "register_one", "register_loop"]] \
      + ["Stgutg.Proofs.BuildersLife." + t for t in [
        "life_noExtra", "life_carriers", "inRange_setupResponse", "inRange_icsResponseSvc", "inRange_releaseResponse",
        "inRange_ueContextReleaseComplete", "setupResponse_wire", "icsResponseSvc_wire", "releaseResponse_wire",
        "ueContextReleaseComplete_wire"]]
    domains = [Domain("convo-life", 8, 40, tags="verif")]
    rule = ("convo-life: whole test-mode conversations (NG Setup, registration, PDU session establishment, service request, release, "
            "de-registration for 1..3 UEs, thorough ..6) against the scripted AMF of harness/peer over a SOCK_SEQPACKET socketpair: "
            "(proc) the procedures called in-process by a child of the harness, which prints what EstablishPDU returns (UE IP, "
            "TEID, UPF IP), and (bin) the real stgutgmain -t; (hist) one UE registered, then EstablishPDU called 270 times in a row for "
            "it (thorough: 600): uplink NAS COUNT 0..271 under one key, sequence number wrap and overflow counter through the real "
            "NASEncode. Count vectors through the real binary with two or more dependent counts above / at / below N at once (the "
            "clamps live in main). Repetition counts equal to, below and above the UE count, zero and "
            "negative; IMSI tails in 1..15, 16..255, 256..9999 and 0 (the classes of the repaired finding F14); network-assigned "
            "UE IP / TEID (incl. 0, 1, 2^31, 2^32-1) / UPF IP / AMF-UE-NGAP-ID (0, 2^32, 2^40-1, ...). Compared with the Lean model: "
            "exit status, banner, every uplink octet, every reported triple. The Lean reference AMF/SMF judges the "
            "IMPLEMENTATION's transcript: per-UE ids, one PSI in 5GSM header / UL NAS TRANSPORT IE / NGAP response, PTI/PSI value "
            "clauses of TS 24.501 7.3.1/7.3.2, prerequisite order, COUNT strictly increasing and never reused, MAC, reported = "
            "assigned, expected number of procedures. non-trivial = a run that set up at least one session (a PDU SESSION RESOURCE "
            "SETUP RESPONSE was sent); distinct by op line")
    trusted_base = list(__import__("vlib.props_C01", fromlist=["C01"]).C01.trusted_base) + [
        "TIE BY TRANSLATION (gen pure-min -> lean/Stgutg/Gen/PureMin.lean, regenerated from the source text of stgutg.Min on every run): "
        "GenTie.Min.Min_eq proves generated definition = Model.FailStop.goMin (the clamp the C02 theorems use) for all integers; trusted "
        "instead of sampling: the grammar of harness/cmd/gen/pure*.go and its runtime Gen/PureRt.lean, themselves checked against the Go "
        "compiler on every run (gen pure-selftest -> Gen/PureSelftest.lean: results of executing the compiled self-test functions, 97 calls)",
        "TIE BY TRANSLATION of the two extractors EstablishPDU calls (gen pure-extract -> lean/Stgutg/Gen/PureExtract.lean, regenerated from the "
        "source text of src/stgutg/pdu.go on every run): GenTie.Extract.DecodePDUSessionNASPDU_eq and DecodePDUSessionResourceSetupRequestTransfer_eq "
        "prove generated = Model.Extract.decodeNas / decodeTransfer for every fuel and every slice incl. hidden capacity (the transfer: fewer than "
        "2^62 octets); they replace the text pins of these two functions. Trusted instead of sampling: the slice-walker grammar of "
        "harness/cmd/gen/pure_extract.go and its runtime Gen/PureRtSl.lean (details under C12), checked against the Go compiler on every run "
        "(gen pure-selftest-ext -> Gen/PureSelftestExt.lean: 479 executed calls, 260 panics, 17 out of fuel)"]
    assumptions = ["the peer answers every read with a decodable NGAP message of the expected type (fail-stop behaviour is C19); "
                   "the setup request's item carries a DL NAS TRANSPORT[PDU SESSION ESTABLISHMENT ACCEPT] with an IPv4 address and "
                   "a transfer with a GTP tunnel (C12's domain)",
                   "fewer than 2^24 protected uplink messages per UE and key",
                   "configuration as for C01; S-NSSAI SD is 6 hexadecimal digits"]
    partial_note = ("Proved for all counts / configurations: the Min clamps (C02_prerequisites, all integers), the structure of a "
                    "completed run (the clamps are read from the source by gen script on every run: C02_generated_bounds; C02_lifecycle: UE i is CreateUE(imsi, i), no loop indexes beyond the list, no procedure "
                    "changes a UE's SUPI / RAN-UE-NGAP-ID / credentials / AMF-UE-NGAP-ID), distinct ids (C02_ids), COUNT uniqueness "
                    "below 2^24 with receiver recovery (C02_count_unique), the reference AMF's NAS-security clause accepts the next "
                    "message (C02_protected_step_accepted), reported = encoded values for spec-built setup requests (C02_reports). "
                    "JUDGE LEVEL, for all arguments in range: each of the nine uplink messages after registration, as the "
                    "emulator's constructor + EncodeNasPduWithSecurity + wrapper return it, raises no clause and moves the "
                    "reference AMF's state as the procedure expects (C02_step_*: NGAP via C13's skeleton analysis, NAS security "
                    "via C06, contents via C09); whole procedures (C02_establish/service/release/deregister_block); the fold over "
                    "a UE's WHOLE HISTORY — any sequence of EstablishPDU / ServiceRequest / ReleasePDU whose prerequisites hold, "
                    "COUNT strictly increasing up to 2^24 - 2, other UEs' records untouched (C02_history_accepted); and the whole "
                    "script of one UE, NG Setup + registration + any history + de-registration, judged `accept` by the C02 judge "
                    "with the configured numbers of procedures and reported = assigned (C02_script_accepted). THROUGH emulate, "
                    "END TO END: C02_accepted_n — for every well-formed configuration (as C01_accepted_n; S-NSSAI SD of 3 octets; a "
                    "gNB GTP address the builders accept), N <= 10000 UEs, ANY integer repetition counts (the loops run min(N,pdu), "
                    "min(est,svc), min(est,rel), min(N,dereg) times: C02_numbers_are_min over the bounds gen script extracts) and "
                    "every choice of a conformant AMF/SMF per UE (RAND/SQN/AMF field/ngKSI, AMF-UE-NGAP-ID < 2^40, IPv4 UE and UPF "
                    "addresses, TEID < 2^32), when the AMF sends the SPECIFIED downlink (Spec/AmfDownlink.lean, built with the "
                    "specification encoders only: NG SETUP RESPONSE; per UE the four messages of registration; per establishment "
                    "the PDU SESSION RESOURCE SETUP REQUEST carrying DL NAS TRANSPORT[PDU SESSION ESTABLISHMENT ACCEPT with the "
                    "assigned address] protected under the vector's keys and the transfer with the assigned tunnel; per service "
                    "request the INITIAL CONTEXT SETUP REQUEST[SERVICE ACCEPT]; per de-registration DOWNLINK NAS "
                    "TRANSPORT[DEREGISTRATION ACCEPT] + UE CONTEXT RELEASE COMMAND; each within the 2048-octet receive buffer), "
                    "emulate completes and judge true (emulate cfg dls).uls (some reports) = accept: no clause on any of the "
                    "1+5N+2est+2svc+3rel+2dereg uplink messages, expected numbers of procedures, reported = assigned. Pieces: "
                    "the emulator READS the specified messages (Proofs/EmulatorDlLife.lean: C03+C04 round trip of the setup "
                    "request / UE CONTEXT RELEASE COMMAND skeletons, extractReport_spec = C12 through EstablishPDU's glue on the "
                    "AMF-protected NAS-PDU); C08's re-encoding identity for the three remaining protected plain messages "
                    "(Proofs/EmulatorLifeReenc.lean); the SUPI number / PSI / RAN-UE-NGAP-ID of UE j (Proofs/EmulatorLifeArgs.lean); "
                    "the population invariant and the generic loop of test mode, emulator and judge together, other UEs' records "
                    "untouched (Proofs/EmulatorLifeN.lean: Glob, Judged, forUes_inv, proc_loop; Proofs/EmulatorLifeLoops.lean: the "
                    "emulator's side of each procedure, dereg_loop, register_loop with the list main keeps). C02_accepted_one "
                    "(one UE, every count 1) and C02_accepted_n_for_downlink (reads as hypotheses) are the intermediate forms; "
                    "C02_accepted_partial (with Proofs/EmulatorLife.lean: emulate_life_run) is the form with explicit reading / "
                    "re-encoding hypotheses that they discharge. "
                    "one PDU session identity in 1..15 in NAS request, UL NAS TRANSPORT IE and NGAP response (C02_one_psi; false "
                    "before the F14 repair a0d23df). F14 (PSI = supi mod 10^4, uint8 for NAS only) and F19 (PTI 0 in PDU SESSION "
                    "RELEASE REQUEST / COMPLETE) were found by this check's reference AMF, repaired in /repo, and their replays run "
                    "first on every check (harness/corpus/convo-life). THE STATEMENT ITSELF: C02_accepted_statement_spec proves "
                    "C02_accepted_statement P E (specDl P) (specOf . abba) (WellFormed P E abba) (Props/C02Statement.lean): `dl` = the "
                    "whole downlink side as a FUNCTION of the network's configuration and choices (specDl: Spec/AmfDownlink.lean "
                    "message by message, for the identifiers the UEs of the configured IMSI range use — RAN-UE-NGAP-ID (IMSI+j) mod "
                    "10^4, PSI (IMSI+j+14) mod 15 + 1, capability 80 20 — proved equal to the emulator's), WF = a configuration as in "
                    "C02_accepted_n for some N <= 10000 with any integer counts, a conformant choice per UE, and `the specification "
                    "encoders encode the whole downlink side, every message within the 2048-octet buffer`. Non-vacuous: "
                    "wfCfg_wellFormed establishes WellFormed for the configuration of the recorded registration with every count 1 "
                    "(every field by kernel evaluation, cheapPrims) and C02_accepted_statement_witness is the statement applied to "
                    "it — accept, without running emulator or judge. What the statement does not cover: populations above 10000 "
                    "(C16's domain), a configuration without OPc (as C01_accepted_n), and an AMF that sends a PDU SESSION RESOURCE "
                    "RELEASE COMMAND (ReleasePDU does not read; the specification's AMF sends none, like the "
                    "scripted peer's default). Traffic mode needs XDP and is not run; its "
                    "branch of main is tied structurally (gen traffic + C02_traffic_is_test_mode: the calls of test mode with counts "
                    "(N, N, 0, N, N), no ueList[i] beyond the list, EstablishPDU's triple handed to the data plane in AddClient's order).")
    level_text = ("Lean theorems for all UE / repetition counts and configurations about an executable model of test mode and the "
                  "four procedures (arithmetic of the clamps, induction over the UE list, C06/C12/C13/C16 composed against the "
                  "reference AMF; the judge accepts the whole uplink script of a UE for every history: C02_script_accepted; END TO END through the emulator model with the downlink specified, N <= 10000 UEs and any counts: C02_accepted_n); model tied to the code by whole-conversation differential runs incl. EstablishPDU's return "
                  "values; the reference AMF/SMF judges every real transcript")
    level_note = ("end-to-end acceptance: proved through emulate for N <= 10000 UEs and arbitrary repetition counts with the downlink "
                  "side specified (C02_accepted_statement_spec = C02_accepted_statement instantiated; C02_accepted_n; C02_accepted_one for one UE), at judge level for every script of one UE "
                  "(C02_script_accepted); evaluated per transcript as well; hand model tied differentially")
    technique = "Lean 4 proof (arithmetic + induction + per-clause composition) + whole-conversation correspondence + executable reference AMF as oracle"

    def key(self, op, impl, model, spec):
        return convo_key(spec) if spec.startswith("refuse") else "convo"

    def judge(self, op, impl, model, spec):
        return convo_judge(self, op, impl, model, spec)

    def nontrivial(self, op, impl):
        # a PDU SESSION RESOURCE SETUP RESPONSE (successful outcome, procedure code 29) among the uplink messages
        return impl.startswith("exit=") and (",201d00" in impl)

    def extra(self, ctx):
        witness_impl_stage(ctx)
