from .check import Prop, Domain
from .props import reg
from .props_C06 import _first_diff


def _normalise(impl, model):
    """The plain codec is outside the model: when it rejects the octets it was handed ('dec:<buffer>') or accepts
    them but reproduces only part of them ('<re>!buf=<buffer>'), the implementation token still shows the buffer
    NASDecode deciphered in place; it agrees with the model when that buffer ends with the model's octets."""
    a, b = impl.split(" "), model.split(" ")
    if len(a) != len(b):
        return impl
    out = []
    for x, y in zip(a, b):
        if "@" in x and "@" in y and (x.startswith("dec:") or "!buf=" in x):
            bx, cx = x.rsplit("@", 1)
            by, cy = y.rsplit("@", 1)
            buf = bx[4:] if bx.startswith("dec:") else bx.split("!buf=", 1)[1]
            if cx == cy and by not in ("-", "err", "panic", "nil") and buf.endswith(by):
                x = y
        out.append(x)
    return " ".join(out)


@reg
class C10(Prop):
    id = "C10"
    title = "Downlink NAS messages from a conformant AMF are recovered exactly"
    lean_module = "Stgutg.Props.C10"
    extra_modules = ["Stgutg.Proofs.GenTieNas", "Stgutg.Gen.PureSelftest", "Stgutg.Gen.PureSelftestRich"]
    gen = ["tables", "pure-count", "pure-selftest", "pure-nasprot"]
    theorems = [
        # tie by translation: the NAS protection functions regenerated from security.go / packet.go / decode.go ARE the hand models
        "Stgutg.Proofs.GenTie.Nas.NASDecode_eq",
        "Stgutg.Proofs.GenTie.Nas.NASDecode_nilable_eq",
        "Stgutg.Proofs.GenTie.Nas.GetNasPdu_eq",
        "Stgutg.Proofs.GenTie.Nas.GetNasPdu_nil_msg",
        "Stgutg.Proofs.GenTie.Nas.NASDecode_nil_ue",
        "Stgutg.Props.C10.step_recovers",
        "Stgutg.Props.C10.count_estimate",
        "Stgutg.Props.C10.history_recovers",
        "Stgutg.Props.C10.history_recovers_lists",
        "Stgutg.Props.C10.new_context_resets",
        "Stgutg.Props.C10.get_nas_pdu",
        "Stgutg.Props.C10.statement_fails_before_F7_fix",
        "Stgutg.Proofs.NasProtect.cryptoPrims_ok",
    ]
    domains = [Domain("sec-dl", 2000, 100000)]
    level_text = ("Lean theorems by induction over arbitrary downlink histories of the specification's AMF (header types 0..4, "
                  "new-context restarts, up to 254 undelivered messages between deliveries, any number of SQN and 2^24 wraps, "
                  "{NIA1,NIA2}x{NEA0,NEA1,NEA2}, every stored counter word): the model of NASDecode/GetNasPdu hands exactly the plain "
                  "message to the plain decoder and its DL COUNT equals the COUNT the AMF used for that message; parametric in "
                  "AES-CTR/CMAC (CTR as keystream cipher: hypothesis, proved for the executable instance); model tied to "
                  "tglib/security.go, decode.go, counter.go by differential runs with an independent reference sender re-checked by "
                  "the Lean specification receiver; F7 found by the check, repaired in /repo, witness kept as refuted statement + corpus replay")
    rule = ("sec-dl: one case = one downlink history (<= 40 steps) through the real tglib.NASDecode / tglib.GetNasPdu on one "
            "RanUeContext. The protected messages come from a reference sender written in the harness (header types 0..4, "
            "new-context restarts, 0..254 undelivered messages between deliveries, UE starting in step at 0, 250..260, 65530.., "
            "2^24-3.., a 38-delivery history with 29 SQN wraps per algorithm pair, all {NEA0,1,2}x{NIA1,2}); the Lean "
            "specification receiver re-checks every message of the reference sender and supplies the expected plain octets and "
            "COUNT per step. A 4% stream of truncated/random/headerless inputs, absent NAS-PDU IE, nil payload, NIA0 and "
            "unsupported ids is compared with the model only. non-trivial = accepted history with at least one protected "
            "message; distinct by op line")
    trusted_base = ["TIE BY TRANSLATION of the NAS protection layer (gen pure-nasprot, harness/cmd/gen/pure*.go incl. pure_nas.go -> lean/Stgutg/Gen/PureNasProt.lean, regenerated from the source text on every run): tglib.NASEncode, tglib.NASDecode, tglib.EncodeNasPduWithSecurity, tglib.GetNasPdu, nas.NewMessage, nas.GetSecurityHeaderType, with the methods of security.Count taken from Gen/PureCount.lean. Theorems Proofs.GenTie.Nas.NASDecode_eq / NASDecode_nilable_eq (for EVERY UE context, header type and octets incl. nil: generated = Model.NasProtect.nasDecode(Nilable), state and outcome, the decoded message = the plain decoder applied to the model's octets) and GetNasPdu_eq (every IE list in which an IE with id NAS-PDU carries a NAS-PDU), GetNasPdu_nil_msg, NASDecode_nil_ue. Trusted here instead of sampling: the extended grammar of the translator (described at the top of harness/cmd/gen/pure.go): *RanUeContext as state that is returned with every outcome incl. error and panic; pointers as Option with nil guards; structs trimmed to the fields the group selects (a struct handed to a library call keeps all its plain fields, the rest is one opaque component); library calls (msg.PlainNasEncode, msg.PlainNasDecode, security.NASEncrypt, security.NASMacCalculate, reflect.DeepEqual) as fields of the record Lib, ASSUMED to be functions of the VALUES of their operands with the declared effects only (NASEncrypt: payload overwritten IN PLACE = a rebinding of the payload variable, accepted only because the translator's alias classes show that no other live variable can share its storage; PlainNasDecode: receiver replaced, octets read only; every returned slice is fresh; PlainNasEncode returns non-nil octets when it returns no error); the tie instantiates Lib with the hand model's own parameters (Prims through Model.NasAlg.nasEncrypt/nasMac; ARBITRARY plain encoder / decoder / DeepEqual; PlainNasDecode panics on no octets). NOT described by the tie, as by the hand model: what NASDecode / GetNasPdu leave in the caller's octets (they decipher in place inside the received NGAP message), messages printed, nil-ness of returned slices. x[a:b] is accepted only where the next statement forces b <= len(x) (payload[0:6]; payload[6]), see checkRich in pure_nas.go; the extended grammar and its runtime are checked against the Go compiler on every run: gen pure-selftest also translates harness/cmd/gen/pureselftest/rich.go (every new construct, with stand-in library functions transcribed to Lean) and writes the outcomes of EXECUTING the compiled functions beside the translation (Gen/PureSelftestRich.lean: 549 calls, 146 of them panics, each with the object behind the pointer parameter as it is when the call ends or panics, incl. a slice left half overwritten by a failing in-place call, as kernel-checked equalities)",
                    "crypto/aes, cipher.NewCTR, github.com/aead/cmac are parameters of the theorems (Prims); the CTR primitive is "
                    "assumed to be a keystream cipher (stated as a hypothesis, shown satisfiable); Crypto/Aes.lean is comparator only",
                    "the plain NAS codec is outside the model: the model returns the octets handed to PlainNasDecode (C08 covers the codec)",
                    "the reference sender of the harness uses security.NASEncrypt/NASMacCalculate (tied to the standard by C07); "
                    "each of its messages is accepted by the Lean specification receiver before it counts"]
    assumptions = ["between two deliveries the sender's NAS COUNT advances by fewer than 256 (at most 254 undelivered messages): "
                   "an 8-bit sequence number cannot bridge more",
                   "ue and payload are non-nil; a MAC mismatch is only printed by NASDecode, not refused (outside the statement)"]
    partial_note = ("ciphers and MAC primitives are parameters; the plain codec is outside the model; MAC verification failure is "
                    "not refused by the code (noted, outside the property); the statement about the code before commit F7 is "
                    "kept as a refuted Prop (statement_fails_before_F7_fix)")

    def key(self, op, impl, model, spec):
        t = op.split(" ")
        if t[0] != "dlhist":
            return t[0]
        i, st = _first_diff(op, impl, spec)
        f = st.split(",")
        if len(f) == 5:
            return "dlhist:sht%s:nea%s" % (f[1], t[3])
        return "dlhist:final-counters"

    def judge(self, op, impl, model, spec):
        if impl == "bad-op" or model == "bad-op":
            return ("corr", "harness/driver could not parse the op")
        if spec not in ("n/a", "undef") and impl != spec:
            return ("viol", self.key(op, impl, model, spec), "the UE does not recover the message / COUNT the conformant sender used")
        if _normalise(impl, model) != model:
            return ("corr", "implementation differs from the model")
        return None

    def nontrivial(self, op, impl):
        if not impl.startswith("ok"):
            return False
        return any(s.split(",")[1:2] not in (["0"], []) and s.split(",")[4:5] != ["x"] for s in op.split(" ")[7:])
