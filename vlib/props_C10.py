from .check import Prop, Domain
from .props import reg
from .props_C06 import _first_diff


def _normalise(impl, model):
    """The plain codec is outside the model: when it rejects the octets it was handed ('dec:<buffer>') or accepts
    them but reproduces only part of them ('<re>!buf=<buffer>'), the implementation token still shows the buffer
    NASDecode deciphered in place; it agrees with the model when that buffer ends with the model's octets."""
    a, b = impl.split(" "), model.split(" ")
    if len(a) != len(b):
        return impl
    out = []
    for x, y in zip(a, b):
        if "@" in x and "@" in y and (x.startswith("dec:") or "!buf=" in x):
            bx, cx = x.rsplit("@", 1)
            by, cy = y.rsplit("@", 1)
            buf = bx[4:] if bx.startswith("dec:") else bx.split("!buf=", 1)[1]
            if cx == cy and by not in ("-", "err", "panic", "nil") and buf.endswith(by):
                x = y
        out.append(x)
    return " ".join(out)


@reg
class C10(Prop):
    id = "C10"
    title = "Downlink NAS messages from a conformant AMF are recovered exactly"
    lean_module = "Stgutg.Props.C10"
    extra_modules = ["Stgutg.Props.Glue.tglib_NASDecode", "Stgutg.Props.Glue.tglib_GetNasPdu"]
    gen = ["tables", "procs"]
    theorems = ["Stgutg.Props.GluePinned." + t for t in [
        # the glue functions this property depends on are still the text the models were written from (gen procs)
        "tglib_NASDecode", "tglib_GetNasPdu"]] + [
        "Stgutg.Props.C10.step_recovers",
        "Stgutg.Props.C10.count_estimate",
        "Stgutg.Props.C10.history_recovers",
        "Stgutg.Props.C10.history_recovers_lists",
        "Stgutg.Props.C10.new_context_resets",
        "Stgutg.Props.C10.get_nas_pdu",
        "Stgutg.Props.C10.statement_fails_before_F7_fix",
        "Stgutg.Proofs.NasProtect.cryptoPrims_ok",
    ]
    domains = [Domain("sec-dl", 2000, 100000)]
    level_text = ("Lean theorems by induction over arbitrary downlink histories of the specification's AMF (header types 0..4, "
                  "new-context restarts, up to 254 undelivered messages between deliveries, any number of SQN and 2^24 wraps, "
                  "{NIA1,NIA2}x{NEA0,NEA1,NEA2}, every stored counter word): the model of NASDecode/GetNasPdu hands exactly the plain "
                  "message to the plain decoder and its DL COUNT equals the COUNT the AMF used for that message; parametric in "
                  "AES-CTR/CMAC (CTR as keystream cipher: hypothesis, proved for the executable instance); model tied to "
                  "tglib/security.go, decode.go, counter.go by differential runs with an independent reference sender re-checked by "
                  "the Lean specification receiver; F7 found by the check, repaired in /repo, witness kept as refuted statement + corpus replay")
    rule = ("sec-dl: one case = one downlink history (<= 40 steps) through the real tglib.NASDecode / tglib.GetNasPdu on one "
            "RanUeContext. The protected messages come from a reference sender written in the harness (header types 0..4, "
            "new-context restarts, 0..254 undelivered messages between deliveries, UE starting in step at 0, 250..260, 65530.., "
            "2^24-3.., a 38-delivery history with 29 SQN wraps per algorithm pair, all {NEA0,1,2}x{NIA1,2}); the Lean "
            "specification receiver re-checks every message of the reference sender and supplies the expected plain octets and "
            "COUNT per step. A 4% stream of truncated/random/headerless inputs, absent NAS-PDU IE, nil payload, NIA0 and "
            "unsupported ids is compared with the model only. non-trivial = accepted history with at least one protected "
            "message; distinct by op line")
    trusted_base = ["crypto/aes, cipher.NewCTR, github.com/aead/cmac are parameters of the theorems (Prims); the CTR primitive is "
                    "assumed to be a keystream cipher (stated as a hypothesis, shown satisfiable); Crypto/Aes.lean is comparator only",
                    "the plain NAS codec is outside the model: the model returns the octets handed to PlainNasDecode (C08 covers the codec)",
                    "the reference sender of the harness uses security.NASEncrypt/NASMacCalculate (tied to the standard by C07); "
                    "each of its messages is accepted by the Lean specification receiver before it counts"]
    assumptions = ["between two deliveries the sender's NAS COUNT advances by fewer than 256 (at most 254 undelivered messages): "
                   "an 8-bit sequence number cannot bridge more",
                   "ue and payload are non-nil; a MAC mismatch is only printed by NASDecode, not refused (outside the statement)"]
    partial_note = ("ciphers and MAC primitives are parameters; the plain codec is outside the model; MAC verification failure is "
                    "not refused by the code (noted, outside the property); the statement about the code before commit F7 is "
                    "kept as a refuted Prop (statement_fails_before_F7_fix)")

    def key(self, op, impl, model, spec):
        t = op.split(" ")
        if t[0] != "dlhist":
            return t[0]
        i, st = _first_diff(op, impl, spec)
        f = st.split(",")
        if len(f) == 5:
            return "dlhist:sht%s:nea%s" % (f[1], t[3])
        return "dlhist:final-counters"

    def judge(self, op, impl, model, spec):
        if impl == "bad-op" or model == "bad-op":
            return ("corr", "harness/driver could not parse the op")
        if spec not in ("n/a", "undef") and impl != spec:
            return ("viol", self.key(op, impl, model, spec), "the UE does not recover the message / COUNT the conformant sender used")
        if _normalise(impl, model) != model:
            return ("corr", "implementation differs from the model")
        return None

    def nontrivial(self, op, impl):
        if not impl.startswith("ok"):
            return False
        return any(s.split(",")[1:2] not in (["0"], []) and s.split(",")[4:5] != ["x"] for s in op.split(" ")[7:])
