"""Shared pipeline for every property check (see DESIGN.md 2.4).

  regenerate Gen/*.lean from /repo  ->  lake build the property's theorems  ->  audit axioms
  ->  build the Go harness from /repo's working tree  ->  run correspondence domains
  ->  judge (model == impl ? spec == impl ?)  ->  known findings  ->  evidence / VIOLATION
"""
import fcntl, hashlib, json, os, re, subprocess, sys, time, shutil

VERIF = os.path.dirname(os.path.dirname(os.path.abspath(__file__)))
REPO = os.environ.get("VERIF_REPO", "/repo")
LEAN = os.path.join(VERIF, "lean")
HARNESS = os.path.join(VERIF, "harness")
BUILD = os.path.join(VERIF, ".build")
BIN = os.path.join(BUILD, "bin")
DRIVER = os.path.join(LEAN, ".lake", "build", "bin", "driver")
ALLOWED_AXIOMS = {"propext", "Classical.choice", "Quot.sound"}

GOENV = dict(os.environ, GOFLAGS="-mod=mod", GOPROXY="off", GOSUMDB="off", GOTOOLCHAIN="local",
             GOWORK="off", CGO_ENABLED=os.environ.get("CGO_ENABLED", "0"))

TRUSTED_BASE_COMMON = [
    "Lean 4.33.0 kernel; axioms allowed: propext, Classical.choice, Quot.sound (audited with #print axioms on every run)",
    "translators in /verif/harness/cmd/gen (tables/constants regenerated from /repo on every run)",
    "correspondence harness /verif/harness/cmd/corr + Lean driver (parsers, canonical printers)",
    "hand models in lean/Stgutg/Model are tied to the Go code by differential execution only",
    "specifications in lean/Stgutg/Spec are transcriptions of the 3GPP/ITU-T/NIST documents, anchored by published test vectors",
]


def log(*a):
    print(*a, file=sys.stderr, flush=True)


class Lock:
    """one build lock shared by all checks (Gen files, .lake and Go build outputs are shared)"""
    def __init__(self, name="build"):
        os.makedirs(BUILD, exist_ok=True)
        self.path = os.path.join(BUILD, name + ".lock")
    def __enter__(self):
        self.f = open(self.path, "w")
        fcntl.flock(self.f, fcntl.LOCK_EX)
        return self
    def __exit__(self, *a):
        fcntl.flock(self.f, fcntl.LOCK_UN)
        self.f.close()


def run(cmd, cwd=None, env=None, timeout=None, stdin=None):
    p = subprocess.run(cmd, cwd=cwd, env=env, timeout=timeout, input=stdin,
                       stdout=subprocess.PIPE, stderr=subprocess.PIPE, text=True)
    return p.returncode, p.stdout, p.stderr


# ---------------------------------------------------------------- Go side

def ensure_gosum():
    """harness go.sum = union of the repo's sums (offline, no network lookups)"""
    lines = set()
    for rel in ["go.sum", "go.work.sum", "src/free5gclib/go.sum", "src/tglib/go.sum", "src/stgutg/go.sum"]:
        p = os.path.join(REPO, rel)
        if os.path.exists(p):
            lines.update(l for l in open(p).read().splitlines() if l.strip())
    extra = os.path.join(HARNESS, "go.sum.extra")
    if os.path.exists(extra):
        lines.update(l for l in open(extra).read().splitlines() if l.strip())
    content = "\n".join(sorted(lines)) + "\n"
    p = os.path.join(HARNESS, "go.sum")
    if not os.path.exists(p) or open(p).read() != content:
        open(p, "w").write(content)


def go_build(pkg, out, tags=None, race=False, cover=False):
    """build ./cmd/<pkg> of the harness against /repo's working tree; returns (ok, stderr)"""
    os.makedirs(BIN, exist_ok=True)
    ensure_gosum()
    tmp = out + ".tmp.%d" % os.getpid()
    cmd = ["go", "build", "-o", tmp]
    env = dict(GOENV)
    if cover:
        # the main package must be among the covered packages or no counter file is written at exit
        cmd += ["-cover", "-coverpkg=./cmd/%s,%s" % (pkg, COVERPKG)]
    if tags:
        cmd += ["-tags", tags]
    if race:
        cmd += ["-race"]
        env["CGO_ENABLED"] = "1"
    cmd += ["./cmd/" + pkg]
    rc, so, se = run(cmd, cwd=HARNESS, env=env, timeout=900)
    if rc != 0:
        if os.path.exists(tmp):
            os.remove(tmp)
        return False, se
    os.replace(tmp, out)
    return True, se


def regenerate(translators):
    """run the translators; returns (ok, message)"""
    if not translators:
        return True, ""
    gen = os.path.join(BIN, "gen")
    ok, se = go_build("gen", gen)
    if not ok:
        return False, "go build cmd/gen failed:\n" + se
    env = dict(GOENV, VERIF_REPO=REPO, VERIF_GEN_OUT=os.path.join(LEAN, "Stgutg", "Gen"))
    rc, so, se = run([gen] + list(translators), cwd=BUILD, env=env, timeout=900)
    if rc != 0:
        return False, se.strip() or so.strip()
    return True, ""


# ---------------------------------------------------------------- Lean side

def lake_build(targets):
    rc, so, se = run(["lake", "build"] + list(targets), cwd=LEAN, timeout=3600)
    return rc == 0, so + se


def audit(module, theorems):
    """#print axioms for each theorem; returns {theorem: ('ok'|'missing'|'axioms', detail)}"""
    os.makedirs(os.path.join(BUILD, "audit"), exist_ok=True)
    modules = [module] if isinstance(module, str) else list(module)
    path = os.path.join(BUILD, "audit", modules[0].replace(".", "_") + ".lean")
    with open(path, "w") as f:
        for m in modules:
            f.write("import %s\n" % m)
        for t in theorems:
            f.write("#print axioms %s\n" % t)
    rc, so, se = run(["lake", "env", "lean", path], cwd=LEAN, timeout=1800)
    text = so + se
    res = {}
    for t in theorems:
        m = re.search(r"'%s' depends on axioms: \[([^\]]*)\]" % re.escape(t), text, re.S)
        if m:
            ax = {a.strip() for a in m.group(1).replace("\n", " ").split(",") if a.strip()}
            bad = ax - ALLOWED_AXIOMS
            res[t] = ("ok", sorted(ax)) if not bad else ("axioms", sorted(bad))
        elif re.search(r"'%s' does not depend on any axioms" % re.escape(t), text):
            res[t] = ("ok", [])
        else:
            res[t] = ("missing", text[-400:])
    return res


def leanchecker(module):
    rc, so, se = run(["lake", "env", "leanchecker", module], cwd=LEAN, timeout=3600)
    return rc == 0, (so + se)[-2000:]


# ---------------------------------------------------------------- correspondence

STATS = {}


def run_corr(domain, n, seed, tier, corr_bin=None, extra_env=None, stdin_ops=None, timeout=7200):
    """returns list of (opline, impl_result). domain 'run' executes stdin_ops."""
    corr_bin = corr_bin or os.path.join(BIN, "corr")
    env = dict(os.environ)
    if extra_env:
        env.update(extra_env)
    if COVERDIR:
        # coverage mode: every run of a harness binary goes to the instrumented build and adds to one counter directory
        if not corr_bin.endswith("-cover") and os.path.exists(corr_bin + "-cover"):
            corr_bin += "-cover"
        env.update(GOCOVERDIR=COVERDIR, VERIF_COVER="1")
    cmd = [corr_bin, domain, "-n", str(n), "-seed", str(seed), "-tier", tier]
    p = subprocess.run(cmd, cwd=BUILD, env=env, input=stdin_ops, stdout=subprocess.PIPE,
                       stderr=subprocess.PIPE, text=True, timeout=timeout)
    out = []
    STATS.clear()
    for line in p.stdout.splitlines():
        if line.startswith("#stat "):
            parts = line.split()
            # "#stat name value [key value]..."
            STATS[parts[1]] = dict(value=int(parts[2]), **{parts[i]: int(parts[i + 1]) for i in range(3, len(parts) - 1, 2)})
            continue
        if "\t" not in line:
            continue
        op, res = line.split("\t", 1)
        out.append((op, res))
    if p.returncode != 0 and out and out[-1][1] == "":
        # the process ended inside this op (the line is written before the op runs)
        out[-1] = (out[-1][0], "exit:%d" % p.returncode)
    return p.returncode, out, p.stderr


def run_driver(oplines, timeout=7200):
    """returns list of (model, spec) per op line"""
    if not oplines:
        return []
    # every op line is self-contained (the handlers are pure functions of the line): run the lines in parallel chunks
    nproc = min(int(os.environ.get("VERIF_DRIVER_PAR", "8")), max(1, len(oplines) // 100))
    if nproc > 1:
        from concurrent.futures import ThreadPoolExecutor
        size = (len(oplines) + nproc - 1) // nproc
        chunks = [oplines[i:i + size] for i in range(0, len(oplines), size)]
        with ThreadPoolExecutor(max_workers=nproc) as ex:
            parts = list(ex.map(lambda c: _run_driver_chunk(c, timeout), chunks))
        return [r for part in parts for r in part]
    return _run_driver_chunk(oplines, timeout)


def _run_driver_chunk(oplines, timeout):
    p = subprocess.run([DRIVER], input="\n".join(oplines) + "\n", stdout=subprocess.PIPE,
                       stderr=subprocess.PIPE, text=True, timeout=timeout)
    res = []
    for line in p.stdout.splitlines():
        parts = line.split("\t")
        if len(parts) < 2:
            parts = [line, "n/a"]
        res.append((parts[0], parts[1]))
    if len(res) != len(oplines):
        raise RuntimeError("driver produced %d lines for %d ops (rc=%s): %s" %
                           (len(res), len(oplines), p.returncode, p.stderr[-500:]))
    return res


# ---------------------------------------------------------------- coverage of the anchored code (opt-in: VERIF_COVER=1 / --cover)

COVER = os.environ.get("VERIF_COVER", "") not in ("", "0")
COVERPKG = "free5gclib/...,tglib/...,stgutg/..."
COVERDIR = None


def cover_begin(prop_id):
    """a fresh counter directory for this run; run_corr then sets GOCOVERDIR for every harness process (children inherit it)"""
    global COVERDIR
    COVERDIR = os.path.join(BUILD, "cover", "%s-%d" % (prop_id, os.getpid()))
    shutil.rmtree(COVERDIR, ignore_errors=True)
    os.makedirs(COVERDIR)
    return COVERDIR


def anchored_files(prop_id):
    """anchors.files of the property (properties.jsonl), as the import-path file names of the coverage profile:
    src/<module>/x.go -> <module>/x.go, a top-level x.go -> stgutgmain/x.go; globs stay globs; non-Go files are dropped"""
    out = []
    for line in open(os.path.join(VERIF, "properties.jsonl")):
        r = json.loads(line)
        if r.get("id") != prop_id:
            continue
        for f in (r.get("anchors") or {}).get("files", []):
            if not f.endswith(".go"):
                continue
            out.append(f[4:] if f.startswith("src/") else "stgutgmain/" + f)
    return out


def _profile_blocks(path):
    """textfmt profile -> {file: {(l0, c0, l1, c1): [nstmt, count]}} (the same block of several processes is merged)"""
    files = {}
    for line in open(path):
        m = re.match(r"(.+):(\d+)\.(\d+),(\d+)\.(\d+) (\d+) (\d+)$", line.strip())
        if not m:
            continue
        b = files.setdefault(m.group(1), {})
        k = tuple(int(m.group(i)) for i in (2, 3, 4, 5))
        e = b.setdefault(k, [int(m.group(6)), 0])
        e[1] += int(m.group(7))
    return files


def _src_path(f):
    """import-path file name of the profile -> source file under /repo"""
    if f.startswith("stgutgmain/"):
        return os.path.join(REPO, f[len("stgutgmain/"):])
    return os.path.join(REPO, "src", f)


_FUNC_RE = re.compile(r"^func\s+(?:\(\s*\w*\s*\*?\s*([\w.]+)[^)]*\)\s*)?(\w+)")


def _func_starts(files):
    """{file: [(line, name)]}: the top-level `func` declarations of the (gofmt-ed) sources, methods as Recv.Name.
    (`go tool cover -func` would do, but it gives up at the first package it cannot resolve from the harness module —
    stgutgmain — and leaves the rest of the profile without function names.)"""
    starts, missing = {}, []
    for f in files:
        try:
            lines = open(_src_path(f), errors="replace").read().split("\n")
        except OSError:
            missing.append(f)
            continue
        out = []
        for n, line in enumerate(lines, 1):
            m = _FUNC_RE.match(line)
            if m:
                out.append((n, (m.group(1) + "." if m.group(1) else "") + m.group(2)))
        starts[f] = out
    return starts, ("no source for " + ", ".join(missing[:5]) if missing else "")


def cover_report(prop_id, max_blocks=40):
    """per function of every anchored file: statement coverage reached by the correspondence runs of this check"""
    import bisect, fnmatch
    if not COVERDIR:
        return None
    profile = os.path.join(COVERDIR, "profile.txt")
    rc, so, se = run(["go", "tool", "covdata", "textfmt", "-i=" + COVERDIR, "-o=" + profile], cwd=HARNESS, env=GOENV, timeout=600)
    if rc != 0 or not os.path.exists(profile):
        return dict(error="go tool covdata failed: " + (se or so)[-400:])
    blocks = _profile_blocks(profile)
    pats = anchored_files(prop_id)
    starts, err = _func_starts(sorted(f for f in blocks if any(fnmatch.fnmatchcase(f, p) for p in pats)))
    funcs, uncovered, absent = [], [], []
    for pat in pats:
        hit = sorted(f for f in blocks if fnmatch.fnmatchcase(f, pat))
        if not hit:
            absent.append(pat)      # no statement of this file is linked into any harness binary of the property (or it has none)
        for f in hit:
            st = starts.get(f, [])
            lines = [x[0] for x in st]
            per = {}
            for (l0, c0, l1, c1), (ns, cnt) in sorted(blocks[f].items()):
                i = bisect.bisect_right(lines, l0) - 1
                name = st[i][1] if i >= 0 else "(package level)"
                line = st[i][0] if i >= 0 else 0
                p = per.setdefault((line, name), [0, 0])
                p[0] += ns
                if cnt:
                    p[1] += ns
                elif ns:
                    uncovered.append(dict(file=f, func=name, range="%d.%d-%d.%d" % (l0, c0, l1, c1), statements=ns))
            for (line, name), (tot, cov) in sorted(per.items()):
                funcs.append(dict(file=f, func=name, line=line, statements=tot, covered=cov,
                                  percent=round(100.0 * cov / tot, 1) if tot else 100.0))
    tot = sum(x["statements"] for x in funcs)
    cov = sum(x["covered"] for x in funcs)
    rep = dict(anchored_functions=funcs, uncovered_blocks=uncovered[:max_blocks], uncovered_blocks_total=len(uncovered),
               anchored_statements=tot, anchored_statements_covered=cov,
               anchored_percent=round(100.0 * cov / tot, 1) if tot else None,
               functions_never_entered=["%s:%s" % (x["file"], x["func"]) for x in funcs if x["statements"] and not x["covered"]],
               files_not_in_profile=absent, profile=profile)
    if err:
        rep["error"] = err[-300:]
    return rep


def cover_print(prop_id, rep):
    if not rep:
        return
    if rep.get("error"):
        log("[%s] coverage: %s" % (prop_id, rep["error"]))
    if "anchored_functions" not in rep:
        return
    log("[%s] coverage of the anchored files: %s/%s statements (%s %%); profile %s"
        % (prop_id, rep["anchored_statements_covered"], rep["anchored_statements"], rep["anchored_percent"], rep["profile"]))
    by_file = {}
    for x in rep["anchored_functions"]:
        by_file.setdefault(x["file"], []).append(x)
    full = 0
    for f, xs in by_file.items():
        tot, cov = sum(x["statements"] for x in xs), sum(x["covered"] for x in xs)
        part = [x for x in xs if x["covered"] < x["statements"]]
        if not part and len(by_file) > 12:
            full += 1       # long file lists (ngapType/*.go, nasType/*.go): files that are covered completely are only counted
            continue
        log("  %-58s %5d/%-5d %5.1f %%  functions below 100 %%: %d of %d"
            % (f, cov, tot, 100.0 * cov / tot if tot else 100.0, len(part), len(xs)))
        for x in part[:12]:
            log("      %-50s %4d/%-4d %5.1f %%" % (x["func"], x["covered"], x["statements"], x["percent"]))
        if len(part) > 12:
            log("      ... %d more" % (len(part) - 12))
    if full:
        log("  (%d more anchored files at 100 %%)" % full)
    for p in rep["files_not_in_profile"]:
        log("  %-58s not in the profile (no statements, or not linked into the harness)" % p)


# ---------------------------------------------------------------- known findings

def load_known():
    """KNOWN_FINDINGS.txt lines:
         known: property=C09 key=<key> <what fails>
         fixed: property=C07 <commit> key=<key> <what failed>
    """
    known, fixed = [], []
    p = os.path.join(VERIF, "KNOWN_FINDINGS.txt")
    if os.path.exists(p):
        for line in open(p):
            line = line.strip()
            if not line or line.startswith("#"):
                continue
            m = re.match(r"known:\s+property=(\S+)\s+key=(\S+)\s+(.*)", line)
            if m:
                known.append(dict(property=m.group(1), key=m.group(2), text=m.group(3)))
                continue
            m = re.match(r"fixed:\s+property=(\S+)\s+(\S+)\s+key=(\S+)\s+(.*)", line)
            if m:
                fixed.append(dict(property=m.group(1), commit=m.group(2), key=m.group(3), text=m.group(4)))
    return known, fixed


def write_json(path, obj):
    os.makedirs(os.path.dirname(path), exist_ok=True)
    tmp = path + ".tmp"
    with open(tmp, "w") as f:
        json.dump(obj, f, indent=1, sort_keys=False)
        f.write("\n")
    os.replace(tmp, path)


# ---------------------------------------------------------------- source scan

FORBIDDEN = [r"\bsorry\b", r"\badmit\b", r"^\s*axiom\s", r"\bnative_decide\b", r"\bbv_decide\b", r"implemented_by",
             r"\bunsafe\s", r"maxHeartbeats\s+0\b"]


def import_closure(modules):
    """files of the project that the given modules import, transitively (from the `import` lines)"""
    seen, todo, files = set(), list(modules), []
    while todo:
        m = todo.pop()
        if m in seen or not (m.startswith("Stgutg") or m.startswith("Driver")):
            continue
        seen.add(m)
        path = os.path.join(LEAN, *m.split(".")) + ".lean"
        if not os.path.exists(path):
            continue
        files.append(path)
        for line in open(path, encoding="utf-8", errors="replace"):
            mm = re.match(r"\s*import\s+([\w.]+)", line)
            if mm:
                todo.append(mm.group(1))
    return files


def scan_sources(modules):
    """forbidden constructs in the Lean sources the property's modules depend on (comments stripped);
    returns a list of 'file:line: text'"""
    hits = []
    pats = [re.compile(p) for p in FORBIDDEN]
    for path in import_closure(modules):
        if True:
            depth = 0
            for n, line in enumerate(open(path, encoding="utf-8", errors="replace"), 1):
                text = ""
                i = 0
                while i < len(line):
                    if line.startswith("/-", i):
                        depth += 1
                        i += 2
                    elif line.startswith("-/", i) and depth > 0:
                        depth -= 1
                        i += 2
                    elif depth == 0 and line.startswith("--", i):
                        break
                    else:
                        if depth == 0:
                            text += line[i]
                        i += 1
                # string literals may mention the words
                text = re.sub(r'"[^"]*"', '""', text)
                for p in pats:
                    if p.search(text):
                        hits.append("%s:%d: %s" % (os.path.relpath(path, LEAN), n, line.strip()[:120]))
                        break
    return hits
