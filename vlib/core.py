"""Shared pipeline for every property check (see DESIGN.md 2.4).

  regenerate Gen/*.lean from /repo  ->  lake build the property's theorems  ->  audit axioms
  ->  build the Go harness from /repo's working tree  ->  run correspondence domains
  ->  judge (model == impl ? spec == impl ?)  ->  known findings  ->  evidence / VIOLATION
"""
import fcntl, hashlib, json, os, re, subprocess, sys, time, shutil

VERIF = os.path.dirname(os.path.dirname(os.path.abspath(__file__)))
REPO = os.environ.get("VERIF_REPO", "/repo")
LEAN = os.path.join(VERIF, "lean")
HARNESS = os.path.join(VERIF, "harness")
BUILD = os.path.join(VERIF, ".build")
BIN = os.path.join(BUILD, "bin")
DRIVER = os.path.join(LEAN, ".lake", "build", "bin", "driver")
ALLOWED_AXIOMS = {"propext", "Classical.choice", "Quot.sound"}

GOENV = dict(os.environ, GOFLAGS="-mod=mod", GOPROXY="off", GOSUMDB="off", GOTOOLCHAIN="local",
             GOWORK="off", CGO_ENABLED=os.environ.get("CGO_ENABLED", "0"))

TRUSTED_BASE_COMMON = [
    "Lean 4.33.0 kernel; axioms allowed: propext, Classical.choice, Quot.sound (audited with #print axioms on every run)",
    "translators in /verif/harness/cmd/gen (tables/constants regenerated from /repo on every run)",
    "correspondence harness /verif/harness/cmd/corr + Lean driver (parsers, canonical printers)",
    "hand models in lean/Stgutg/Model are tied to the Go code by differential execution only",
    "specifications in lean/Stgutg/Spec are transcriptions of the 3GPP/ITU-T/NIST documents, anchored by published test vectors",
]


def log(*a):
    print(*a, file=sys.stderr, flush=True)


class Lock:
    """one build lock shared by all checks (Gen files, .lake and Go build outputs are shared)"""
    def __init__(self, name="build"):
        os.makedirs(BUILD, exist_ok=True)
        self.path = os.path.join(BUILD, name + ".lock")
    def __enter__(self):
        self.f = open(self.path, "w")
        fcntl.flock(self.f, fcntl.LOCK_EX)
        return self
    def __exit__(self, *a):
        fcntl.flock(self.f, fcntl.LOCK_UN)
        self.f.close()


def run(cmd, cwd=None, env=None, timeout=None, stdin=None):
    p = subprocess.run(cmd, cwd=cwd, env=env, timeout=timeout, input=stdin,
                       stdout=subprocess.PIPE, stderr=subprocess.PIPE, text=True)
    return p.returncode, p.stdout, p.stderr


# ---------------------------------------------------------------- Go side

def ensure_gosum():
    """harness go.sum = union of the repo's sums (offline, no network lookups)"""
    lines = set()
    for rel in ["go.sum", "go.work.sum", "src/free5gclib/go.sum", "src/tglib/go.sum", "src/stgutg/go.sum"]:
        p = os.path.join(REPO, rel)
        if os.path.exists(p):
            lines.update(l for l in open(p).read().splitlines() if l.strip())
    extra = os.path.join(HARNESS, "go.sum.extra")
    if os.path.exists(extra):
        lines.update(l for l in open(extra).read().splitlines() if l.strip())
    content = "\n".join(sorted(lines)) + "\n"
    p = os.path.join(HARNESS, "go.sum")
    if not os.path.exists(p) or open(p).read() != content:
        open(p, "w").write(content)


def go_build(pkg, out, tags=None, race=False):
    """build ./cmd/<pkg> of the harness against /repo's working tree; returns (ok, stderr)"""
    os.makedirs(BIN, exist_ok=True)
    ensure_gosum()
    tmp = out + ".tmp.%d" % os.getpid()
    cmd = ["go", "build", "-o", tmp]
    env = dict(GOENV)
    if tags:
        cmd += ["-tags", tags]
    if race:
        cmd += ["-race"]
        env["CGO_ENABLED"] = "1"
    cmd += ["./cmd/" + pkg]
    rc, so, se = run(cmd, cwd=HARNESS, env=env, timeout=900)
    if rc != 0:
        if os.path.exists(tmp):
            os.remove(tmp)
        return False, se
    os.replace(tmp, out)
    return True, se


def regenerate(translators):
    """run the translators; returns (ok, message)"""
    if not translators:
        return True, ""
    gen = os.path.join(BIN, "gen")
    ok, se = go_build("gen", gen)
    if not ok:
        return False, "go build cmd/gen failed:\n" + se
    env = dict(GOENV, VERIF_REPO=REPO, VERIF_GEN_OUT=os.path.join(LEAN, "Stgutg", "Gen"))
    rc, so, se = run([gen] + list(translators), cwd=BUILD, env=env, timeout=900)
    if rc != 0:
        return False, se.strip() or so.strip()
    return True, ""


# ---------------------------------------------------------------- Lean side

def lake_build(targets):
    rc, so, se = run(["lake", "build"] + list(targets), cwd=LEAN, timeout=3600)
    return rc == 0, so + se


def audit(module, theorems):
    """#print axioms for each theorem; returns {theorem: ('ok'|'missing'|'axioms', detail)}"""
    os.makedirs(os.path.join(BUILD, "audit"), exist_ok=True)
    modules = [module] if isinstance(module, str) else list(module)
    path = os.path.join(BUILD, "audit", modules[0].replace(".", "_") + ".lean")
    with open(path, "w") as f:
        for m in modules:
            f.write("import %s\n" % m)
        for t in theorems:
            f.write("#print axioms %s\n" % t)
    rc, so, se = run(["lake", "env", "lean", path], cwd=LEAN, timeout=1800)
    text = so + se
    res = {}
    for t in theorems:
        m = re.search(r"'%s' depends on axioms: \[([^\]]*)\]" % re.escape(t), text, re.S)
        if m:
            ax = {a.strip() for a in m.group(1).replace("\n", " ").split(",") if a.strip()}
            bad = ax - ALLOWED_AXIOMS
            res[t] = ("ok", sorted(ax)) if not bad else ("axioms", sorted(bad))
        elif re.search(r"'%s' does not depend on any axioms" % re.escape(t), text):
            res[t] = ("ok", [])
        else:
            res[t] = ("missing", text[-400:])
    return res


def leanchecker(module):
    rc, so, se = run(["lake", "env", "leanchecker", module], cwd=LEAN, timeout=3600)
    return rc == 0, (so + se)[-2000:]


# ---------------------------------------------------------------- correspondence

STATS = {}


def run_corr(domain, n, seed, tier, corr_bin=None, extra_env=None, stdin_ops=None, timeout=7200):
    """returns list of (opline, impl_result). domain 'run' executes stdin_ops."""
    corr_bin = corr_bin or os.path.join(BIN, "corr")
    env = dict(os.environ)
    if extra_env:
        env.update(extra_env)
    cmd = [corr_bin, domain, "-n", str(n), "-seed", str(seed), "-tier", tier]
    p = subprocess.run(cmd, cwd=BUILD, env=env, input=stdin_ops, stdout=subprocess.PIPE,
                       stderr=subprocess.PIPE, text=True, timeout=timeout)
    out = []
    STATS.clear()
    for line in p.stdout.splitlines():
        if line.startswith("#stat "):
            parts = line.split()
            # "#stat name value [key value]..."
            STATS[parts[1]] = dict(value=int(parts[2]), **{parts[i]: int(parts[i + 1]) for i in range(3, len(parts) - 1, 2)})
            continue
        if "\t" not in line:
            continue
        op, res = line.split("\t", 1)
        out.append((op, res))
    return p.returncode, out, p.stderr


def run_driver(oplines, timeout=7200):
    """returns list of (model, spec) per op line"""
    if not oplines:
        return []
    # every op line is self-contained (the handlers are pure functions of the line): run the lines in parallel chunks
    nproc = min(int(os.environ.get("VERIF_DRIVER_PAR", "8")), max(1, len(oplines) // 100))
    if nproc > 1:
        from concurrent.futures import ThreadPoolExecutor
        size = (len(oplines) + nproc - 1) // nproc
        chunks = [oplines[i:i + size] for i in range(0, len(oplines), size)]
        with ThreadPoolExecutor(max_workers=nproc) as ex:
            parts = list(ex.map(lambda c: _run_driver_chunk(c, timeout), chunks))
        return [r for part in parts for r in part]
    return _run_driver_chunk(oplines, timeout)


def _run_driver_chunk(oplines, timeout):
    p = subprocess.run([DRIVER], input="\n".join(oplines) + "\n", stdout=subprocess.PIPE,
                       stderr=subprocess.PIPE, text=True, timeout=timeout)
    res = []
    for line in p.stdout.splitlines():
        parts = line.split("\t")
        if len(parts) < 2:
            parts = [line, "n/a"]
        res.append((parts[0], parts[1]))
    if len(res) != len(oplines):
        raise RuntimeError("driver produced %d lines for %d ops (rc=%s): %s" %
                           (len(res), len(oplines), p.returncode, p.stderr[-500:]))
    return res


# ---------------------------------------------------------------- known findings

def load_known():
    """KNOWN_FINDINGS.txt lines:
         known: property=C09 key=<key> <what fails>
         fixed: property=C07 <commit> key=<key> <what failed>
    """
    known, fixed = [], []
    p = os.path.join(VERIF, "KNOWN_FINDINGS.txt")
    if os.path.exists(p):
        for line in open(p):
            line = line.strip()
            if not line or line.startswith("#"):
                continue
            m = re.match(r"known:\s+property=(\S+)\s+key=(\S+)\s+(.*)", line)
            if m:
                known.append(dict(property=m.group(1), key=m.group(2), text=m.group(3)))
                continue
            m = re.match(r"fixed:\s+property=(\S+)\s+(\S+)\s+key=(\S+)\s+(.*)", line)
            if m:
                fixed.append(dict(property=m.group(1), commit=m.group(2), key=m.group(3), text=m.group(4)))
    return known, fixed


def write_json(path, obj):
    os.makedirs(os.path.dirname(path), exist_ok=True)
    tmp = path + ".tmp"
    with open(tmp, "w") as f:
        json.dump(obj, f, indent=1, sort_keys=False)
        f.write("\n")
    os.replace(tmp, path)
