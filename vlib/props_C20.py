import os, tempfile
from .check import Prop, Domain
from .props import reg
from . import core


@reg
class C20(Prop):
    id = "C20"
    title = "Codecs and security functions are safe to use concurrently for different UEs"
    lean_module = "Stgutg.Props.C20"
    gen = ["footprint"]
    theorems = [
        "Stgutg.Props.C20.noninterference",
        "Stgutg.Props.C20.thread_alone",
        "Stgutg.Props.C20.sequential_is_schedule",
        "Stgutg.Props.C20.C20_disjoint",
        "Stgutg.Props.C20.C20_table_nontrivial",
        "Stgutg.Props.C20.entry_points_noninterference",
        "Stgutg.Props.C20.builders_partial",
        "Stgutg.Props.C20.ngsetup_only_writer",
        "Stgutg.Props.C20.ngsetup_writes_plmn",
        "Stgutg.Props.C20.snow3g_shared_state_counterexample",
        "Stgutg.Props.C20.disjointness_needed",
    ]
    # the binary of this domain is built with -race (CGO on); every scenario runs in a child process of it
    domains = [Domain("conc", 60, 600, race=True)]
    rule = ("conc: G goroutines (every kind against itself at G=2 and at a random G in 8..64; the SNOW 3G users together; all "
            "kinds together at G=64; random mixes of 1..5 kinds at G=2..64), each goroutine calling the codec / protection / "
            "derivation entry points (NGAP builders + ngap.Encoder/Decoder, aper.Marshal*/Unmarshal*, NAS constructors + "
            "PlainNasEncode/Decode, EncodeNasPduWithSecurity/NASEncode and GetNasPdu/NASDecode with NEA0/1/2 x NIA1/2, "
            "DeriveRESstarAndSetKey, GetKDFValue, Milenage, NASEncrypt, NASMacCalculate) on its own UE context and messages, "
            "arguments from a per-goroutine PRNG; every output compared (SHA-256) with the same calls made one goroutine "
            "after the other; the scenario runs in a child of the -race binary and a DATA RACE report overrides the "
            "comparison; non-trivial = a scenario with G >= 2 that ran to completion; distinct by op line")
    trusted_base = [
        "gen footprint: go/ssa + class-hierarchy call graph (golang.org/x/tools v0.29.0) over the whole program; it is what "
        "ties the hypothesis 'every step stays inside the entry point's footprint' (Respects / Call.Within) to the code",
        "the Go memory model, the scheduler and the race detector's happens-before (ThreadSanitizer runtime): outside the model, "
        "tied by the conc runs under -race",
        "third-party packages outside the footprint analysis: logrus (entries loaded from the repo's logger variables are handed "
        "to it; internally locked), crypto/*, github.com/aead/cmac, github.com/wmnsk/milenage, fmt, regexp, reflect, encoding/*",
    ]
    level_text = ("Theorem for unbounded threads and steps: if atomic steps respect declared read/write sets over the repo's "
                  "package-level variables and steps of different threads have disjoint footprints, then under EVERY interleaving "
                  "thread-local results and the shared store equal the sequential run (and each thread's result equals running "
                  "alone) and no conflicting access pair occurs; table fact by kernel decide over the footprints REGENERATED from "
                  "the SSA form of the source (transitive, call-graph closed, outside init) for ngap.Encoder/Decoder, "
                  "aper.Marshal*/Unmarshal*, PlainNasEncode/Decode, NASEncode/NASDecode, EncodeNasPduWithSecurity, GetNasPdu, "
                  "NASEncrypt, NASMacCalculate, DeriveRESstarAndSetKey, GetKDFValue, Milenage; instantiation for any decomposition "
                  "of the calls into atomic steps; counter-model: SNOW 3G with shared state gives a wrong keystream (F13)")
    level_note = ("the footprint translator, the Go memory model / race detector and third-party packages are trusted; tied by "
                  "G = 2..64 goroutine runs under -race compared with sequential runs")
    technique = "Lean 4 proof (Mazurkiewicz-style noninterference over an interleaving semantics) + go/ssa footprint translator + -race witness search"
    partial_note = ("the Go memory model, the race detector's happens-before and third-party packages (logrus, crypto/*, cmac, "
                    "wmnsk/milenage) are outside the model and are tied by the -race runs; that the compiled code stays inside the "
                    "computed footprints is the translator's claim (hypothesis Respects), not a theorem; PDUs returned by the per-UE "
                    "NGAP builders share the backing array of ngapTestpacket.TestPlmn.Value (counted as read in builders_partial: "
                    "nothing on the analysed paths writes through it; tied by the -race runs); BuildNGSetupRequest writes TestPlmn "
                    "and is a gNB-level procedure that must finish before per-UE builders start (ngsetup_writes_plmn)")
    assumptions = ["each goroutine uses its own UE context, messages and buffers (the property's own hypothesis)",
                   "NG Setup (BuildNGSetupRequest / GetNGSetupRequest, which stores the PLMN into a package-level variable) "
                   "happens before the per-UE goroutines start",
                   "log levels and logger configuration are not changed while the goroutines run"]

    def key(self, op, impl, model, spec):
        t = impl.split(" ")
        if t[0] == "race":
            return "conc:race:" + (t[1] if len(t) > 1 else "?")
        if t[0] == "ok" and len(t) > 2 and t[1] == "diff":
            return "conc:diff:" + t[2]
        return "conc:" + t[0]

    def judge(self, op, impl, model, spec):
        if impl == "bad-op" or model == "bad-op":
            return ("corr", "harness/driver could not parse the op (or an entry point is missing from Gen.Footprint)")
        if impl.startswith("race") or impl.startswith("ok diff"):
            return ("viol", self.key(op, impl, model, spec),
                    "concurrent use differs from the one-call-at-a-time run / the race detector reported a data race")
        if impl != "ok same":
            # norace (binary without the race detector), hang, panic child: the run says nothing
            return ("corr", "the scenario did not run to completion under the race detector: " + impl)
        # impl == ok same == spec; the model may have predicted possible interference (not certain under one schedule)
        return None

    def nontrivial(self, op, impl):
        t = op.split(" ")
        return impl.startswith("ok") and len(t) > 1 and t[1].isdigit() and int(t[1]) >= 2

    def extra(self, ctx):
        """attach the race detector's report to every violation (re-runs the op once, report via VERIF_CONC_REPORT)"""
        binp = os.path.join(core.BIN, "corr-race")
        done = set()
        for v in ctx.violations:
            if v.get("domain") != "conc" or v["key"] in done or not os.path.exists(binp):
                continue
            done.add(v["key"])
            fd, path = tempfile.mkstemp(prefix="c20race")
            os.close(fd)
            try:
                rc, pairs, se = core.run_corr("run", 0, 0, ctx.tier, corr_bin=binp, stdin_ops=v["op"] + "\n",
                                              extra_env={"VERIF_CONC_REPORT": path}, timeout=600)
                rep = open(path).read()
                v["rerun_result"] = pairs[0][1] if pairs else ""
                v["race_report"] = rep[:20000] if rep else "(no DATA RACE report on the re-run; see impl for the first run)"
            finally:
                os.remove(path)
