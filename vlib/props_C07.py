from .check import Prop, Domain
from .props import reg


@reg
class C07(Prop):
    id = "C07"
    title = "NAS ciphering and integrity algorithms are the 3GPP 128-NEA/NIA algorithms"
    lean_module = "Stgutg.Props.C07"
    gen = ["tables"]
    theorems = [
        "Stgutg.Props.C07.sr_table",
        "Stgutg.Props.C07.sq_table",
        "Stgutg.Props.C07.tables_complete",
        "Stgutg.Props.C07.snow3g_model_eq_spec",
        "Stgutg.Props.C07.nea1",
        "Stgutg.Props.C07.nia1",
        "Stgutg.Props.C07.nea2",
        "Stgutg.Props.C07.nia2",
        "Stgutg.Props.C07.nea0_id",
        "Stgutg.Props.C07.eea1_covers_every_octet",
        "Stgutg.Props.C07.xor_involutive",
        "Stgutg.Props.C07.nea1_involutive",
        "Stgutg.Props.C07.nea2_involutive",
        "Stgutg.Props.C07.snow3g_init_overwrites_state",
    ]
    domains = [Domain("sec-alg", 2000, 100000)]
    rule = ("sec-alg: NASEncrypt/NASMacCalculate at every length 1..80 (thorough 1..600) x alg x dir x bearer{0,1,31} "
            "plus random keys/counts/lengths and argument-check edges; non-trivial = accepted call with a non-empty message "
            "under a non-null algorithm; distinct by op line")
    trusted_base = ["crypto/aes, cipher.NewCTR, github.com/aead/cmac are parameters of the theorems (Prims); "
                    "Crypto/Aes.lean instantiates them for the comparator only (FIPS-197/SP800-38A/RFC4493 vectors)"]
    level_text = ("Theorems for all keys/COUNT/BEARER/DIRECTION and all message lengths: the code-shaped models of NEA1/NIA1 "
                  "(incl. SNOW 3G with its tables regenerated from the source) equal 128-EEA1/EIA1, NEA2/NIA2 equal 128-EEA2/EIA2 "
                  "parametric in AES-CTR/CMAC, NEA0 is the identity, every octet is covered, the ciphers are involutions; "
                  "models tied to security.go/snow3g.go by a table translator and a differential run at every length")
    level_note = ("crypto/aes, cipher.NewCTR, aead/cmac are parameters (trusted); hand models tied by differential execution; "
                  "specs transcribed from TS 35.215/35.216/33.401-B and anchored by TS 35.222 / FIPS-197 / RFC 4493 vectors")
    technique = "Lean 4 proof (model = spec for all inputs) + table translator + differential correspondence"
    partial_note = ("'function of the arguments only' is proved for sequential use (InitSnow3g overwrites all state); "
                    "concurrent use is property C20")
    assumptions = ["message lengths are below 2^29 octets (uint32(len)*8 does not wrap)"]

    def key(self, op, impl, model, spec):
        t = op.split(" ")
        return "%s:alg%s:len%%4=%d" % (t[0], t[1], (0 if t[6] == "-" else len(t[6]) // 2) % 4)

    def nontrivial(self, op, impl):
        t = op.split(" ")
        return impl.startswith("ok") and t[1] != "0" and t[6] != "-"
