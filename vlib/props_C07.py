from .check import Prop, Domain
from .props import reg


@reg
class C07(Prop):
    id = "C07"
    title = "NAS ciphering and integrity algorithms are the 3GPP 128-NEA/NIA algorithms"
    lean_module = "Stgutg.Props.C07"
    gen = ["tables", "pure-secalg", "pure-secnas", "pure-selftest-sec"]
    extra_modules = ["Stgutg.Proofs.GenTieSecAlg", "Stgutg.Proofs.GenTieSecNas", "Stgutg.Gen.PureSelftestSec", "Stgutg.Gen.PureSelftestSecB"]
    theorems = [
        "Stgutg.Props.C07.sr_table",
        "Stgutg.Props.C07.sq_table",
        "Stgutg.Props.C07.tables_complete",
        "Stgutg.Props.C07.snow3g_model_eq_spec",
        "Stgutg.Props.C07.nea1",
        "Stgutg.Props.C07.nia1",
        "Stgutg.Props.C07.nea2",
        "Stgutg.Props.C07.nia2",
        "Stgutg.Props.C07.nea0_id",
        "Stgutg.Props.C07.eea1_covers_every_octet",
        "Stgutg.Props.C07.xor_involutive",
        "Stgutg.Props.C07.nea1_involutive",
        "Stgutg.Props.C07.nea2_involutive",
        "Stgutg.Props.C07.snow3g_init_overwrites_state",
        "Stgutg.Proofs.GenTie.SecAlg.mulx_eq",
        "Stgutg.Proofs.GenTie.SecAlg.mulxPow_eq",
        "Stgutg.Proofs.GenTie.SecAlg.s1_eq",
        "Stgutg.Proofs.GenTie.SecAlg.s2_eq",
        "Stgutg.Proofs.GenTie.SecAlg.mulAlpha_eq",
        "Stgutg.Proofs.GenTie.SecAlg.divAlpha_eq",
        "Stgutg.Proofs.GenTie.SecAlg.toGen_surj",
        "Stgutg.Proofs.GenTie.SecAlg.clockFsm_eq",
        "Stgutg.Proofs.GenTie.SecAlg.lfsrInitialisationMode_eq",
        "Stgutg.Proofs.GenTie.SecAlg.lfsrKeystreamMode_eq",
        "Stgutg.Proofs.GenTie.SecAlg.InitSnow3g_eq",
        "Stgutg.Proofs.GenTie.SecAlg.GenerateKeystream_eq",
        "Stgutg.Proofs.GenTie.SecAlg.GenerateKeystream_nonpos",
        "Stgutg.Proofs.GenTie.SecAlg.GenerateKeystream_short",
        "Stgutg.Proofs.GenTie.SecNas.mulx_eq",
        "Stgutg.Proofs.GenTie.SecNas.mulxPow_eq",
        "Stgutg.Proofs.GenTie.SecNas.mul_eq",
        "Stgutg.Proofs.GenTie.SecNas.NIA1_eq",
        "Stgutg.Proofs.GenTie.SecNas.NEA1_eq",
    ]
    domains = [Domain("sec-alg", 2000, 100000)]
    rule = ("sec-alg: NASEncrypt/NASMacCalculate at every length 1..80 (thorough 1..600) x alg x dir x bearer{0,1,31} "
            "plus random keys/counts/lengths and argument-check edges; non-trivial = accepted call with a non-empty message "
            "under a non-null algorithm; distinct by op line")
    trusted_base = ["crypto/aes, cipher.NewCTR, github.com/aead/cmac are parameters of the theorems (Prims); "
                    "Crypto/Aes.lean instantiates them for the comparator only (FIPS-197/SP800-38A/RFC4493 vectors)",
                    "TIE BY TRANSLATION of SNOW 3G (gen pure-secalg, harness/cmd/gen/pure_secalg*.go = the WORD-MACHINE grammar of the pure-* translators -> "
                    "lean/Stgutg/Gen/PureSecAlg.lean, regenerated from the source text of src/free5gclib/nas/security/snow3g/snow3g.go on every run): all eleven "
                    "functions of the file — mulx, mulxPow, s1, s2, mulAlpha, divAlpha, (*State).lfsrInitialisationMode, lfsrKeystreamMode, clockFsm, InitSnow3g, "
                    "(*State).GenerateKeystream — and the two package-level tables sr / sq (read from the same text) are tied by theorems generated = hand model "
                    "Model/Snow3g.lean (Proofs/GenTieSecAlg.lean: mulx_eq, mulxPow_eq [the recursion never outlives its fuel], s1_eq / s2_eq [for every word: no "
                    "table look-up is out of range and the tables are the regenerated Gen.Snow3g.sr/sq], mulAlpha_eq, divAlpha_eq, clockFsm_eq, "
                    "lfsrInitialisationMode_eq, lfsrKeystreamMode_eq for EVERY state, InitSnow3g_eq for every key and IV, GenerateKeystream_eq for every state, every "
                    "count n and every output slice of at least n words [the n words of the model, the rest of the slice untouched], GenerateKeystream_short "
                    "[a shorter slice: panic], GenerateKeystream_nonpos [n <= 0: nothing written]; toGen_surj: every value of the Go type State is covered), so a "
                    "change of the Go text changes the generated definition and the theorem stops checking, whatever input would show it. The same grammar (gen pure-secnas -> "
                    "Gen/PureSecNas.lean, importing the SNOW 3G definitions above) translates NEA1, NIA1 and the three GF(2^64) helpers of NIA1 in "
                    "src/free5gclib/nas/security/security.go: mulx, mulxPow, mul = Model.NasAlg.mulx64 / mulxPow64 / mul64 for all arguments (Proofs/GenTieSecNas.lean: "
                    "mulx_eq, mulxPow_eq, mul_eq); NIA1_eq: for every 16-octet key (the Go type is [16]byte), COUNT, BEARER, DIRECTION and every message of fewer than "
                    "2^59 octets incl. the empty one (a panic in both), NIA1(ik, count, bearer, direction, msg, 8*len(msg)) = Model.NasAlg.nia1, the err result nil; "
                    "NEA1_eq: for every 16-octet key, COUNT, BEARER, DIRECTION and every message of fewer than 2^28 octets (every length: whole words, 1..3 trailing "
                    "octets with the masked last keystream word, the empty message), NEA1(ck, count, bearer, direction, ibs, 8*len(ibs)) = Model.NasAlg.nea1, err nil; "
                    "the length arguments are the ones the only callers NASMacCalculate / NASEncrypt pass, the hand models have no other. NOT tied by translation: "
                    "NEA2, NIA2, NASEncrypt, NASMacCalculate of security.go (crypto/aes, cipher.NewCTR, aead/cmac, logger, fmt.Errorf, the switch on the algorithm id, "
                    "the nil test) — still tied by the differential domain sec-alg only. "
                    "Trusted here instead of sampling: the word-machine grammar (header of pure_secalg.go; anything else fails closed with file:line) and its runtime "
                    "Gen/PureRt.lean + Gen/PureRtSec.lean: [N]T arrays are values carried as lists of their N elements (x[i] is checked against the length whatever "
                    "the index); the object behind a pointer receiver / a `new` local has exactly one name inside a function (pointers are never copied, compared or "
                    "passed) and is returned as a value with the results, nothing being said about it after a panic; a package-level table is a constant BECAUSE it is "
                    "unexported and every use in its package is a read of t[i] (go/types Uses); a slice parameter written through is an OUT-PARAMETER returned with the "
                    "results, ASSUMED not to share storage with another argument; counted loops and self-recursion run on FUEL that is visible in the output (outliving "
                    "it is `hang`, which no theorem equates with a model value); binary.BigEndian.Uint32 / Uint64 / PutUint32 panic on fewer than 4 / 8 / 4 octets; x[a:b] is "
                    "accepted on ARRAYS only (cap = len = N, so the bounds are checked as Go checks them), x[a:] also on slices, both only where the octets are read on "
                    "the spot (operand of BigEndian.UintN, source of copy); copy and PutUint32 write only to a slice that holds make(...) only; an error result is only "
                    "ever nil; a loop counter declared before its loop (`for i = a; ...`) is a result of the loop. The grammar and runtime are checked against the Go compiler on every run: gen "
                    "pure-selftest-sec translates harness/cmd/gen/pureselftest/sec.go (every construct; SecMac as a second group importing the first) and writes the "
                    "outcomes of EXECUTING the compiled functions beside the translation (Gen/PureSelftestSec.lean + PureSelftestSecB.lean: 1230 calls, 483 of them "
                    "panics, each non-panic outcome with the object behind the receiver and the "
                    "out-parameter as the call left them, as kernel-checked equalities)"]
    level_text = ("Theorems for all keys/COUNT/BEARER/DIRECTION and all message lengths: the code-shaped models of NEA1/NIA1 "
                  "(incl. SNOW 3G with its tables regenerated from the source) equal 128-EEA1/EIA1, NEA2/NIA2 equal 128-EEA2/EIA2 "
                  "parametric in AES-CTR/CMAC, NEA0 is the identity, every octet is covered, the ciphers are involutions; "
                  "models tied to the code by TRANSLATION + theorem for all of snow3g.go, NEA1 and NIA1 (gen pure-secalg / pure-secnas: generated "
                  "definition = model for every input), by a table translator for the S-boxes, and by a differential run at every length "
                  "(the only tie of NASEncrypt, NASMacCalculate, NEA2, NIA2)")
    level_note = ("crypto/aes, cipher.NewCTR, aead/cmac are parameters (trusted); NEA2/NIA2 and the two dispatchers are hand models tied by differential execution; "
                  "specs transcribed from TS 35.215/35.216/33.401-B and anchored by TS 35.222 / FIPS-197 / RFC 4493 vectors")
    technique = "Lean 4 proof (model = spec for all inputs; generated-from-source definitions = model for SNOW 3G, NEA1, NIA1) + table translator + differential correspondence"
    partial_note = ("'function of the arguments only' is proved for sequential use (InitSnow3g overwrites all state); "
                    "concurrent use is property C20")
    assumptions = ["message lengths are below 2^29 octets (uint32(len)*8 does not wrap)"]

    def key(self, op, impl, model, spec):
        t = op.split(" ")
        return "%s:alg%s:len%%4=%d" % (t[0], t[1], (0 if t[6] == "-" else len(t[6]) // 2) % 4)

    def nontrivial(self, op, impl):
        t = op.split(" ")
        return impl.startswith("ok") and t[1] != "0" and t[6] != "-"
