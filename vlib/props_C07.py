from .check import Prop, Domain
from .props import reg


@reg
class C07(Prop):
    id = "C07"
    title = "NAS ciphering and integrity algorithms are the 3GPP 128-NEA/NIA algorithms"
    lean_module = "Stgutg.Props.C07"
    gen = ["tables"]
    theorems = [
        "Stgutg.Props.C07.sr_table", "Stgutg.Props.C07.sq_table",
    ]
    domains = [Domain("sec-alg", 2000, 100000)]
    rule = ("sec-alg: NASEncrypt/NASMacCalculate at every length 1..80 (thorough 1..600) x alg x dir x bearer{0,1,31} "
            "plus random keys/counts/lengths and argument-check edges; non-trivial = accepted call with a non-empty message "
            "under a non-null algorithm; distinct by op line")
    trusted_base = ["crypto/aes, cipher.NewCTR, github.com/aead/cmac are parameters of the theorems (Prims); "
                    "Crypto/Aes.lean instantiates them for the comparator only (FIPS-197/SP800-38A/RFC4493 vectors)"]
    assumptions = ["message lengths are below 2^29 octets (uint32(len)*8 does not wrap)"]

    def key(self, op, impl, model, spec):
        t = op.split(" ")
        return "%s:alg%s:len%%4=%d" % (t[0], t[1], (0 if t[6] == "-" else len(t[6]) // 2) % 4)

    def nontrivial(self, op, impl):
        t = op.split(" ")
        return impl.startswith("ok") and t[1] != "0" and t[6] != "-"
