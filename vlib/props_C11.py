from .check import Prop, Domain
from .props import reg


def _txt(h):
    return b"" if h == "-" else bytes.fromhex(h)


@reg
class C11(Prop):
    id = "C11"
    title = "Subscriber and PLMN identities are encoded per TS 24.501 / TS 38.413"
    lean_module = "Stgutg.Props.C11"
    extra_modules = ["Stgutg.Props.Glue.stgutg_EncodeSuci", "Stgutg.Props.Glue.stgutg_hexCharToByte", "Stgutg.Props.Glue.stgutg_ManageNGSetup", "Stgutg.Props.Glue.stgutg_RegisterUE", "Stgutg.Props.Glue.stgutg_DeregisterUE", "Stgutg.Props.Glue.stgutg_CreateUE", "Stgutg.Props.Glue.tglib_GetNGSetupRequest", "Stgutg.Proofs.GenTieSuci", "Stgutg.Proofs.GenTieConvert", "Stgutg.Gen.PureSelftest"]
    gen = ["pure-suci", "pure-convert", "pure-selftest", "procs"]
    theorems = ["Stgutg.Props.GluePinned." + t for t in [
        # the glue functions this property depends on are still the text the models were written from (gen procs)
        "stgutg_EncodeSuci", "stgutg_hexCharToByte", "stgutg_ManageNGSetup", "stgutg_RegisterUE", "stgutg_DeregisterUE", "stgutg_CreateUE", "tglib_GetNGSetupRequest"]] + [
        # tie by translation: the definitions regenerated from utils.go / PlmnId.go ARE the hand models
        "Stgutg.Proofs.GenTie.Suci.hexCharToByte_eq", "Stgutg.Proofs.GenTie.Suci.EncodeSuci_eq",
        "Stgutg.Proofs.GenTie.Suci.EncodeSuci_buffer", "Stgutg.Proofs.GenTie.Convert.PlmnIDToNas_eq",
        "Stgutg.Props.C11.C11_suci",
        "Stgutg.Props.C11.C11_suci_is_spec_encoding",
        "Stgutg.Props.C11.C11_plmn_ngsetup",
        "Stgutg.Props.C11.C11_plmn_agrees",
        "Stgutg.Props.C11.C11_uli_same_plmn",
        "Stgutg.Props.C11.C11_plmn_decodes",
        "Stgutg.Props.C11.C11_ngap_literal_mnc2",
        "Stgutg.Props.C11.C11_ngap_literal_mnc3",
        "Stgutg.Props.C11.C11_ngap_literal_differs_310_410",
    ]
    # suci: sampled + boundary digits (quick) ; suci-mcc0..9: the exhaustive 1000 x 1100 MCC/MNC sweep, thorough tier only
    domains = [Domain("suci", 6000, 200000)] + [Domain("suci-mcc%d" % d, 0, 1) for d in range(10)]
    rule = ("suci: EncodeSuci (op suci), the identity IE cut out of the real REGISTRATION / DEREGISTRATION REQUEST octets (op nassuci, "
            "1 in 4 cases in quick, all in thorough), the NG Setup PLMN expression + the real NGAP builders (op ngplmn), the real ManageNGSetup "
            "over a socketpair (op ngsetup) and nasConvert.PlmnIDToNas (op plmn2nas) on every boundary digit {0,1,5,8,9} in every "
            "MCC/MNC position, all ten digits per position, both MNC lengths, MSIN lengths 1..10 (random digits), random IMSIs, and a "
            "malformed stream (short IMSIs, hex letters, arbitrary bytes, odd mncLen); thorough tier adds suci-mcc0..9 = all 1000 MCC x "
            "1100 MNC (2- and 3-digit), MSIN length cycling 1..10; non-trivial = the call returned an encoding; distinct by op line")
    trusted_base = [
        "TIE BY TRANSLATION (gen pure-suci / pure-convert, harness/cmd/gen/pure*.go -> lean/Stgutg/Gen/Pure{Suci,Convert}.lean, regenerated from the source text on every run): stgutg.hexCharToByte, stgutg.EncodeSuci (whole function: buffer, Len, panics) and nasConvert.PlmnIDToNas (strconv.Atoi(string(b)) of one byte is interpreted by the runtime: Go.atoiByte). The theorems GenTie.Suci.{hexCharToByte_eq, EncodeSuci_eq, EncodeSuci_buffer} and GenTie.Convert.PlmnIDToNas_eq prove generated definition = hand model for ALL inputs, so a change of the Go text changes the generated definition and the theorem stops checking, whatever input would show it. Trusted here instead of sampling: the translator's grammar and its runtime Gen/PureRt.lean (Go's fixed-width arithmetic, index / slice panics, value semantics of slices under the translator's no-alias check, go/types constant evaluation); a construct outside the grammar fails closed (TRANSLATOR-FAILED file:line); the translator and its runtime are themselves checked against the Go compiler on every run: gen pure-selftest translates harness/cmd/gen/pureselftest/fns.go and writes the results of EXECUTING the compiled functions beside the translation (Gen/PureSelftest.lean: 97 calls incl. wrap-around, MinInt / -1, division by zero, index / slice panics, shadowing, break / continue, receiver mutation, as kernel-checked equalities)",
        'Model/Suci.lean (EncodeSuci, hexCharToByte, the ngsetup.go PLMN expression, TestPlmn copies of BuildNGSetupRequest / user-location builders) and Model/Convert.lean plmnIDToNas are hand models tied by the suci domain (impl = model on every case, panics included)',
        'Spec/Ts24501Identity.lean is my transcription of TS 24.501 figure 9.11.3.4.3 / table 9.11.3.4.1 (SUCI, SUPI format IMSI, null scheme) and of the 3-octet PLMN layout of TS 24.501 / TS 24.008 10.5.1.3; the decoder is independent of the encoder (theorem C11_suci uses only the decoder)',
        'op ngsetup drives the real stgutg.ManageNGSetup over an AF_UNIX SOCK_SEQPACKET socketpair wrapped by sctp.NewSCTPConn and echoes the request as the answer',
    ]
    assumptions = [
        'IMSI = 3-digit MCC + 2- or 3-digit MNC + MSIN of at least one digit, all decimal (theorems hold for any MSIN length, not only 1..10); mncLen passed to EncodeSuci is len(mnc)',
        "the property text names ONE layout 'TS 38.413/TS 24.501 PLMN encoding' and requires agreement with PlmnIDToNas: Spec.plmn3 is the TS 24.501/24.008 layout (octet2 = MNC3|MCC3, octet3 = MNC2|MNC1). TS 38.413 9.3.3.5 READ LITERALLY orders the digits MCC1 MCC2 MCC3 MNC1 MNC2 MNC3 (octet2 = MNC1|MCC3, octet3 = MNC3|MNC2), which is what free5gc ngapConvert.PlmnIdToNgap, open5gs ogs_plmn_id_t, OAI and the Wireshark NGAP dissector implement; the two coincide for every 2-digit MNC (C11_ngap_literal_mnc2) and differ for every 3-digit MNC whose digits are not all equal (C11_ngap_literal_mnc3, 310/410: 13 00 14 vs 13 40 01). After the F5 repair the NG Setup PLMN of a 3-digit-MNC network follows the 24.501 layout, as the property demands; an AMF that decodes NGAP PLMNs in the literal 38.413 order reads a different MNC there.",
    ]
    partial_note = ("no theorem is partial. Caveat (not a gap in the proof but in the property's premise): for 3-digit MNCs TS 38.413 9.3.3.5 read literally differs from the TS 24.501 layout the property equates it with; see assumptions and theorems C11_ngap_literal_*.")

    def key(self, op, impl, model, spec):
        t = op.split(" ")
        if t[0] == "plmn2nas":
            return "plmn2nas:mnc%d" % len(_txt(t[2]))
        if t[0] == "ngsetup":
            return "ngsetup:mnc%d" % len(_txt(t[2]))
        return "%s:mnc%s" % (t[0], t[2])

    def nontrivial(self, op, impl):
        return impl.startswith("ok")
