from .check import Prop, Domain
from .props import reg


def _txt(h):
    return b"" if h == "-" else bytes.fromhex(h)


@reg
class C11(Prop):
    id = "C11"
    title = "Subscriber and PLMN identities are encoded per TS 24.501 / TS 38.413"
    lean_module = "Stgutg.Props.C11"
    gen = []
    theorems = []
    # suci: sampled + boundary digits (quick) ; suci-mcc0..9: the exhaustive 1000 x 1100 MCC/MNC sweep, thorough tier only
    domains = [Domain("suci", 600, 4000)] + [Domain("suci-mcc%d" % d, 0, 1) for d in range(10)]
    rule = ("suci: EncodeSuci (op suci), the NG Setup PLMN expression + the real NGAP builders (op ngplmn), the real ManageNGSetup "
            "over a socketpair (op ngsetup) and nasConvert.PlmnIDToNas (op plmn2nas) on every boundary digit {0,1,5,8,9} in every "
            "MCC/MNC position, all ten digits per position, both MNC lengths, MSIN lengths 1..10 (random digits), random IMSIs, and a "
            "malformed stream (short IMSIs, hex letters, arbitrary bytes, odd mncLen); thorough tier adds suci-mcc0..9 = all 1000 MCC x "
            "1100 MNC (2- and 3-digit), MSIN length cycling 1..10; non-trivial = the call returned an encoding; distinct by op line")
    trusted_base = []
    assumptions = []

    def key(self, op, impl, model, spec):
        t = op.split(" ")
        if t[0] == "plmn2nas":
            return "plmn2nas:mnc%d" % len(_txt(t[2]))
        if t[0] == "ngsetup":
            return "ngsetup:mnc%d" % len(_txt(t[2]))
        return "%s:mnc%s" % (t[0], t[2])

    def nontrivial(self, op, impl):
        return impl.startswith("ok")
