from .check import Prop, Domain
from .props import reg


def _n(tok):
    return 0 if tok == "-" else len(tok) // 2


@reg
class C05(Prop):
    id = "C05"
    title = "5G-AKA: RES* and the NAS key hierarchy equal what the network derives"
    lean_module = "Stgutg.Props.C05"
    extra_modules = ["Stgutg.Props.Glue.stgutg_RegisterUE", "Stgutg.Props.Glue.UeauCommon_GetKDFValue", "Stgutg.Props.Glue.tglib_RanUeContext_DeriveRESstarAndSetKey", "Stgutg.Props.Glue.tglib_GetAuthSubscription", "Stgutg.Proofs.GenTieKdf", "Stgutg.Gen.PureSelftest", "Stgutg.Proofs.GenTieKeys", "Stgutg.Gen.PureSelftestRich"]
    gen = ["pure-kdf", "pure-selftest", "pure-keys", "procs"]
    # tie by translation: KDFLen regenerated from UeauCommon.go IS the hand model
    theorems = ["Stgutg.Props.GluePinned." + t for t in [
        # the glue functions this property depends on are still the text the models were written from (gen procs)
        "stgutg_RegisterUE", "UeauCommon_GetKDFValue", "tglib_RanUeContext_DeriveRESstarAndSetKey", "tglib_GetAuthSubscription"]] + ["Stgutg.Proofs.GenTie.Kdf.KDFLen_eq", "Stgutg.Proofs.GenTie.Keys.DerivateKamf_eq", "Stgutg.Proofs.GenTie.Keys.DerivateAlgKey_eq"] + ["Stgutg.Props.C05." + n for n in [
        "kdf_eq_spec", "kdf_is_hmac_of_concat", "kausf_kseaf_kamf_eq_spec", "algkey_eq_spec",
        "snname_2digit", "snname_3digit", "snname_length", "milenage_f2345_eq_spec", "resstar_eq_spec",
        "derive_eq_spec", "op_opc"]]
    domains = [Domain("aka", 480, 20000)]
    rule = ("aka: per case random K, OP and the corresponding OPc (OP only / OPc only / both), RAND, AUTN, AMF string, MCC, "
            "MNC alternating 2|3 digits, IMSI SUPI of 5..15 digits, the 16 ciphering x integrity algorithm pairs in rotation "
            "through DeriveRESstarAndSetKey, DerivateKamf and DerivateAlgKey on random keys, GetKDFValue with and without "
            "KDFLen fields (0..3 parameters, key lengths 0..100, good and bad FC strings), KDFLen boundaries, the FC constants, "
            "the RegisterUE serving-network-name expressions (evaluated from the source text) on 2-/3-digit and malformed "
            "MNC/MCC, non-canonical SUPIs, short AMF, and the fatal (os.Exit) inputs in a child process; "
            "non-trivial = ok result of aka_derive*/aka_kamf/aka_algkey/aka_kdf*/aka_snname; distinct by op line")
    trusted_base = ["TIE BY TRANSLATION of the key derivation methods (gen pure-keys, harness/cmd/gen/pure*.go incl. pure_nas.go -> lean/Stgutg/Gen/PureKeys.lean, regenerated from the source text on every run): (*RanUeContext).DerivateKamf and (*RanUeContext).DerivateAlgKey, with UeauCommon.KDFLen taken from Gen/PureKdf.lean. Theorems Proofs.GenTie.Keys.DerivateKamf_eq (every UE context and all arguments: generated = Model.KeyDerivation.DerivateKamf, the context with Kamf replaced; no match of the SUPI expression = panic at groups[1]) and DerivateAlgKey_eq (every UE context whose two [16]uint8 arrays have 16 octets). Trusted here instead of sampling: the extended grammar of the translator (top of harness/cmd/gen/pure.go; self-test Gen/PureSelftestRich.lean) and the library record Lib: UeauCommon.GetKDFValue (variadic, = Model.KeyDerivation.GetKDFValue over Prims.hmac; ASSUMED to return a slice without spare capacity, so that kenc[16:32] panics exactly when the MAC is shorter than 32 octets, as the hand model says), regexp.Compile + FindStringSubmatch (the compiled expression remembers its source text; on the text '(?:imsi|supi)-([0-9]{5,15})' FindStringSubmatch is the hand model's supiFind, on any other text an ARBITRARY function, so a changed expression breaks the tie), fatal.Fatalf (ARBITRARY; unreachable under the instantiation because regexp.Compile of this text returns no error), copy into an array field as a value. NOT reached: DeriveRESstarAndSetKey (types of github.com/wmnsk/milenage and the openapi models are outside the loader) — it stays pinned by gen procs and covered by the differential domain",
                    "TIE BY TRANSLATION (gen pure-kdf, harness/cmd/gen/pure*.go -> lean/Stgutg/Gen/PureKdf.lean, regenerated from the source text on every run): UeauCommon.KDFLen (make, binary.BigEndian.PutUint16, uint16(len)). The theorems GenTie.Kdf.KDFLen_eq prove generated definition = hand model for ALL inputs, so a change of the Go text changes the generated definition and the theorem stops checking, whatever input would show it. Trusted here instead of sampling: the translator's grammar and its runtime Gen/PureRt.lean (Go's fixed-width arithmetic, index / slice panics, value semantics of slices under the translator's no-alias check, go/types constant evaluation); a construct outside the grammar fails closed (TRANSLATOR-FAILED file:line); the translator and its runtime are themselves checked against the Go compiler on every run: gen pure-selftest translates harness/cmd/gen/pureselftest/fns.go and writes the results of EXECUTING the compiled functions beside the translation (Gen/PureSelftest.lean: 97 calls incl. wrap-around, MinInt / -1, division by zero, index / slice panics, shadowing, break / continue, receiver mutation, as kernel-checked equalities)",
                    "crypto/aes, crypto/hmac+sha256 are parameters of the theorems (Prims.aes: 16-octet blocks, Prims.hmac: 32-octet "
                    "MAC); Crypto/Aes.lean and Crypto/Sha256.lean instantiate them for the comparator only (FIPS-197, FIPS 180-4, "
                    "RFC 4231, TS 35.208 known answers)",
                    "github.com/wmnsk/milenage v1.2.1 (New, NewWithOPc, validateLength, computeOPc, F2345, ComputeRESStar) is third-party "
                    "code modelled by hand from the module cache source; its F1/F1Star results are discarded by the caller",
                    "encoding/hex.DecodeString, regexp (?:imsi|supi)-([0-9]{5,15}) leftmost/greedy, fmt.Sprintf %s are modelled by hand",
                    "the snName assignments in stgutg.RegisterUE are inline (the function needs an SCTP association): the harness "
                    "evaluates the two source expressions with go/ast and fails closed if their shape or their use as the 4th argument "
                    "of DeriveRESstarAndSetKey changes"]
    assumptions = ["Go strings are compared as octet strings; the line protocol carries them hex encoded",
                   "fatal.Fatalf terminates the process: observed as exit status 1 of a child process (class err)",
                   "SUPI is of the IMSI form imsi-<5..15 digits> for the specification column; other strings only model=implementation"]
    partial_note = ("derive_eq_spec covers an OPc configuration and op_opc transfers it to the OP-only configuration; "
                    "K_AUSF/K_SEAF are internal to DerivateKamf and proved on the model's chain function (kausf_kseaf_kamf_eq_spec)")

    level_text = ("Lean theorems for all inputs, parametric in AES and HMAC: RES*, K_AUSF, K_SEAF, K_AMF, K_NASenc, K_NASint = "
                  "TS 35.206 + TS 33.501 A.2/A.4/A.6/A.7/A.8 over the TS 33.220 KDF; OP-only = corresponding OPc; SN name for 2-/3-digit MNC")

    def key(self, op, impl, model, spec):
        return op.split(" ", 1)[0]

    def nontrivial(self, op, impl):
        t = op.split(" ")
        return impl.startswith("ok") and t[0] in ("aka_derive", "aka_derive_x", "aka_kamf", "aka_algkey", "aka_kdf",
                                                  "aka_kdfp", "aka_snname")
