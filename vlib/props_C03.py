from .check import Prop, Domain
from .props import reg


@reg
class C03(Prop):
    id = "C03"
    title = "NGAP messages are encoded exactly as X.691 aligned PER / TS 38.413 prescribe"
    lean_module = "Stgutg.Props.C03"
    extra_modules = ["Stgutg.Props.C03Schema"]
    gen = ["schema", "registry"]
    theorems = [
        "Stgutg.Props.C03.schema_is_ts38413", "Stgutg.Props.C03.tags_are_ts38413", "Stgutg.Props.C03.table_names_distinct",
        # (a) primitives: model = X.691 clause, all inputs in the stated domain
        "Stgutg.Props.C03.constrained_eq", "Stgutg.Props.C03.length_eq", "Stgutg.Props.C03.length_constrained_eq",
        "Stgutg.Props.C03.length_fragmented_eq",
        "Stgutg.Props.C03.integer_eq", "Stgutg.Props.C03.enumerated_eq", "Stgutg.Props.C03.bit_string_eq",
        "Stgutg.Props.C03.octet_string_eq", "Stgutg.Props.C03.choice_index_eq",
        # (b) composite types, every schema passing specOK
        "Stgutg.Props.C03.encode_eq_spec", "Stgutg.Props.C03.encode_refuses",
        "Stgutg.Props.C03.encode_complete", "Stgutg.Props.C03.encode_iff",
        "Stgutg.Proofs.AperSpec.encode_eq_spec", "Stgutg.Proofs.AperSpec.nonEmptyEnc_sound",
        "Stgutg.Proofs.AperSpec.encode_complete",
        "Stgutg.Proofs.AperSpec.marshal_eq_spec", "Stgutg.Proofs.AperSpec.marshal_refuses", "Stgutg.Proofs.AperSpec.marshal_iff",
        # (c) the regenerated NGAP schema
        "Stgutg.Props.C03.ngap_schema_specOK", "Stgutg.Props.C03.ngap_schema_specOKc",
        "Stgutg.Props.C03.pdu_params_ok", "Stgutg.Props.C03.pdu_params_okc",
        "Stgutg.Props.C03.valueExt_params_ok", "Stgutg.Props.C03.valueExt_params_okc",
        "Stgutg.Props.C03.C03_encode_iff", "Stgutg.Props.C03.C03_encodes_conforming",
        "Stgutg.Props.C03.C03_encode_canonical", "Stgutg.Props.C03.C03_refuses",
        "Stgutg.Props.C03.C03_container_iff", "Stgutg.Props.C03.C03_container_canonical", "Stgutg.Props.C03.C03_container_refuses",
        "Stgutg.Props.C03.integer_out_of_range",
    ]
    domains = [Domain("aper-enc", 600, 30000)]
    rule = ("aper-enc: type-directed random values over the real ngapType structs (all message types through NGAPPDU's open types, "
            "transfer containers, every leaf wrapper type at lb, ub, lb+1, ub-1 and power-of-two boundaries), one in eight with exactly one "
            "injected constraint violation (integer/size/enum out of range, Present 0 / too large, nil mandatory pointer, open type "
            "reference mismatch); non-trivial = value with at least 12 tokens; distinct by op line")
    level_text = ("Theorems (Lean 4, generic in the schema): for every schema passing the decidable specOK/specOKc (decided for the regenerated "
                  "NGAP schema by the kernel), every type/parameter string and every regular value (int64 integers, BitString with "
                  "ceil(n/8) octets, CHOICE with only the selected alternative set; strings and open-type contents of ANY length, "
                  "fragmented from 16K items on as X.691 11.9.3.8 prescribes), "
                  "the encoder model (marshal.go, branch for branch) returns bits exactly when the X.691 ALIGNED PER specification "
                  "defines an encoding, and then returns that encoding (encode_iff, C03_encode_iff, C03_container_iff); corollaries: "
                  "what the model writes is canonical (encode_eq_spec, C03_encode_canonical), a value the specification does not encode "
                  "is not put on the wire (encode_refuses, C03_refuses), conforming values are not refused (encode_complete); per-clause "
                  "equivalences for constrained whole numbers, length determinants, INTEGER, ENUMERATED, BIT/OCTET STRING, CHOICE index; "
                  "struct tags = hand-transcribed TS 38.413 constraints for 150 simple + 32 list types (tags_are_ts38413); model tied to "
                  "marshal.go by the differential run, which also compares the implementation with the specification oracle directly")
    technique = "Lean 4 proof (encoder model = X.691 specification, generic in the schema) + kernel-decided schema predicate + schema translator + differential correspondence"
    partial_note = ("a SEQUENCE OF whose count would be a general length of 16384 or more is refused by the library and not covered by the "
                    "specification (no NGAP list but UEAssociatedLogicalNGConnectionList 1..65536 can be that long); constraints of the types "
                    "not tabled in Spec/Ts38413Leaf are trusted from the tags; the tie between the encoder model and marshal.go is "
                    "differential, not proved")
    assumptions = ["values are regular Go representations (Stgutg.Proofs.AperSpec.regular): int64 integers, BitString.Bytes of exactly "
                   "ceil(BitLength/8) octets, CHOICE structs with only the selected alternative non-nil"]

    def key(self, op, impl, model, spec):
        t = op.split(" ")
        return "%s:%s:%s" % (t[0], t[1] if t[0] == "aperenc" else "NGAPPDU", impl.split(" ")[0])

    def nontrivial(self, op, impl):
        return len(op.split(" ")) >= 14
