from .check import Prop, Domain
from .props import reg


@reg
class C03(Prop):
    id = "C03"
    title = "NGAP messages are encoded exactly as X.691 aligned PER / TS 38.413 prescribe"
    lean_module = "Stgutg.Props.C03"
    gen = ["schema", "registry"]
    theorems = [
        "Stgutg.Props.C03.tags_are_ts38413", "Stgutg.Props.C03.table_names_distinct",
    ]
    domains = [Domain("aper-enc", 600, 30000)]
    rule = ("aper-enc: type-directed random values over the real ngapType structs (all message types through NGAPPDU's open types, "
            "transfer containers, every leaf wrapper type at lb, ub, lb+1, ub-1 and power-of-two boundaries), one in eight with exactly one "
            "injected constraint violation (integer/size/enum out of range, Present 0 / too large, nil mandatory pointer, open type "
            "reference mismatch); non-trivial = value with at least 12 tokens; distinct by op line")
    level_text = ("Theorems: the encoder model equals the X.691 ALIGNED PER specification on conforming values and refuses the others; "
                  "schema regenerated from the struct tags; model tied to marshal.go by a differential run")
    technique = "Lean 4 proof (model = X.691 spec) + schema translator + differential correspondence"

    def key(self, op, impl, model, spec):
        t = op.split(" ")
        return "%s:%s:%s" % (t[0], t[1] if t[0] == "aperenc" else "NGAPPDU", impl.split(" ")[0])

    def nontrivial(self, op, impl):
        return len(op.split(" ")) >= 14
