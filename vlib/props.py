"""Property definitions: obligations (theorem names), translators, correspondence domains."""
from .check import Prop, Domain

PROPS = {}


def reg(cls):
    PROPS[cls.id] = cls()
    return cls



def _load_all():
    import glob, importlib, os
    here = os.path.dirname(os.path.abspath(__file__))
    for f in sorted(glob.glob(os.path.join(here, "props_C*.py"))):
        importlib.import_module("vlib." + os.path.basename(f)[:-3])

_load_all()
