from .check import Prop, Domain
from .props import reg


def _msg(op):
    t = op.split(" ")
    return t[1] if len(t) > 1 else "?"


@reg
class C08(Prop):
    id = "C08"
    title = "NAS message codec is lossless for all 45 message types"
    lean_module = "Stgutg.Props.C08"
    gen = ["nasie", "naslayout"]
    theorems = [
        # generic: every well-formed layout, every well-formed message
        "Stgutg.Props.C08.nas_decode_encode", "Stgutg.Props.C08.nas_encode_ok",
        "Stgutg.Props.C08.nas_encode_decode", "Stgutg.Props.C08.nas_order_insensitive",
        "Stgutg.Props.C08.nas_plain_roundtrip",
        "Stgutg.Props.C08.nas_unknown_type", "Stgutg.Props.C08.nas_unknown_epd",
        "Stgutg.Props.C08.nas_unknown_type_encode",
        # table facts on the layouts regenerated from the source
        "Stgutg.Props.C08.layouts_count", "Stgutg.Props.C08.layouts_wf", "Stgutg.Props.C08.codec_wf",
        "Stgutg.Props.C08.dispatch_count",
        # instantiated
        "Stgutg.Props.C08.C08_roundtrip", "Stgutg.Props.C08.C08_reencode", "Stgutg.Props.C08.C08_plain_roundtrip",
        "Stgutg.Props.C08.C08_unknown_type_gmm", "Stgutg.Props.C08.C08_unknown_type_gsm",
    ]
    domains = [Domain("nas-rt", 300, 20000)]
    rule = ("nas-rt: for each of the 45 nasMessage structs (found by reflection over nas.GmmMessage/GsmMessage), messages built by "
            "reflection through the real Encode*/Decode* and PlainNasEncode/PlainNasDecode: all 2^k optional subsets for k<=10, "
            "empty/full/singletons/co-singletons + random subsets beyond; every length field at 0,1,capacity,255,256,65535; all 16 "
            "value nibbles of half-octet IEs; shuffled optional order; messages outside MsgWF; decode of every prefix of a full message, "
            "byte mutations and random strings; message type octets 0..255 under both EPDs. IEIs are found by probing the real decoder. "
            "non-trivial = accepted call whose op line carries at least one optional IE or a non-empty variable-length field; distinct by op line")
    trusted_base = [
        "gen nasie / gen naslayout (go/ast translators with explicit grammars, fail closed) produce Gen/NasLayouts.lean",
        "Model/NasCodec.lean mirrors bytes.Buffer + encoding/binary (Go 1.23: short reads consume the rest, leave the destination, error ignored); tied by corr nas-rt",
        "Go slices compare by contents (nil = empty); a message is its list of embedded IE structs (Iei, Len, Octet|Buffer)",
    ]
    assumptions = ["MsgWF: Iei fields carry the decode case's constant (0 for mandatory fields), Len = len(Buffer), Len <= capacity and zero tail for Octet[N] IEs"]
    partial_note = ("none: all four clauses are proved at full strength for every LayoutWF layout; the canonical language of a layout is "
                    "defined as the set of encodings of its MsgWF messages (mandatory part, each present optional IE once in table order)")
    level_text = ("Generic Lean theorems (every LayoutWF layout, every MsgWF message): decode(encode m) = m, encode(decode b) = b on the "
                  "canonical language, any permutation of the optional IEs decodes to the same message, PlainNasDecode(PlainNasEncode M) = M, "
                  "unknown message type / EPD -> error; LayoutWF for the 45 layouts regenerated from the source by decide.")

    def key(self, op, impl, model, spec):
        return "nas-rt:%s:%s" % (_msg(op), op.split(" ", 1)[0])

    def judge(self, op, impl, model, spec):
        if impl == "bad-op" or model == "bad-op":
            return ("corr", "harness/driver could not parse the op")
        name = op.split(" ", 1)[0]
        v = None
        if name == "nmrt" and spec == "wf":
            want = " ".join(op.split(" ")[2:])
            if not impl.startswith("ok ") or " | " not in impl + " ":
                v = "encode/decode of a well-formed message failed"
            else:
                got = impl[3:].split(" | ", 1)[1].strip() if " | " in impl else ""
                if got != want:
                    v = "decode(encode m) != m for a well-formed message"
        elif name == "nmre" and spec == "canon":
            want = op.split(" ")[2]
            if not impl.startswith("ok ") or impl.rsplit(" | ", 1)[-1].strip() != want:
                v = "encode(decode b) != b for a canonical byte string"
        elif name == "nmperm" and spec == "wf":
            parts = impl[3:].split(" | ") if impl.startswith("ok ") else []
            if len(parts) != 2 or parts[0].strip() != parts[1].strip():
                v = "a permutation of the optional IEs decodes differently from the canonical order"
        elif name == "nmpdec" and spec == "err":
            if impl != "err":
                v = "unknown message type / EPD not reported as an error"
        elif name == "nmpdec" and spec.startswith("ok ") and impl == "err":
            v = "known message type refused"
        elif name == "nmpre2":
            # self-checking: a Message object that held another message before encodes its present contents
            if impl.startswith("ok diff") or impl in ("panic", "hang"):
                v = "a Message object that was decoded into before does not encode its present contents"
            if v:
                return ("viol", self.key(op, impl, model, spec), v)
            return None
        if v:
            return ("viol", self.key(op, impl, model, spec), v)
        if impl != model:
            return ("corr", "implementation differs from the model")
        return None

    def nontrivial(self, op, impl):
        return impl.startswith("ok") and len(op) > 48
