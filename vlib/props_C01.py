from .check import Prop, Domain
from .props import reg


def convo_split(model):
    """model column = '<transcript> | <verdict on the model's transcript>'"""
    mt, sep, mv = model.partition(" | ")
    return mt, mv


def convo_key(spec):
    """finding key of a refusal: the distinct failing clauses (without the uplink index), sorted, joined by '+'"""
    names = sorted({tok.split(":", 1)[1] for tok in spec.split(" ")[1:] if ":" in tok})
    return "convo:" + "+".join(names)


def convo_judge(prop, op, impl, model, spec):
    if impl == "bad-op" or model == "bad-op":
        return ("corr", "harness/driver could not parse the op")
    if impl.startswith("stale "):
        return ("corr", "the implementation no longer produces the transcript the op line carries (re-generate the corpus line): " + impl[6:200])
    if not impl.startswith("exit="):
        return ("corr", "the run did not produce an outcome: " + impl[:200])
    mt, mv = convo_split(model)
    # the reference AMF judges the IMPLEMENTATION's transcript (carried by the op line)
    if spec.startswith("refuse"):
        return ("viol", convo_key(spec), "the reference AMF does not accept the implementation's transcript: " + spec[:400])
    if spec != "accept":
        return ("corr", "no verdict from the reference AMF: " + spec[:200])
    if impl != mt:
        return ("corr", "implementation differs from the model (uplink octets / reported values / exit status)")
    if mv != spec:
        return ("corr", "the reference AMF judges the model's transcript differently: " + mv[:200])
    return None


WITNESS_IMPL = "Stgutg.Proofs.EmulatorWitnessImpl"
WITNESS_IMPL_THEOREMS = ["Stgutg.Proofs.EmulatorWitness." + t for t in [
    "reg1_model_eq_impl", "reg1_accepted", "life1_model_eq_impl", "life1_accepted", "life1_reports_are_assigned"]]


def witness_impl_stage(ctx):
    """thorough tier only (about ten minutes of kernel evaluation when not cached): the model, with the executable crypto,
    reproduces octet for octet two recorded implementation transcripts, and the reference AMF accepts them"""
    if ctx.tier != "thorough":
        return
    from . import core
    with core.Lock():
        ok, out = core.lake_build([WITNESS_IMPL])
        if not ok:
            ctx.corr_breaks.append(dict(kind="correspondence", domain="witness", op="(lake build %s)" % WITNESS_IMPL, impl=out[-800:],
                                        model="", spec="", why="the kernel-level tie on the recorded transcripts no longer checks: "
                                        "the model no longer produces the recorded implementation octets (re-record after a repair "
                                        "that changes the wire octets) or the reference AMF refuses them"))
            return
        res = core.audit(WITNESS_IMPL, WITNESS_IMPL_THEOREMS)
    for t, (st, detail) in res.items():
        ctx.obligations += 1
        if st == "ok":
            ctx.discharged += 1
        else:
            ctx.proof_breaks.append("theorem %s: %s %s" % (t, st, detail))
    ctx.notes.append("thorough: %s kernel-checked (model = recorded implementation octets; reference AMF accepts)" % WITNESS_IMPL)


@reg
class C01(Prop):
    id = "C01"
    title = "NG Setup + UE registration is accepted by a conformant AMF"
    lean_module = "Stgutg.Props.C01"
    extra_modules = ["Stgutg.Props.Glue.names", "Stgutg.Props.Glue.stgutg_ManageNGSetup", "Stgutg.Props.Glue.stgutg_RegisterUE", "Stgutg.Props.Glue.stgutg_CreateUE", "Stgutg.Props.Glue.stgutg_ManageError", "Stgutg.Props.Glue.tglib_GetNGSetupRequest", "Stgutg.Props.Glue.tglib_GetInitialUEMessage", "Stgutg.Props.Glue.tglib_GetUplinkNASTransport", "Stgutg.Props.Glue.tglib_GetInitialContextSetupResponse", "Stgutg.Props.Glue.tglib_RanUeContext_DeriveRESstarAndSetKey", "Stgutg.Props.Glue.tglib_NewRanUeContext", "Stgutg.Props.Glue.tglib_RanUeContext_GetUESecurityCapability", "Stgutg.Props.Glue.tglib_RanUeContext_Get5GMMCapability", "Stgutg.Props.Glue.tglib_GetAuthSubscription", "Stgutg.Props.C02Traffic", "Stgutg.Props.C01Transport", "Stgutg.Proofs.GenTieNas", "Stgutg.Gen.PureSelftestRich"]
    gen = ["schema", "registry", "templates", "nasie", "naslayout", "nassetters", "extract", "script", "tables", "traffic", "transport", "procs", "pure-count", "pure-nasprot", "pure-selftest"]
    theorems = ["Stgutg.Proofs.GenTie.Nas.NASEncode_eq", "Stgutg.Proofs.GenTie.Nas.EncodeNasPduWithSecurity_eq", "Stgutg.Proofs.GenTie.Nas.NASDecode_eq", "Stgutg.Proofs.GenTie.Nas.GetNasPdu_eq"] + ["Stgutg.Props.GluePinned." + t for t in [
        # the glue functions this property depends on are still the text the models were written from (gen procs)
        "names", "stgutg_ManageNGSetup", "stgutg_RegisterUE", "stgutg_CreateUE", "stgutg_ManageError", "tglib_GetNGSetupRequest", "tglib_GetInitialUEMessage", "tglib_GetUplinkNASTransport", "tglib_GetInitialContextSetupResponse", "tglib_RanUeContext_DeriveRESstarAndSetKey", "tglib_NewRanUeContext", "tglib_RanUeContext_GetUESecurityCapability", "tglib_RanUeContext_Get5GMMCapability", "tglib_GetAuthSubscription"]] + ["Stgutg.Props.C01Transport." + t for t in [
        # tglib.ConnectToAmf (bypassed by the verif hook, never executed by a run): endpoints and NGAP PPID from the source
        "C01_transport_facts", "C01_transport_endpoints", "C01_transport_ppid"]] + ["Stgutg.Props.C02Traffic." + t for t in [
        # traffic mode (not runnable here) performs NG Setup and registers UE 0 … N−1 exactly as test mode does
        "C02_traffic_structure", "C02_traffic_is_test_mode"]] + ["Stgutg.Props.C01." + t for t in [
        "autn_take6", "C01_res_star", "table_authenticationResponse", "C01_authentication_response_accepted",
        "C01_wrong_res_star_refused", "C01_registration_protected", "C01_suci", "C01_plmn", "C01_security_capability",
        "isMessage_of_shaped", "C01_ngap_initial_ue_message", "C01_ngap_uplink_nas_transport",
        "C01_ngap_initial_context_setup_response", "C01_amf_sees_built_pdu", "C01_builder_seen",
        "C01_ng_setup_request_seen", "C01_initial_ue_message_seen", "C01_uplink_nas_transport_seen",
        "C01_initial_context_setup_response_seen", "C01_step_ng_setup_request", "C01_step_initial_ue_message",
        "C01_step_uplink_nas_transport", "C01_step_initial_context_setup_response", "C01_step_authentication_response",
        "onProtected_registrationComplete", "C01_step_registration_complete", "onRegistrationRequest_ok",
        "C01_step_registration_request", "onProtected_securityModeComplete", "C01_step_security_mode_complete",
        "run_clean_step", "C01_registration_script_accepted", "C01_subscriber_identified", "secCapVal_shape",
        "registrationRequest_short", "C01_registration_accepted_for_config", "vector_resStar_length", "C01_keys_in_step", "C01_accepted_partial", "C01_accepted_for_downlink", "C01_keys_of_network_challenge", "C01_accepted",
        "C01_registration_block", "C01_register_one", "C01_register_loop", "C01_accepted_n_for_downlink", "C01_dlReads_of_spec",
        "C01_accepted_n",
        "C01_accepted_witness",
    ]] + ["Stgutg.Proofs.Emulator." + t for t in ["protected_step", "receiveUl_of_receive", "amf_sees_built_pdu", "patchSchema_eq"]] + [
        "Stgutg.Proofs.BuildersPath." + t for t in ["inRange_ngSetupRequest", "inRange_initialUEMessage",
                                                    "inRange_uplinkNasTransport", "inRange_initialContextSetupResponse"]] + [
        "Stgutg.Proofs.BuildersJudge." + t for t in ["skeleton_seen", "step_ngSetupRequest", "step_initialUEMessage",
                                                     "step_uplinkNasTransport", "step_initialContextSetupResponse",
                                                     "ngSetupRequest_wire", "initialUEMessage_wire", "uplinkNasTransport_wire",
                                                     "initialContextSetupResponse_wire", "parse_header"]] + [
        "Stgutg.Proofs.EmulatorSubscriber." + t for t in ["subscriberOf_eq", "suci_of_created_ue_short", "parse_length"]] + [
        "Stgutg.Proofs.EmulatorRun." + t for t in ["manageNGSetup_run", "protect_ok", "registerUE_run", "emulate_run"]] + [
        "Stgutg.Proofs.EmulatorReencode.reenc_smc", "Stgutg.Proofs.EmulatorReencode.reenc_rc"] + [
        "Stgutg.Proofs.EmulatorDownlink." + t for t in ["ngap_roundtrip", "dnt_roundtrip", "ngsr_roundtrip", "icsReq_roundtrip",
                                                       "ar_decodes", "dnt_getNasPdu", "dl_some"]]
    domains = [Domain("convo-reg", 14, 80, tags="verif")]
    rule = ("convo-reg: whole NG Setup + registration conversations of the emulator in test mode against the scripted AMF of "
            "harness/peer (real NGAP/NAS built with free5gclib) over a SOCK_SEQPACKET socketpair: (proc) the procedures of package "
            "stgutg called in-process by a child of the harness in main's order and with main's Min clamps, and (bin) the real "
            "stgutgmain built with -tags verif. Configurations from the seed: MCC/MNC with 2 and 3 digits and leading zeros, MSIN "
            "of 5..10 digits incl. all-zero heads, K in upper/lower case, OPc only / OP only / both, gNB id of 22..32 bits, five "
            "shapes of gNB name, 1..3 UEs (thorough: ..6), registration counts 0 and negative; AMF choices: RAND, SQN, AMF field, "
            "ngKSI 0..6, AMF-UE-NGAP-ID among 0, 2^32, 2^40-1, 8/16/32/40-bit values (distinct per UE). Compared with the Lean "
            "model: exit status, banner, every uplink octet. The Lean reference AMF (Spec/Amf.lean) then judges the "
            "IMPLEMENTATION's transcript (incl. the complete Registration Request inside the NAS message container of Security Mode "
            "Complete): spec column = accept | refuse <uplink index:clause …>. non-trivial = a run that "
            "registered at least one UE (exit 0, more than one uplink message); distinct by op line")
    trusted_base = ["the scripted AMF harness/peer (downlink message builders over free5gclib, 5G-AKA vector derivation) produces "
                    "the downlink octets; the Lean judge derives its own vector from the choices and never reads the downlink",
                    "the verif hook in tglib.ConnectToAmf (adopts an inherited socket; the sandbox has no kernel SCTP)",
                    "proc mode re-states the test-mode branch of stg-utg.go in harness/cmd/corr/convo.go (same calls, clamps and "
                    "order, without main's sleeps); bin mode runs the unmodified main and must give the same uplink octets",
                    "the reference AMF finds the NGAP value with the library decoder's model and accepts it only when the X.691 "
                    "specification encoder (Spec/X691.lean, TS 38.413-constrained schema) maps it back to the received octets"]
    assumptions = ["the peer answers every read with a decodable NGAP message of the expected type (fail-stop behaviour is C19)",
                   "configuration: decimal IMSI of 3 + 2|3 + at least 5 digits that does not overflow its length over the UE "
                   "range, hexadecimal 16-octet K and OPc/OP, gNB id octets below 0x80 (yaml.v2 scalar resolution is C18)",
                   "N2 messages fit the 2048-octet receive buffer"]
    partial_note = ("Proved for all configurations / AMF choices, parametric in AES/HMAC/CMAC/CTR: RES* = XRES* and installed keys "
                    "= the network's vector (C01_res_star); Security Mode Complete under header type 4 / COUNT 0 and "
                    "Registration Complete under header type 2 / COUNT 1 pass the reference AMF's NAS-security clause "
                    "(C01_registration_protected); SUCI and NG Setup PLMN identify the configured subscriber / PLMN (C01_suci, "
                    "C01_plmn); capability announces the selected algorithms; each NGAP message built in the exchange is the TS "
                    "38.413 message of its step with mandatory IEs and the ids it was given (C01_ngap_*); for ALL in-range "
                    "arguments (gNB id 22..32 bits, AMF-UE-NGAP-ID < 2^40, RAN-UE-NGAP-ID < 2^32, 3-octet PLMN, any NAS-PDU) the "
                    "wrapper returns octets and the reference AMF decodes them to exactly the built PDU (C01_*_seen: the ConfPdu / "
                    "regular hypotheses of C01_amf_sees_built_pdu are discharged by C13's static analysis). Threaded through the "
                    "judge (Spec.Amf.step), message by message, each raising NO clause (NGAP and NAS) and moving the judge's state: "
                    "NG SETUP REQUEST, REGISTRATION REQUEST in INITIAL UE MESSAGE, AUTHENTICATION RESPONSE, SECURITY MODE COMPLETE "
                    "(header type 4, COUNT 0, MAC, container = complete Registration Request of the same subscriber), INITIAL "
                    "CONTEXT SETUP RESPONSE, REGISTRATION COMPLETE (header type 2, COUNT 1, REGISTERED) - C01_step_*; and folded: "
                    "C01_registration_script_accepted: Spec.Amf.judge = accept on the six-message uplink script of NG Setup + one "
                    "registration, for all configurations and AMF choices in range (gNB id 22..32 bits, RAN-UE-NGAP-ID < 2^32, "
                    "AMF-UE-NGAP-ID < 2^40, any SUCI / capability values announcing the selected algorithms, any RAND/SQN/keys). "
                    "C01_registration_accepted_for_config: the same with the SUCI and capability the emulator really builds "
                    "(CreateUE, EncodeSuci, GetUESecurityCapability) and the judge's subscriber identification proved "
                    "(C01_subscriber_identified: the reference AMF's decimal arithmetic = the emulator's, distinct UEs have distinct "
                    "MSINs), for every decimal IMSI configuration with a 2- or 3-digit MNC. C01_accepted_for_downlink / "
                    "C01_accepted_partial (the former with every uplink-side hypothesis discharged): the statement "
                    "THROUGH emulate for one registration - Proofs/EmulatorRun.lean executes the emulator model symbolically "
                    "(manageNGSetup_run, registerUE_run, emulate_run: it writes exactly these six messages and completes) and "
                    "judge (emulate cfg dls).uls = accept follows, with the DOWNLINK side as hypotheses (DlReads): the five "
                    "downlink messages are decodable, the first DOWNLINK NAS TRANSPORT carries the chosen AMF-UE-NGAP-ID and an "
                    "Authentication Request from whose AUTN/RAND DeriveRESstarAndSetKey obtains the vector's RES* and keys "
                    "(C01_keys_of_network_challenge: proved from C01_res_star when the AUTN/RAND read are the network's); the PlainNasDecode/PlainNasEncode re-encoding inside "
                    "EncodeNasPduWithSecurity is proved to reproduce the two constructor outputs (reenc_smc, reenc_rc: C08). C01_accepted (one UE) and C01_accepted_n (N <= 10 000 UEs, the "
                    "registration loop): the DOWNLINK side is no longer a hypothesis - Spec/AmfDownlink.lean specifies the "
                    "conformant AMF's five downlink messages per UE (Spec.AmfDl.dl: NG SETUP RESPONSE, DOWNLINK NAS TRANSPORT "
                    "[Authentication Request with the vector's RAND/AUTN], DOWNLINK NAS TRANSPORT[protected Security Mode Command], "
                    "INITIAL CONTEXT SETUP REQUEST[protected Registration Accept], DOWNLINK NAS TRANSPORT[protected Configuration "
                    "Update Command]) with the X.691 / TS 24.501 SPECIFICATION encoders (byte-identical to the recorded peer "
                    "messages on the witness configuration), DlReads is proved for it (C01_dlReads_of_spec: NGAP round trips of "
                    "the three downlink shapes in Proofs/EmulatorDownlink.lean, the emulator reads AUTN/RAND of the spec-encoded "
                    "Authentication Request: ar_decodes), and judge (emulate cfg (d1 :: per-UE dl)).uls = accept follows. "
                    "Remaining hypotheses of C01_accepted / C01_accepted_n: well-formed configuration and AMF choices (as before), "
                    "that Spec.AmfDl.dl is defined (the three protected NAS messages exist: the primitives' outputs have the "
                    "lengths the specification encoders need), every downlink message fits the emulator's 2048-octet read buffer, "
                    "N <= 10 000 (C16's distinct-id range), and nothing is requested after registration (the procedures after it "
                    "are C02's: C02_script_accepted). The executable reference AMF judges "
                    "every real transcript of the correspondence run; C01_accepted_witness evaluates one conversation in the kernel. "
                    "Traffic mode (no -t) needs XDP and is not run; its branch of main is tied structurally: gen traffic extracts its "
                    "signalling skeleton on every run and C02_traffic_is_test_mode shows it makes the calls of test mode with counts "
                    "(N, N, 0, N, N) for the same UEs in the same order.")
    level_text = ("Lean theorems for all configurations and AMF choices about an executable model of ManageNGSetup / RegisterUE / "
                  "test mode (per-clause composition of C05, C06, C11, C13, C16 against the reference AMF of Spec/Amf.lean); model "
                  "tied to the code by whole-conversation differential runs (real binary and in-process procedures); the "
                  "reference AMF judges every real transcript")
    level_note = ("judge (emulate cfg (dl cfg choices)) = accept is a theorem for N <= 10 000 registrations, all configurations "
                  "and AMF choices, dl = the specification-encoded downlink of a conformant AMF (C01_accepted_n; hypotheses: dl "
                  "defined, messages within the 2048-octet read buffer); end-to-end acceptance is also evaluated per real "
                  "transcript; hand model tied differentially")
    technique = "Lean 4 proof (per-clause) + whole-conversation correspondence + executable reference AMF as oracle"

    def key(self, op, impl, model, spec):
        return convo_key(spec) if spec.startswith("refuse") else "convo"

    def judge(self, op, impl, model, spec):
        return convo_judge(self, op, impl, model, spec)

    def nontrivial(self, op, impl):
        return impl.startswith("exit=0") and impl.count(",") >= 5

    def extra(self, ctx):
        witness_impl_stage(ctx)
