from .check import Prop, Domain
from .props import reg


@reg
class C04(Prop):
    id = "C04"
    title = "NGAP decode inverts encode, and re-encode reproduces the bytes"
    lean_module = "Stgutg.Props.C04"
    gen = ["schema", "registry"]
    theorems = [
        "Stgutg.Props.C04.constrained_whole_number", "Stgutg.Props.C04.length_determinant",
        "Stgutg.Props.C04.integer_roundtrip", "Stgutg.Props.C04.enumerated_roundtrip",
        "Stgutg.Props.C04.octet_string_roundtrip", "Stgutg.Props.C04.string_roundtrip",
        "Stgutg.Props.C04.bit_string_roundtrip", "Stgutg.Props.C04.fragmented_octets_roundtrip",
        "Stgutg.Proofs.AperRT.RT_octItems", "Stgutg.Proofs.AperRT.RT_bitItems", "Stgutg.Proofs.AperRT.RT_openItems",
        "Stgutg.Proofs.AperRT.RT_openType_any",
        "Stgutg.Props.C04.composite_roundtrip", "Stgutg.Props.C04.never_empty", "Stgutg.Props.C04.roundtrip_marshal",
        "Stgutg.Props.C04.ngap_schema_rtOK", "Stgutg.Props.C04.C04_roundtrip_pdu", "Stgutg.Props.C04.C04_reencode_pdu",
        "Stgutg.Props.C04.C04_roundtrip_container", "Stgutg.Props.C04.ngSetupRequest_conf",
        "Stgutg.Props.C04.ngSetupRequest_encodes",
    ]
    # aper-enc: the second clause speaks of encodings "produced by an independent X.691 encoder". The library's decoder is run
    # on the library's own encodings (aper-rt); that these ARE the independent encoder's octets (the X.691 oracle under the
    # frozen TS 38.413 table, values mapped by component name) is what aper-enc compares, exactly as the theorems compose
    # (C04_roundtrip_pdu + C03 canonical). A codec that is self-consistent but not conformant (two components of a SEQUENCE
    # exchanged in one ngapType struct) is seen there.
    domains = [Domain("aper-rt", 600, 30000), Domain("aper-enc", 300, 10000)]
    rule = ("aper-rt: constraint-satisfying random values of NGAPPDU (60%), transfer containers (20%) and arbitrary ngapType types (20%), "
            "plus every leaf wrapper type at boundary values, strings of fragmented lengths (16383 … 131072 items) for every leaf string type "
            "with a general length and PDUs carrying one such string (fragmented open types), through Marshal -> Unmarshal -> field-by-field comparison (aperrt) and "
            "Unmarshal -> Marshal -> byte comparison of the library's own encodings (aperre); "
            "aper-enc (the generators of C03): the library's octets = the independent X.691 encoder's under the frozen TS 38.413 table, "
            "values mapped by component name; "
            "non-trivial = value with at least 12 tokens; distinct by op line")
    level_text = ("Round-trip theorems for the codec model (decode inverts encode) + differential run of the real encoder/decoder "
                  "on type-directed random values of every message type; every field compared")
    technique = "Lean 4 round-trip theorems on the model + differential round trips on the real codec"

    def key(self, op, impl, model, spec):
        t = op.split(" ")
        return "%s:%s:%s" % (t[0], t[1], " ".join(impl.split(" ")[:1] + impl.split(" ")[2:3]))

    def judge(self, op, impl, model, spec):
        if impl == "bad-op" or model == "bad-op":
            return ("corr", "harness/driver could not parse the op")
        parts = impl.split(" ")
        if not (op.startswith("aperrt") or op.startswith("aperre")):
            # aper-enc ops: the library's octets against the independent encoder's
            if spec not in ("n/a", "undef") and impl != spec:
                return ("viol", self.key(op, impl, model, spec), "the library's encoding is not the independent X.691 encoder's: "
                        "the conformant encoding of this value denotes another value to the library's decoder")
        if op.startswith("aperrt"):
            if parts[0] == "decerr":
                return ("viol", self.key(op, impl, model, spec), "the library cannot decode its own encoding of a value it accepted")
            if parts[0] == "ok" and len(parts) > 2 and parts[2] == "diff":
                return ("viol", self.key(op, impl, model, spec), "decode(encode v) differs from v")
            if parts[0] in ("panic", "hang"):
                return ("viol", self.key(op, impl, model, spec), "codec %s" % parts[0])
        if op.startswith("aperre"):
            if parts[0] == "ok" and len(parts) > 1 and parts[1] == "diff":
                return ("viol", self.key(op, impl, model, spec), "re-encoding a decoded canonical encoding gives different octets")
            if parts[0] in ("encerr", "panic", "hang"):
                return ("viol", self.key(op, impl, model, spec), "decoded value of a canonical encoding cannot be re-encoded")
        if impl != model:
            return ("corr", "implementation differs from the model")
        return None

    def nontrivial(self, op, impl):
        return len(op.split(" ")) >= 14 or (op.startswith("aperre") and len(op) > 40)
