from .check import Prop, Domain
from .props import reg


def _first_diff(op, impl, other):
    """index and step token of the first output token on which two result columns differ"""
    steps = op.split(" ")[7:]
    a, b = impl.split(" ")[1:], other.split(" ")[1:]
    for i, (x, y) in enumerate(zip(a, b)):
        if x != y:
            return i, (steps[i] if i < len(steps) else "")
    return None, ""


@reg
class C06(Prop):
    id = "C06"
    title = "Uplink NAS protection is correct over any message history"
    lean_module = "Stgutg.Props.C06"
    extra_modules = ["Stgutg.Proofs.GenTieCount", "Stgutg.Gen.PureSelftest", "Stgutg.Proofs.GenTieNas", "Stgutg.Gen.PureSelftestRich"]
    gen = ["tables", "pure-count", "pure-selftest", "pure-nasprot"]
    theorems = [
        # tie by translation: the eight methods of security.Count regenerated from counter.go ARE the hand model
        "Stgutg.Proofs.GenTie.Count.Count_methods_eq",
        # tie by translation: the NAS protection functions regenerated from security.go / packet.go / decode.go ARE the hand models
        "Stgutg.Proofs.GenTie.Nas.NASEncode_eq",
        "Stgutg.Proofs.GenTie.Nas.EncodeNasPduWithSecurity_eq",
        "Stgutg.Proofs.GenTie.Nas.NASEncode_noctx",
        "Stgutg.Proofs.GenTie.Nas.NASEncode_plain_fails",
        "Stgutg.Proofs.GenTie.Nas.EncodeNasPduWithSecurity_refused",
        "Stgutg.Proofs.GenTie.Nas.NASEncode_nil_ue",
        "Stgutg.Proofs.GenTie.Nas.NASEncode_nil_msg",
        "Stgutg.Props.C06.counter_ops",
        "Stgutg.Props.C06.sqn_overflow",
        "Stgutg.Props.C06.step_protects",
        "Stgutg.Props.C06.mac_is_nia_over_sqn_body",
        "Stgutg.Props.C06.body_ciphered_iff_type_2_4",
        "Stgutg.Props.C06.history_refines_spec",
        "Stgutg.Props.C06.count_nth_message",
        "Stgutg.Props.C06.count_from_start",
        "Stgutg.Props.C06.receiver_recovers_plain",
        "Stgutg.Props.C06.new_context_resets_counters",
        "Stgutg.Props.C06.plain_passthrough",
        "Stgutg.Props.C06.bytes_entry",
        "Stgutg.Props.C06.body_statement_fails_before_F8_fix",
        "Stgutg.Proofs.NasProtect.cryptoPrims_ok",
    ]
    domains = [Domain("sec-hist", 2000, 100000)]
    level_text = ("Lean theorems by induction over arbitrary uplink histories (no length bound), for every stored 32-bit counter "
                  "word (bit-vector lemmas): the model of NASEncode/EncodeNasPduWithSecurity emits exactly what the TS 24.501/33.501 "
                  "sender emits (COUNT n-1 for the n-th message since the context was taken into use, SQN/overflow split, MAC = "
                  "128-NIA over SQN||body with BEARER 1/uplink, body ciphered iff header type 2/4), the conformant receiver recovers "
                  "the plain message, new context resets both counters, no context = unchanged; parametric in AES-CTR/CMAC; model "
                  "tied to tglib/security.go and counter.go by differential runs over generated histories and a sweep of all 2^24 "
                  "counter values; F8 found by the check, repaired in /repo, its witness kept as a refuted statement and a corpus replay")
    rule = ("sec-hist: one case = one uplink history (<= 40 steps) through the real tglib.EncodeNasPduWithSecurity / tglib.NASEncode "
            "on one RanUeContext: start counts via ULCount.Set at 0, 250..260, 65530.., 2^24-3.. and random, interleaved "
            "new-context resets and no-context sends, header types 1..4, all {NEA0,1,2}x{NIA1,2} pairs, plain messages from the "
            "nasTestpacket constructors (codec round trip re-checked per step); a 4% stream with unsupported algorithm ids, header "
            "types outside 1..4 and stored words >= 2^24 (specification 'undef', model only). Plus cntsweep: every Count "
            "operation on boundary windows, random windows and a strided pass over all 32 bits (thorough: every one of the 2^24 "
            "values) compared as a digest against the model and against the arithmetic meaning. non-trivial = accepted history "
            "with at least one protected message, or a sweep; distinct by op line")
    trusted_base = ["TIE BY TRANSLATION of the NAS protection layer (gen pure-nasprot, harness/cmd/gen/pure*.go incl. pure_nas.go -> lean/Stgutg/Gen/PureNasProt.lean, regenerated from the source text on every run): tglib.NASEncode, tglib.NASDecode, tglib.EncodeNasPduWithSecurity, tglib.GetNasPdu, nas.NewMessage, nas.GetSecurityHeaderType, with the methods of security.Count taken from Gen/PureCount.lean. Theorems Proofs.GenTie.Nas.NASEncode_eq (for EVERY UE context, message header, plain octets and both flags: generated = Model.NasProtect.nasEncode, state and outcome), EncodeNasPduWithSecurity_eq, plus what the code does outside the hand model's domain (NASEncode_noctx, NASEncode_plain_fails, EncodeNasPduWithSecurity_refused, nil ue / nil msg). Trusted here instead of sampling: the extended grammar of the translator (described at the top of harness/cmd/gen/pure.go): *RanUeContext as state that is returned with every outcome incl. error and panic; pointers as Option with nil guards; structs trimmed to the fields the group selects (a struct handed to a library call keeps all its plain fields, the rest is one opaque component); library calls (msg.PlainNasEncode, msg.PlainNasDecode, security.NASEncrypt, security.NASMacCalculate, reflect.DeepEqual) as fields of the record Lib, ASSUMED to be functions of the VALUES of their operands with the declared effects only (NASEncrypt: payload overwritten IN PLACE = a rebinding of the payload variable, accepted only because the translator's alias classes show that no other live variable can share its storage; PlainNasDecode: receiver replaced, octets read only; every returned slice is fresh; PlainNasEncode returns non-nil octets when it returns no error); the tie instantiates Lib with the hand model's own parameters (Prims through Model.NasAlg.nasEncrypt/nasMac; ARBITRARY plain encoder / decoder / DeepEqual; PlainNasDecode panics on no octets). NOT described by the tie, as by the hand model: what NASDecode / GetNasPdu leave in the caller's octets (they decipher in place inside the received NGAP message), messages printed, nil-ness of returned slices. x[a:b] is accepted only where the next statement forces b <= len(x) (payload[0:6]; payload[6]), see checkRich in pure_nas.go; the extended grammar and its runtime are checked against the Go compiler on every run: gen pure-selftest also translates harness/cmd/gen/pureselftest/rich.go (every new construct, with stand-in library functions transcribed to Lean) and writes the outcomes of EXECUTING the compiled functions beside the translation (Gen/PureSelftestRich.lean: 549 calls, 146 of them panics, each with the object behind the pointer parameter as it is when the call ends or panics, incl. a slice left half overwritten by a failing in-place call, as kernel-checked equalities)",
                    "TIE BY TRANSLATION (gen pure-count, harness/cmd/gen/pure*.go -> lean/Stgutg/Gen/PureCount.lean, regenerated from the source text on every run): security.Count: maskTo24Bits, Get, AddOne, SQN, SetSQN, Overflow, SetOverflow, Set (pointer receiver threaded as a value). The theorems GenTie.Count.Count_methods_eq prove generated definition = hand model for ALL inputs, so a change of the Go text changes the generated definition and the theorem stops checking, whatever input would show it. Trusted here instead of sampling: the translator's grammar and its runtime Gen/PureRt.lean (Go's fixed-width arithmetic, index / slice panics, value semantics of slices under the translator's no-alias check, go/types constant evaluation); a construct outside the grammar fails closed (TRANSLATOR-FAILED file:line); the translator and its runtime are themselves checked against the Go compiler on every run: gen pure-selftest translates harness/cmd/gen/pureselftest/fns.go and writes the results of EXECUTING the compiled functions beside the translation (Gen/PureSelftest.lean: 97 calls incl. wrap-around, MinInt / -1, division by zero, index / slice panics, shadowing, break / continue, receiver mutation, as kernel-checked equalities)",
                    "crypto/aes, cipher.NewCTR, github.com/aead/cmac are parameters of the theorems (Prims); the receiver theorem "
                    "assumes the CTR primitive is a keystream cipher (ctr k iv m = m xor stream k iv |m|), shown satisfiable; "
                    "Crypto/Aes.lean instantiates the primitives for the comparator only",
                    "the plain NAS codec (PlainNasEncode/PlainNasDecode) is outside the model: plain octets are an input "
                    "(C08 covers the codec); the harness re-checks decode/re-encode identity on every submitted message"]
    assumptions = ["ue and msg are non-nil; KnasEnc/KnasInt are [16]byte",
                   "PlainNasEncode of the submitted message succeeds and yields the submitted octets (checked per step by the harness)"]
    partial_note = ("ciphers and MAC primitives are parameters; the plain codec is an input; the statement about the code before "
                    "commit F8 is kept as a refuted Prop (body_statement_fails_before_F8_fix)")

    def key(self, op, impl, model, spec):
        t = op.split(" ")
        if t[0] != "ulhist":
            return t[0]
        i, st = _first_diff(op, impl, spec)
        f = st.split(",")
        if len(f) == 6:
            return "ulhist:sht%s:nea%s" % (f[2], t[3])
        return "ulhist:final-counters"

    def nontrivial(self, op, impl):
        if not impl.startswith("ok"):
            return False
        if op.startswith("cntsweep"):
            return True
        return any(s.split(",")[3:4] == ["1"] for s in op.split(" ")[7:])
