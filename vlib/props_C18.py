from .check import Prop, Domain
from .props import reg


@reg
class C18(Prop):
    id = "C18"
    title = "Configuration file and command line reach the procedures unchanged"
    lean_module = "Stgutg.Props.C18"
    extra_modules = ["Stgutg.Props.Glue.stgutg_GetMode", "Stgutg.Props.Glue.stgutg_ManageError", "Stgutg.Props.Glue.stgutg_Min", "Stgutg.Props.C01Transport", "Stgutg.Proofs.GenTieMin"]
    gen = ["wiring", "transport", "pure-min", "procs"]
    theorems = ["Stgutg.Props.GluePinned." + t for t in [
        # the glue functions this property depends on are still the text the models were written from (gen procs)
        "stgutg_GetMode", "stgutg_ManageError", "stgutg_Min"]] + ["Stgutg.Props.C01Transport." + t for t in [
        # the two addresses and two ports, once received by ConnectToAmf, reach sctp.DialSCTP as remote / local endpoint unchanged
        # (the resolved address is appended as it is: `*ip`, zone included)
        "C01_transport_facts", "C01_transport_endpoints"]] + [
        # stgutg.Min (the clamps of the five repetition counts) tied by translation
        "Stgutg.Proofs.GenTie.Min.Min_eq_config"] + ["Stgutg.Props.C18." + t for t in [
        "C18_keys", "C18_keys_spec", "C18_readme_keys",
        "C18_wiring", "C18_wiring_params", "C18_wiring_complete",
        "C18_repetitions", "C18_repetitions_complete", "goMin_spec", "C18_every_key_reaches",
        "C18_mode_traffic", "C18_mode_test", "C18_mode_other", "C18_mode_spec", "C18_main_shape",
        "getMode_reads_process_args",
    ]]
    domains = [Domain("config", 400, 20000)]
    rule = ("config: generated config.yaml files written to a scratch directory and read by the real GetConfiguration "
            "(all 24 keys in random order / random subsets; strings plain, single- and double-quoted, leading zeros, "
            "\\xNN escapes in gnb_id incl. code points >= 0x80, integers at the width extremes, hexadecimal and "
            "underscore forms, trailing comments), every field compared with the value meant; every key shown in "
            "src/config.yaml or the README probed for acceptance; GetMode on all argument vectors of length 0..3 over "
            "a 7-word alphabet with os.Args set, plus vectors where the parameter differs from os.Args. "
            "non-trivial = a conf case or a getmode case; distinct by op line")
    trusted_base = ["gen wiring (go/ast over utils.go, stg-utg.go; line grammar for config.yaml and README.md) — its "
                    "input grammar is stated in harness/cmd/gen/wiring.go and it fails closed outside it",
                    "gopkg.in/yaml.v2 scalar resolution is not modelled; it is exercised by the config domain only"]
    assumptions = ["config.yaml is present and well-formed YAML (GetConfiguration discards read/parse errors and then "
                   "runs with zero values)",
                   "integer values fit the field's width (out-of-range values are left 0 by yaml.v2)"]
    partial_note = ("Proved: tag/documented-key bijection, the complete wiring and repetition tables for every assignment of "
                    "values (parametric in the value type), the command-line cases, over tables generated from the sources. "
                    "Not proved: yaml.v2's treatment of a scalar (external) — validated by the config correspondence domain; "
                    "what each procedure does with the parameter it receives is the business of C01/C11/C13 (e.g. the PLMN "
                    "in NG Setup and SUCI is taken from the digits of initial_imsi with only the *length* of mnc; mcc is used "
                    "for the serving network name only). The on-the-wire observation is left to the process-level checks.")
    level_text = ("Lean theorems over tables generated from the sources on every run (struct tags, documented keys, wiring of "
                  "main) + hand model of GetMode; YAML scalar resolution by differential run only")

    def key(self, op, impl, model, spec):
        t = op.split(" ")
        if t[0] == "dockey":
            return "dockey:" + t[1]
        if t[0] == "getmode":
            return "getmode:" + "/".join(t[2:2 + int(t[1])])
        return t[0]

    def nontrivial(self, op, impl):
        return op.startswith("conf ") or op.startswith("getmode ")
