from .check import Prop, Domain
from .props import reg


@reg
class C15(Prop):
    id = "C15"
    title = "Milenage library implements TS 35.206 and accepts exactly valid AUTNs"
    lean_module = "Stgutg.Props.C15"
    gen = []
    theorems = [
        "Stgutg.Props.C15.f1_eq_spec",
        "Stgutg.Props.C15.f2345_eq_spec",
        "Stgutg.Props.C15.opc_eq_spec",
        "Stgutg.Props.C15.generate_eq_spec",
        "Stgutg.Props.C15.check_eq_spec",
        "Stgutg.Props.C15.check_iff",
        "Stgutg.Props.C15.check_accept",
        "Stgutg.Props.C15.check_accepts_only_generated",
        "Stgutg.Props.C15.generate_check_inverse",
        "Stgutg.Props.C15.generate_check_stale",
        "Stgutg.Props.C15.resync",
        "Stgutg.Props.C15.auts_eq_spec",
        "Stgutg.Props.C15.auts_iff",
    ]
    domains = [Domain("milenage", 40, 1500)]
    rule = ("milenage: per base case (random K/OP/RAND/AMF, network SQN random or boundary) GenerateOPC, F1, F2345 (all and "
            "random nil-buffer masks), MilenageGenerate, Milenage_check of the valid AUTN against UE SQNs {equal, -1, +1, 0, "
            "2^48-1, differing only in octet 0, bit 47, bit 40, one later octet, random}, every single-bit corruption and "
            "single-octet corruptions (all 255 values for the first bases, +-1 and 3 random values otherwise) of the AUTN, "
            "the AUTS produced on resynchronisation and all its corruptions through Milenage_auts, a malformed-length stream, "
            "and the TS 35.208 set stored in TestGenAuthData; non-trivial = well-sized arguments and an ok result; distinct by op line")
    trusted_base = ["crypto/aes is a parameter of the theorems (Prims.aes, assumed to map 16-octet blocks to 16-octet blocks); "
                    "Crypto/Aes.lean instantiates it for the comparator only (FIPS-197 and TS 35.208 known answers)",
                    "output buffers are modelled as nil or fresh zeroed buffers of the documented size; slices have cap == len"]
    assumptions = ["K is 128 bits (aes.NewCipher would also accept 24/32-octet keys; never generated)",
                   "callers pass output buffers of the documented sizes (RES 8, CK/IK 16, AK 6, AUTN 16, AUTS 14, SQN 6)"]

    partial_note = ("proved for every 128-bit K/OPc/RAND, 48-bit SQN, 16-bit AMF and every kernel cipher mapping 16-octet blocks "
                    "to 16-octet blocks; argument slices of other lengths and nil/odd-sized output buffers are covered by the "
                    "model/implementation correspondence only")
    level_text = ("Lean theorems for all inputs, parametric in AES: f1,f1*,f2..f5*,OPc = TS 35.206; Milenage_check = 0 iff "
                  "MAC-A exact and SQN fresh; generate/check inverse; resynchronisation token accepted and yields the UE's SQN")

    SIZES = {"mil_f1": [16, 16, 16, 6, 2], "mil_f2345": [16, 16, 16], "mil_opc": [16, 16],
             "mil_gen": [16, 2, 16, 6, 16], "mil_check": [16, 16, 6, 16, 16], "mil_auts": [16, 16, 16, 14],
             "mil_ts19": [16, 16, 6, 2, 16]}

    def key(self, op, impl, model, spec):
        t = op.split(" ")
        if t[0] in ("mil_check", "mil_auts"):
            i, s = impl.split(" "), spec.split(" ")
            if len(i) > 1 and len(s) > 1 and i[1] != s[1]:
                return "%s:returned%s:expected%s" % (t[0], i[1], s[1])
        return t[0]

    def judge(self, op, impl, model, spec):
        if spec == "reject":
            # not an AUTN (wrong length): acceptance (return code 0) is the violation; error codes and traps are not
            if impl.startswith("ok 0 "):
                return ("viol", op.split(" ")[0] + ":accepted-malformed-autn",
                        "a token that is not a 16-octet AUTN was accepted (return code 0, RES/CK/IK handed out)")
            if impl != model:
                return ("corr", "implementation differs from the model")
            return None
        return Prop.judge(self, op, impl, model, spec)

    def nontrivial(self, op, impl):
        t = op.split(" ")
        sizes = self.SIZES.get(t[0])
        if not impl.startswith("ok") or sizes is None:
            return False
        return all((0 if a == "-" else len(a) // 2) == n for a, n in zip(t[1:], sizes))
