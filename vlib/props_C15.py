from .check import Prop, Domain
from .props import reg


@reg
class C15(Prop):
    id = "C15"
    title = "Milenage library implements TS 35.206 and accepts exactly valid AUTNs"
    lean_module = "Stgutg.Props.C15"
    gen = ["pure-milenage", "pure-selftest-mil"]
    extra_modules = ["Stgutg.Proofs.GenTieMilenage", "Stgutg.Gen.PureSelftestMil"]
    theorems = [
        "Stgutg.Props.C15.f1_eq_spec",
        "Stgutg.Props.C15.f2345_eq_spec",
        "Stgutg.Props.C15.opc_eq_spec",
        "Stgutg.Props.C15.generate_eq_spec",
        "Stgutg.Props.C15.check_eq_spec",
        "Stgutg.Props.C15.check_iff",
        "Stgutg.Props.C15.check_accept",
        "Stgutg.Props.C15.check_accepts_only_generated",
        "Stgutg.Props.C15.generate_check_inverse",
        "Stgutg.Props.C15.generate_check_stale",
        "Stgutg.Props.C15.resync",
        "Stgutg.Props.C15.auts_eq_spec",
        "Stgutg.Props.C15.auts_iff",
        "Stgutg.Proofs.GenTie.Milenage.os_memcmp_eq",
        "Stgutg.Proofs.GenTie.Milenage.milenageF1_eq",
        "Stgutg.Proofs.GenTie.Milenage.F1_eq",
        "Stgutg.Proofs.GenTie.Milenage.milenageF2345_eq",
        "Stgutg.Proofs.GenTie.Milenage.F2345_eq",
        "Stgutg.Proofs.GenTie.Milenage.GenerateOPC_eq",
        "Stgutg.Proofs.GenTie.Milenage.Milenage_auts_eq",
        "Stgutg.Proofs.GenTie.Milenage.Milenage_check_eq",
        "Stgutg.Proofs.GenTie.Milenage.MilenageGenerate_eq",
    ]
    domains = [Domain("milenage", 40, 1500)]
    rule = ("milenage: per base case (random K/OP/RAND/AMF, network SQN random or boundary) GenerateOPC, F1, F2345 (all and "
            "random nil-buffer masks), MilenageGenerate, Milenage_check of the valid AUTN against UE SQNs {equal, -1, +1, 0, "
            "2^48-1, differing only in octet 0, bit 47, bit 40, one later octet, random}, every single-bit corruption and "
            "single-octet corruptions (all 255 values for the first bases, +-1 and 3 random values otherwise) of the AUTN, "
            "the AUTS produced on resynchronisation and all its corruptions through Milenage_auts, a malformed-length stream, "
            "and the TS 35.208 set stored in TestGenAuthData; non-trivial = well-sized arguments and an ok result; distinct by op line")
    trusted_base = ["crypto/aes is a parameter of the theorems (Prims.aes, assumed to map 16-octet blocks to 16-octet blocks); "
                    "Crypto/Aes.lean instantiates it for the comparator only (FIPS-197 and TS 35.208 known answers)",
                    "output buffers are modelled as nil or fresh zeroed buffers of the documented size; slices have cap == len",
                    "TIE BY TRANSLATION (gen pure-milenage, harness/cmd/gen/pure_milenage.go = the BUFFER grammar of the pure-* translators -> "
                    "lean/Stgutg/Gen/PureMilenage.lean, regenerated from the source text of milenage.go on every run): os_memcmp, milenageF1, "
                    "milenageF2345, F1, F2345, GenerateOPC, MilenageGenerate, Milenage_check, Milenage_auts (every function of milenage.go that the hand model covers; Gsm_milenage and InsertData are neither modelled nor translated) are tied by theorems generated = hand model (Proofs/GenTieMilenage*.lean: os_memcmp_eq "
                    "for all slices and every count; milenageF1_eq / F1_eq / milenageF2345_eq / F2345_eq for ALL input lengths, every key, "
                    "each output buffer nil or of its documented size holding anything (a present buffer receives the model's value, a "
                    "NewCipher error leaves every buffer untouched, a trap is a trap); GenerateOPC_eq for all lengths; Milenage_auts_eq for all lengths, "
                    "SQN buffer of 6 fresh octets: return code and SQN as the model says; Milenage_check_eq for all lengths, IK/CK/RES/AUTS buffers fresh "
                    "and of the documented sizes, *res_len any value: return code, buffers and *res_len as the model says), so a change of the Go "
                    "text changes the generated definition and the theorem stops checking, whatever input would show it (MilenageGenerate_eq: all "
                    "input lengths, AUTN/IK/CK/AK/RES buffers fresh and of the documented sizes, *res_len any value). The differential domain "
                    "`milenage` stays as a second tie and covers what the hand model does not (odd-sized buffers). Trusted here instead of sampling: the "
                    "buffer grammar (header of pure_milenage.go) and its runtime Gen/PureRt.lean + Gen/PureRtBuf.lean: a slice parameter the "
                    "function writes is an OUT-PARAMETER returned with the Go results (nothing is said about buffers after a panic); ASSUMED "
                    "of external callers, as by the hand model: an out-parameter shares no storage with another slice argument and every "
                    "slice argument has cap == len (so x[a:b] traps exactly when b > len x); checked for the calls inside the group; nil-able "
                    "buffers as Option Bytes; counted loops as the fuel combinator Go.forLt (bound visible); copy(x[a:], ...) as Go.copyAt "
                    "(memmove); `f() != nil || g() != nil` with g's writes only when f returned nil. Library record Lib: aes.NewCipher, "
                    "cipher.Block.BlockSize / Encrypt (dst overwritten, nothing else changes), reflect.DeepEqual on non-nil slices are "
                    "parameters; the tie instantiates them by libOf over Prims.aes (a block = its key, nil after a NewCipher error; NewCipher "
                    "accepts 16/24/32-octet keys; Encrypt panics unless src and dst have 16 octets, then dst[0:16] = aes(key, src[0:16])) under "
                    "AesLen: aes returns 16 octets for 16-octet blocks (the assumption of the first line, for every key length NewCipher "
                    "accepts). The grammar and runtime are checked against the Go compiler on every run: gen pure-selftest-mil translates "
                    "harness/cmd/gen/pureselftest/buf.go (every construct, stand-in library transcribed to Lean) and writes the outcomes of "
                    "EXECUTING the compiled functions beside the translation (Gen/PureSelftestMil.lean: 822 calls, about half of them traps, "
                    "each with the Go results and every out-parameter afterwards, as kernel-checked equalities)"]
    assumptions = ["K is 128 bits (aes.NewCipher would also accept 24/32-octet keys; never generated)",
                   "callers pass output buffers of the documented sizes (RES 8, CK/IK 16, AK 6, AUTN 16, AUTS 14, SQN 6)"]

    partial_note = ("proved for every 128-bit K/OPc/RAND, 48-bit SQN, 16-bit AMF and every kernel cipher mapping 16-octet blocks "
                    "to 16-octet blocks; argument slices of other lengths and nil/odd-sized output buffers are covered by the "
                    "model/implementation correspondence only")
    level_text = ("Lean theorems for all inputs, parametric in AES: f1,f1*,f2..f5*,OPc = TS 35.206; Milenage_check = 0 iff "
                  "MAC-A exact and SQN fresh; generate/check inverse; resynchronisation token accepted and yields the UE's SQN")

    SIZES = {"mil_f1": [16, 16, 16, 6, 2], "mil_f2345": [16, 16, 16], "mil_opc": [16, 16],
             "mil_gen": [16, 2, 16, 6, 16], "mil_check": [16, 16, 6, 16, 16], "mil_auts": [16, 16, 16, 14],
             "mil_ts19": [16, 16, 6, 2, 16]}

    def key(self, op, impl, model, spec):
        t = op.split(" ")
        if t[0] in ("mil_check", "mil_auts"):
            i, s = impl.split(" "), spec.split(" ")
            if len(i) > 1 and len(s) > 1 and i[1] != s[1]:
                return "%s:returned%s:expected%s" % (t[0], i[1], s[1])
        return t[0]

    def judge(self, op, impl, model, spec):
        if spec == "reject":
            # not an AUTN (wrong length): acceptance (return code 0) is the violation; error codes and traps are not
            if impl.startswith("ok 0 "):
                return ("viol", op.split(" ")[0] + ":accepted-malformed-autn",
                        "a token that is not a 16-octet AUTN was accepted (return code 0, RES/CK/IK handed out)")
            if impl != model:
                return ("corr", "implementation differs from the model")
            return None
        return Prop.judge(self, op, impl, model, spec)

    def nontrivial(self, op, impl):
        t = op.split(" ")
        sizes = self.SIZES.get(t[0])
        if not impl.startswith("ok") or sizes is None:
            return False
        return all((0 if a == "-" else len(a) // 2) == n for a, n in zip(t[1:], sizes))
