import glob, os, shutil, signal, subprocess
from .check import Prop, Domain
from .props import reg
from . import core


def _fields(res):
    f = {}
    for tok in res.split(" "):
        if "=" in tok:
            k, v = tok.split("=", 1)
            f[k] = v
        elif tok.startswith("t<") or tok.startswith("t>="):
            f["t"] = tok
    return f


def _nat(x):
    return x if x > 0 else 0


def _where(t):
    """(procedure, index inside it) of read k / uplink k of the fault-free conversation, from the counts"""
    r, p, s, rel, d = (int(x) for x in t[2:7])
    kind, k = t[7], int(t[8])
    nr, npe = _nat(r), _nat(min(r, p))
    nsr, nrel, nd = _nat(min(min(r, p), s)), _nat(min(min(r, p), rel)), _nat(min(r, d))
    if kind == "closeul":
        segs = [("ngsetup", 1, 1), ("register", nr, 5), ("establish", npe, 2), ("service", nsr, 2), ("release", nrel, 3), ("deregister", nd, 2)]
    else:
        segs = [("ngsetup", 1, 1), ("register", nr, 4), ("establish", npe, 1), ("service", nsr, 1), ("release", nrel, 0), ("deregister", nd, 2)]
    for name, n, per in segs:
        if per and k < n * per:
            return name, k % per
        k -= n * per
    return "beyond", k


@reg
class C19(Prop):
    id = "C19"
    title = "Fail-stop when the AMF disappears or answers garbage"
    lean_module = "Stgutg.Props.C19"
    extra_modules = ["Stgutg.Props.Glue.stgutg_ManageError", "Stgutg.Props.Glue.stgutg_ManageNGSetup", "Stgutg.Props.Glue.stgutg_RegisterUE", "Stgutg.Props.Glue.stgutg_EstablishPDU", "Stgutg.Props.Glue.stgutg_ServiceRequest", "Stgutg.Props.Glue.stgutg_ReleasePDU", "Stgutg.Props.Glue.stgutg_DeregisterUE"]
    gen = ["script", "procs"]
    theorems = ["Stgutg.Props.GluePinned." + t for t in [
        # the glue functions this property depends on are still the text the models were written from (gen procs)
        "stgutg_ManageError", "stgutg_ManageNGSetup", "stgutg_RegisterUE", "stgutg_EstablishPDU", "stgutg_ServiceRequest", "stgutg_ReleasePDU", "stgutg_DeregisterUE"]] + ["Stgutg.Props.C19." + t for t in [
        "C19_epilogue", "C19_script_safe", "C19_every_read_and_write_checked", "C19_unchecked_decode_is_discarded",
        "C19_reads_per_procedure", "C19_ignored_read_follows_registration_complete",
        "C19_unchecked_builds_feed_checked_write", "C19_release_only_writes",
        "C19_failstop", "C19_failstop_peer_closes_between_messages", "C19_reads", "C19_read_count",
        "C19_ignored_reads", "C19_write_count", "C19_model_matches_skeleton", "C19_failstop_spec",
        "C19_failstop_close_after_uplink_spec",
    ]]
    domains = [Domain("failstop", 0, 40, tags="verif")]
    rule = ("failstop: the real stgutgmain (go build -tags verif from the working tree, test mode) against the scripted N2 peer "
            "over a SOCK_SEQPACKET socketpair, real NGAP/NAS downlink messages; quick = 1 UE, the fault-free run plus a fault at "
            "every downlink index x {close, undecodable ff ff ff, truncated valid message, decodable wrong message} and a close "
            "after every uplink index, plus clamped-count configurations; thorough = the same over 3 UEs, repetition counts "
            "above / below the UE count (zero and negative included), the shipped configuration, and random single faults over "
            "random counts. Compared: exit status, bucketed time-to-exit, banner, ManageError text, test headers, message "
            "counts, uplinks after the fault, the sequence of uplink NGAP/NAS message types. non-trivial = a run in which the "
            "fault was reached; distinct by op line")
    trusted_base = ["gen script (go/ast over src/stgutg/{ngsetup,ue,pdu,service}.go and the test-mode branch of stg-utg.go); its "
                    "input grammar is stated in harness/cmd/gen/script.go and it fails closed outside it",
                    "kernel socket semantics (EOF on a closed peer, EPIPE on a write to it), os.Exit and the scheduler are not "
                    "modelled; they are exercised by the failstop domain on AF_UNIX SOCK_SEQPACKET (the sandbox has no SCTP)",
                    "the scripted peer harness/peer (message builders over free5gclib) and the verif hook in tglib.ConnectToAmf"]
    assumptions = ["the peer either answers a read or closes the association (a peer that does neither is outside the fault model)",
                   "message builders and NAS protection do not fail because of what the peer sent (their errors are checked anyway, "
                   "except GetUplinkNASTransport after the Authentication Request and the builder in ServiceRequest, whose result "
                   "goes to a checked Write)",
                   "config.yaml is well-formed (C18); ngap.Decoder returns an error, never panics, on undecodable octets (C14)"]
    partial_note = ("Proved for all counts and all reply sequences over the script generated from the sources: a close at any read, "
                    "undecodable octets at any read but the one after Registration Complete, or a close between two uplink messages "
                    "(while a message is still to be sent) end the process with a non-zero status, without banner, without a "
                    "session reported afterwards and without any further read. Not modelled: kernel socket semantics, os.Exit, the "
                    "scheduler, real SCTP (association failure is seen as EOF/EPIPE on the adopted socket); a peer that neither "
                    "answers nor closes is outside the property's fault model; a close after the very last uplink message cannot be "
                    "noticed (the program does no further I/O); traffic mode (needs XDP) is not translated or run.")
    level_text = ("Lean theorems for all UE/repetition counts and all reply sequences over the I/O script generated from the "
                  "procedure drivers on every run (every read/write error reaches ManageError, no loop around a read); tied to the "
                  "real binary by process-level runs with a fault injected at every message index")
    level_note = ("socket/os.Exit/scheduler semantics trusted and exercised only by the process-level runs; the script translator "
                  "is part of the trusted base (fails closed outside its grammar)")
    technique = "Lean 4 proof over a generated I/O script + process-level fault-injection correspondence"

    def key(self, op, impl, model, spec):
        t = op.split(" ")
        proc, idx = _where(t)
        return "failstop:%s:%d:%s" % (proc, idx, t[7])

    def judge(self, op, impl, model, spec):
        if impl == "bad-op" or model == "bad-op":
            return ("corr", "harness/driver could not parse the op")
        if not impl.startswith("exit="):
            return ("corr", "the run did not produce an outcome: " + impl)
        f = _fields(impl)
        if spec == "demand":
            why = []
            if f.get("exit") in ("0", "hang"):
                why.append("exit status %s after the fault" % f.get("exit"))
            if f.get("banner") != "0":
                why.append("completion banner printed after the fault")
            if f.get("t") != "t<5s":
                why.append("no exit within 5 s of the fault")
            seq = f.get("seq", "-").split(",")
            n_after = int(f.get("after_fault_ul", "0") or 0)
            if n_after and any(x.startswith("PSS") for x in seq[len(seq) - n_after:]):
                why.append("a PDU session was set up after the fault")
            if why:
                return ("viol", self.key(op, impl, model, spec), "; ".join(why))
        if impl != model:
            return ("corr", "implementation differs from the model")
        return None

    def nontrivial(self, op, impl):
        t = op.split(" ")
        return t[7] != "none" and _where(t)[0] != "beyond" and impl.startswith("exit=")

    def extra(self, ctx):
        # the stand-alone peer CLI (used by hand and by C01/C02 tooling) must keep building against the working tree
        ok, se = core.go_build("peer", os.path.join(core.BIN, "peer"), tags="verif")
        if not ok:
            ctx.corr_breaks.append(dict(kind="correspondence", domain="failstop", op="(go build ./cmd/peer)", impl=se[-500:],
                                        model="", spec="", why="the peer CLI no longer builds"))
        # no stray emulator processes, no scratch directories
        try:
            out = subprocess.run(["pgrep", "-f", "stgutgmain-verif -t"], stdout=subprocess.PIPE, text=True).stdout.split()
        except OSError:
            out = []
        run_root = os.path.join(core.BUILD, "run")
        mine = []
        for pid in out:
            try:
                cwd = os.readlink("/proc/%s/cwd" % pid)
            except OSError:
                continue
            if cwd.startswith(run_root + os.sep):
                # scratch directories are named <pid of the peer that started the emulator>-…: only orphans are killed
                # (another check may be running its own conversations at the same time)
                owner = cwd[len(run_root) + 1:].split(os.sep, 1)[0].split("-", 1)[0]
                if not (owner.isdigit() and os.path.exists("/proc/" + owner)):
                    mine.append(int(pid))
        for pid in mine:
            try:
                os.kill(pid, signal.SIGKILL)
            except OSError:
                pass
        if mine:
            ctx.notes.append("killed %d emulator process(es) left behind by the runs" % len(mine))
        # scratch directories are named <pid of the peer>-…; remove those whose owner is gone (other checks may be running)
        for d in glob.glob(os.path.join(run_root, "*")):
            owner = os.path.basename(d).split("-", 1)[0]
            if not (owner.isdigit() and os.path.exists("/proc/" + owner)):
                shutil.rmtree(d, ignore_errors=True)
