from .check import Prop, Domain
from .props import reg


@reg
class C14(Prop):
    id = "C14"
    title = "NGAP decoding is total: error or value, never a crash or hang"
    lean_module = "Stgutg.Props.C14"
    gen = ["schema", "registry"]
    theorems = [
        "Stgutg.Props.C14.schema_ok", "Stgutg.Props.C14.pdu_in_schema", "Stgutg.Props.C14.decoder_params_ok",
        "Stgutg.Props.C14.fuel_gt", "Stgutg.Props.C14.decoder_total", "Stgutg.Props.C14.unmarshal_total",
        "Stgutg.Props.C14.decoder_consumes",
        "Stgutg.Proofs.AperTotal.DOK_decField", "Stgutg.Proofs.AperTotal.unmarshal_good",
        "Stgutg.Props.C14.cost_model_projection", "Stgutg.Props.C14.alloc_table", "Stgutg.Props.C14.steps_table",
        "Stgutg.Props.C14.cost_bound", "Stgutg.Props.C14.C14_alloc_bound", "Stgutg.Props.C14.C14_step_bound",
        "Stgutg.Props.C14.C14_alloc_bound_any", "Stgutg.Props.C14.C14_step_bound_any",
        "Stgutg.Props.C14.overclaim_example", "Stgutg.Props.C14.valid_example",
    ]
    domains = [Domain("aper-dec", 400, 8000)]
    rule = ("aper-dec: valid encodings of random NGAP PDUs / transfer containers (type-directed generator over the real ngapType structs), "
            "every ~5% prefix, 12 single bit/byte corruptions incl. adversarial length/count octets (0x00 0x7f 0x80 0xbf 0xc1 0xc4 0xff), "
            "appended garbage, and random strings, through ngap.Decoder / aper.UnmarshalWithParams; "
            "non-trivial = input of at least 3 octets; distinct by op line")
    level_text = ("Theorems: for every byte string the decoder model over the regenerated NGAP schema returns a value or an error, "
                  "never panic and never out-of-fuel, with fuel fixed by the schema; and, in the instrumented model (counters erase to "
                  "the decoder model: projection lemma), it passes at most 9*(8*len)+262143 elements/octets to MakeSlice and its "
                  "string/open-type buffers and enters parseField at most 206+296*(8*len) times, whatever counts the input claims "
                  "(cost table of the schema decided by the kernel on every run); model tied to aper.go by differential decoding "
                  "of mutated encodings (class and value must agree), bytes and wall time of the real decoder measured")
    level_note = ("proved: element/octet counts and parseField entries of the model (where the counters are charged is a modelling claim: "
                  "MakeSlice(count) before the elements, every takeOctets of a string/open-type parser); measured, not modelled: Go heap "
                  "bytes (element size x count) and wall time; reflect, logrus trusted")
    technique = "Lean 4 totality proof over the regenerated schema + differential decoding of mutated encodings"
    partial_note = ("allocation is proved as a count of elements/octets and time as a count of parseField entries; real heap bytes and "
                    "wall time are runtime behaviour: measured per call (evidence.measurements), not proved")
    trusted_base = ["schema translator (go/ast over ngapType/*.go) and its re-implementation of aper.parseFieldParameters"]
    MAX_ALLOC = 64 << 20           # cumulative allocation while decoding an input of at most 4 KiB
    MAX_ALLOC_PER_OCTET = 4 << 10  # … per input octet for longer inputs (measured: about 1.9 KiB per octet for 16 384 minimal IEs)
    MAX_NS = 2_000_000_000          # wall time of decoding an input of at most 4 KiB
    MAX_NS_PER_OCTET = 100_000      # … per input octet for longer inputs (measured: 7 microseconds per octet on a loaded machine)

    def key(self, op, impl, model, spec):
        t = op.split(" ")
        return "%s:%s" % (t[0], impl.split(" ")[0])

    def judge(self, op, impl, model, spec):
        if impl == "bad-op" or model == "bad-op":
            return ("corr", "harness/driver could not parse the op")
        cls = impl.split(" ", 1)[0]
        if cls in ("panic", "hang"):
            return ("viol", self.key(op, impl, model, spec), "the decoder %s on this input" % ("panicked" if cls == "panic" else "did not return within 5 s"))
        if impl != model:
            return ("corr", "implementation differs from the model")
        return None

    def nontrivial(self, op, impl):
        t = op.split(" ")
        return len(t[-1]) >= 6

    def extra(self, ctx):
        a = ctx.stats.get("decode_max_alloc_bytes")
        n = ctx.stats.get("decode_max_ns")
        if a and a["value"] > self.MAX_ALLOC:
            ctx.violations.append(dict(kind="violation", key="decode-alloc", domain="aper-dec", op="(see measurements)",
                                       impl="allocated %d bytes for an input of %d octets" % (a["value"], a.get("input_len", -1)),
                                       model="", spec="", why="allocation above 64 MiB for an input of at most 4 KiB"))
        r = ctx.stats.get("decode_max_alloc_per_octet")
        if r and r["value"] > self.MAX_ALLOC_PER_OCTET:
            ctx.violations.append(dict(kind="violation", key="decode-alloc-per-octet", domain="aper-dec", op="(see measurements)",
                                       impl="allocated %d bytes per input octet for an input of %d octets" % (r["value"], r.get("input_len", -1)),
                                       model="", spec="", why="cumulative allocation above 4 KiB per input octet for an input longer than 4 KiB"))
        t = ctx.stats.get("decode_max_ns_per_octet")
        if t and t["value"] > self.MAX_NS_PER_OCTET:
            ctx.violations.append(dict(kind="violation", key="decode-time-per-octet", domain="aper-dec", op="(see measurements)",
                                       impl="took %d ns per input octet for an input of %d octets" % (t["value"], t.get("input_len", -1)),
                                       model="", spec="", why="decode slower than 100 microseconds per input octet for an input longer than 4 KiB"))
        if n and n["value"] > self.MAX_NS:
            ctx.violations.append(dict(kind="violation", key="decode-time", domain="aper-dec", op="(see measurements)",
                                       impl="took %d ns for an input of %d octets" % (n["value"], n.get("input_len", -1)),
                                       model="", spec="", why="decode of an input of at most 4 KiB slower than 2 s"))
