package peer

import (
	"encoding/hex"
	"time"
)

// Responder is the scripted AMF of Run without the process handling: the caller owns the association, hands every uplink
// message to React and sends what it returns. Used by the conversation domain of cmd/corr (properties C01, C02), which runs
// the emulator binary and the in-process procedure calls under one runner of its own. (Add-only: Run does not use it.)
type Responder struct {
	r *runner
}

// NewResponder prepares the scripted AMF for one conversation.
func NewResponder(s *Script) *Responder {
	t := &Transcript{Script: s, Fault: Fault{Kind: FaultNone, K: -1}, FaultAtMs: -1, Exit: -1}
	r := &runner{o: Options{Script: s, Fault: Fault{Kind: FaultNone, K: -1}}, t: t, fd: -1, t0: time.Now(), ues: map[int64]*UERecord{}}
	a := s.Amf
	sd, _ := hex.DecodeString(s.Config.Sd)
	r.amf = AmfIdentity{Name: a.Name, Region: a.Region, SetID: a.SetID, Pointer: a.Pointer, Capacity: a.Capacity, SST: uint8(s.Config.Sst), SD: sd}
	return &Responder{r: r}
}

// React records one uplink message and returns the downlink messages answering it (none for an undecodable message).
func (p *Responder) React(ul []byte) [][]byte {
	u, m := p.r.recordUL(ul)
	if u == nil {
		return nil
	}
	var out [][]byte
	for _, d := range p.r.react(u, m) {
		p.r.t.Messages = append(p.r.t.Messages, Msg{Dir: "dl", Index: p.r.dlIndex, AtMs: p.r.now(), Hex: hex.EncodeToString(d.bytes), Ngap: d.ngap, Nas: d.nas, UE: d.ue})
		p.r.dlIndex++
		p.r.t.DL++
		out = append(out, d.bytes)
	}
	return out
}

// Transcript is what the responder has seen and derived so far (messages, per-UE records with XRES*, keys, RES*/MAC verdicts).
func (p *Responder) Transcript() *Transcript { return p.r.t }

// PeerVerdict summarises the peer's own checks of the uplink messages: every RES* compared equal to XRES*, every MAC
// verified under the network-derived K_NASint ("" = nothing failed, else the first failure).
func (p *Responder) PeerVerdict() string {
	for _, m := range p.r.t.Messages {
		if m.Dir != "ul" {
			continue
		}
		if m.ResOK != nil && !*m.ResOK {
			return "res-star"
		}
		if m.MacOK != nil && !*m.MacOK {
			return "mac"
		}
		if m.Ngap == "?" {
			return "undecodable"
		}
	}
	return ""
}
