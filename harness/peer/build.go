// Package peer is a scripted N2 peer (the AMF side of the association) for the process-level runs of the
// emulator binary: it starts `stgutgmain -t` (built with -tags verif) on one end of an AF_UNIX SOCK_SEQPACKET
// socketpair, answers every uplink message with REAL NGAP/NAS built with free5gclib, optionally injects one
// fault, and records everything in a transcript (properties C19, C01, C02).
package peer

import (
	"bytes"
	"encoding/binary"
	"encoding/hex"
	"fmt"
	"net"

	"free5gclib/UeauCommon"
	"free5gclib/aper"
	"free5gclib/milenage"
	"free5gclib/nas"
	"free5gclib/nas/nasMessage"
	"free5gclib/nas/nasType"
	"free5gclib/nas/security"
	"free5gclib/ngap"
	"free5gclib/ngap/ngapType"
)

// ---------------------------------------------------------------------------------------------- 5G-AKA, network side

// Vector is what the home network derives for one authentication (TS 33.501 6.1.3.2, Annex A; TS 35.206).
type Vector struct {
	RAND, AUTN         [16]byte
	SQNxorAK           [6]byte
	MACA               [8]byte
	RES, CK, IK        []byte
	AK                 [6]byte
	XRESstar           []byte
	Kausf, Kseaf, Kamf []byte
	KnasInt, KnasEnc   [16]byte
}

func mustHex(s string) []byte {
	b, err := hex.DecodeString(s)
	if err != nil {
		panic(fmt.Sprintf("peer: bad hex %q", s))
	}
	return b
}

// SNName is the serving network name of TS 24.501 9.12.1 for the configured mcc/mnc (mnc padded to 3 digits).
func SNName(mcc, mnc string) string {
	if len(mnc) == 2 {
		mnc = "0" + mnc
	}
	return "5G:mnc" + mnc + ".mcc" + mcc + ".3gppnetwork.org"
}

// DeriveVector runs Milenage and the 5G key hierarchy for one UE. supiDigits is the IMSI; intAlg/encAlg the
// selected NAS algorithms (the emulator announces NIA2/NEA0 only).
func DeriveVector(k, opc, op string, rnd [16]byte, sqn [6]byte, amf [2]byte, snName, supiDigits string, abba []byte, encAlg, intAlg uint8) (*Vector, error) {
	K := mustHex(k)
	var OPC []byte
	if opc != "" {
		OPC = mustHex(opc)
	} else {
		var err error
		OPC, err = milenage.GenerateOPC(K, mustHex(op))
		if err != nil {
			return nil, err
		}
	}
	if len(K) != 16 || len(OPC) != 16 {
		return nil, fmt.Errorf("peer: K/OPc must be 16 octets")
	}
	v := &Vector{RAND: rnd}
	macA, macS := make([]byte, 8), make([]byte, 8)
	if err := milenage.F1(OPC, K, rnd[:], sqn[:], amf[:], macA, macS); err != nil {
		return nil, err
	}
	res, ck, ik, ak, akstar := make([]byte, 8), make([]byte, 16), make([]byte, 16), make([]byte, 6), make([]byte, 6)
	if err := milenage.F2345(OPC, K, rnd[:], res, ck, ik, ak, akstar); err != nil {
		return nil, err
	}
	copy(v.MACA[:], macA)
	copy(v.AK[:], ak)
	v.RES, v.CK, v.IK = res, ck, ik
	for i := 0; i < 6; i++ {
		v.SQNxorAK[i] = sqn[i] ^ ak[i]
	}
	copy(v.AUTN[0:6], v.SQNxorAK[:])
	copy(v.AUTN[6:8], amf[:])
	copy(v.AUTN[8:16], macA)

	key := append(append([]byte{}, ck...), ik...)
	p0 := []byte(snName)
	// RES* / XRES* (A.4): FC 0x6B, P0 = SN name, P1 = RAND, P2 = RES; the last 16 octets
	x := UeauCommon.GetKDFValue(key, UeauCommon.FC_FOR_RES_STAR_XRES_STAR_DERIVATION, p0, UeauCommon.KDFLen(p0),
		rnd[:], UeauCommon.KDFLen(rnd[:]), res, UeauCommon.KDFLen(res))
	v.XRESstar = x[len(x)/2:]
	// K_AUSF (A.2), K_SEAF (A.6), K_AMF (A.7), algorithm keys (A.8)
	v.Kausf = UeauCommon.GetKDFValue(key, UeauCommon.FC_FOR_KAUSF_DERIVATION, p0, UeauCommon.KDFLen(p0), v.SQNxorAK[:], UeauCommon.KDFLen(v.SQNxorAK[:]))
	v.Kseaf = UeauCommon.GetKDFValue(v.Kausf, UeauCommon.FC_FOR_KSEAF_DERIVATION, p0, UeauCommon.KDFLen(p0))
	s := []byte(supiDigits)
	v.Kamf = UeauCommon.GetKDFValue(v.Kseaf, UeauCommon.FC_FOR_KAMF_DERIVATION, s, UeauCommon.KDFLen(s), abba, UeauCommon.KDFLen(abba))
	ke := UeauCommon.GetKDFValue(v.Kamf, UeauCommon.FC_FOR_ALGORITHM_KEY_DERIVATION, []byte{security.NNASEncAlg}, []byte{0, 1}, []byte{encAlg}, []byte{0, 1})
	ki := UeauCommon.GetKDFValue(v.Kamf, UeauCommon.FC_FOR_ALGORITHM_KEY_DERIVATION, []byte{security.NNASIntAlg}, []byte{0, 1}, []byte{intAlg}, []byte{0, 1})
	copy(v.KnasEnc[:], ke[16:32])
	copy(v.KnasInt[:], ki[16:32])
	return v, nil
}

// ProtectDL puts the security protected 5GS NAS message header (TS 24.501 9.1.1) in front of a plain message:
// EPD, security header type, MAC, SQN. The MAC is NIA over SQN ‖ message with the downlink COUNT, bearer 1 (3GPP access),
// direction 1. The selected ciphering algorithm is 5G-EA0, so the payload stays as it is.
func ProtectDL(plain []byte, sht uint8, kInt [16]byte, intAlg uint8, count uint32) ([]byte, error) {
	body := append([]byte{uint8(count)}, plain...)
	mac, err := security.NASMacCalculate(intAlg, kInt, count, security.Bearer3GPP, security.DirectionDownlink, body)
	if err != nil {
		return nil, err
	}
	out := []byte{nasMessage.Epd5GSMobilityManagementMessage, sht}
	out = append(out, mac...)
	return append(out, body...), nil
}

// ---------------------------------------------------------------------------------------------- NAS, downlink

func gmm(t uint8) *nas.Message {
	m := nas.NewMessage()
	m.GmmMessage = nas.NewGmmMessage()
	m.GmmHeader.SetMessageType(t)
	return m
}

func encodeNas(m *nas.Message) []byte {
	b, err := m.PlainNasEncode()
	if err != nil {
		panic(fmt.Sprintf("peer: NAS encode: %v", err))
	}
	return b
}

func NasAuthenticationRequest(ngksi uint8, abba []byte, rnd, autn [16]byte) []byte {
	m := gmm(nas.MsgTypeAuthenticationRequest)
	a := nasMessage.NewAuthenticationRequest(0)
	m.GmmMessage.AuthenticationRequest = a
	a.ExtendedProtocolDiscriminator.SetExtendedProtocolDiscriminator(nasMessage.Epd5GSMobilityManagementMessage)
	a.SpareHalfOctetAndSecurityHeaderType.SetSecurityHeaderType(nas.SecurityHeaderTypePlainNas)
	a.AuthenticationRequestMessageIdentity.SetMessageType(nas.MsgTypeAuthenticationRequest)
	a.SpareHalfOctetAndNgksi.SetTSC(nasMessage.TypeOfSecurityContextFlagNative)
	a.SpareHalfOctetAndNgksi.SetNasKeySetIdentifiler(ngksi)
	a.ABBA.SetLen(uint8(len(abba)))
	a.ABBA.SetABBAContents(abba)
	a.AuthenticationParameterRAND = nasType.NewAuthenticationParameterRAND(nasMessage.AuthenticationRequestAuthenticationParameterRANDType)
	a.AuthenticationParameterRAND.SetRANDValue(rnd)
	a.AuthenticationParameterAUTN = nasType.NewAuthenticationParameterAUTN(nasMessage.AuthenticationRequestAuthenticationParameterAUTNType)
	a.AuthenticationParameterAUTN.SetLen(16)
	a.AuthenticationParameterAUTN.SetAUTN(rnd) // overwritten below; SetAUTN copies a [16]uint8
	a.AuthenticationParameterAUTN.SetAUTN(autn)
	return encodeNas(m)
}

// NasSecurityModeCommand selects 5G-EA0 / 128-5G-IA2 and replays the UE security capability octets of the
// Registration Request.
func NasSecurityModeCommand(ngksi uint8, encAlg, intAlg uint8, ueSecCap []byte) []byte {
	m := gmm(nas.MsgTypeSecurityModeCommand)
	c := nasMessage.NewSecurityModeCommand(0)
	m.GmmMessage.SecurityModeCommand = c
	c.ExtendedProtocolDiscriminator.SetExtendedProtocolDiscriminator(nasMessage.Epd5GSMobilityManagementMessage)
	c.SpareHalfOctetAndSecurityHeaderType.SetSecurityHeaderType(nas.SecurityHeaderTypePlainNas)
	c.SecurityModeCommandMessageIdentity.SetMessageType(nas.MsgTypeSecurityModeCommand)
	c.SelectedNASSecurityAlgorithms.SetTypeOfCipheringAlgorithm(encAlg)
	c.SelectedNASSecurityAlgorithms.SetTypeOfIntegrityProtectionAlgorithm(intAlg)
	c.SpareHalfOctetAndNgksi.SetTSC(nasMessage.TypeOfSecurityContextFlagNative)
	c.SpareHalfOctetAndNgksi.SetNasKeySetIdentifiler(ngksi)
	if len(ueSecCap) < 2 {
		ueSecCap = []byte{0x80, 0x20}
	}
	if len(ueSecCap) > 8 {
		ueSecCap = ueSecCap[:8]
	}
	c.ReplayedUESecurityCapabilities.SetLen(uint8(len(ueSecCap)))
	copy(c.ReplayedUESecurityCapabilities.Buffer[:], ueSecCap)
	c.IMEISVRequest = nasType.NewIMEISVRequest(nasMessage.SecurityModeCommandIMEISVRequestType)
	c.IMEISVRequest.SetIMEISVRequestValue(nasMessage.IMEISVRequested)
	return encodeNas(m)
}

// Guti5G builds the 5G-GUTI mobile identity contents (TS 24.501 figure 9.11.3.4.1), 11 octets.
func Guti5G(plmn []byte, region uint8, setID uint16, pointer uint8, tmsi uint32) [11]byte {
	var g [11]byte
	g[0] = 0xf0 | nasMessage.MobileIdentity5GSType5gGuti
	copy(g[1:4], plmn)
	g[4] = region
	g[5] = uint8(setID >> 2)
	g[6] = uint8(setID&3)<<6 | pointer&0x3f
	binary.BigEndian.PutUint32(g[7:], tmsi)
	return g
}

func NasRegistrationAccept(guti [11]byte, plmn []byte, tac [3]byte, sst uint8, sd []byte) []byte {
	m := gmm(nas.MsgTypeRegistrationAccept)
	a := nasMessage.NewRegistrationAccept(0)
	m.GmmMessage.RegistrationAccept = a
	a.ExtendedProtocolDiscriminator.SetExtendedProtocolDiscriminator(nasMessage.Epd5GSMobilityManagementMessage)
	a.SpareHalfOctetAndSecurityHeaderType.SetSecurityHeaderType(nas.SecurityHeaderTypePlainNas)
	a.RegistrationAcceptMessageIdentity.SetMessageType(nas.MsgTypeRegistrationAccept)
	a.RegistrationResult5GS.SetLen(1)
	a.RegistrationResult5GS.SetRegistrationResultValue5GS(nasMessage.AccessType3GPP)
	a.GUTI5G = nasType.NewGUTI5G(nasMessage.RegistrationAcceptGUTI5GType)
	a.GUTI5G.SetLen(11)
	a.GUTI5G.Octet = guti
	// TAI list: one list of type 00 with one TAC
	tai := []byte{0x00}
	tai = append(tai, plmn...)
	tai = append(tai, tac[:]...)
	a.TAIList = nasType.NewTAIList(nasMessage.RegistrationAcceptTAIListType)
	a.TAIList.SetLen(uint8(len(tai)))
	a.TAIList.SetPartialTrackingAreaIdentityList(tai)
	ns := []byte{uint8(1 + len(sd)), sst}
	ns = append(ns, sd...)
	a.AllowedNSSAI = nasType.NewAllowedNSSAI(nasMessage.RegistrationAcceptAllowedNSSAIType)
	a.AllowedNSSAI.SetLen(uint8(len(ns)))
	a.AllowedNSSAI.SetSNSSAIValue(ns)
	a.T3512Value = nasType.NewT3512Value(nasMessage.RegistrationAcceptT3512ValueType)
	a.T3512Value.SetLen(1)
	a.T3512Value.Octet = 0x5e
	return encodeNas(m)
}

func NasConfigurationUpdateCommand() []byte {
	m := gmm(nas.MsgTypeConfigurationUpdateCommand)
	c := nasMessage.NewConfigurationUpdateCommand(0)
	m.GmmMessage.ConfigurationUpdateCommand = c
	c.ExtendedProtocolDiscriminator.SetExtendedProtocolDiscriminator(nasMessage.Epd5GSMobilityManagementMessage)
	c.SpareHalfOctetAndSecurityHeaderType.SetSecurityHeaderType(nas.SecurityHeaderTypePlainNas)
	c.ConfigurationUpdateCommandMessageIdentity.SetMessageType(nas.MsgTypeConfigurationUpdateCommand)
	name := []byte{0x90, 'v', 'e', 'r', 'i', 'f'} // ext 1, coding scheme 001 (UCS2) is not used: 0x90 = ext|GSM 7 bit? keep opaque text
	c.FullNameForNetwork = nasType.NewFullNameForNetwork(nasMessage.ConfigurationUpdateCommandFullNameForNetworkType)
	c.FullNameForNetwork.SetLen(uint8(len(name)))
	copy(c.FullNameForNetwork.Buffer, name)
	return encodeNas(m)
}

func NasServiceAccept(psi uint8) []byte {
	m := gmm(nas.MsgTypeServiceAccept)
	a := nasMessage.NewServiceAccept(0)
	m.GmmMessage.ServiceAccept = a
	a.ExtendedProtocolDiscriminator.SetExtendedProtocolDiscriminator(nasMessage.Epd5GSMobilityManagementMessage)
	a.SpareHalfOctetAndSecurityHeaderType.SetSecurityHeaderType(nas.SecurityHeaderTypePlainNas)
	a.ServiceAcceptMessageIdentity.SetMessageType(nas.MsgTypeServiceAccept)
	if psi >= 1 && psi <= 15 {
		a.PDUSessionStatus = nasType.NewPDUSessionStatus(nasMessage.ServiceAcceptPDUSessionStatusType)
		a.PDUSessionStatus.SetLen(2)
		var bits uint16 = 1 << psi
		a.PDUSessionStatus.Buffer = []byte{uint8(bits), uint8(bits >> 8)}
	}
	return encodeNas(m)
}

func NasDeregistrationAccept() []byte {
	m := gmm(nas.MsgTypeDeregistrationAcceptUEOriginatingDeregistration)
	a := nasMessage.NewDeregistrationAcceptUEOriginatingDeregistration(0)
	m.GmmMessage.DeregistrationAcceptUEOriginatingDeregistration = a
	a.ExtendedProtocolDiscriminator.SetExtendedProtocolDiscriminator(nasMessage.Epd5GSMobilityManagementMessage)
	a.SpareHalfOctetAndSecurityHeaderType.SetSecurityHeaderType(nas.SecurityHeaderTypePlainNas)
	a.DeregistrationAcceptMessageIdentity.SetMessageType(nas.MsgTypeDeregistrationAcceptUEOriginatingDeregistration)
	return encodeNas(m)
}

// NasDLTransport wraps a 5GSM message into DL NAS TRANSPORT (payload container type N1 SM information).
func NasDLTransport(psi uint8, inner []byte) []byte {
	m := gmm(nas.MsgTypeDLNASTransport)
	d := nasMessage.NewDLNASTransport(0)
	m.GmmMessage.DLNASTransport = d
	d.ExtendedProtocolDiscriminator.SetExtendedProtocolDiscriminator(nasMessage.Epd5GSMobilityManagementMessage)
	d.SpareHalfOctetAndSecurityHeaderType.SetSecurityHeaderType(nas.SecurityHeaderTypePlainNas)
	d.DLNASTRANSPORTMessageIdentity.SetMessageType(nas.MsgTypeDLNASTransport)
	d.SpareHalfOctetAndPayloadContainerType.SetPayloadContainerType(nasMessage.PayloadContainerTypeN1SMInfo)
	d.PayloadContainer.SetLen(uint16(len(inner)))
	d.PayloadContainer.SetPayloadContainerContents(inner)
	d.PduSessionID2Value = nasType.NewPduSessionID2Value(nasMessage.DLNASTransportPduSessionID2ValueType)
	d.PduSessionID2Value.SetPduSessionID2Value(psi)
	return encodeNas(m)
}

// NasPDUSessionEstablishmentAccept: IPv4 PDU address, one default QoS rule, session AMBR, S-NSSAI, DNN.
func NasPDUSessionEstablishmentAccept(psi, pti uint8, ueIP net.IP, sst uint8, sd []byte, dnn string) []byte {
	return NasPDUSessionEstablishmentAcceptQos(psi, pti, ueIP, sst, sd, dnn, 0)
}

// NasPDUSessionEstablishmentAcceptQos: the same with `extra` further QoS rules after the default one (each 11 octets: one
// packet filter matching one remote port), so that the authorized QoS rules IE (LV-E) can exceed 255 octets.
func NasPDUSessionEstablishmentAcceptQos(psi, pti uint8, ueIP net.IP, sst uint8, sd []byte, dnn string, extra int) []byte {
	m := nas.NewMessage()
	m.GsmMessage = nas.NewGsmMessage()
	m.GsmHeader.SetMessageType(nas.MsgTypePDUSessionEstablishmentAccept)
	a := nasMessage.NewPDUSessionEstablishmentAccept(0)
	m.GsmMessage.PDUSessionEstablishmentAccept = a
	a.ExtendedProtocolDiscriminator.SetExtendedProtocolDiscriminator(nasMessage.Epd5GSSessionManagementMessage)
	a.PDUSessionID.SetPDUSessionID(psi)
	a.PTI.SetPTI(pti)
	a.PDUSESSIONESTABLISHMENTACCEPTMessageIdentity.SetMessageType(nas.MsgTypePDUSessionEstablishmentAccept)
	a.SelectedSSCModeAndSelectedPDUSessionType.SetSSCMode(1)
	a.SelectedSSCModeAndSelectedPDUSessionType.SetPDUSessionType(nasMessage.PDUSessionTypeIPv4)
	// default QoS rule: id 1, length 6, create new rule + DQR + 1 packet filter (match all, bidirectional), precedence 255, QFI 1
	qos := []byte{0x01, 0x00, 0x06, 0x31, 0x31, 0x01, 0x01, 0xff, 0x01}
	for k := 0; k < extra; k++ {
		// rule id 2+k, 8 octets: create new rule, 1 packet filter (uplink, single remote port), precedence, QFI 1
		qos = append(qos, byte(2+k), 0x00, 0x08, 0x21, byte(0x20|k%16), 0x03, 0x50, 0x1f, byte(k), byte(10+k%200), 0x01)
	}
	a.AuthorizedQosRules.SetLen(uint16(len(qos)))
	a.AuthorizedQosRules.SetQosRule(qos)
	a.SessionAMBR.SetLen(6)
	a.SessionAMBR.Octet = [6]uint8{0x06, 0x00, 0x64, 0x06, 0x00, 0x64} // 100 Mbps down / up
	a.PDUAddress = nasType.NewPDUAddress(nasMessage.PDUSessionEstablishmentAcceptPDUAddressType)
	a.PDUAddress.SetLen(5)
	a.PDUAddress.SetPDUSessionTypeValue(nasMessage.PDUSessionTypeIPv4)
	var addr [12]uint8
	copy(addr[:], ueIP.To4())
	a.PDUAddress.SetPDUAddressInformation(addr)
	ns := append([]byte{sst}, sd...)
	a.SNSSAI = nasType.NewSNSSAI(nasMessage.PDUSessionEstablishmentAcceptSNSSAIType)
	a.SNSSAI.SetLen(uint8(len(ns)))
	copy(a.SNSSAI.Octet[:], ns)
	d := append([]byte{uint8(len(dnn))}, dnn...)
	a.DNN = nasType.NewDNN(nasMessage.PDUSessionEstablishmentAcceptDNNType)
	a.DNN.SetLen(uint8(len(d)))
	a.DNN.Buffer = d
	return encodeNas(m)
}

func NasPDUSessionReleaseCommand(psi, pti uint8) []byte {
	m := nas.NewMessage()
	m.GsmMessage = nas.NewGsmMessage()
	m.GsmHeader.SetMessageType(nas.MsgTypePDUSessionReleaseCommand)
	c := nasMessage.NewPDUSessionReleaseCommand(0)
	m.GsmMessage.PDUSessionReleaseCommand = c
	c.ExtendedProtocolDiscriminator.SetExtendedProtocolDiscriminator(nasMessage.Epd5GSSessionManagementMessage)
	c.PDUSessionID.SetPDUSessionID(psi)
	c.PTI.SetPTI(pti)
	c.PDUSESSIONRELEASECOMMANDMessageIdentity.SetMessageType(nas.MsgTypePDUSessionReleaseCommand)
	c.Cause5GSM.SetCauseValue(nasMessage.Cause5GSMRegularDeactivation)
	return encodeNas(m)
}

// ---------------------------------------------------------------------------------------------- NGAP, downlink

func encodeNgap(pdu ngapType.NGAPPDU) []byte {
	b, err := ngap.Encoder(pdu)
	if err != nil {
		panic(fmt.Sprintf("peer: NGAP encode: %v", err))
	}
	return b
}

func snssai(sst uint8, sd []byte) ngapType.SNSSAI {
	s := ngapType.SNSSAI{}
	s.SST.Value = aper.OctetString{sst}
	if len(sd) == 3 {
		s.SD = &ngapType.SD{Value: aper.OctetString(sd)}
	}
	return s
}

// AmfIdentity is what the AMF announces about itself in NG Setup Response and in the GUAMI.
type AmfIdentity struct {
	Name     string
	PLMN     []byte // 3 octets, as announced by the gNB
	Region   uint8
	SetID    uint16 // 10 bits
	Pointer  uint8  // 6 bits
	Capacity int64
	SST      uint8
	SD       []byte
	// FirstPLMNs: further PLMNs the AMF serves, listed BEFORE the gNB's own in the PLMN Support List
	FirstPLMNs [][]byte
}

func (a AmfIdentity) guami() ngapType.GUAMI {
	g := ngapType.GUAMI{}
	g.PLMNIdentity.Value = aper.OctetString(a.PLMN)
	g.AMFRegionID.Value = aper.BitString{Bytes: []byte{a.Region}, BitLength: 8}
	g.AMFSetID.Value = aper.BitString{Bytes: []byte{uint8(a.SetID >> 2), uint8(a.SetID&3) << 6}, BitLength: 10}
	g.AMFPointer.Value = aper.BitString{Bytes: []byte{a.Pointer << 2}, BitLength: 6}
	return g
}

func NgSetupResponse(a AmfIdentity) []byte {
	var pdu ngapType.NGAPPDU
	pdu.Present = ngapType.NGAPPDUPresentSuccessfulOutcome
	pdu.SuccessfulOutcome = new(ngapType.SuccessfulOutcome)
	so := pdu.SuccessfulOutcome
	so.ProcedureCode.Value = ngapType.ProcedureCodeNGSetup
	so.Criticality.Value = ngapType.CriticalityPresentReject
	so.Value.Present = ngapType.SuccessfulOutcomePresentNGSetupResponse
	so.Value.NGSetupResponse = new(ngapType.NGSetupResponse)
	ies := &so.Value.NGSetupResponse.ProtocolIEs
	{
		ie := ngapType.NGSetupResponseIEs{}
		ie.Id.Value = ngapType.ProtocolIEIDAMFName
		ie.Criticality.Value = ngapType.CriticalityPresentReject
		ie.Value.Present = ngapType.NGSetupResponseIEsPresentAMFName
		ie.Value.AMFName = &ngapType.AMFName{Value: a.Name}
		ies.List = append(ies.List, ie)
	}
	{
		ie := ngapType.NGSetupResponseIEs{}
		ie.Id.Value = ngapType.ProtocolIEIDServedGUAMIList
		ie.Criticality.Value = ngapType.CriticalityPresentReject
		ie.Value.Present = ngapType.NGSetupResponseIEsPresentServedGUAMIList
		ie.Value.ServedGUAMIList = &ngapType.ServedGUAMIList{List: []ngapType.ServedGUAMIItem{{GUAMI: a.guami()}}}
		ies.List = append(ies.List, ie)
	}
	{
		ie := ngapType.NGSetupResponseIEs{}
		ie.Id.Value = ngapType.ProtocolIEIDRelativeAMFCapacity
		ie.Criticality.Value = ngapType.CriticalityPresentIgnore
		ie.Value.Present = ngapType.NGSetupResponseIEsPresentRelativeAMFCapacity
		ie.Value.RelativeAMFCapacity = &ngapType.RelativeAMFCapacity{Value: a.Capacity}
		ies.List = append(ies.List, ie)
	}
	{
		ie := ngapType.NGSetupResponseIEs{}
		ie.Id.Value = ngapType.ProtocolIEIDPLMNSupportList
		ie.Criticality.Value = ngapType.CriticalityPresentReject
		ie.Value.Present = ngapType.NGSetupResponseIEsPresentPLMNSupportList
		it := ngapType.PLMNSupportItem{}
		it.PLMNIdentity.Value = aper.OctetString(a.PLMN)
		it.SliceSupportList.List = []ngapType.SliceSupportItem{{SNSSAI: snssai(a.SST, a.SD)}}
		ie.Value.PLMNSupportList = &ngapType.PLMNSupportList{}
		for _, p := range a.FirstPLMNs {
			o := ngapType.PLMNSupportItem{}
			o.PLMNIdentity.Value = aper.OctetString(p)
			o.SliceSupportList.List = []ngapType.SliceSupportItem{{SNSSAI: snssai(a.SST, a.SD)}}
			ie.Value.PLMNSupportList.List = append(ie.Value.PLMNSupportList.List, o)
		}
		ie.Value.PLMNSupportList.List = append(ie.Value.PLMNSupportList.List, it)
		ies.List = append(ies.List, ie)
	}
	return encodeNgap(pdu)
}

func initiating(code int64, crit aper.Enumerated) (ngapType.NGAPPDU, *ngapType.InitiatingMessage) {
	var pdu ngapType.NGAPPDU
	pdu.Present = ngapType.NGAPPDUPresentInitiatingMessage
	pdu.InitiatingMessage = new(ngapType.InitiatingMessage)
	pdu.InitiatingMessage.ProcedureCode.Value = code
	pdu.InitiatingMessage.Criticality.Value = crit
	return pdu, pdu.InitiatingMessage
}

// DownlinkNASTransport: AMF-UE-NGAP-ID first (the emulator reads ProtocolIEs.List[0] as that id), RAN-UE-NGAP-ID, NAS-PDU.
func DownlinkNASTransport(amfID, ranID int64, nasPdu []byte) []byte {
	pdu, im := initiating(ngapType.ProcedureCodeDownlinkNASTransport, ngapType.CriticalityPresentIgnore)
	im.Value.Present = ngapType.InitiatingMessagePresentDownlinkNASTransport
	im.Value.DownlinkNASTransport = new(ngapType.DownlinkNASTransport)
	ies := &im.Value.DownlinkNASTransport.ProtocolIEs
	{
		ie := ngapType.DownlinkNASTransportIEs{}
		ie.Id.Value = ngapType.ProtocolIEIDAMFUENGAPID
		ie.Criticality.Value = ngapType.CriticalityPresentReject
		ie.Value.Present = ngapType.DownlinkNASTransportIEsPresentAMFUENGAPID
		ie.Value.AMFUENGAPID = &ngapType.AMFUENGAPID{Value: amfID}
		ies.List = append(ies.List, ie)
	}
	{
		ie := ngapType.DownlinkNASTransportIEs{}
		ie.Id.Value = ngapType.ProtocolIEIDRANUENGAPID
		ie.Criticality.Value = ngapType.CriticalityPresentReject
		ie.Value.Present = ngapType.DownlinkNASTransportIEsPresentRANUENGAPID
		ie.Value.RANUENGAPID = &ngapType.RANUENGAPID{Value: ranID}
		ies.List = append(ies.List, ie)
	}
	{
		ie := ngapType.DownlinkNASTransportIEs{}
		ie.Id.Value = ngapType.ProtocolIEIDNASPDU
		ie.Criticality.Value = ngapType.CriticalityPresentReject
		ie.Value.Present = ngapType.DownlinkNASTransportIEsPresentNASPDU
		ie.Value.NASPDU = &ngapType.NASPDU{Value: nasPdu}
		ies.List = append(ies.List, ie)
	}
	return encodeNgap(pdu)
}

// InitialContextSetupRequest (TS 38.413 9.2.2.1): ids, GUAMI, Allowed NSSAI, UE security capabilities, security key
// (K_gNB placeholder derived by the caller), NAS-PDU.
func InitialContextSetupRequest(amfID, ranID int64, a AmfIdentity, kgnb []byte, nasPdu []byte) []byte {
	pdu, im := initiating(ngapType.ProcedureCodeInitialContextSetup, ngapType.CriticalityPresentReject)
	im.Value.Present = ngapType.InitiatingMessagePresentInitialContextSetupRequest
	im.Value.InitialContextSetupRequest = new(ngapType.InitialContextSetupRequest)
	ies := &im.Value.InitialContextSetupRequest.ProtocolIEs
	add := func(id int64, crit aper.Enumerated, present int, set func(v *ngapType.InitialContextSetupRequestIEsValue)) {
		ie := ngapType.InitialContextSetupRequestIEs{}
		ie.Id.Value = id
		ie.Criticality.Value = crit
		ie.Value.Present = present
		set(&ie.Value)
		ies.List = append(ies.List, ie)
	}
	add(ngapType.ProtocolIEIDAMFUENGAPID, ngapType.CriticalityPresentReject, ngapType.InitialContextSetupRequestIEsPresentAMFUENGAPID,
		func(v *ngapType.InitialContextSetupRequestIEsValue) {
			v.AMFUENGAPID = &ngapType.AMFUENGAPID{Value: amfID}
		})
	add(ngapType.ProtocolIEIDRANUENGAPID, ngapType.CriticalityPresentReject, ngapType.InitialContextSetupRequestIEsPresentRANUENGAPID,
		func(v *ngapType.InitialContextSetupRequestIEsValue) {
			v.RANUENGAPID = &ngapType.RANUENGAPID{Value: ranID}
		})
	add(ngapType.ProtocolIEIDGUAMI, ngapType.CriticalityPresentReject, ngapType.InitialContextSetupRequestIEsPresentGUAMI,
		func(v *ngapType.InitialContextSetupRequestIEsValue) { g := a.guami(); v.GUAMI = &g })
	add(ngapType.ProtocolIEIDAllowedNSSAI, ngapType.CriticalityPresentReject, ngapType.InitialContextSetupRequestIEsPresentAllowedNSSAI,
		func(v *ngapType.InitialContextSetupRequestIEsValue) {
			v.AllowedNSSAI = &ngapType.AllowedNSSAI{List: []ngapType.AllowedNSSAIItem{{SNSSAI: snssai(a.SST, a.SD)}}}
		})
	add(ngapType.ProtocolIEIDUESecurityCapabilities, ngapType.CriticalityPresentReject, ngapType.InitialContextSetupRequestIEsPresentUESecurityCapabilities,
		func(v *ngapType.InitialContextSetupRequestIEsValue) {
			c := &ngapType.UESecurityCapabilities{}
			c.NRencryptionAlgorithms.Value = aper.BitString{Bytes: []byte{0, 0}, BitLength: 16}
			c.NRintegrityProtectionAlgorithms.Value = aper.BitString{Bytes: []byte{0x40, 0}, BitLength: 16} // NIA2
			c.EUTRAencryptionAlgorithms.Value = aper.BitString{Bytes: []byte{0, 0}, BitLength: 16}
			c.EUTRAintegrityProtectionAlgorithms.Value = aper.BitString{Bytes: []byte{0, 0}, BitLength: 16}
			v.UESecurityCapabilities = c
		})
	add(ngapType.ProtocolIEIDSecurityKey, ngapType.CriticalityPresentReject, ngapType.InitialContextSetupRequestIEsPresentSecurityKey,
		func(v *ngapType.InitialContextSetupRequestIEsValue) {
			v.SecurityKey = &ngapType.SecurityKey{Value: aper.BitString{Bytes: kgnb, BitLength: 256}}
		})
	if nasPdu != nil {
		add(ngapType.ProtocolIEIDNASPDU, ngapType.CriticalityPresentIgnore, ngapType.InitialContextSetupRequestIEsPresentNASPDU,
			func(v *ngapType.InitialContextSetupRequestIEsValue) { v.NASPDU = &ngapType.NASPDU{Value: nasPdu} })
	}
	return encodeNgap(pdu)
}

// SetupRequestTransfer: PDU session AMBR, UL NG-U UP TNL information (the UPF tunnel), PDU session type, one QoS flow.
func SetupRequestTransfer(upf net.IP, teid uint32) []byte {
	var tr ngapType.PDUSessionResourceSetupRequestTransfer
	add := func(id int64, present int, set func(v *ngapType.PDUSessionResourceSetupRequestTransferIEsValue)) {
		ie := ngapType.PDUSessionResourceSetupRequestTransferIEs{}
		ie.Id.Value = id
		ie.Criticality.Value = ngapType.CriticalityPresentReject
		ie.Value.Present = present
		set(&ie.Value)
		tr.ProtocolIEs.List = append(tr.ProtocolIEs.List, ie)
	}
	add(ngapType.ProtocolIEIDPDUSessionAggregateMaximumBitRate, ngapType.PDUSessionResourceSetupRequestTransferIEsPresentPDUSessionAggregateMaximumBitRate,
		func(v *ngapType.PDUSessionResourceSetupRequestTransferIEsValue) {
			v.PDUSessionAggregateMaximumBitRate = &ngapType.PDUSessionAggregateMaximumBitRate{}
			v.PDUSessionAggregateMaximumBitRate.PDUSessionAggregateMaximumBitRateDL.Value = 100000000
			v.PDUSessionAggregateMaximumBitRate.PDUSessionAggregateMaximumBitRateUL.Value = 100000000
		})
	add(ngapType.ProtocolIEIDULNGUUPTNLInformation, ngapType.PDUSessionResourceSetupRequestTransferIEsPresentULNGUUPTNLInformation,
		func(v *ngapType.PDUSessionResourceSetupRequestTransferIEsValue) {
			t := make([]byte, 4)
			binary.BigEndian.PutUint32(t, teid)
			v.ULNGUUPTNLInformation = &ngapType.UPTransportLayerInformation{
				Present: ngapType.UPTransportLayerInformationPresentGTPTunnel,
				GTPTunnel: &ngapType.GTPTunnel{
					TransportLayerAddress: ngapType.TransportLayerAddress{Value: aper.BitString{Bytes: []byte(upf.To4()), BitLength: 32}},
					GTPTEID:               ngapType.GTPTEID{Value: t},
				},
			}
		})
	add(ngapType.ProtocolIEIDPDUSessionType, ngapType.PDUSessionResourceSetupRequestTransferIEsPresentPDUSessionType,
		func(v *ngapType.PDUSessionResourceSetupRequestTransferIEsValue) {
			v.PDUSessionType = &ngapType.PDUSessionType{Value: ngapType.PDUSessionTypePresentIpv4}
		})
	add(ngapType.ProtocolIEIDQosFlowSetupRequestList, ngapType.PDUSessionResourceSetupRequestTransferIEsPresentQosFlowSetupRequestList,
		func(v *ngapType.PDUSessionResourceSetupRequestTransferIEsValue) {
			it := ngapType.QosFlowSetupRequestItem{}
			it.QosFlowIdentifier.Value = 1
			it.QosFlowLevelQosParameters.QosCharacteristics.Present = ngapType.QosCharacteristicsPresentNonDynamic5QI
			it.QosFlowLevelQosParameters.QosCharacteristics.NonDynamic5QI = &ngapType.NonDynamic5QIDescriptor{FiveQI: ngapType.FiveQI{Value: 9}}
			it.QosFlowLevelQosParameters.AllocationAndRetentionPriority.PriorityLevelARP.Value = 8
			it.QosFlowLevelQosParameters.AllocationAndRetentionPriority.PreEmptionCapability.Value = ngapType.PreEmptionCapabilityPresentShallNotTriggerPreEmption
			it.QosFlowLevelQosParameters.AllocationAndRetentionPriority.PreEmptionVulnerability.Value = ngapType.PreEmptionVulnerabilityPresentNotPreEmptable
			v.QosFlowSetupRequestList = &ngapType.QosFlowSetupRequestList{List: []ngapType.QosFlowSetupRequestItem{it}}
		})
	b, err := aper.MarshalWithParams(tr, "valueExt")
	if err != nil {
		panic(fmt.Sprintf("peer: transfer encode: %v", err))
	}
	return b
}

// PDUSessionResourceSetupRequest (TS 38.413 9.2.1.1) with one item; the item's NAS-PDU is the protected
// DL NAS TRANSPORT[PDU SESSION ESTABLISHMENT ACCEPT].
func PDUSessionResourceSetupRequest(amfID, ranID int64, psi int64, sst uint8, sd []byte, itemNas, transfer []byte) []byte {
	pdu, im := initiating(ngapType.ProcedureCodePDUSessionResourceSetup, ngapType.CriticalityPresentReject)
	im.Value.Present = ngapType.InitiatingMessagePresentPDUSessionResourceSetupRequest
	im.Value.PDUSessionResourceSetupRequest = new(ngapType.PDUSessionResourceSetupRequest)
	ies := &im.Value.PDUSessionResourceSetupRequest.ProtocolIEs
	{
		ie := ngapType.PDUSessionResourceSetupRequestIEs{}
		ie.Id.Value = ngapType.ProtocolIEIDAMFUENGAPID
		ie.Criticality.Value = ngapType.CriticalityPresentReject
		ie.Value.Present = ngapType.PDUSessionResourceSetupRequestIEsPresentAMFUENGAPID
		ie.Value.AMFUENGAPID = &ngapType.AMFUENGAPID{Value: amfID}
		ies.List = append(ies.List, ie)
	}
	{
		ie := ngapType.PDUSessionResourceSetupRequestIEs{}
		ie.Id.Value = ngapType.ProtocolIEIDRANUENGAPID
		ie.Criticality.Value = ngapType.CriticalityPresentReject
		ie.Value.Present = ngapType.PDUSessionResourceSetupRequestIEsPresentRANUENGAPID
		ie.Value.RANUENGAPID = &ngapType.RANUENGAPID{Value: ranID}
		ies.List = append(ies.List, ie)
	}
	{
		ie := ngapType.PDUSessionResourceSetupRequestIEs{}
		ie.Id.Value = ngapType.ProtocolIEIDPDUSessionResourceSetupListSUReq
		ie.Criticality.Value = ngapType.CriticalityPresentReject
		ie.Value.Present = ngapType.PDUSessionResourceSetupRequestIEsPresentPDUSessionResourceSetupListSUReq
		item := ngapType.PDUSessionResourceSetupItemSUReq{}
		item.PDUSessionID.Value = psi
		item.PDUSessionNASPDU = &ngapType.NASPDU{Value: itemNas}
		item.SNSSAI = snssai(sst, sd)
		item.PDUSessionResourceSetupRequestTransfer = transfer
		ie.Value.PDUSessionResourceSetupListSUReq = &ngapType.PDUSessionResourceSetupListSUReq{List: []ngapType.PDUSessionResourceSetupItemSUReq{item}}
		ies.List = append(ies.List, ie)
	}
	return encodeNgap(pdu)
}

func PDUSessionResourceReleaseCommand(amfID, ranID int64, psi int64, nasPdu []byte) []byte {
	pdu, im := initiating(ngapType.ProcedureCodePDUSessionResourceRelease, ngapType.CriticalityPresentReject)
	im.Value.Present = ngapType.InitiatingMessagePresentPDUSessionResourceReleaseCommand
	im.Value.PDUSessionResourceReleaseCommand = new(ngapType.PDUSessionResourceReleaseCommand)
	ies := &im.Value.PDUSessionResourceReleaseCommand.ProtocolIEs
	{
		ie := ngapType.PDUSessionResourceReleaseCommandIEs{}
		ie.Id.Value = ngapType.ProtocolIEIDAMFUENGAPID
		ie.Criticality.Value = ngapType.CriticalityPresentReject
		ie.Value.Present = ngapType.PDUSessionResourceReleaseCommandIEsPresentAMFUENGAPID
		ie.Value.AMFUENGAPID = &ngapType.AMFUENGAPID{Value: amfID}
		ies.List = append(ies.List, ie)
	}
	{
		ie := ngapType.PDUSessionResourceReleaseCommandIEs{}
		ie.Id.Value = ngapType.ProtocolIEIDRANUENGAPID
		ie.Criticality.Value = ngapType.CriticalityPresentReject
		ie.Value.Present = ngapType.PDUSessionResourceReleaseCommandIEsPresentRANUENGAPID
		ie.Value.RANUENGAPID = &ngapType.RANUENGAPID{Value: ranID}
		ies.List = append(ies.List, ie)
	}
	{
		ie := ngapType.PDUSessionResourceReleaseCommandIEs{}
		ie.Id.Value = ngapType.ProtocolIEIDNASPDU
		ie.Criticality.Value = ngapType.CriticalityPresentIgnore
		ie.Value.Present = ngapType.PDUSessionResourceReleaseCommandIEsPresentNASPDU
		ie.Value.NASPDU = &ngapType.NASPDU{Value: nasPdu}
		ies.List = append(ies.List, ie)
	}
	{
		ie := ngapType.PDUSessionResourceReleaseCommandIEs{}
		ie.Id.Value = ngapType.ProtocolIEIDPDUSessionResourceToReleaseListRelCmd
		ie.Criticality.Value = ngapType.CriticalityPresentReject
		ie.Value.Present = ngapType.PDUSessionResourceReleaseCommandIEsPresentPDUSessionResourceToReleaseListRelCmd
		var tr ngapType.PDUSessionResourceReleaseCommandTransfer
		tr.Cause.Present = ngapType.CausePresentNas
		tr.Cause.Nas = &ngapType.CauseNas{Value: ngapType.CauseNasPresentNormalRelease}
		tb, err := aper.MarshalWithParams(tr, "valueExt")
		if err != nil {
			panic(fmt.Sprintf("peer: release transfer encode: %v", err))
		}
		it := ngapType.PDUSessionResourceToReleaseItemRelCmd{}
		it.PDUSessionID.Value = psi
		it.PDUSessionResourceReleaseCommandTransfer = tb
		ie.Value.PDUSessionResourceToReleaseListRelCmd = &ngapType.PDUSessionResourceToReleaseListRelCmd{List: []ngapType.PDUSessionResourceToReleaseItemRelCmd{it}}
		ies.List = append(ies.List, ie)
	}
	return encodeNgap(pdu)
}

func UEContextReleaseCommand(amfID, ranID int64) []byte {
	pdu, im := initiating(ngapType.ProcedureCodeUEContextRelease, ngapType.CriticalityPresentReject)
	im.Value.Present = ngapType.InitiatingMessagePresentUEContextReleaseCommand
	im.Value.UEContextReleaseCommand = new(ngapType.UEContextReleaseCommand)
	ies := &im.Value.UEContextReleaseCommand.ProtocolIEs
	{
		ie := ngapType.UEContextReleaseCommandIEs{}
		ie.Id.Value = ngapType.ProtocolIEIDUENGAPIDs
		ie.Criticality.Value = ngapType.CriticalityPresentReject
		ie.Value.Present = ngapType.UEContextReleaseCommandIEsPresentUENGAPIDs
		ie.Value.UENGAPIDs = &ngapType.UENGAPIDs{Present: ngapType.UENGAPIDsPresentUENGAPIDPair, UENGAPIDPair: &ngapType.UENGAPIDPair{}}
		ie.Value.UENGAPIDs.UENGAPIDPair.AMFUENGAPID.Value = amfID
		ie.Value.UENGAPIDs.UENGAPIDPair.RANUENGAPID.Value = ranID
		ies.List = append(ies.List, ie)
	}
	{
		ie := ngapType.UEContextReleaseCommandIEs{}
		ie.Id.Value = ngapType.ProtocolIEIDCause
		ie.Criticality.Value = ngapType.CriticalityPresentIgnore
		ie.Value.Present = ngapType.UEContextReleaseCommandIEsPresentCause
		ie.Value.Cause = &ngapType.Cause{Present: ngapType.CausePresentNas, Nas: &ngapType.CauseNas{Value: ngapType.CauseNasPresentDeregister}}
		ies.List = append(ies.List, ie)
	}
	return encodeNgap(pdu)
}

// ErrorIndication is the decodable-but-never-expected message of fault kind "other".
func ErrorIndication() []byte {
	pdu, im := initiating(ngapType.ProcedureCodeErrorIndication, ngapType.CriticalityPresentIgnore)
	im.Value.Present = ngapType.InitiatingMessagePresentErrorIndication
	im.Value.ErrorIndication = new(ngapType.ErrorIndication)
	ie := ngapType.ErrorIndicationIEs{}
	ie.Id.Value = ngapType.ProtocolIEIDCause
	ie.Criticality.Value = ngapType.CriticalityPresentIgnore
	ie.Value.Present = ngapType.ErrorIndicationIEsPresentCause
	ie.Value.Cause = &ngapType.Cause{Present: ngapType.CausePresentProtocol, Protocol: &ngapType.CauseProtocol{Value: ngapType.CauseProtocolPresentUnspecified}}
	im.Value.ErrorIndication.ProtocolIEs.List = append(im.Value.ErrorIndication.ProtocolIEs.List, ie)
	return encodeNgap(pdu)
}

var _ = bytes.Equal

// kdf is the TS 33.220 B.2 KDF with the given FC (hex) over the parameters.
func kdf(key []byte, fc string, params ...[]byte) []byte {
	var a [][]byte
	for _, p := range params {
		a = append(a, p, UeauCommon.KDFLen(p))
	}
	return UeauCommon.GetKDFValue(key, fc, a...)
}
