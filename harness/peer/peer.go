package peer

import (
	"bytes"
	"encoding/binary"
	"encoding/hex"
	"encoding/json"
	"fmt"
	"net"
	"os"
	"os/exec"
	"path/filepath"
	"strconv"
	"strings"
	"sync/atomic"
	"syscall"
	"time"

	"free5gclib/nas"
	"free5gclib/nas/security"
	"free5gclib/ngap"
	"free5gclib/ngap/ngapType"

	"golang.org/x/sys/unix"
)

// Fault kinds. K is a downlink index (0 = NG Setup Response) except for CloseUL where it is an uplink index.
const (
	FaultNone    = "none"
	FaultClose   = "close"   // close the association instead of sending downlink message K
	FaultGarbage = "garbage" // send ff ff ff instead of downlink message K
	FaultTrunc   = "trunc"   // send the first half of downlink message K
	// FaultBigGarbage: send 3000 octets of ff instead of downlink message K (more than the 2048-octet receive buffer
	// of the procedures holds: the read is cut at the buffer size, the octets are still undecodable)
	FaultBigGarbage = "biggarbage"
	// FaultCount: send downlink message K with its IE count raised by one — every length in the message still matches the octets
	// present, only the list announces an IE that is not there: not a decodable NGAP message ("sequence truncated")
	FaultCount = "count"
	// FaultShrink: send downlink message K with the value of its LAST IE one octet shorter than its contents need — the IE length
	// and the message length say so consistently — and the cut octet left behind the message in the datagram: not a decodable
	// NGAP message for a decoder that keeps to the announced length of an open type
	FaultShrink  = "shrink"
	FaultOther   = "other"   // send a decodable NGAP message of a type the emulator never expects (Error Indication)
	FaultCloseUL = "closeul" // close the association right after receiving uplink message K, answering nothing
	// FaultSilent: from downlink message K on the peer neither answers nor closes. This is OUTSIDE the property's fault
	// model; it shows what the exclusion means: the emulator has no read timeout and waits until it is killed.
	FaultSilent = "silent"
)

type Fault struct {
	Kind string `json:"kind"`
	K    int    `json:"k"`
}

func ParseFault(s string) (Fault, error) {
	if s == "" || s == FaultNone {
		return Fault{Kind: FaultNone, K: -1}, nil
	}
	i := strings.IndexByte(s, ':')
	if i < 0 {
		return Fault{}, fmt.Errorf("fault must be k:kind")
	}
	k, err := strconv.Atoi(s[:i])
	if err != nil || k < 0 {
		return Fault{}, fmt.Errorf("fault index %q", s[:i])
	}
	switch s[i+1:] {
	case FaultClose, FaultGarbage, FaultTrunc, FaultOther, FaultCloseUL, FaultSilent, FaultBigGarbage, FaultCount, FaultShrink:
		return Fault{Kind: s[i+1:], K: k}, nil
	}
	return Fault{}, fmt.Errorf("fault kind %q", s[i+1:])
}

type Options struct {
	Emulator string        // path of stgutgmain built with -tags verif
	Script   *Script       // configuration and AMF choices
	Fault    Fault         //
	RunRoot  string        // scratch directories are created below it (default /verif/.build/run)
	Idle     time.Duration // no uplink message and no exit for this long = hang (default 8 s; the emulator sleeps at most 2 s)
	Keep     bool          // keep the scratch directory
}

// Msg is one message on the association, in the order seen by the peer.
type Msg struct {
	Dir    string `json:"dir"`             // "ul" | "dl"
	Index  int    `json:"index"`           // per direction
	AtMs   int64  `json:"at_ms"`           // since the start of the child
	Hex    string `json:"hex"`             // the octets on the wire
	Ngap   string `json:"ngap"`            // NGAP message name ("?" if undecodable)
	Nas    string `json:"nas,omitempty"`   // NAS message name(s), outermost first
	UE     int    `json:"ue"`              // UE index (order of first Registration Request), -1 = not UE associated
	Fault  string `json:"fault,omitempty"` // on downlink: the fault kind that replaced the message
	Meant  string `json:"meant,omitempty"` // on a faulted downlink: the message that would have been sent
	ResOK  *bool  `json:"res_star_ok,omitempty"`
	MacOK  *bool  `json:"mac_ok,omitempty"`
	SeqNum *int   `json:"nas_sqn,omitempty"`
}

// UERecord is what the peer derived / assigned for one UE.
type UERecord struct {
	Index    int      `json:"index"`
	Supi     string   `json:"supi"`
	RanUeID  int64    `json:"ran_ue_ngap_id"`
	Choice   UEChoice `json:"choice"`
	AUTN     string   `json:"autn"`
	XRESstar string   `json:"xres_star"`
	Kamf     string   `json:"kamf"`
	KnasInt  string   `json:"knas_int"`
	PSI      int      `json:"psi"`
	PTI      int      `json:"pti"`
	DLCount  uint32   `json:"dl_count"`
	Sessions int      `json:"sessions_set_up"`
	vec      *Vector
	ueSecCap []byte
}

type Transcript struct {
	Script       *Script     `json:"script"`
	ConfigYAML   string      `json:"config_yaml"`
	Fault        Fault       `json:"fault"`
	Messages     []Msg       `json:"messages"`
	UEs          []*UERecord `json:"ues"`
	Exit         int         `json:"exit"` // exit status; -1 = killed by the peer (hang), 128+n = signal n
	TimedOut     bool        `json:"timed_out"`
	WallMs       int64       `json:"wall_ms"`
	FaultAtMs    int64       `json:"fault_at_ms"`    // -1 = no fault injected
	AfterFaultMs int64       `json:"after_fault_ms"` // exit time - time of the last event on the association (message or fault)
	Stdout       []string    `json:"stdout"`
	Stderr       string      `json:"stderr"`
	UL           int         `json:"ul_count"`
	DL           int         `json:"dl_count"`
	AfterFaultUL int         `json:"after_fault_ul"`
	Banner       bool        `json:"banner"`
	ErrorLine    bool        `json:"error_line"`
	ErrorText    string      `json:"error_text"` // the ManageError message (text before ": <error>") of the first Error line
	Tests        int         `json:"test_headers"`
	PeerError    string      `json:"peer_error,omitempty"`
}

var runSeq int64

// ngapName gives the NGAP message name of a decoded PDU.
func ngapName(p *ngapType.NGAPPDU) string {
	switch p.Present {
	case ngapType.NGAPPDUPresentInitiatingMessage:
		v := p.InitiatingMessage.Value
		switch p.InitiatingMessage.Value.Present {
		case ngapType.InitiatingMessagePresentNGSetupRequest:
			return "NGSetupRequest"
		case ngapType.InitiatingMessagePresentInitialUEMessage:
			return "InitialUEMessage"
		case ngapType.InitiatingMessagePresentUplinkNASTransport:
			return "UplinkNASTransport"
		case ngapType.InitiatingMessagePresentDownlinkNASTransport:
			return "DownlinkNASTransport"
		case ngapType.InitiatingMessagePresentInitialContextSetupRequest:
			return "InitialContextSetupRequest"
		case ngapType.InitiatingMessagePresentPDUSessionResourceSetupRequest:
			return "PDUSessionResourceSetupRequest"
		case ngapType.InitiatingMessagePresentPDUSessionResourceReleaseCommand:
			return "PDUSessionResourceReleaseCommand"
		case ngapType.InitiatingMessagePresentUEContextReleaseCommand:
			return "UEContextReleaseCommand"
		case ngapType.InitiatingMessagePresentUEContextReleaseRequest:
			return "UEContextReleaseRequest"
		case ngapType.InitiatingMessagePresentErrorIndication:
			return "ErrorIndication"
		}
		_ = v
		return fmt.Sprintf("InitiatingMessage(%d)", p.InitiatingMessage.ProcedureCode.Value)
	case ngapType.NGAPPDUPresentSuccessfulOutcome:
		switch p.SuccessfulOutcome.Value.Present {
		case ngapType.SuccessfulOutcomePresentNGSetupResponse:
			return "NGSetupResponse"
		case ngapType.SuccessfulOutcomePresentInitialContextSetupResponse:
			return "InitialContextSetupResponse"
		case ngapType.SuccessfulOutcomePresentPDUSessionResourceSetupResponse:
			return "PDUSessionResourceSetupResponse"
		case ngapType.SuccessfulOutcomePresentPDUSessionResourceReleaseResponse:
			return "PDUSessionResourceReleaseResponse"
		case ngapType.SuccessfulOutcomePresentUEContextReleaseComplete:
			return "UEContextReleaseComplete"
		}
		return fmt.Sprintf("SuccessfulOutcome(%d)", p.SuccessfulOutcome.ProcedureCode.Value)
	case ngapType.NGAPPDUPresentUnsuccessfulOutcome:
		return fmt.Sprintf("UnsuccessfulOutcome(%d)", p.UnsuccessfulOutcome.ProcedureCode.Value)
	}
	return "?"
}

var nasNames = map[uint8]string{
	nas.MsgTypeRegistrationRequest: "RegistrationRequest", nas.MsgTypeRegistrationAccept: "RegistrationAccept",
	nas.MsgTypeRegistrationComplete: "RegistrationComplete", nas.MsgTypeAuthenticationRequest: "AuthenticationRequest",
	nas.MsgTypeAuthenticationResponse: "AuthenticationResponse", nas.MsgTypeAuthenticationFailure: "AuthenticationFailure",
	nas.MsgTypeSecurityModeCommand: "SecurityModeCommand", nas.MsgTypeSecurityModeComplete: "SecurityModeComplete",
	nas.MsgTypeSecurityModeReject: "SecurityModeReject", nas.MsgTypeULNASTransport: "ULNASTransport", nas.MsgTypeDLNASTransport: "DLNASTransport",
	nas.MsgTypeServiceRequest: "ServiceRequest", nas.MsgTypeServiceAccept: "ServiceAccept",
	nas.MsgTypeDeregistrationRequestUEOriginatingDeregistration: "DeregistrationRequest",
	nas.MsgTypeDeregistrationAcceptUEOriginatingDeregistration:  "DeregistrationAccept",
	nas.MsgTypeConfigurationUpdateCommand:                       "ConfigurationUpdateCommand",
	nas.MsgTypeConfigurationUpdateComplete:                      "ConfigurationUpdateComplete",
}

var gsmNames = map[uint8]string{
	nas.MsgTypePDUSessionEstablishmentRequest: "PDUSessionEstablishmentRequest", nas.MsgTypePDUSessionEstablishmentAccept: "PDUSessionEstablishmentAccept",
	nas.MsgTypePDUSessionReleaseRequest: "PDUSessionReleaseRequest", nas.MsgTypePDUSessionReleaseCommand: "PDUSessionReleaseCommand",
	nas.MsgTypePDUSessionReleaseComplete: "PDUSessionReleaseComplete", nas.MsgTypePDUSessionModificationRequest: "PDUSessionModificationRequest",
}

// ulInfo is what the peer extracts from one uplink message.
type ulInfo struct {
	ngap     string
	ranID    int64
	hasRan   bool
	amfID    int64
	nasPdu   []byte
	nasType  uint8 // 5GMM message type of the (inner) plain message
	sht      uint8
	sqn      int
	mac      []byte
	plain    []byte // the plain 5GMM message
	gsmType  uint8  // 5GSM message type inside UL NAS TRANSPORT
	psi, pti uint8
	plmn     []byte
	msg      *nas.Message
}

func parseUL(b []byte) (*ulInfo, error) {
	p, err := ngap.Decoder(b)
	if err != nil {
		return nil, err
	}
	u := &ulInfo{ngap: ngapName(p), sqn: -1}
	switch u.ngap {
	case "NGSetupRequest":
		for _, ie := range p.InitiatingMessage.Value.NGSetupRequest.ProtocolIEs.List {
			if ie.Value.GlobalRANNodeID != nil && ie.Value.GlobalRANNodeID.GlobalGNBID != nil {
				u.plmn = []byte(ie.Value.GlobalRANNodeID.GlobalGNBID.PLMNIdentity.Value)
			}
		}
	case "InitialUEMessage":
		for _, ie := range p.InitiatingMessage.Value.InitialUEMessage.ProtocolIEs.List {
			if ie.Value.RANUENGAPID != nil {
				u.ranID, u.hasRan = ie.Value.RANUENGAPID.Value, true
			}
			if ie.Value.NASPDU != nil {
				u.nasPdu = ie.Value.NASPDU.Value
			}
		}
	case "UplinkNASTransport":
		for _, ie := range p.InitiatingMessage.Value.UplinkNASTransport.ProtocolIEs.List {
			if ie.Value.RANUENGAPID != nil {
				u.ranID, u.hasRan = ie.Value.RANUENGAPID.Value, true
			}
			if ie.Value.AMFUENGAPID != nil {
				u.amfID = ie.Value.AMFUENGAPID.Value
			}
			if ie.Value.NASPDU != nil {
				u.nasPdu = ie.Value.NASPDU.Value
			}
		}
	case "InitialContextSetupResponse":
		for _, ie := range p.SuccessfulOutcome.Value.InitialContextSetupResponse.ProtocolIEs.List {
			if ie.Value.RANUENGAPID != nil {
				u.ranID, u.hasRan = ie.Value.RANUENGAPID.Value, true
			}
		}
	case "PDUSessionResourceSetupResponse":
		for _, ie := range p.SuccessfulOutcome.Value.PDUSessionResourceSetupResponse.ProtocolIEs.List {
			if ie.Value.RANUENGAPID != nil {
				u.ranID, u.hasRan = ie.Value.RANUENGAPID.Value, true
			}
		}
	case "PDUSessionResourceReleaseResponse":
		for _, ie := range p.SuccessfulOutcome.Value.PDUSessionResourceReleaseResponse.ProtocolIEs.List {
			if ie.Value.RANUENGAPID != nil {
				u.ranID, u.hasRan = ie.Value.RANUENGAPID.Value, true
			}
		}
	case "UEContextReleaseComplete":
		for _, ie := range p.SuccessfulOutcome.Value.UEContextReleaseComplete.ProtocolIEs.List {
			if ie.Value.RANUENGAPID != nil {
				u.ranID, u.hasRan = ie.Value.RANUENGAPID.Value, true
			}
		}
	}
	if len(u.nasPdu) >= 3 {
		u.sht = u.nasPdu[1] & 0x0f
		u.plain = u.nasPdu
		if u.sht != 0 && len(u.nasPdu) >= 10 {
			u.mac = u.nasPdu[2:6]
			u.sqn = int(u.nasPdu[6])
			u.plain = u.nasPdu[7:] // 5G-EA0: the payload is the plain message
		}
		if len(u.plain) >= 3 {
			u.nasType = u.plain[2]
			m := nas.NewMessage()
			cp := append([]byte{}, u.plain...)
			if err := m.PlainNasDecode(&cp); err == nil {
				u.msg = m
				if m.GmmMessage != nil && m.GmmMessage.ULNASTransport != nil {
					c := m.GmmMessage.ULNASTransport.PayloadContainer.GetPayloadContainerContents()
					if len(c) >= 4 {
						u.psi, u.pti, u.gsmType = c[1], c[2], c[3]
					}
				}
			}
		}
	}
	return u, nil
}

func (u *ulInfo) nasName() string {
	if len(u.nasPdu) == 0 {
		return ""
	}
	n, ok := nasNames[u.nasType]
	if !ok {
		n = fmt.Sprintf("5GMM(0x%02x)", u.nasType)
	}
	if u.nasType == nas.MsgTypeULNASTransport {
		g, ok := gsmNames[u.gsmType]
		if !ok {
			g = fmt.Sprintf("5GSM(0x%02x)", u.gsmType)
		}
		n += "/" + g
	}
	if u.sht != 0 {
		n = fmt.Sprintf("sht%d/", u.sht) + n
	}
	return n
}

type dlMsg struct {
	bytes []byte
	ngap  string
	nas   string
	ue    int
}

type runner struct {
	o       Options
	t       *Transcript
	fd      int
	t0      time.Time
	ues     map[int64]*UERecord
	order   []*UERecord
	amf     AmfIdentity
	dlIndex int
	ulIndex int
	faulted bool
	closed  bool
	silent  bool
}

func (r *runner) now() int64 { return time.Since(r.t0).Milliseconds() }

func (r *runner) protect(ue *UERecord, plain []byte, sht uint8) []byte {
	b, err := ProtectDL(plain, sht, ue.vec.KnasInt, security.AlgIntegrity128NIA2, ue.DLCount)
	if err != nil {
		panic(err)
	}
	ue.DLCount++
	return b
}

// react is the scripted AMF: the downlink messages answering one uplink message.
func (r *runner) react(u *ulInfo, m *Msg) []dlMsg {
	cfg := r.o.Script.Config
	sd, _ := hex.DecodeString(cfg.Sd)
	sst := uint8(cfg.Sst)
	var ue *UERecord
	if u.hasRan {
		ue = r.ues[u.ranID]
	}
	if ue != nil {
		m.UE = ue.Index
		if u.sht != 0 && ue.vec != nil && len(u.nasPdu) >= 7 {
			// MAC under the network-derived K_NASint: NIA2 over SQN ‖ message, COUNT = 0x0000 ‖ SQN, bearer 1, uplink
			mac, err := security.NASMacCalculate(security.AlgIntegrity128NIA2, ue.vec.KnasInt, uint32(u.nasPdu[6]),
				security.Bearer3GPP, security.DirectionUplink, u.nasPdu[6:])
			if err == nil {
				ok := bytes.Equal(mac, u.mac)
				m.MacOK = &ok
			}
		}
	}
	switch u.ngap {
	case "NGSetupRequest":
		r.amf.PLMN = u.plmn
		return []dlMsg{{NgSetupResponse(r.amf), "NGSetupResponse", "", -1}}
	case "InitialUEMessage":
		switch u.nasType {
		case nas.MsgTypeRegistrationRequest:
			idx := len(r.order)
			ch := r.o.Script.UE(idx)
			imsi, _ := strconv.Atoi(cfg.InitialImsi)
			supi := fmt.Sprintf("%0*d", len(cfg.InitialImsi), imsi+idx)
			ue = &UERecord{Index: idx, Supi: "imsi-" + supi, RanUeID: u.ranID, Choice: ch, PSI: -1, PTI: -1}
			if u.msg != nil && u.msg.GmmMessage != nil && u.msg.GmmMessage.RegistrationRequest != nil && u.msg.GmmMessage.RegistrationRequest.UESecurityCapability != nil {
				ue.ueSecCap = u.msg.GmmMessage.RegistrationRequest.UESecurityCapability.Buffer
			}
			var rnd [16]byte
			var sqn [6]byte
			var amf [2]byte
			copy(rnd[:], mustHex(ch.RAND))
			copy(sqn[:], mustHex(ch.SQN))
			copy(amf[:], mustHex(ch.AMF))
			abba := mustHex(r.o.Script.Amf.ABBA)
			v, err := DeriveVector(cfg.K, cfg.Opc, cfg.Op, rnd, sqn, amf, SNName(cfg.Mcc, cfg.Mnc), supi, abba,
				security.AlgCiphering128NEA0, security.AlgIntegrity128NIA2)
			if err != nil {
				panic(err)
			}
			ue.vec = v
			ue.AUTN, ue.XRESstar = hex.EncodeToString(v.AUTN[:]), hex.EncodeToString(v.XRESstar)
			ue.Kamf, ue.KnasInt = hex.EncodeToString(v.Kamf), hex.EncodeToString(v.KnasInt[:])
			r.ues[u.ranID] = ue
			r.order = append(r.order, ue)
			r.t.UEs = append(r.t.UEs, ue)
			m.UE = idx
			n := NasAuthenticationRequest(ch.NgKSI, abba, v.RAND, v.AUTN)
			return []dlMsg{{DownlinkNASTransport(ch.AmfUeNgapID, ue.RanUeID, n), "DownlinkNASTransport", "AuthenticationRequest", idx}}
		case nas.MsgTypeServiceRequest:
			if ue == nil {
				return nil
			}
			psi := uint8(0)
			if ue.PSI > 0 {
				psi = uint8(ue.PSI)
			}
			n := r.protect(ue, NasServiceAccept(psi), nas.SecurityHeaderTypeIntegrityProtectedAndCiphered)
			return []dlMsg{{InitialContextSetupRequest(ue.Choice.AmfUeNgapID, ue.RanUeID, r.amf, kgnb(ue.vec.Kamf, uint32(u.sqnOr0())), n),
				"InitialContextSetupRequest", "ServiceAccept", ue.Index}}
		}
	case "UplinkNASTransport":
		if ue == nil {
			return nil
		}
		amfID := ue.Choice.AmfUeNgapID
		switch u.nasType {
		case nas.MsgTypeAuthenticationResponse:
			if u.msg != nil && u.msg.GmmMessage.AuthenticationResponse != nil && u.msg.GmmMessage.AuthenticationResponse.AuthenticationResponseParameter != nil {
				res := u.msg.GmmMessage.AuthenticationResponse.AuthenticationResponseParameter.GetRES()
				ok := bytes.Equal(res[:], ue.vec.XRESstar)
				m.ResOK = &ok
			}
			plain := NasSecurityModeCommand(ue.Choice.NgKSI, security.AlgCiphering128NEA0, security.AlgIntegrity128NIA2, ue.ueSecCap)
			n := r.protect(ue, plain, nas.SecurityHeaderTypeIntegrityProtectedWithNew5gNasSecurityContext)
			return []dlMsg{{DownlinkNASTransport(amfID, ue.RanUeID, n), "DownlinkNASTransport", "SecurityModeCommand", ue.Index}}
		case nas.MsgTypeSecurityModeComplete:
			guti := Guti5G(r.amf.PLMN, r.amf.Region, r.amf.SetID, r.amf.Pointer, ue.Choice.Tmsi)
			plain := NasRegistrationAccept(guti, r.amf.PLMN, [3]byte{0, 0, 1}, uint8(cfg.Sst), sd)
			n := r.protect(ue, plain, nas.SecurityHeaderTypeIntegrityProtectedAndCiphered)
			return []dlMsg{{InitialContextSetupRequest(amfID, ue.RanUeID, r.amf, kgnb(ue.vec.Kamf, 0), n), "InitialContextSetupRequest", "RegistrationAccept", ue.Index}}
		case nas.MsgTypeRegistrationComplete:
			n := r.protect(ue, NasConfigurationUpdateCommand(), nas.SecurityHeaderTypeIntegrityProtectedAndCiphered)
			return []dlMsg{{DownlinkNASTransport(amfID, ue.RanUeID, n), "DownlinkNASTransport", "ConfigurationUpdateCommand", ue.Index}}
		case nas.MsgTypeULNASTransport:
			switch u.gsmType {
			case nas.MsgTypePDUSessionEstablishmentRequest:
				ue.PSI, ue.PTI = int(u.psi), int(u.pti)
				acc := NasPDUSessionEstablishmentAcceptQos(u.psi, u.pti, net.ParseIP(ue.Choice.UEIP), sst, sd, "internet", ue.Choice.QosExtra)
				n := r.protect(ue, NasDLTransport(u.psi, acc), nas.SecurityHeaderTypeIntegrityProtectedAndCiphered)
				tr := SetupRequestTransfer(net.ParseIP(ue.Choice.UPFIP), ue.Choice.TEID)
				return []dlMsg{{PDUSessionResourceSetupRequest(amfID, ue.RanUeID, int64(u.psi), sst, sd, n, tr),
					"PDUSessionResourceSetupRequest", "DLNASTransport/PDUSessionEstablishmentAccept", ue.Index}}
			case nas.MsgTypePDUSessionReleaseRequest:
				if r.o.Script.Amf.ReleaseCommand {
					cmd := NasPDUSessionReleaseCommand(u.psi, u.pti)
					n := r.protect(ue, NasDLTransport(u.psi, cmd), nas.SecurityHeaderTypeIntegrityProtectedAndCiphered)
					return []dlMsg{{PDUSessionResourceReleaseCommand(amfID, ue.RanUeID, int64(u.psi), n),
						"PDUSessionResourceReleaseCommand", "DLNASTransport/PDUSessionReleaseCommand", ue.Index}}
				}
			}
		case nas.MsgTypeDeregistrationRequestUEOriginatingDeregistration:
			n := r.protect(ue, NasDeregistrationAccept(), nas.SecurityHeaderTypeIntegrityProtectedAndCiphered)
			return []dlMsg{
				{DownlinkNASTransport(amfID, ue.RanUeID, n), "DownlinkNASTransport", "DeregistrationAccept", ue.Index},
				{UEContextReleaseCommand(amfID, ue.RanUeID), "UEContextReleaseCommand", "", ue.Index},
			}
		}
	case "PDUSessionResourceSetupResponse":
		if ue != nil {
			ue.Sessions++
		}
	}
	return nil
}

func (u *ulInfo) sqnOr0() int {
	if u.sqn < 0 {
		return 0
	}
	return u.sqn
}

// kgnb: K_gNB = KDF(K_AMF, 0x6E, uplink NAS COUNT, access type 1) (TS 33.501 A.9); the emulator ignores it.
func kgnb(kamf []byte, ulCount uint32) []byte {
	c := make([]byte, 4)
	binary.BigEndian.PutUint32(c, ulCount)
	return kdf(kamf, "6E", c, []byte{1})
}

// send transmits one downlink message, applying the fault if its index is the faulted one.
// It returns false when the association is gone.
func (r *runner) send(d dlMsg) bool {
	if r.silent {
		return true
	}
	f := r.o.Fault
	out := d.bytes
	m := Msg{Dir: "dl", Index: r.dlIndex, Ngap: d.ngap, Nas: d.nas, UE: d.ue}
	if r.dlIndex == f.K && f.Kind != FaultNone && f.Kind != FaultCloseUL {
		m.Fault, m.Meant = f.Kind, hex.EncodeToString(d.bytes)
		r.faulted = true
		r.t.FaultAtMs = r.now()
		switch f.Kind {
		case FaultSilent:
			m.AtMs, m.Hex, m.Ngap, m.Nas = r.now(), "", "(silent)", ""
			r.t.Messages = append(r.t.Messages, m)
			r.silent = true
			return true
		case FaultClose:
			m.AtMs, m.Hex, m.Ngap, m.Nas = r.now(), "", "(closed)", ""
			r.t.Messages = append(r.t.Messages, m)
			unix.Close(r.fd)
			r.closed = true
			return false
		case FaultGarbage:
			out, m.Ngap, m.Nas = []byte{0xff, 0xff, 0xff}, "?", ""
		case FaultBigGarbage:
			out, m.Ngap, m.Nas = bytes.Repeat([]byte{0xff}, 3000), "?", ""
		case FaultCount:
			out, m.Ngap, m.Nas = countLie(d.bytes), "?", ""
		case FaultShrink:
			out, m.Ngap, m.Nas = shrinkLie(d.bytes), "?", ""
		case FaultTrunc:
			out, m.Ngap, m.Nas = d.bytes[:len(d.bytes)/2], "?", ""
		case FaultOther:
			out, m.Ngap, m.Nas = ErrorIndication(), "ErrorIndication", ""
		}
	}
	m.AtMs, m.Hex = r.now(), hex.EncodeToString(out)
	err := unix.Send(r.fd, out, unix.MSG_NOSIGNAL)
	if err != nil {
		return false
	}
	r.t.Messages = append(r.t.Messages, m)
	r.dlIndex++
	r.t.DL++
	return true
}

// countLie: the IE count of an NGAP PDU (two octets behind the length of the message value and the extension octet) plus one;
// ff ff ff for a message that does not have the usual layout
func countLie(b []byte) []byte {
	if len(b) < 7 {
		return []byte{0xff, 0xff, 0xff}
	}
	off := 4 // choice, procedure code, criticality, one length octet
	if b[3]&0x80 != 0 {
		off = 5
	}
	if len(b) < off+3 {
		return []byte{0xff, 0xff, 0xff}
	}
	out := append([]byte{}, b...)
	n := int(out[off+1])<<8 | int(out[off+2])
	n++
	out[off+1], out[off+2] = byte(n>>8), byte(n)
	return out
}

func perLen(b []byte, off int) (n, size int, ok bool) {
	if off >= len(b) {
		return 0, 0, false
	}
	if b[off]&0x80 == 0 {
		return int(b[off]), 1, true
	}
	if b[off]&0x40 == 0 && off+1 < len(b) {
		return int(b[off]&0x3f)<<8 | int(b[off+1]), 2, true
	}
	return 0, 0, false
}

func perLenEnc(n int) []byte {
	if n < 128 {
		return []byte{byte(n)}
	}
	return []byte{0x80 | byte(n>>8), byte(n)}
}

// shrinkLie: see FaultShrink; ff ff ff for a message that does not have the usual layout
func shrinkLie(b []byte) []byte {
	bad := []byte{0xff, 0xff, 0xff}
	L, ls, ok := perLen(b, 3)
	if !ok || 3+ls+L != len(b) || L < 3 {
		return bad
	}
	v := 3 + ls
	count := int(b[v+1])<<8 | int(b[v+2])
	off := v + 3
	last, lastLen, lastLs := -1, 0, 0
	for k := 0; k < count; k++ {
		l, s2, ok2 := perLen(b, off+3)
		if !ok2 || off+3+s2+l > len(b) {
			return bad
		}
		last, lastLen, lastLs = off, l, s2
		off += 3 + s2 + l
	}
	if last < 0 || lastLen == 0 || off != len(b) {
		return bad
	}
	val := append([]byte{}, b[v:last+3]...)         // extension octet, count, the IEs before, id + criticality of the last
	val = append(val, perLenEnc(lastLen-1)...)      // its length, one less
	val = append(val, b[last+3+lastLs:len(b)-1]...) // its value without the last octet
	out := append(append([]byte{}, b[:3]...), perLenEnc(len(val))...)
	out = append(out, val...)
	return append(out, b[len(b)-1]) // the cut octet, behind the message
}

// gone waits up to d for the emulator's end to disappear without consuming anything.
func (r *runner) gone(d time.Duration) bool {
	deadline := time.Now().Add(d)
	for time.Now().Before(deadline) {
		fds := []unix.PollFd{{Fd: int32(r.fd), Events: unix.POLLIN}}
		n, err := unix.Poll(fds, 50)
		if err != nil && err != unix.EINTR {
			return true
		}
		if n > 0 {
			if fds[0].Revents&(unix.POLLHUP|unix.POLLERR) != 0 {
				return true
			}
			if fds[0].Revents&unix.POLLIN != 0 {
				buf := make([]byte, 1)
				k, _, err := unix.Recvfrom(r.fd, buf, unix.MSG_PEEK|unix.MSG_DONTWAIT)
				if err == nil && k == 0 {
					return true
				}
				return false // the emulator sent something: it is alive
			}
		}
	}
	return false
}

// Run plays one conversation and returns the transcript. The error is about the peer's own failure only.
func Run(o Options) (t *Transcript, err error) {
	if o.RunRoot == "" {
		o.RunRoot = "/verif/.build/run"
	}
	if o.Idle == 0 {
		o.Idle = 8 * time.Second
	}
	t = &Transcript{Script: o.Script, Fault: o.Fault, FaultAtMs: -1, Exit: -1}
	dir := filepath.Join(o.RunRoot, fmt.Sprintf("%d-%d-%d", os.Getpid(), time.Now().UnixNano()%1e9, atomic.AddInt64(&runSeq, 1)))
	if err = os.MkdirAll(dir, 0o755); err != nil {
		return t, err
	}
	if !o.Keep {
		defer os.RemoveAll(dir)
	}
	t.ConfigYAML = o.Script.Config.YAML()
	if err = os.WriteFile(filepath.Join(dir, "config.yaml"), []byte(t.ConfigYAML), 0o644); err != nil {
		return t, err
	}
	fds, err := unix.Socketpair(unix.AF_UNIX, unix.SOCK_SEQPACKET|unix.SOCK_CLOEXEC, 0)
	if err != nil {
		return t, err
	}
	childEnd := os.NewFile(uintptr(fds[1]), "n2-child")
	outF, err := os.Create(filepath.Join(dir, "stdout"))
	if err != nil {
		return t, err
	}
	errF, err := os.Create(filepath.Join(dir, "stderr"))
	if err != nil {
		return t, err
	}
	cmd := exec.Command(o.Emulator, "-t")
	cmd.Dir = dir
	cmd.Stdout, cmd.Stderr = outF, errF
	cmd.ExtraFiles = []*os.File{childEnd} // fd 3 in the child
	cmd.Env = append(os.Environ(), "STGUTG_VERIF_FD=3")
	cmd.SysProcAttr = &syscall.SysProcAttr{Pdeathsig: syscall.SIGKILL, Setpgid: true}
	r := &runner{o: o, t: t, fd: fds[0], t0: time.Now(), ues: map[int64]*UERecord{}}
	a := o.Script.Amf
	sd, _ := hex.DecodeString(o.Script.Config.Sd)
	r.amf = AmfIdentity{Name: a.Name, Region: a.Region, SetID: a.SetID, Pointer: a.Pointer, Capacity: a.Capacity, SST: uint8(o.Script.Config.Sst), SD: sd}
	if err = cmd.Start(); err != nil {
		unix.Close(fds[0])
		childEnd.Close()
		return t, err
	}
	childEnd.Close()
	exited := make(chan error, 1)
	go func() { exited <- cmd.Wait() }()
	defer func() {
		if rec := recover(); rec != nil {
			err = fmt.Errorf("peer: %v", rec)
			t.PeerError = err.Error()
			cmd.Process.Kill()
			<-exited
		}
	}()

	buf := make([]byte, 65536)
	lastEvent := int64(0)
	var waitErr error
	haveExit := false
loop:
	for !r.closed {
		// wait for an uplink message, the end of the association, or the idle limit
		fdsP := []unix.PollFd{{Fd: int32(r.fd), Events: unix.POLLIN}}
		n, perr := unix.Poll(fdsP, 100)
		if perr == unix.EINTR {
			// interrupted (the Go runtime preempts with signals): n is -1 here and nothing is known to be readable;
			// falling through to the blocking receive would wait for ever when the emulator stays silent
			n = 0
		} else if perr != nil {
			break
		}
		if n == 0 {
			select {
			case waitErr = <-exited:
				haveExit = true
				// drain what the emulator may have sent before exiting
				for {
					k, _, e := unix.Recvfrom(r.fd, buf, unix.MSG_DONTWAIT)
					if e != nil || k <= 0 {
						break
					}
					r.recordUL(buf[:k])
				}
				break loop
			default:
			}
			if r.now()-lastEvent > o.Idle.Milliseconds() {
				t.TimedOut = true
				break
			}
			continue
		}
		k, _, rerr := unix.Recvfrom(r.fd, buf, 0)
		if rerr != nil || k <= 0 {
			break // EOF: the emulator closed its end (exit or conn.Close)
		}
		lastEvent = r.now()
		u, m := r.recordUL(buf[:k])
		if o.Fault.Kind == FaultCloseUL && m.Index == o.Fault.K {
			r.faulted = true
			t.FaultAtMs = r.now()
			unix.Close(r.fd)
			r.closed = true
			break
		}
		if u == nil {
			continue
		}
		dls := r.react(u, m)
		for i, d := range dls {
			if i > 0 && r.faulted && t.FaultAtMs >= 0 && r.dlIndex == o.Fault.K+1 && o.Fault.Kind != FaultOther {
				// the previous message of this burst was replaced by undecodable octets: see whether the emulator survives
				// reading it (its reads may lag behind by its own sleeps) before queueing more
				if r.gone(1500 * time.Millisecond) {
					break loop
				}
			}
			if !r.send(d) {
				break loop
			}
			lastEvent = r.now()
		}
	}
	if !r.closed {
		defer unix.Close(r.fd)
	}
	if !haveExit {
		if t.TimedOut {
			cmd.Process.Kill()
			waitErr = <-exited
		} else {
			select {
			case waitErr = <-exited:
			case <-time.After(o.Idle):
				t.TimedOut = true
				cmd.Process.Kill()
				waitErr = <-exited
			}
		}
	}
	t.WallMs = r.now()
	switch {
	case t.TimedOut:
		t.Exit = -1
	case waitErr == nil:
		t.Exit = 0
	default:
		if ee, ok := waitErr.(*exec.ExitError); ok {
			ws := ee.Sys().(syscall.WaitStatus)
			if ws.Signaled() {
				t.Exit = 128 + int(ws.Signal())
			} else {
				t.Exit = ws.ExitStatus()
			}
		} else {
			return t, waitErr
		}
	}
	ref := lastEvent
	if t.FaultAtMs > ref {
		ref = t.FaultAtMs
	}
	t.AfterFaultMs = t.WallMs - ref
	outF.Close()
	errF.Close()
	so, _ := os.ReadFile(filepath.Join(dir, "stdout"))
	se, _ := os.ReadFile(filepath.Join(dir, "stderr"))
	for _, l := range strings.Split(strings.TrimRight(string(so), "\n"), "\n") {
		t.Stdout = append(t.Stdout, l)
		if strings.Contains(l, "All tests finished") {
			t.Banner = true
		}
		if strings.HasPrefix(l, "Error ") {
			if !t.ErrorLine {
				t.ErrorText = l
				if i := strings.Index(l, ": "); i >= 0 {
					t.ErrorText = l[:i]
				}
			}
			t.ErrorLine = true
		}
		if strings.HasPrefix(l, ">> [") {
			t.Tests++
		}
	}
	if len(se) > 4000 {
		se = se[:4000]
	}
	t.Stderr = string(se)
	return t, nil
}

func (r *runner) recordUL(b []byte) (*ulInfo, *Msg) {
	m := Msg{Dir: "ul", Index: r.ulIndex, AtMs: r.now(), Hex: hex.EncodeToString(b), UE: -1, Ngap: "?"}
	r.ulIndex++
	r.t.UL++
	if r.faulted {
		r.t.AfterFaultUL++
	}
	u, err := parseUL(b)
	if err == nil {
		m.Ngap, m.Nas = u.ngap, u.nasName()
		if u.sqn >= 0 {
			s := u.sqn
			m.SeqNum = &s
		}
		if u.hasRan {
			if ue := r.ues[u.ranID]; ue != nil {
				m.UE = ue.Index
			}
		}
	} else {
		u = nil
	}
	r.t.Messages = append(r.t.Messages, m)
	return u, &r.t.Messages[len(r.t.Messages)-1]
}

// Canonical is the result text compared with the model: everything in it is deterministic for a given op.
// Times are bucketed, never printed.
func (t *Transcript) Canonical() string {
	bucket := "t<5s"
	if t.TimedOut || t.AfterFaultMs >= 5000 {
		bucket = "t>=5s"
	}
	b2i := func(b bool) int {
		if b {
			return 1
		}
		return 0
	}
	ex := strconv.Itoa(t.Exit)
	if t.TimedOut {
		ex = "hang"
	}
	var seq []string
	for _, m := range t.Messages {
		if m.Dir == "ul" {
			seq = append(seq, ShortName(m.Ngap)+ShortNas(m.Nas))
		}
	}
	s := "-"
	if len(seq) > 0 {
		s = strings.Join(seq, ",")
	}
	errText := "-"
	if t.ErrorLine {
		errText = strings.ReplaceAll(t.ErrorText, " ", "_")
	}
	tests := strconv.Itoa(t.Tests)
	if t.Fault.Kind == FaultCloseUL {
		// which ManageError text and how many test headers are printed before the program notices the close depends on
		// whether its next write (immediately, or 10 ms later inside ReleasePDU) beats the peer's close; not compared
		tests = "*"
		errText = "*"
	}
	return fmt.Sprintf("exit=%s %s banner=%d err=%s tests=%s dl=%d ul=%d after_fault_ul=%d seq=%s",
		ex, bucket, b2i(t.Banner), errText, tests, t.DL, t.UL, t.AfterFaultUL, s)
}

// ShortNas abbreviates the NAS message carried by an uplink message ("" when there is none).
func ShortNas(n string) string {
	if n == "" {
		return ""
	}
	if i := strings.LastIndexByte(n, '/'); i >= 0 {
		n = n[i+1:]
	}
	switch n {
	case "RegistrationRequest":
		return "/RR"
	case "AuthenticationResponse":
		return "/AR"
	case "SecurityModeComplete":
		return "/SMC"
	case "RegistrationComplete":
		return "/RC"
	case "PDUSessionEstablishmentRequest":
		return "/ER"
	case "ServiceRequest":
		return "/SR"
	case "PDUSessionReleaseRequest":
		return "/RQ"
	case "PDUSessionReleaseComplete":
		return "/RX"
	case "DeregistrationRequest":
		return "/DR"
	}
	return "/?" + n
}

// ShortName abbreviates the NGAP message names used in the canonical uplink sequence.
func ShortName(n string) string {
	switch n {
	case "NGSetupRequest":
		return "NGS"
	case "InitialUEMessage":
		return "IUE"
	case "UplinkNASTransport":
		return "UNT"
	case "InitialContextSetupResponse":
		return "ICS"
	case "PDUSessionResourceSetupResponse":
		return "PSS"
	case "PDUSessionResourceReleaseResponse":
		return "PSR"
	case "UEContextReleaseComplete":
		return "UCR"
	}
	return "?" + n
}

func (t *Transcript) WriteJSON(path string) error {
	b, err := json.MarshalIndent(t, "", " ")
	if err != nil {
		return err
	}
	return os.WriteFile(path, append(b, '\n'), 0o644)
}
