module verifharness

go 1.21

replace (
	free5gclib => /repo/src/free5gclib
	stgutg => /repo/src/stgutg
	tglib => /repo/src/tglib
)

require (
	free5gclib v0.0.0-00010101000000-000000000000
	github.com/ishidawataru/sctp v0.0.0-20210707070123-9a39160e9062
	github.com/sirupsen/logrus v1.9.0
	golang.org/x/sys v0.14.1-0.20231108175955-e4099bfacb8c
	stgutg v0.0.0-00010101000000-000000000000
	tglib v0.0.0-00010101000000-000000000000
)

require (
	github.com/aead/cmac v0.0.0-20160719120800-7af84192f0b1 // indirect
	github.com/antonfisher/nested-logrus-formatter v1.3.1 // indirect
	github.com/calee0219/fatal v0.0.1 // indirect
	github.com/dgrijalva/jwt-go v3.2.0+incompatible // indirect
	github.com/wmnsk/milenage v1.2.1 // indirect
	gopkg.in/yaml.v2 v2.4.0 // indirect
)
