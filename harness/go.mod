module verifharness

go 1.22.0

replace (
	free5gclib => /repo/src/free5gclib
	stgutg => /repo/src/stgutg
	tglib => /repo/src/tglib
)

require (
	free5gclib v0.0.0-00010101000000-000000000000
	github.com/ishidawataru/sctp v0.0.0-20210707070123-9a39160e9062
	github.com/sirupsen/logrus v1.9.0
	golang.org/x/sys v0.29.0
	golang.org/x/tools v0.29.0
	stgutg v0.0.0-00010101000000-000000000000
	tglib v0.0.0-00010101000000-000000000000
)

require (
	github.com/aead/cmac v0.0.0-20160719120800-7af84192f0b1 // indirect
	github.com/antonfisher/nested-logrus-formatter v1.3.1 // indirect
	github.com/calee0219/fatal v0.0.1 // indirect
	github.com/dgrijalva/jwt-go v3.2.0+incompatible // indirect
	github.com/wmnsk/milenage v1.2.1 // indirect
	golang.org/x/mod v0.22.0 // indirect
	golang.org/x/sync v0.10.0 // indirect
	gopkg.in/yaml.v2 v2.4.0 // indirect
)

// go/ssa for `gen footprint` (C20). x/tools v0.29.0's own go.mod asks for x/sys v0.29.0; the harness must build
// the repo's packages against the x/sys version the repo pins, so it is held back here.
replace golang.org/x/sys => golang.org/x/sys v0.14.1-0.20231108175955-e4099bfacb8c
