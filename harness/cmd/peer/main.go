// Command peer runs the emulator binary (built with -tags verif) against the scripted N2 peer once and
// prints one op line in the corr protocol:   fsrun <ues> <r> <p> <s> <rel> <d> <kind> <k> <seed> \t <canonical result>
//
//	peer -emu /verif/.build/bin/stgutgmain-verif [-seed S] [-ues N] [-counts r,p,s,rel,d] [-fault k:kind]
//	     [-script file.json] [-dump-script] [-release-cmd] [-any-imsi] [-transcript out.json] [-keep]
//
// -script file.json overrides the seed-derived script (configuration, AMF identity, per-UE choices: RAND, SQN, AMF field,
// ngKSI, AMF-UE-NGAP-ID, TMSI, UE IP, TEID, UPF IP); -dump-script prints the script that would be used and exits.
// Fault kinds: close | garbage | trunc | other at downlink index k (0 = NG Setup Response); closeul = close right after
// uplink message k.
package main

import (
	"encoding/json"
	"flag"
	"fmt"
	"os"
	"strconv"
	"strings"

	"verifharness/peer"
)

func main() {
	emu := flag.String("emu", "/verif/.build/bin/stgutgmain-verif", "emulator binary (go build -tags verif)")
	seed := flag.Int64("seed", 0, "seed of the script (0 = the shipped src/config.yaml values)")
	ues := flag.Int("ues", 1, "number of UEs (ue_number; default for every count)")
	counts := flag.String("counts", "", "r,p,s,rel,d = ue_registration,ue_pdu,ue_service,ue_pdu_release,ue_deregistration (default: all = -ues)")
	fault := flag.String("fault", "", "k:kind")
	scriptFile := flag.String("script", "", "JSON script (see -dump-script)")
	dump := flag.Bool("dump-script", false, "print the script and exit")
	relCmd := flag.Bool("release-cmd", false, "answer PDU SESSION RELEASE REQUEST with a PDU SESSION RESOURCE RELEASE COMMAND")
	transcript := flag.String("transcript", "", "write the full transcript (JSON) here")
	anyIMSI := flag.Bool("any-imsi", false, "let the generated IMSI end in any four digits (default: imsi mod 10^4 stays in 1..15, see finding F14)")
	keep := flag.Bool("keep", false, "keep the scratch directory")
	runRoot := flag.String("run-root", "/verif/.build/run", "where scratch directories are created")
	flag.Parse()

	c := [5]int{*ues, *ues, *ues, *ues, *ues}
	if *counts != "" {
		f := strings.Split(*counts, ",")
		if len(f) != 5 {
			fmt.Fprintln(os.Stderr, "peer: -counts needs 5 integers")
			os.Exit(2)
		}
		for i := range f {
			v, err := strconv.Atoi(f[i])
			if err != nil {
				fmt.Fprintln(os.Stderr, "peer: -counts:", err)
				os.Exit(2)
			}
			c[i] = v
		}
	}
	s := peer.NewScriptOpt(*seed, *ues, c, *anyIMSI)
	if *scriptFile != "" {
		b, err := os.ReadFile(*scriptFile)
		if err != nil {
			fmt.Fprintln(os.Stderr, "peer:", err)
			os.Exit(2)
		}
		s = &peer.Script{}
		if err := json.Unmarshal(b, s); err != nil {
			fmt.Fprintln(os.Stderr, "peer: -script:", err)
			os.Exit(2)
		}
	}
	if *relCmd {
		s.Amf.ReleaseCommand = true
	}
	if *dump {
		b, _ := json.MarshalIndent(s, "", " ")
		fmt.Println(string(b))
		return
	}
	f, err := peer.ParseFault(*fault)
	if err != nil {
		fmt.Fprintln(os.Stderr, "peer: -fault:", err)
		os.Exit(2)
	}
	t, err := peer.Run(peer.Options{Emulator: *emu, Script: s, Fault: f, RunRoot: *runRoot, Keep: *keep})
	if *transcript != "" && t != nil {
		if werr := t.WriteJSON(*transcript); werr != nil {
			fmt.Fprintln(os.Stderr, "peer:", werr)
		}
	}
	if err != nil {
		fmt.Fprintln(os.Stderr, "peer:", err)
		os.Exit(1)
	}
	cf := s.Config
	fmt.Printf("fsrun %d %d %d %d %d %d %s %d %d\t%s\n", cf.UeNumber, cf.UeRegistration, cf.UePdu, cf.UeService, cf.UePduRelease,
		cf.UeDeregistration, f.Kind, f.K, s.Seed, t.Canonical())
}
