package main

import (
	"fmt"
	"strings"

	"verifharness/internal/bld"
)

// templates-dump (authoring aid, not part of any check): prints the concrete tree the hand-modelled builders
// return for sample arguments, in the Lean `Tm` syntax.
func init() {
	register("templates-dump", func() error {
		defer tplWorker.Close()
		sample := map[string]string{
			bld.RAmf: "i770001", bld.RRan: "i880002", bld.RPsi: "i77", bld.RPsiList: "[ i71 i72 ]", bld.RNas: "oaabbcc",
			bld.RIp: "s" + fmt.Sprintf("%x", "10.11.12.13"), bld.RTmsi: "s" + fmt.Sprintf("%x", "fe4100000001"), bld.RPlmn: "oa1b2c3",
			bld.RGnbId: "o454647", bld.RCellId: "o0102", bld.RVal: "n",
		}
		for idx := range bld.Entries {
			e := &bld.Entries[idx]
			if !e.Hand || e.Wrapper {
				continue
			}
			var toks []string
			for _, r := range e.Roles {
				toks = append(toks, sample[r])
			}
			reply := tplWorker.Do(e.Name + " d4e5f6 " + strings.Join(toks, " "))
			parts := strings.SplitN(reply, " | ", 2)
			if len(parts) != 2 {
				fmt.Printf("-- %s: %s\n", e.Name, reply)
				continue
			}
			n, _ := bld.ParseTokens(strings.Fields(parts[1]))
			var conv func(n *bld.Node) *tm
			conv = func(n *bld.Node) *tm {
				t := &tm{n: n}
				for _, k := range n.Kids {
					t.kids = append(t.kids, conv(k))
				}
				return t
			}
			fmt.Printf("-- %s %s\n%s\n\n", e.Name, strings.Join(toks, " "), conv(n).lean())
		}
		return nil
	})
}
