package main

import (
	"fmt"
	"go/ast"
	"go/token"
	"go/types"
	"sort"
	"strconv"
	"strings"
)

// The extended grammar of the `rich` groups (pure-nasprot, pure-keys). See the grammar text in pure.go.

// ---------------------------------------------------------------------------------------------- library calls

// puLibFn: a call the translator does not interpret. It becomes a field of the group's `Lib` record (emitted in the
// group's module, typed from the Go signature); the tie theorems instantiate the record with the hand models'
// parameters. Every such function is taken to be a function of the VALUES of its operands whose only effects are the
// ones declared here; a slice it returns shares storage with nothing else.
type puLibFn struct {
	key   string // "import/path.Func" or "(import/path.Type).Method"
	field string // Lean field name
	// recvMut: a method that may change the struct behind its pointer receiver: component 1 of the result is the
	// receiver afterwards
	recvMut bool
	// inPlace: index of the slice argument whose elements the call overwrites (-1: none): the next component of the
	// result is that slice afterwards (same length). Translated as a rebinding of the argument variable; every
	// other variable that may share storage with it is unusable from there on
	inPlace int
	// nonNil: slice arguments the function tests against nil: accepted only where the translator can see that the
	// argument is not nil (the carrier does not distinguish nil from empty)
	nonNil []int
	// resNonNil: slice results assumed to be non-nil whenever they are used
	resNonNil []int
	// retain: arguments whose storage the receiver may go on referring to
	retain []int
	// total: cannot fail and has no effect (a plain value instead of Res)
	total bool
	// resExact: slice results assumed to have no spare capacity (cap = len), so that x[a:b] on a variable that only
	// ever holds such a result panics exactly when b > len(x)
	resExact []int
	// noReturn: the call ends the process (fatal.Fatalf); its outcome is whatever the instantiation says, the
	// translation goes on after it as if it had returned
	noReturn bool
	doc      string
}

func (c *puFn) libKey(call *ast.CallExpr) string {
	if s := c.stdCall(call); s != "" {
		return s
	}
	if id, ok := call.Fun.(*ast.Ident); ok {
		if f, ok := c.pkg.info.Uses[id].(*types.Func); ok && f.Pkg() != nil {
			return f.Pkg().Path() + "." + f.Name()
		}
	}
	if sel, ok := call.Fun.(*ast.SelectorExpr); ok {
		if s, ok := c.pkg.info.Selections[sel]; ok && s.Kind() == types.MethodVal {
			if n := puNamedStruct(s.Recv()); n != nil && n.Obj().Pkg() != nil {
				return "(" + n.Obj().Pkg().Path() + "." + n.Obj().Name() + ")." + sel.Sel.Name
			}
		}
	}
	return ""
}

func (c *puFn) libOf(call *ast.CallExpr) *puLibFn {
	if !c.grp.g.rich {
		return nil
	}
	k := c.libKey(call)
	if k == "" {
		return nil
	}
	for _, l := range c.grp.g.lib {
		if l.key == k {
			return l
		}
	}
	return nil
}

func (c *puFn) libFuncObj(call *ast.CallExpr) *types.Func {
	if id, ok := call.Fun.(*ast.Ident); ok {
		f, _ := c.pkg.info.Uses[id].(*types.Func)
		return f
	}
	sel, ok := call.Fun.(*ast.SelectorExpr)
	if !ok {
		return nil
	}
	if s, ok := c.pkg.info.Selections[sel]; ok {
		f, _ := s.Obj().(*types.Func)
		return f
	}
	f, _ := c.pkg.info.Uses[sel.Sel].(*types.Func)
	return f
}

// libType: the Lean type of the Lib field, from the Go signature
func (c *puFn) libType(l *puLibFn, fo *types.Func) (string, error) {
	sig := fo.Type().(*types.Signature)
	var parts []string
	recvT := ""
	if sig.Recv() != nil {
		n, err := c.grp.structName(c, sig.Recv().Type())
		if err != nil {
			return "", err
		}
		recvT = n
		parts = append(parts, n)
	}
	if l.noReturn {
		return "Res Unit", nil
	}
	for i := 0; i < sig.Params().Len(); i++ {
		pt := sig.Params().At(i).Type()
		if p, ok := pt.Underlying().(*types.Pointer); ok {
			if _, isSlice := p.Elem().Underlying().(*types.Slice); isSlice {
				pt = p.Elem() // *[]byte: the slice it points to, read
			}
		}
		lt, err := c.leanType(pt)
		if err != nil {
			return "", fmt.Errorf("library function %s: %v", l.key, err)
		}
		parts = append(parts, lt)
	}
	var comps []string
	if l.recvMut {
		if recvT == "" {
			return "", fmt.Errorf("library function %s: recvMut without receiver", l.key)
		}
		comps = append(comps, recvT)
	}
	if l.inPlace >= 0 {
		comps = append(comps, "Bytes")
	}
	for i := 0; i < sig.Results().Len(); i++ {
		lt, err := c.leanType(sig.Results().At(i).Type())
		if err != nil {
			return "", fmt.Errorf("library function %s: %v", l.key, err)
		}
		comps = append(comps, lt)
	}
	rt := "Unit"
	if len(comps) > 0 {
		rt = puTupleType(comps)
	}
	if !l.total {
		rt = "Res " + rt
	}
	return strings.Join(append(parts, rt), " → "), nil
}

// ---------------------------------------------------------------------------------------------- struct carriers

func puPlainData(t types.Type, depth int) bool {
	if depth > 8 {
		return false
	}
	switch u := t.Underlying().(type) {
	case *types.Basic:
		switch u.Kind() {
		case types.Uint8, types.Uint16, types.Uint32, types.Uint64, types.Int, types.Int64, types.Int32, types.Bool, types.String:
			return true
		}
	case *types.Slice:
		b, ok := u.Elem().Underlying().(*types.Basic)
		return ok && b.Kind() == types.Uint8
	case *types.Array:
		b, ok := u.Elem().Underlying().(*types.Basic)
		return ok && b.Kind() == types.Uint8
	case *types.Struct:
		if _, ok := t.(*types.Named); !ok {
			return false
		}
		for i := 0; i < u.NumFields(); i++ {
			if !puPlainData(u.Field(i).Type(), depth+1) {
				return false
			}
		}
		return true
	}
	return false
}

// structFields: the fields of a named struct that have a carrier, and whether the others are summed up as `rest_`.
//
//	groups without `rich`: every field (an embedded field is refused)
//	a type handed to a library call (exposed): every field of plain data (integers, bool, string, []byte, [N]byte,
//	    structs of such, in full), the others — pointers into trees the group never looks into — are `rest_ : Go.Rest`:
//	    a library call sees the whole value, so nothing it could read may be dropped
//	any other type: the fields some function of the group selects; the others cannot influence a translated
//	    function (whole values of these types only move between translated functions), so they are not carried
func (gc *puGroupCtx) structFields(n *types.Named) ([]*types.Var, bool, error) {
	st := n.Underlying().(*types.Struct)
	var out []*types.Var
	if !gc.g.rich {
		for i := 0; i < st.NumFields(); i++ {
			f := st.Field(i)
			if f.Embedded() {
				return nil, false, fmt.Errorf("struct %s has an embedded field", n.Obj().Name())
			}
			out = append(out, f)
		}
		return out, false, nil
	}
	if gc.exposed[n.Obj()] {
		rest := false
		for i := 0; i < st.NumFields(); i++ {
			f := st.Field(i)
			if puPlainData(f.Type(), 0) {
				out = append(out, f)
			} else {
				rest = true
			}
		}
		return out, rest, nil
	}
	for i := 0; i < st.NumFields(); i++ {
		f := st.Field(i)
		if gc.accessed[n.Obj()][f.Name()] {
			out = append(out, f)
		}
	}
	return out, false, nil
}

func (gc *puGroupCtx) structNote(n *types.Named, fields []*types.Var, hasRest bool) string {
	if !gc.g.rich {
		return ""
	}
	st := n.Underlying().(*types.Struct)
	has := map[string]bool{}
	for _, f := range fields {
		has[f.Name()] = true
	}
	var missing []string
	for i := 0; i < st.NumFields(); i++ {
		if !has[st.Field(i).Name()] {
			missing = append(missing, st.Field(i).Name())
		}
	}
	if len(missing) == 0 {
		return ""
	}
	if hasRest {
		return " — handed to library calls: every field of plain data; rest_ stands for " + strings.Join(missing, ", ")
	}
	return " — the fields this group selects; not carried: " + strings.Join(missing, ", ")
}

// scanRich: which fields are selected, which struct types reach a library call
func (gc *puGroupCtx) scanRich() {
	gc.accessed = map[*types.TypeName]map[string]bool{}
	gc.exposed = map[*types.TypeName]bool{}
	mark := func(t types.Type, f string) {
		n := puNamedStruct(t)
		if n == nil {
			return
		}
		if _, ok := n.Underlying().(*types.Struct); !ok {
			return
		}
		if gc.accessed[n.Obj()] == nil {
			gc.accessed[n.Obj()] = map[string]bool{}
		}
		gc.accessed[n.Obj()][f] = true
	}
	var expose func(t types.Type, depth int)
	expose = func(t types.Type, depth int) {
		// through slices, arrays and pointers to the element type
		for i := 0; i < 4; i++ {
			switch u := t.Underlying().(type) {
			case *types.Slice:
				t = u.Elem()
			case *types.Array:
				t = u.Elem()
			case *types.Pointer:
				if _, isStruct := u.Elem().Underlying().(*types.Struct); !isStruct {
					t = u.Elem()
				}
			}
		}
		n := puNamedStruct(t)
		if n == nil || depth > 8 {
			return
		}
		st, ok := n.Underlying().(*types.Struct)
		if !ok || gc.exposed[n.Obj()] {
			return
		}
		gc.exposed[n.Obj()] = true
		for i := 0; i < st.NumFields(); i++ {
			if _, isStruct := st.Field(i).Type().Underlying().(*types.Struct); isStruct && puPlainData(st.Field(i).Type(), 0) {
				expose(st.Field(i).Type(), depth+1)
			}
		}
	}
	for _, c := range gc.fns {
		if c.t.extern {
			continue
		}
		c := c
		ast.Inspect(c.decl.Body, func(n ast.Node) bool {
			switch x := n.(type) {
			case *ast.SelectorExpr:
				if s, ok := c.pkg.info.Selections[x]; ok && s.Kind() == types.FieldVal {
					mark(s.Recv(), x.Sel.Name)
				}
			case *ast.CompositeLit:
				if tv, ok := c.pkg.info.Types[x]; ok {
					for _, el := range x.Elts {
						if kv, ok := el.(*ast.KeyValueExpr); ok {
							if id, ok := kv.Key.(*ast.Ident); ok {
								mark(tv.Type, id.Name)
							}
						}
					}
				}
			case *ast.CallExpr:
				if l := c.libOf(x); l != nil {
					if fo := c.libFuncObj(x); fo != nil {
						sig := fo.Type().(*types.Signature)
						if sig.Recv() != nil {
							expose(sig.Recv().Type(), 0)
						}
						for i := 0; i < sig.Params().Len(); i++ {
							expose(sig.Params().At(i).Type(), 0)
						}
						for i := 0; i < sig.Results().Len(); i++ {
							expose(sig.Results().At(i).Type(), 0)
						}
					}
				}
			}
			return true
		})
	}
}

// ---------------------------------------------------------------------------------------------- flow facts

// puFx: what the translator knows at a program point (in the order of translation = the order of execution along
// the path being translated).
//
//	nonNil   slice variables that cannot be nil here
//	poison   variables whose storage may have been overwritten through another name (an in-place library call, a
//	         callee that overwrites its argument): their carrier value is stale, reading them is refused
//	holds    v ↦ variables whose storage the object behind v may refer to since a library call kept it (`retain`)
type puFx struct {
	nonNil map[*types.Var]bool
	poison map[*types.Var]bool
	holds  map[[2]*types.Var]bool
}

func newPuFx() puFx {
	return puFx{map[*types.Var]bool{}, map[*types.Var]bool{}, map[[2]*types.Var]bool{}}
}

func (f puFx) clone() puFx {
	g := newPuFx()
	for k := range f.nonNil {
		g.nonNil[k] = true
	}
	for k := range f.poison {
		g.poison[k] = true
	}
	for k := range f.holds {
		g.holds[k] = true
	}
	return g
}

// atLeast: f knows at least what g knows (f may be used where text translated under g is reused)
func (f puFx) atLeast(g puFx) bool {
	for k := range g.nonNil {
		if !f.nonNil[k] {
			return false
		}
	}
	for k := range f.poison {
		if !g.poison[k] {
			return false
		}
	}
	for k := range f.holds {
		if !g.holds[k] {
			return false
		}
	}
	return true
}

// meet: what holds after either of two paths
func puFxMeet(a, b puFx) puFx {
	g := newPuFx()
	for k := range a.nonNil {
		if b.nonNil[k] {
			g.nonNil[k] = true
		}
	}
	for k := range a.poison {
		g.poison[k] = true
	}
	for k := range b.poison {
		g.poison[k] = true
	}
	for k := range a.holds {
		g.holds[k] = true
	}
	for k := range b.holds {
		g.holds[k] = true
	}
	return g
}

// memo: puMemo that also checks, when the text of a continuation is used a second time, that the facts it was
// translated under hold again
func (c *puFn) memo(k puK) puK {
	var done bool
	var lines []string
	var err error
	var snap puFx
	return func() ([]string, error) {
		if !done {
			snap = c.fx.clone()
			lines, err = k()
			done = true
		} else if err == nil && !c.fx.atLeast(snap) {
			return nil, c.errf(c.decl, "statements reached on two paths with different knowledge about nil / overwritten slices")
		}
		return append([]string(nil), lines...), err
	}
}

// nonNilExpr: is the slice value of e certainly not nil
func (c *puFn) nonNilExpr(e ast.Expr) bool {
	switch x := e.(type) {
	case *ast.ParenExpr:
		return c.nonNilExpr(x.X)
	case *ast.Ident:
		v, _ := c.pkg.info.ObjectOf(x).(*types.Var)
		return v != nil && c.fx.nonNil[v]
	case *ast.SliceExpr:
		return c.nonNilExpr(x.X)
	case *ast.CompositeLit:
		return true
	case *ast.CallExpr:
		if tv, ok := c.pkg.info.Types[x.Fun]; ok && tv.IsType() && len(x.Args) == 1 {
			return c.nonNilExpr(x.Args[0])
		}
		if id, ok := x.Fun.(*ast.Ident); ok {
			if _, ok := c.pkg.info.Uses[id].(*types.Builtin); ok {
				switch id.Name {
				case "make":
					return true
				case "append":
					return len(x.Args) > 0 && (c.nonNilExpr(x.Args[0]) || (!x.Ellipsis.IsValid() && len(x.Args) > 1))
				}
			}
		}
	}
	return false
}

// ---------------------------------------------------------------------------------------------- alias classes

func puRefT(t types.Type, depth int) bool {
	if t == nil || depth > 6 {
		return true
	}
	switch u := t.Underlying().(type) {
	case *types.Slice, *types.Pointer, *types.Map, *types.Chan, *types.Interface, *types.Signature:
		_ = u
		return !puIsErrorType(t)
	case *types.Struct:
		for i := 0; i < u.NumFields(); i++ {
			if puRefT(u.Field(i).Type(), depth+1) {
				return true
			}
		}
	}
	return false
}

type puClasses struct {
	parent map[*types.Var]*types.Var
}

func (k *puClasses) find(v *types.Var) *types.Var {
	p, ok := k.parent[v]
	if !ok {
		k.parent[v] = v
		return v
	}
	if p == v {
		return v
	}
	r := k.find(p)
	k.parent[v] = r
	return r
}

func (k *puClasses) union(a, b *types.Var) {
	if a == nil || b == nil {
		return
	}
	ra, rb := k.find(a), k.find(b)
	if ra != rb {
		k.parent[ra] = rb
	}
}

func (k *puClasses) members(v *types.Var) []*types.Var {
	r := k.find(v)
	var out []*types.Var
	for m := range k.parent {
		if k.find(m) == r {
			out = append(out, m)
		}
	}
	sort.Slice(out, func(i, j int) bool { return out[i].Pos() < out[j].Pos() })
	return out
}

// borrowed: the variables whose storage the value of e may share
func (c *puFn) borrowed(e ast.Expr) []*types.Var {
	tv, ok := c.pkg.info.Types[e]
	if ok && tv.Type != nil && !puRefT(tv.Type, 0) {
		return nil
	}
	switch x := e.(type) {
	case *ast.ParenExpr:
		return c.borrowed(x.X)
	case *ast.Ident:
		if v, ok := c.pkg.info.ObjectOf(x).(*types.Var); ok && !v.IsField() {
			return []*types.Var{v}
		}
		return nil
	case *ast.SliceExpr:
		return c.borrowed(x.X)
	case *ast.SelectorExpr, *ast.IndexExpr:
		if v := c.rootVar(e); v != nil {
			return []*types.Var{v}
		}
		return nil
	case *ast.StarExpr:
		return c.borrowed(x.X)
	case *ast.UnaryExpr:
		if x.Op == token.AND {
			if _, isLit := x.X.(*ast.CompositeLit); isLit {
				return c.borrowed(x.X)
			}
			if v := c.rootVar(x.X); v != nil {
				return []*types.Var{v}
			}
		}
		return nil
	case *ast.CompositeLit:
		var out []*types.Var
		for _, el := range x.Elts {
			if kv, ok := el.(*ast.KeyValueExpr); ok {
				el = kv.Value
			}
			out = append(out, c.borrowed(el)...)
		}
		return out
	case *ast.CallExpr:
		if ftv, ok := c.pkg.info.Types[x.Fun]; ok && ftv.IsType() && len(x.Args) == 1 {
			return c.borrowed(x.Args[0])
		}
		if id, ok := x.Fun.(*ast.Ident); ok {
			if _, ok := c.pkg.info.Uses[id].(*types.Builtin); ok {
				switch id.Name {
				case "append":
					var out []*types.Var
					for i, a := range x.Args {
						if i == 0 {
							out = append(out, c.borrowed(a)...)
							continue
						}
						// the elements are copied; they matter only if they hold references themselves
						if at, ok := c.pkg.info.Types[a]; ok && at.Type != nil {
							et := at.Type
							if x.Ellipsis.IsValid() {
								if s, ok := et.Underlying().(*types.Slice); ok {
									et = s.Elem()
								}
							}
							if puRefT(et, 0) {
								out = append(out, c.borrowed(a)...)
							}
						}
					}
					return out
				}
				return nil
			}
		}
		if f, rx := c.callee(x); f != nil {
			var out []*types.Var
			args := x.Args
			off := 0
			if rx != nil {
				off = 1
				if f.resAlias[0] {
					out = append(out, c.borrowed(rx)...)
				}
			}
			for i, a := range args {
				if f.resAlias[i+off] {
					out = append(out, c.borrowed(a)...)
				}
			}
			return out
		}
		if c.libOf(x) != nil {
			return nil // library results are fresh (declared)
		}
		// unknown call: everything it was given
		var out []*types.Var
		for _, a := range x.Args {
			out = append(out, c.borrowed(a)...)
		}
		return out
	}
	return nil
}

// allParams: receiver (if any) first, then the parameters
func (c *puFn) allParams() []*types.Var {
	sig := c.obj.Type().(*types.Signature)
	var out []*types.Var
	if c.recv != nil {
		out = append(out, c.recv)
	}
	for i := 0; i < sig.Params().Len(); i++ {
		out = append(out, sig.Params().At(i))
	}
	return out
}

// buildClasses: flow-insensitive "may share storage" classes of the variables of the function, and from them what a
// caller has to know: which parameters a result may share storage with, which parameters may come to share storage
func (c *puFn) buildClasses() {
	// inside the function what a library call keeps is tracked along the path (puFx.holds); for the callers it is
	// part of the classes
	c.classes = c.buildClassesWith(false)
	c.buildClassesWith(true)
}

func (c *puFn) buildClassesWith(withRetain bool) *puClasses {
	k := &puClasses{parent: map[*types.Var]*types.Var{}}
	sig := c.obj.Type().(*types.Signature)
	// result variables (synthetic ones for unnamed results)
	res := make([]*types.Var, sig.Results().Len())
	for i := range res {
		r := sig.Results().At(i)
		if r.Name() == "" || r.Name() == "_" {
			r = types.NewVar(token.NoPos, nil, "res"+strconv.Itoa(i), r.Type())
		}
		res[i] = r
		k.find(r)
	}
	// two parameters whose carriers hold references (slices, pointers, rest_) may have been given overlapping storage
	// by the caller
	var refParams []*types.Var
	for _, p := range c.allParams() {
		k.find(p)
		if c.carrierHoldsRefs(p.Type(), 0) {
			refParams = append(refParams, p)
		}
	}
	for i := 1; i < len(refParams); i++ {
		k.union(refParams[0], refParams[i])
	}
	link := func(lhs ast.Expr, vs []*types.Var) {
		if id, ok := lhs.(*ast.Ident); ok && id.Name == "_" {
			return
		}
		r := c.rootVar(lhs)
		if r == nil {
			return
		}
		for _, v := range vs {
			k.union(r, v)
		}
	}
	ast.Inspect(c.decl.Body, func(n ast.Node) bool {
		switch x := n.(type) {
		case *ast.AssignStmt:
			if len(x.Lhs) == len(x.Rhs) {
				for i := range x.Lhs {
					link(x.Lhs[i], c.borrowed(x.Rhs[i]))
				}
			} else if len(x.Rhs) == 1 {
				b := c.borrowed(x.Rhs[0])
				for _, l := range x.Lhs {
					if tv, ok := c.pkg.info.Types[l]; ok && tv.Type != nil && !puRefT(tv.Type, 0) {
						continue
					}
					if id, ok := l.(*ast.Ident); ok {
						if o := c.pkg.info.ObjectOf(id); o != nil && !puRefT(o.Type(), 0) {
							continue
						}
					}
					link(l, b)
				}
			}
		case *ast.ValueSpec:
			for i, id := range x.Names {
				if i < len(x.Values) {
					link(id, c.borrowed(x.Values[i]))
				}
			}
		case *ast.RangeStmt:
			if x.Value != nil {
				link(x.Value, c.borrowed(x.X))
			}
		case *ast.ReturnStmt:
			if len(x.Results) == len(res) {
				for i, e := range x.Results {
					for _, v := range c.borrowed(e) {
						k.union(res[i], v)
					}
				}
			} else if len(x.Results) == 1 {
				for _, v := range c.borrowed(x.Results[0]) {
					for i := range res {
						if puRefT(res[i].Type(), 0) {
							k.union(res[i], v)
						}
					}
				}
			}
		case *ast.CallExpr:
			if f, rx := c.callee(x); f != nil {
				var roots [][]*types.Var
				if rx != nil {
					roots = append(roots, c.borrowed(rx))
				}
				for _, a := range x.Args {
					roots = append(roots, c.borrowed(a))
				}
				for _, pr := range f.paramAlias {
					if pr[0] < len(roots) && pr[1] < len(roots) {
						for _, a := range roots[pr[0]] {
							for _, b := range roots[pr[1]] {
								k.union(a, b)
							}
						}
					}
				}
			}
			if l := c.libOf(x); l != nil && withRetain {
				var recv []*types.Var
				if sel, ok := x.Fun.(*ast.SelectorExpr); ok {
					if _, isM := c.pkg.info.Selections[sel]; isM {
						recv = c.borrowed(sel.X)
					}
				}
				for _, i := range l.retain {
					if i < len(x.Args) {
						for _, a := range c.borrowed(x.Args[i]) {
							for _, r := range recv {
								k.union(a, r)
							}
						}
					}
				}
			}
		}
		return true
	})
	if !withRetain {
		return k
	}
	ps := c.allParams()
	c.resAlias = map[int]bool{}
	c.paramAlias = nil
	for i, p := range ps {
		if !puRefT(p.Type(), 0) {
			continue
		}
		for _, r := range res {
			if puRefT(r.Type(), 0) && k.find(r) == k.find(p) {
				c.resAlias[i] = true
			}
		}
		for j := i + 1; j < len(ps); j++ {
			if puRefT(ps[j].Type(), 0) && k.find(ps[j]) == k.find(p) {
				c.paramAlias = append(c.paramAlias, [2]int{i, j})
			}
		}
	}
	return k
}

// overwrite: the storage of x is written through x (in place). Every other variable that may share it is stale.
func (c *puFn) overwrite(x *types.Var, self bool) {
	in := map[*types.Var]bool{}
	for _, m := range c.classes.members(x) {
		in[m] = true
		if m != x || self {
			c.fx.poison[m] = true
		}
	}
	for h := range c.fx.holds {
		if in[h[1]] {
			for _, m := range c.classes.members(h[0]) {
				c.fx.poison[m] = true
			}
		}
	}
}

// ---------------------------------------------------------------------------------------------- facts (rich groups)

func (c *puFn) paramIndex(v *types.Var) int {
	for i, p := range c.allParams() {
		if p == v {
			return i
		}
	}
	return -1
}

func (c *puFn) identVar(e ast.Expr) *types.Var {
	for {
		p, ok := e.(*ast.ParenExpr)
		if !ok {
			break
		}
		e = p.X
	}
	id, ok := e.(*ast.Ident)
	if !ok {
		return nil
	}
	v, _ := c.pkg.info.ObjectOf(id).(*types.Var)
	return v
}

func (c *puFn) isNilIdent(e ast.Expr) bool {
	id, ok := e.(*ast.Ident)
	if !ok {
		return false
	}
	_, ok = c.pkg.info.ObjectOf(id).(*types.Nil)
	return ok
}

// guardOf: `if p == nil { …; return … }` (no init, no else) on a parameter p, standing in the prologue of the function
// (after declarations and other such guards only): the variable p and whether it is one
func (c *puFn) guardOf(s ast.Stmt) *types.Var {
	x, ok := s.(*ast.IfStmt)
	if !ok || x.Init != nil || x.Else != nil || len(x.Body.List) == 0 {
		return nil
	}
	be, ok := x.Cond.(*ast.BinaryExpr)
	if !ok || be.Op != token.EQL || !c.isNilIdent(be.Y) {
		return nil
	}
	v := c.identVar(be.X)
	if v == nil || !c.isParam(v) || v == c.recv {
		return nil
	}
	if _, ok := x.Body.List[len(x.Body.List)-1].(*ast.ReturnStmt); !ok {
		return nil
	}
	switch v.Type().Underlying().(type) {
	case *types.Pointer, *types.Slice:
	default:
		return nil
	}
	return v
}

// prologueGuards: the guards of the prologue, by statement
func (c *puFn) prologueGuards() map[ast.Stmt]*types.Var {
	out := map[ast.Stmt]*types.Var{}
	seen := map[*types.Var]bool{}
	for _, s := range c.decl.Body.List {
		if _, ok := s.(*ast.DeclStmt); ok {
			continue
		}
		v := c.guardOf(s)
		if v == nil || seen[v] {
			break
		}
		// the guard body may not mention p
		uses := false
		ast.Inspect(s.(*ast.IfStmt).Body, func(n ast.Node) bool {
			if id, ok := n.(*ast.Ident); ok && c.pkg.info.ObjectOf(id) == v {
				uses = true
			}
			return true
		})
		if uses {
			break
		}
		seen[v] = true
		out[s] = v
	}
	return out
}

func (c *puFn) richFacts() string {
	if !c.grp.g.rich || c.t.extern {
		c.buildClassesSafe()
		return ""
	}
	c.monadic = true
	c.buildClasses()
	ps := c.allParams()
	state := map[*types.Var]bool{}
	clob := map[*types.Var]bool{}
	c.nilable = map[*types.Var]bool{}
	c.idxParam = map[int]bool{}
	for _, v := range c.prologueGuards() {
		if _, ok := v.Type().Underlying().(*types.Slice); ok {
			c.nilable[v] = true
		}
	}
	isPtrParam := func(v *types.Var) bool {
		return v != nil && c.isParam(v) && v != c.recv && c.kindOf(v.Type()) == puPtr
	}
	markMut := func(e ast.Expr) {
		if _, ok := e.(*ast.Ident); ok {
			return
		}
		if v := c.rootVar(e); isPtrParam(v) {
			state[v] = true
		}
	}
	clobber := func(x *types.Var) {
		if x == nil {
			return
		}
		for _, m := range c.classes.members(x) {
			if c.isParam(m) {
				clob[m] = true
			}
		}
	}
	ast.Inspect(c.decl.Body, func(n ast.Node) bool {
		switch x := n.(type) {
		case *ast.AssignStmt:
			for _, l := range x.Lhs {
				markMut(l)
			}
		case *ast.IncDecStmt:
			markMut(x.X)
		case *ast.CallExpr:
			if f, rx := c.callee(x); f != nil {
				if f.usesLib {
					c.usesLib = true
				}
				if f.mutRecv && rx != nil {
					markMut(rx)
				}
				off := 0
				if rx != nil {
					off = 1
				}
				fps := f.allParams()
				for i, a := range x.Args {
					if i+off >= len(fps) {
						break
					}
					fp := fps[i+off]
					if f.isState(fp) {
						if v := c.identVar(a); isPtrParam(v) {
							state[v] = true
						}
					}
					if f.clobbers[fp] {
						clobber(c.rootVar(a))
					}
				}
			}
			if l := c.libOf(x); l != nil {
				c.usesLib = true
				if l.recvMut {
					if sel, ok := x.Fun.(*ast.SelectorExpr); ok {
						if v := c.identVar(sel.X); isPtrParam(v) {
							state[v] = true
						}
					}
				}
				if l.inPlace >= 0 && l.inPlace < len(x.Args) {
					clobber(c.rootVar(x.Args[l.inPlace]))
				}
			}
		}
		return true
	})
	c.state = nil
	c.clobbers = map[*types.Var]bool{}
	for _, p := range ps {
		if state[p] {
			c.state = append(c.state, p)
		}
		if clob[p] {
			c.clobbers[p] = true
		}
	}
	// idxParam: the first statement is `return e` and e evaluates p[k] (k a constant) unconditionally
	if len(c.decl.Body.List) > 0 {
		if r, ok := c.decl.Body.List[0].(*ast.ReturnStmt); ok {
			for _, e := range r.Results {
				c.uncondIndexed(e, func(v *types.Var) {
					if i := c.paramIndex(v); i >= 0 {
						c.idxParam[i] = true
					}
				})
			}
		}
	}
	// a signature of the facts, for the fixpoint
	var b strings.Builder
	for _, p := range ps {
		fmt.Fprintf(&b, "%v%v%v;", state[p], clob[p], c.nilable[p])
	}
	fmt.Fprintf(&b, "%v%v%v%v", c.usesLib, c.resAlias, c.paramAlias, c.idxParam)
	return b.String()
}

func (c *puFn) buildClassesSafe() {
	if c.classes == nil {
		c.classes = &puClasses{parent: map[*types.Var]*types.Var{}}
		c.resAlias = map[int]bool{}
	}
}

func (c *puFn) isState(v *types.Var) bool {
	for _, s := range c.state {
		if s == v {
			return true
		}
	}
	return false
}

// uncondIndexed: the slice variables x for which evaluating e certainly evaluates x[k] with a constant k
func (c *puFn) uncondIndexed(e ast.Expr, f func(*types.Var)) {
	switch x := e.(type) {
	case *ast.ParenExpr:
		c.uncondIndexed(x.X, f)
	case *ast.IndexExpr:
		if v := c.identVar(x.X); v != nil {
			if _, ok := c.constCount(x.Index); ok {
				if _, isSlice := v.Type().Underlying().(*types.Slice); isSlice {
					f(v)
				}
			}
		}
		c.uncondIndexed(x.X, f)
	case *ast.BinaryExpr:
		c.uncondIndexed(x.X, f)
		if x.Op != token.LAND && x.Op != token.LOR {
			c.uncondIndexed(x.Y, f)
		}
	case *ast.UnaryExpr:
		c.uncondIndexed(x.X, f)
	case *ast.CallExpr:
		if tv, ok := c.pkg.info.Types[x.Fun]; ok && tv.IsType() {
			for _, a := range x.Args {
				c.uncondIndexed(a, f)
			}
		}
	}
}

// ---------------------------------------------------------------------------------------------- state

func (c *puFn) stateful() bool { return len(c.state) > 0 }

// varText: a pointer / nil-able slice variable as a whole value (Option T)
func (c *puFn) varText(v *types.Var) string {
	if c.bound[v] {
		return "(some " + c.name(v) + ")"
	}
	return c.name(v)
}

// stateText: the objects behind the state parameters, as they are now
func (c *puFn) stateText() string {
	var parts []string
	for _, v := range c.state {
		parts = append(parts, c.varText(v))
	}
	return puTuple(parts)
}

func (c *puFn) stateType() (string, error) {
	var parts []string
	for _, v := range c.state {
		lt, err := c.leanType(v.Type())
		if err != nil {
			return "", err
		}
		parts = append(parts, lt)
	}
	return puTupleType(parts), nil
}

// okText: a successful outcome with value s
func (c *puFn) okText(s string) string {
	if c.stateful() {
		return "(" + c.stateText() + ", .ok " + s + ")"
	}
	return ".ok " + s
}

// varLeanType: the Lean type of the variable as it is bound now (a guarded parameter is bound to the value)
func (c *puFn) varLeanType(v *types.Var) (string, error) {
	if c.bound[v] {
		if c.kindOf(v.Type()) == puPtr {
			return c.grp.structName(c, v.Type())
		}
		return "Bytes", nil
	}
	if c.nilable[v] {
		return "(Option Bytes)", nil
	}
	return c.leanType(v.Type())
}

// ---------------------------------------------------------------------------------------------- guards

func (c *puFn) guardStmt(x *ast.IfStmt, v *types.Var, next puK) ([]string, error) {
	fx0 := c.fx.clone()
	la, err := c.block(x.Body.List, func() ([]string, error) {
		return nil, c.errf(x, "internal: nil guard that does not return")
	}, nil)
	if err != nil {
		return nil, err
	}
	c.fx = fx0
	n := c.name(v)
	c.bound[v] = true
	if _, ok := v.Type().Underlying().(*types.Slice); ok {
		c.fx.nonNil[v] = true
	}
	lb, err := next()
	if err != nil {
		return nil, err
	}
	lines := []string{"match " + n + " with", "| none =>"}
	lines = append(lines, puIndent(la)...)
	lines = append(lines, "| some "+n+" =>")
	lines = append(lines, lb...)
	return lines, nil
}

// ---------------------------------------------------------------------------------------------- calls with effects

// callFx: a call whose translation is more than an expression — a library call (Res, in-place argument, receiver
// afterwards) or a listed function that changes the objects behind pointer parameters. Returns ok=false if the call is
// none of these. exprs = the Go results; nn = which of them are certainly non-nil slices.
func (c *puFn) callFx(call *ast.CallExpr) (lines []string, exprs []string, nn []bool, ok bool, err error) {
	if l := c.libOf(call); l != nil && !l.total {
		lines, exprs, nn, err = c.libCall(call, l)
		return lines, exprs, nn, true, err
	}
	if f, rx := c.callee(call); f != nil && c.grp.g.rich && !f.t.extern {
		if rx != nil {
			return nil, nil, nil, true, c.errf(call, "method call of a listed function in a group with pointers")
		}
		lines, exprs, nn, err = c.richCall(call, f)
		return lines, exprs, nn, true, err
	}
	return nil, nil, nil, false, nil
}

func (c *puFn) libCall(call *ast.CallExpr, l *puLibFn) ([]string, []string, []bool, error) {
	if l.noReturn {
		for _, a := range call.Args {
			if !puHarmless(a) {
				return nil, nil, nil, c.errf(a, "operand of %s that could fail or have an effect", l.key)
			}
		}
		c.grp.libUsed[l.field] = "Res Unit"
		if _, err := c.bind(call, "L."+l.field); err != nil {
			return nil, nil, nil, err
		}
		return c.takePre(), nil, nil, nil
	}
	fo := c.libFuncObj(call)
	if fo == nil {
		return nil, nil, nil, c.errf(call, "library call %s: no type information", l.key)
	}
	lt, err := c.libType(l, fo)
	if err != nil {
		return nil, nil, nil, c.errf(call, "%v", err)
	}
	c.grp.libUsed[l.field] = lt
	sig := fo.Type().(*types.Signature)
	nfixed := sig.Params().Len()
	if sig.Variadic() {
		nfixed--
	}
	if call.Ellipsis.IsValid() || len(call.Args) < nfixed || (!sig.Variadic() && len(call.Args) != nfixed) {
		return nil, nil, nil, c.errf(call, "library call %s: argument shape", l.key)
	}
	parts := []string{"L." + l.field}
	var recvVar *types.Var
	if sig.Recv() != nil {
		sel := call.Fun.(*ast.SelectorExpr)
		recvVar = c.identVar(sel.X)
		if recvVar == nil || c.kindOf(recvVar.Type()) != puPtr {
			return nil, nil, nil, c.errf(call, "library method %s on something that is not a pointer variable", l.key)
		}
		r, err := c.derefVar(sel.X, recvVar)
		if err != nil {
			return nil, nil, nil, err
		}
		parts = append(parts, r)
	}
	var inPlaceVar *types.Var
	var variadic []string
	for i, a := range call.Args {
		needNonNil := false
		for _, j := range l.nonNil {
			if j == i {
				needNonNil = true
			}
		}
		if u, ok := a.(*ast.UnaryExpr); ok && u.Op == token.AND {
			// &x for a *[]byte parameter: the slice x, read
			v := c.identVar(u.X)
			if v == nil || c.kindOf(v.Type()) != puBytes {
				return nil, nil, nil, c.errf(a, "address of something that is not a slice variable")
			}
			if _, isSlice := v.Type().Underlying().(*types.Slice); !isSlice {
				return nil, nil, nil, c.errf(a, "address of something that is not a slice variable")
			}
			a = u.X
		}
		if i == l.inPlace {
			v := c.identVar(a)
			if v == nil {
				return nil, nil, nil, c.errf(a, "argument overwritten in place by %s is not a variable", l.key)
			}
			if _, isSlice := v.Type().Underlying().(*types.Slice); !isSlice {
				return nil, nil, nil, c.errf(a, "argument overwritten in place by %s is not a slice", l.key)
			}
			inPlaceVar = v
		}
		if needNonNil && !c.nonNilExpr(a) {
			return nil, nil, nil, c.errf(a, "%s tests this argument against nil and the translator cannot see that it is not nil", l.key)
		}
		s, err := c.expr(a)
		if err != nil {
			return nil, nil, nil, err
		}
		if i >= nfixed {
			variadic = append(variadic, s)
			continue
		}
		parts = append(parts, s)
	}
	if sig.Variadic() {
		// f(a, xs…) with the variadic operands written out: the slice the callee sees
		parts = append(parts, "["+strings.Join(variadic, ", ")+"]")
	}
	t, err := c.bind(call, strings.Join(parts, " "))
	if err != nil {
		return nil, nil, nil, err
	}
	lines := c.takePre()
	for _, i := range l.retain {
		if recvVar != nil && i < len(call.Args) {
			for _, r := range c.borrowed(call.Args[i]) {
				c.fx.holds[[2]*types.Var{recvVar, r}] = true
			}
		}
	}
	ncomp := sig.Results().Len()
	if l.recvMut {
		ncomp++
	}
	if l.inPlace >= 0 {
		ncomp++
	}
	comp := 0
	if l.recvMut {
		val := puProj(t, comp, ncomp)
		if c.bound[recvVar] {
			lines = append(lines, "let "+c.name(recvVar)+" := "+val)
		} else {
			lines = append(lines, "let "+c.name(recvVar)+" := some "+val)
		}
		comp++
	}
	if inPlaceVar != nil {
		lines = append(lines, "let "+c.name(inPlaceVar)+" := "+puProj(t, comp, ncomp))
		c.overwrite(inPlaceVar, false)
		comp++
	}
	var exprs []string
	var nn []bool
	for i := 0; i < sig.Results().Len(); i++ {
		exprs = append(exprs, puProj(t, comp+i, ncomp))
		isNN := false
		for _, j := range l.resNonNil {
			if j == i {
				isNN = true
			}
		}
		nn = append(nn, isNN)
	}
	return lines, exprs, nn, nil
}

// derefVar: the struct behind pointer variable v (bound by a guard: the value itself; otherwise a nil check first)
func (c *puFn) derefVar(at ast.Node, v *types.Var) (string, error) {
	if c.fx.poison[v] {
		return "", c.errf(at, "%s may have been overwritten through another name", v.Name())
	}
	if c.bound[v] {
		return c.name(v), nil
	}
	return c.bind(at, "Go.deref "+c.name(v))
}

// richCall: a call of a listed function of a rich group (σ × Res ρ if it has state parameters, Res ρ otherwise)
func (c *puFn) richCall(call *ast.CallExpr, f *puFn) ([]string, []string, []bool, error) {
	if call.Ellipsis.IsValid() {
		return nil, nil, nil, c.errf(call, "f(xs...)")
	}
	fps := f.allParams()
	if len(call.Args) != len(fps) {
		return nil, nil, nil, c.errf(call, "argument count")
	}
	parts := []string{f.lean}
	if f.usesExt {
		parts = append(parts, "E")
	}
	if f.usesLib {
		parts = append(parts, "L")
	}
	var stateArgs []*types.Var
	seenPtr := map[*types.Var]bool{}
	var after []func()
	for i, a := range call.Args {
		fp := fps[i]
		switch {
		case c.kindOf(fp.Type()) == puPtr:
			if c.isNilIdent(a) {
				if f.isState(fp) {
					return nil, nil, nil, c.errf(a, "nil for a parameter the callee changes")
				}
				parts = append(parts, "none")
				continue
			}
			v := c.identVar(a)
			if v == nil || c.kindOf(v.Type()) != puPtr {
				return nil, nil, nil, c.errf(a, "pointer argument that is not a variable")
			}
			if seenPtr[v] {
				return nil, nil, nil, c.errf(a, "the same pointer passed twice")
			}
			seenPtr[v] = true
			if c.fx.poison[v] {
				return nil, nil, nil, c.errf(a, "%s may have been overwritten through another name", v.Name())
			}
			if f.isState(fp) {
				if c.bound[v] {
					return nil, nil, nil, c.errf(a, "a pointer already known to be non-nil passed to a function that changes the object (not translated)")
				}
				stateArgs = append(stateArgs, v)
			}
			parts = append(parts, c.varText(v))
		case f.nilable[fp]:
			if c.isNilIdent(a) {
				parts = append(parts, "none")
				continue
			}
			if !c.nonNilExpr(a) {
				return nil, nil, nil, c.errf(a, "%s tests this argument against nil and the translator cannot see that it is not nil", f.t.fn)
			}
			s, err := c.expr(a)
			if err != nil {
				return nil, nil, nil, err
			}
			parts = append(parts, "(some "+s+")")
		default:
			s, err := c.expr(a)
			if err != nil {
				return nil, nil, nil, err
			}
			parts = append(parts, s)
		}
		if f.clobbers[fp] {
			v := c.rootVar(a)
			if v == nil {
				return nil, nil, nil, c.errf(a, "%s overwrites this argument and it is not a variable", f.t.fn)
			}
			after = append(after, func() { c.overwrite(v, true) })
		}
		if f.idxParam[i] {
			if v := c.identVar(a); v != nil {
				after = append(after, func() { c.fx.nonNil[v] = true })
			}
		}
	}
	app := strings.Join(parts, " ")
	nres := f.obj.Type().(*types.Signature).Results().Len()
	var lines []string
	var t string
	if f.stateful() {
		lines = c.takePre()
		r := c.fresh()
		lines = append(lines, "let "+r+" := "+app)
		for i, v := range stateArgs {
			lines = append(lines, "let "+c.name(v)+" := "+puProj(r+".1", i, len(stateArgs)))
		}
		var err error
		if t, err = c.bind(call, r+".2"); err != nil {
			return nil, nil, nil, err
		}
		lines = append(lines, c.takePre()...)
	} else {
		var err error
		if !f.monadic {
			t = "(" + app + ")"
		} else if t, err = c.bind(call, app); err != nil {
			return nil, nil, nil, err
		}
		lines = c.takePre()
	}
	for _, a := range after {
		a()
	}
	var exprs []string
	var nn []bool
	for i := 0; i < nres; i++ {
		exprs = append(exprs, puProj(t, i, nres))
		nn = append(nn, false)
	}
	return lines, exprs, nn, nil
}

// ---------------------------------------------------------------------------------------------- range

// rangeStmt: `for _, v := range xs { … }` over a slice, as structural recursion over the list. xs is evaluated once,
// before the loop; the body may not mention the variable xs is read from (so the elements the loop sees are the
// elements at loop entry); it may return, break and continue.
func (c *puFn) rangeStmt(x *ast.RangeStmt, next puK, lp *puLoop) ([]string, error) {
	if lp != nil {
		return nil, c.errf(x, "nested loop around a range loop")
	}
	if c.mutRecv {
		return nil, c.errf(x, "range loop in a receiver-mutating method")
	}
	if x.Tok != token.DEFINE || x.Value == nil {
		return nil, c.errf(x, "range loop that is not `for _, v := range xs`")
	}
	if id, ok := x.Key.(*ast.Ident); !ok || id.Name != "_" {
		return nil, c.errf(x, "range loop with an index variable")
	}
	vid, ok := x.Value.(*ast.Ident)
	if !ok {
		return nil, c.errf(x, "range value")
	}
	ev, _ := c.pkg.info.Defs[vid].(*types.Var)
	xt, err := c.typeOf(x.X)
	if err != nil {
		return nil, err
	}
	sl, isSlice := xt.Underlying().(*types.Slice)
	if !isSlice || ev == nil {
		return nil, c.errf(x, "range over %s", xt)
	}
	et, err := c.leanType(sl.Elem())
	if err != nil {
		return nil, c.errf(x, "%v", err)
	}
	root := c.rootVar(x.X)
	if root == nil {
		return nil, c.errf(x.X, "range over something that is not rooted at a variable")
	}
	mentions := false
	ast.Inspect(x.Body, func(n ast.Node) bool {
		if id, ok := n.(*ast.Ident); ok && c.pkg.info.ObjectOf(id) == root {
			mentions = true
		}
		return true
	})
	if mentions {
		return nil, c.errf(x.Body, "the body of the range loop mentions %s, which the list is read from", root.Name())
	}
	xs, err := c.expr(x.X)
	if err != nil {
		return nil, err
	}
	lines := c.takePre()
	carried := c.assigned([]ast.Node{x.Body})
	isCarried := map[*types.Var]bool{}
	for _, v := range carried {
		isCarried[v] = true
		if v == ev {
			return nil, c.errf(x.Body, "the body assigns the range variable")
		}
	}
	declared := map[types.Object]bool{ev: true}
	ast.Inspect(x.Body, func(n ast.Node) bool {
		if id, ok := n.(*ast.Ident); ok {
			if o := c.pkg.info.Defs[id]; o != nil {
				declared[o] = true
			}
		}
		return true
	})
	var frees []*types.Var
	seen := map[*types.Var]bool{}
	ast.Inspect(x.Body, func(m ast.Node) bool {
		if id, ok := m.(*ast.Ident); ok {
			if v, ok := c.pkg.info.Uses[id].(*types.Var); ok && !v.IsField() && v.Parent() != nil && v.Parent() != v.Pkg().Scope() &&
				!declared[v] && !isCarried[v] && !seen[v] {
				seen[v] = true
				frees = append(frees, v)
			}
		}
		return true
	})
	for _, v := range c.state {
		if !isCarried[v] && !seen[v] {
			seen[v] = true
			frees = append(frees, v)
		}
	}
	// the function's results as a tuple type
	sig := c.obj.Type().(*types.Signature)
	var rts []string
	for i := 0; i < sig.Results().Len(); i++ {
		lt, err := c.leanType(sig.Results().At(i).Type())
		if err != nil {
			return nil, c.errf(x, "%v", err)
		}
		rts = append(rts, lt)
	}
	rho := "Unit"
	if len(rts) > 0 {
		rho = puTupleType(rts)
	}
	c.nloop++
	name := c.lean + ".loop" + strconv.Itoa(c.nloop)
	var sigParts, freeNames, carriedNames, carriedTypes []string
	if c.usesExt {
		sigParts = append(sigParts, "(E : Go.Ext)")
		freeNames = append(freeNames, "E")
	}
	if c.usesLib {
		sigParts = append(sigParts, "(L : Lib)")
		freeNames = append(freeNames, "L")
	}
	for _, v := range frees {
		lt, err := c.varLeanType(v)
		if err != nil {
			return nil, c.errf(x, "%v", err)
		}
		sigParts = append(sigParts, "("+c.name(v)+" : "+lt+")")
		freeNames = append(freeNames, c.name(v))
	}
	for _, v := range carried {
		lt, err := c.varLeanType(v)
		if err != nil {
			return nil, c.errf(x, "%v", err)
		}
		carriedNames = append(carriedNames, c.name(v))
		carriedTypes = append(carriedTypes, lt)
	}
	kappa := "Unit"
	if len(carriedTypes) > 0 {
		kappa = puTupleType(carriedTypes)
	}
	ktuple := func() string { return puTuple(carriedNames) }
	recur := strings.Join(append(append([]string{name}, freeNames...), append([]string{"rest_"}, carriedNames...)...), " ")
	// facts inside the body: what holds on every iteration = what holds at entry about variables the body leaves alone
	for _, v := range carried {
		delete(c.fx.nonNil, v)
	}
	fxEntry := c.fx.clone()
	checkBack := func(at ast.Node) error {
		if !c.fx.atLeast(fxEntry) {
			return c.errf(at, "the loop goes on after a slice may have been overwritten in place")
		}
		return nil
	}
	exit := func() ([]string, error) { return []string{c.okText("(.next " + ktuple() + ")")}, nil }
	cont := func() ([]string, error) {
		if err := checkBack(x); err != nil {
			return nil, err
		}
		return []string{recur}, nil
	}
	ret := func(vals []string) string {
		return c.okText("(.ret " + ktuple() + " " + puTuple(vals) + ")")
	}
	body, err := c.block(x.Body.List, cont, &puLoop{brk: exit, cont: cont, ret: ret})
	if err != nil {
		return nil, err
	}
	c.fx = fxEntry.clone()
	resT := "Res (Go.Flow " + kappa + " " + rho + ")"
	if c.stateful() {
		st, err := c.stateType()
		if err != nil {
			return nil, c.errf(x, "%v", err)
		}
		resT = st + " × " + resT
	}
	var d []string
	d = append(d, fmt.Sprintf("/-- the loop `for _, %s := range %s` of %s, by recursion over the list -/", vid.Name, c.text(x.X), c.t.fn))
	hdr := "def " + name + " " + strings.Join(sigParts, " ") + " : List " + et
	if len(carriedTypes) > 0 {
		hdr += " → " + strings.Join(carriedTypes, " → ")
	}
	d = append(d, hdr+" → "+resT)
	pat := func(first string) string {
		return "  | " + strings.Join(append([]string{first}, carriedNames...), ", ") + " =>"
	}
	d = append(d, pat("[]"))
	d = append(d, "    "+c.okText("(.next "+ktuple()+")"))
	d = append(d, pat(c.name(ev)+" :: rest_"))
	for _, l := range body {
		d = append(d, "    "+l)
	}
	c.aux = append(c.aux, strings.Join(d, "\n")+"\n")
	// the call
	t := c.fresh()
	app := strings.Join(append(append([]string{name}, freeNames...), append([]string{xs}, carriedNames...)...), " ")
	if c.stateful() {
		lines = append(lines, "Go.bindT ("+app+") fun "+t+" =>")
	} else {
		lines = append(lines, app+" >>= fun "+t+" =>")
	}
	k := c.fresh()
	r := c.fresh()
	lines = append(lines, "match "+t+" with")
	lines = append(lines, "| .ret "+k+" "+r+" =>")
	for i, n := range carriedNames {
		lines = append(lines, "  let "+n+" := "+puProj(k, i, len(carriedNames)))
	}
	lines = append(lines, "  "+c.okText(r))
	lines = append(lines, "| .next "+k+" =>")
	for i, n := range carriedNames {
		lines = append(lines, "  let "+n+" := "+puProj(k, i, len(carriedNames)))
	}
	rest, err := next()
	if err != nil {
		return nil, err
	}
	return append(lines, puIndent(rest)...), nil
}

// ---------------------------------------------------------------------------------------------- hoisted receiver mutation

// hoistMut: a call of a receiver-mutating method of another group inside an expression (`f(a, ue.ULCount.Get(), b)`).
// The call is moved in front of the statement (Go evaluates calls in the order they appear; the other operands of
// the statement that read variables are allowed to be read after it only if they cannot see its effect: they may
// mention the root variable of the receiver only through a different field).
func (c *puFn) hoistMut(call *ast.CallExpr, f *puFn, rx ast.Expr) (string, error) {
	root := c.rootVar(rx)
	sel, ok := rx.(*ast.SelectorExpr)
	if !ok || root == nil || c.identVar(sel.X) != root {
		return "", c.errf(call, "receiver-mutating method inside an expression on something that is not x.f")
	}
	if c.curTop == nil {
		return "", c.errf(call, "receiver-mutating method inside an expression (no enclosing statement)")
	}
	bad := false
	var stack []ast.Node
	ast.Inspect(c.curTop, func(n ast.Node) bool {
		if n == nil {
			stack = stack[:len(stack)-1]
			return true
		}
		stack = append(stack, n)
		id, ok := n.(*ast.Ident)
		if !ok || c.pkg.info.ObjectOf(id) != root {
			return true
		}
		if len(stack) >= 2 {
			if p, ok := stack[len(stack)-2].(*ast.SelectorExpr); ok && p.X == n {
				if ast.Expr(p) == rx {
					return true // the receiver itself
				}
				if p.Sel.Name != sel.Sel.Name {
					return true // another field
				}
			}
		}
		bad = true
		return true
	})
	if bad {
		return "", c.errf(call, "the statement reads %s besides calling a method that changes it (order of evaluation)", c.text(rx))
	}
	for _, a := range call.Args {
		if !puHarmless(a) {
			return "", c.errf(a, "operand of a hoisted method call")
		}
	}
	app, nres, err := c.calleeApp(call, f, rx)
	if err != nil {
		return "", err
	}
	if f.monadic || nres != 1 {
		return "", c.errf(call, "receiver-mutating method inside an expression: only total methods with one result")
	}
	t := c.fresh()
	c.pre = append(c.pre, "let "+t+" := "+app)
	more, err := c.assignTo(rx, t+".1")
	if err != nil {
		return "", err
	}
	c.pre = append(c.pre, more...)
	return t + ".2", nil
}

// libRecord: the `Lib` structure of the group (the library calls its functions make, in the order of the table)
func (gc *puGroupCtx) libRecord() string {
	var b strings.Builder
	b.WriteString("/-- the library calls the functions of this group make and the translator does not interpret. Each is taken to be\n")
	b.WriteString("    a function of the VALUES of its operands (`Res`: it may fail); its effects are the declared ones only: the\n")
	b.WriteString("    receiver afterwards / the slice argument it overwrites in place are components of its result. -/\n")
	b.WriteString("structure Lib where\n")
	for _, l := range gc.g.lib {
		lt, ok := gc.libUsed[l.field]
		if !ok {
			continue
		}
		fmt.Fprintf(&b, "  /-- %s: %s -/\n  %s : %s\n", l.key, l.doc, l.field, lt)
	}
	return b.String()
}

// ---------------------------------------------------------------------------------------------- assignments (rich groups)

func (c *puFn) assignCall(call *ast.CallExpr, lhs []ast.Expr) ([]string, bool, error) {
	lines, exprs, nn, ok, err := c.callFx(call)
	if !ok || err != nil {
		return nil, ok, err
	}
	if len(exprs) != len(lhs) {
		return nil, true, c.errf(call, "%d targets for %d results", len(lhs), len(exprs))
	}
	for i, l := range lhs {
		more, err := c.assignTo(l, exprs[i])
		if err != nil {
			return nil, true, err
		}
		lines = append(lines, more...)
		if nn[i] {
			if v := c.identVar(l); v != nil {
				c.fx.nonNil[v] = true
			}
		}
	}
	return lines, true, nil
}

func (c *puFn) builtinCall(e ast.Expr, name string) *ast.CallExpr {
	call, ok := e.(*ast.CallExpr)
	if !ok {
		return nil
	}
	id, ok := call.Fun.(*ast.Ident)
	if !ok || id.Name != name {
		return nil
	}
	if _, ok := c.pkg.info.Uses[id].(*types.Builtin); !ok {
		return nil
	}
	return call
}

// checkPtrSource: a pointer value that is stored or returned must be one nobody else holds: nil, new(T), &T{…}, the
// result of a listed function (which obeys the same rule) — or, in a return, a local pointer variable
func (c *puFn) checkPtrSource(e ast.Expr, isReturn bool) error {
	t, err := c.typeOf(e)
	if err != nil {
		return err
	}
	if c.kindOf(t) != puPtr {
		if _, isPtr := t.Underlying().(*types.Pointer); isPtr {
			return c.errf(e, "pointer of type %s", t)
		}
		return nil
	}
	switch x := e.(type) {
	case *ast.ParenExpr:
		return c.checkPtrSource(x.X, isReturn)
	case *ast.Ident:
		if c.isNilIdent(x) {
			return nil
		}
		if v := c.identVar(x); v != nil && isReturn && !c.isParam(v) {
			return nil
		}
		return c.errf(e, "a second name for the object behind %s", x.Name)
	case *ast.UnaryExpr:
		if _, ok := x.X.(*ast.CompositeLit); ok && x.Op == token.AND {
			return nil
		}
	case *ast.CallExpr:
		if c.builtinCall(e, "new") != nil {
			return nil
		}
		if f, _ := c.callee(x); f != nil {
			return nil
		}
	}
	return c.errf(e, "pointer value from a source the translator does not know to be fresh")
}

// richAssign: lhs = rhs (one target, one source) in a rich group
func (c *puFn) richAssign(lhs, rhs ast.Expr) ([]string, bool, error) {
	if call, ok := rhs.(*ast.CallExpr); ok {
		if f, _ := c.callee(call); f != nil && f.mutRecv {
			return nil, false, nil
		}
		if lines, ok, err := c.assignCall(call, []ast.Expr{lhs}); ok || err != nil {
			return lines, true, err
		}
	}
	if err := c.checkPtrSource(rhs, false); err != nil {
		return nil, true, err
	}
	nn := c.nonNilExpr(rhs)
	var val string
	var after []*types.Var
	if call := c.builtinCall(rhs, "append"); call != nil {
		// append(a, …) as a value: a ++ …. It may write into the spare capacity of a: every other variable that may
		// share storage with a is stale afterwards (a itself keeps its elements)
		if len(call.Args) < 1 {
			return nil, true, c.errf(rhs, "append shape")
		}
		base, err := c.expr(call.Args[0])
		if err != nil {
			return nil, true, err
		}
		if call.Ellipsis.IsValid() {
			if len(call.Args) != 2 {
				return nil, true, c.errf(rhs, "append shape")
			}
			t, err := c.typeOf(call.Args[1])
			if err != nil {
				return nil, true, err
			}
			if _, isSlice := t.Underlying().(*types.Slice); !isSlice {
				return nil, true, c.errf(rhs, "append(x, s...) with s of type %s", t)
			}
			y, err := c.expr(call.Args[1])
			if err != nil {
				return nil, true, err
			}
			val = "(" + base + " ++ " + y + ")"
		} else {
			var parts []string
			for _, a := range call.Args[1:] {
				s, err := c.expr(a)
				if err != nil {
					return nil, true, err
				}
				parts = append(parts, s)
			}
			val = "(" + base + " ++ [" + strings.Join(parts, ", ") + "])"
		}
		after = c.borrowed(call.Args[0])
	} else {
		var err error
		if val, err = c.expr(rhs); err != nil {
			return nil, true, err
		}
	}
	lines := c.takePre()
	for _, v := range after {
		c.overwrite(v, false)
	}
	more, err := c.assignTo(lhs, val)
	if err != nil {
		return nil, true, err
	}
	if nn {
		if v := c.identVar(lhs); v != nil {
			c.fx.nonNil[v] = true
		}
	}
	return append(lines, more...), true, nil
}

// statefulJoin: if cond {a} else {b} (neither jumps) in a function with state parameters
func (c *puFn) statefulJoin(cond string, la, lb []string, names []string, t string, next puK) ([]string, error) {
	raw := puTuple(names)
	wrapped := c.wrapOk(raw)
	total := !puHasBind(la) && !puHasBind(lb) && la[len(la)-1] == wrapped && lb[len(lb)-1] == wrapped
	var lines []string
	if total {
		la[len(la)-1], lb[len(lb)-1] = raw, raw
		lines = append(lines, "let "+t+" := (if "+cond+" then")
	} else {
		lines = append(lines, "Go.bindT (if "+cond+" then")
	}
	lines = append(lines, puIndent(la)...)
	lines = append(lines, "else")
	lb = puIndent(lb)
	if total {
		lb[len(lb)-1] += ")"
	} else {
		lb[len(lb)-1] += ") fun " + t + " =>"
	}
	lines = append(lines, lb...)
	for i, n := range names {
		lines = append(lines, "let "+n+" := "+puProj(t, i, len(names)))
	}
	r, err := next()
	if err != nil {
		return nil, err
	}
	return append(lines, r...), nil
}

// ---------------------------------------------------------------------------------------------- static checks (rich groups)

// forcesLen: the least length of x that evaluating e without a panic implies (0: none), e free of calls
func (c *puFn) forcesLen(e ast.Expr, x *types.Var) int64 {
	var best int64
	up := func(n int64) {
		if n > best {
			best = n
		}
	}
	switch y := e.(type) {
	case *ast.ParenExpr:
		return c.forcesLen(y.X, x)
	case *ast.IndexExpr:
		if c.identVar(y.X) == x {
			if n, ok := c.constCount(y.Index); ok {
				up(n + 1)
			}
		}
		up(c.forcesLen(y.X, x))
	case *ast.SliceExpr:
		if c.identVar(y.X) == x && y.High == nil && y.Low != nil {
			if n, ok := c.constCount(y.Low); ok {
				up(n)
			}
		}
	case *ast.BinaryExpr:
		up(c.forcesLen(y.X, x))
		if y.Op != token.LAND && y.Op != token.LOR {
			up(c.forcesLen(y.Y, x))
		}
	case *ast.UnaryExpr:
		up(c.forcesLen(y.X, x))
	}
	return best
}

func puHasCall(e ast.Expr) bool {
	found := false
	ast.Inspect(e, func(n ast.Node) bool {
		if _, ok := n.(*ast.CallExpr); ok {
			found = true
		}
		return true
	})
	return found
}

// checkRich: refusals that need the whole function
func (c *puFn) checkRich() error {
	// x[a:b]: Go's bound is cap(x), which the carrier does not have. Accepted in exactly one shape:
	//     y := x[a:b]        (x a slice variable, a and b constants; the whole right-hand side)
	//     z := … x[k] …      (the NEXT statement; no calls; evaluates x[k], k ≥ b-1, or x[k:], k ≥ b, unconditionally)
	// If b ≤ len(x) both Go and `Go.slice` give the octets a..b. If b > len(x) Go either panics at the first
	// statement (b > cap) or yields a slice reaching into the spare capacity and panics at the second (index beyond
	// len); nothing observable happens between the two, and `Go.slice` panics. The capacity of y is never observed:
	// y may only be read, indexed, re-sliced from a low bound, or copied from (append writes into spare capacity, and
	// the alias classes treat append(y, …) as an overwrite of everything that may share storage with y).
	c.forcedHigh = map[*ast.SliceExpr]bool{}
	var bad error
	var walkBlock func(list []ast.Stmt)
	rhsOf := func(s ast.Stmt) (ast.Expr, bool) {
		switch a := s.(type) {
		case *ast.AssignStmt:
			if len(a.Lhs) == 1 && len(a.Rhs) == 1 && (a.Tok == token.ASSIGN || a.Tok == token.DEFINE) {
				return a.Rhs[0], true
			}
		}
		return nil, false
	}
	walkBlock = func(list []ast.Stmt) {
		for i, s := range list {
			if rhs, ok := rhsOf(s); ok {
				if se, ok := rhs.(*ast.SliceExpr); ok && se.High != nil && se.Max == nil {
					x := c.identVar(se.X)
					b, okb := c.constCount(se.High)
					okA := se.Low == nil
					if se.Low != nil {
						_, okA = c.constCount(se.Low)
					}
					if x != nil && okb && okA && i+1 < len(list) {
						if nrhs, ok := rhsOf(list[i+1]); ok && !puHasCall(nrhs) && c.forcesLen(nrhs, x) >= b {
							// the first statement may not reassign x itself (y := x[a:b] with y ≠ x)
							if as := s.(*ast.AssignStmt); c.identVar(as.Lhs[0]) != x {
								c.forcedHigh[se] = true
							}
						}
					}
				}
			}
		}
	}
	ast.Inspect(c.decl.Body, func(n ast.Node) bool {
		switch x := n.(type) {
		case *ast.BlockStmt:
			walkBlock(x.List)
		case *ast.CaseClause:
			walkBlock(x.Body)
		case *ast.SliceExpr:
			// x[a:b] anywhere, x a variable that only ever holds a library result declared to have cap = len:
			// b > len(x) is b > cap(x), the slice expression panics exactly when Go.slice does
			if x.High != nil && x.Max == nil {
				if v := c.identVar(x.X); v != nil && c.onlyExact(v) {
					c.forcedHigh[x] = true
				}
			}
		}
		return true
	})
	// a state parameter's object must not be reachable under a second name
	ps := c.allParams()
	for _, s := range c.state {
		sn := puNamedStruct(s.Type())
		for _, p := range ps {
			if p != s && puNamedStruct(p.Type()) == sn && sn != nil {
				return c.errf(c.decl, "parameters %s and %s could point to the same object, which the function changes", s.Name(), p.Name())
			}
		}
		for tn, fields := range c.grp.accessed {
			st, ok := tn.Type().Underlying().(*types.Struct)
			if !ok {
				continue
			}
			for i := 0; i < st.NumFields(); i++ {
				f := st.Field(i)
				if !fields[f.Name()] {
					continue
				}
				if p, ok := f.Type().Underlying().(*types.Pointer); ok {
					if n, _ := p.Elem().(*types.Named); n != nil && sn != nil && n.Obj() == sn.Obj() {
						bad = c.errf(c.decl, "field %s.%s could point to the object behind %s, which the function changes", tn.Name(), f.Name(), s.Name())
					}
				}
			}
		}
	}
	return bad
}

// onlyExact: x is a local variable every assignment of which is a library call result declared resExact
func (c *puFn) onlyExact(x *types.Var) bool {
	if c.isParam(x) || x == c.recv {
		return false
	}
	n, ok := 0, true
	ast.Inspect(c.decl.Body, func(m ast.Node) bool {
		switch s := m.(type) {
		case *ast.AssignStmt:
			for i, l := range s.Lhs {
				if c.identVar(l) != x {
					continue
				}
				n++
				if len(s.Rhs) != 1 {
					ok = false
					continue
				}
				call, isCall := s.Rhs[0].(*ast.CallExpr)
				if !isCall {
					ok = false
					continue
				}
				lf := c.libOf(call)
				exact := false
				if lf != nil {
					for _, j := range lf.resExact {
						if j == i {
							exact = true
						}
					}
				}
				if !exact {
					ok = false
				}
			}
		case *ast.ValueSpec:
			for _, id := range s.Names {
				if c.pkg.info.Defs[id] == x {
					ok = false
				}
			}
		case *ast.UnaryExpr:
			if s.Op == token.AND && c.identVar(s.X) == x {
				ok = false
			}
		}
		return true
	})
	return ok && n > 0
}

// copyStmt: copy(x.f[:], src) into an array field (arrays are values: no other name can see the write)
func (c *puFn) copyStmt(call *ast.CallExpr) ([]string, error) {
	if len(call.Args) != 2 {
		return nil, c.errf(call, "copy shape")
	}
	se, ok := call.Args[0].(*ast.SliceExpr)
	if !ok || se.Low != nil || se.High != nil || se.Max != nil {
		return nil, c.errf(call, "copy into something that is not x.f[:]")
	}
	sel, ok := se.X.(*ast.SelectorExpr)
	if !ok {
		return nil, c.errf(call, "copy into something that is not x.f[:]")
	}
	t, err := c.typeOf(sel)
	if err != nil {
		return nil, err
	}
	if _, isArr := t.Underlying().(*types.Array); !isArr || c.kindOf(t) != puBytes {
		return nil, c.errf(call, "copy into a slice (only into an array field, which is a value)")
	}
	dst, err := c.expr(sel)
	if err != nil {
		return nil, err
	}
	src, err := c.expr(call.Args[1])
	if err != nil {
		return nil, err
	}
	lines := c.takePre()
	more, err := c.assignTo(sel, "(Go.copy "+dst+" "+src+")")
	return append(lines, more...), err
}

func (c *puFn) isNoReturn(call *ast.CallExpr) bool {
	l := c.libOf(call)
	return l != nil && l.noReturn
}

// carrierHoldsRefs: can a value of this type, as carried, share storage with another value (slices; pointers to structs
// and structs by the fields that are carried; rest_)
func (c *puFn) carrierHoldsRefs(t types.Type, depth int) bool {
	if depth > 6 {
		return true
	}
	switch u := t.Underlying().(type) {
	case *types.Basic:
		return false
	case *types.Array:
		return c.carrierHoldsRefs(u.Elem(), depth+1)
	case *types.Slice:
		return true
	case *types.Pointer:
		if _, ok := u.Elem().Underlying().(*types.Struct); ok {
			return c.carrierHoldsRefs(u.Elem(), depth+1)
		}
		return true
	case *types.Struct:
		n, _ := t.(*types.Named)
		if n == nil {
			return true
		}
		if !c.grp.g.rich {
			for i := 0; i < u.NumFields(); i++ {
				if c.carrierHoldsRefs(u.Field(i).Type(), depth+1) {
					return true
				}
			}
			return false
		}
		fs, rest, err := c.grp.structFields(n)
		if err != nil || rest {
			return true
		}
		for _, f := range fs {
			if c.carrierHoldsRefs(f.Type(), depth+1) {
				return true
			}
		}
		return false
	}
	return !puIsErrorType(t)
}
