package main

import (
	"go/ast"
	"go/token"
	"go/types"
)

// checkOwnership: the carrier of a slice is a value, so a write to a slice (element assignment, append, PutUint16)
// is translated faithfully only if no other name can reach the same backing array. For every written slice path
// p = x | x.f this requires
//   - x is a local variable (not a parameter, not the receiver),
//   - every whole-value occurrence of p is one of: p[i], len(p), `p = append(p, …)` (both places), the target of an
//     assignment whose source is fresh (composite literal, make, nil, self-append), operand 0 of PutUint16, the
//     source `s...` of another append (copied), or — for a local x itself — an operand of return,
//   - every whole-value occurrence of x (when p = x.f) is a return operand (`return x` / `return &x`), or a
//     declaration / assignment from a composite literal whose p field is fresh.
//
// Also refused anywhere in the function: function literals, go, defer, select, send, goto, labels, range, type switch.
func (c *puFn) checkOwnership() error {
	var bad error
	for _, s := range c.body {
		ast.Inspect(s, func(n ast.Node) bool {
			if bad != nil {
				return false
			}
			switch n.(type) {
			case *ast.RangeStmt:
				if !c.grp.g.rich {
					bad = c.errf(n, "construct %T outside the translated subset", n)
				}
			case *ast.FuncLit, *ast.GoStmt, *ast.DeferStmt, *ast.SelectStmt, *ast.SendStmt, *ast.LabeledStmt,
				*ast.TypeSwitchStmt, *ast.TypeAssertExpr, *ast.StarExpr:
				bad = c.errf(n, "construct %T outside the translated subset", n)
			}
			return true
		})
	}
	if bad != nil {
		return bad
	}
	// written paths
	type wr struct {
		root  *types.Var
		field string // "" for the variable itself
		at    ast.Node
	}
	var written []wr
	pathOf := func(e ast.Expr) (*types.Var, string, bool) {
		switch x := e.(type) {
		case *ast.Ident:
			v, _ := c.pkg.info.ObjectOf(x).(*types.Var)
			return v, "", v != nil
		case *ast.SelectorExpr:
			if id, ok := x.X.(*ast.Ident); ok {
				v, _ := c.pkg.info.ObjectOf(id).(*types.Var)
				return v, x.Sel.Name, v != nil
			}
		}
		return nil, "", false
	}
	isSlice := func(e ast.Expr) bool {
		tv, ok := c.pkg.info.Types[e]
		if !ok || tv.Type == nil {
			return false
		}
		_, s := tv.Type.Underlying().(*types.Slice)
		return s
	}
	isAppend := func(e ast.Expr) *ast.CallExpr {
		call, ok := e.(*ast.CallExpr)
		if !ok {
			return nil
		}
		id, ok := call.Fun.(*ast.Ident)
		if !ok || id.Name != "append" {
			return nil
		}
		if _, ok := c.pkg.info.Uses[id].(*types.Builtin); !ok {
			return nil
		}
		return call
	}
	for _, s := range c.body {
		ast.Inspect(s, func(n ast.Node) bool {
			switch x := n.(type) {
			case *ast.AssignStmt:
				for i, l := range x.Lhs {
					if ix, ok := l.(*ast.IndexExpr); ok && isSlice(ix.X) {
						if v, f, ok := pathOf(ix.X); ok {
							written = append(written, wr{v, f, l})
						} else {
							bad = c.errf(l, "element assignment into something that is not x[i] / x.f[i]")
						}
					}
					// (rich groups: append is translated as a value under the alias classes of pure_nas.go instead)
					if len(x.Lhs) == len(x.Rhs) && isAppend(x.Rhs[i]) != nil && !c.grp.g.rich {
						if v, f, ok := pathOf(l); ok {
							written = append(written, wr{v, f, l})
						} else {
							bad = c.errf(l, "append into something that is not x / x.f")
						}
					}
				}
			case *ast.IncDecStmt:
				if ix, ok := x.X.(*ast.IndexExpr); ok && isSlice(ix.X) {
					if v, f, ok := pathOf(ix.X); ok {
						written = append(written, wr{v, f, x})
					} else {
						bad = c.errf(x, "element update of something that is not x[i] / x.f[i]")
					}
				}
			case *ast.CallExpr:
				if c.stdCall(x) == "encoding/binary.BigEndian.PutUint16" && len(x.Args) == 2 {
					if v, f, ok := pathOf(x.Args[0]); ok {
						written = append(written, wr{v, f, x})
					} else {
						bad = c.errf(x, "PutUint16 into something that is not x / x.f")
					}
				}
			}
			return bad == nil
		})
	}
	if bad != nil {
		return bad
	}
	fresh := func(e ast.Expr, self ast.Expr) bool {
		switch x := e.(type) {
		case *ast.CompositeLit:
			return true
		case *ast.Ident:
			_, isNil := c.pkg.info.ObjectOf(x).(*types.Nil)
			return isNil
		case *ast.CallExpr:
			if id, ok := x.Fun.(*ast.Ident); ok && id.Name == "make" {
				_, b := c.pkg.info.Uses[id].(*types.Builtin)
				return b
			}
			if a := isAppend(x); a != nil && self != nil && len(a.Args) > 0 {
				return c.text(a.Args[0]) == c.text(self)
			}
		}
		return false
	}
	for _, w := range written {
		if w.root == c.recv || c.isParam(w.root) || w.root.Parent() == w.root.Pkg().Scope() {
			return c.errf(w.at, "write to a slice reachable from a parameter / the receiver (the caller would see it)")
		}
		// walk with a parent stack
		var stack []ast.Node
		for _, s := range c.body {
			ast.Inspect(s, func(n ast.Node) bool {
				if n == nil {
					stack = stack[:len(stack)-1]
					return true
				}
				stack = append(stack, n)
				if bad != nil {
					return true
				}
				e, ok := n.(ast.Expr)
				if !ok {
					return true
				}
				v, f, ok := pathOf(e)
				if !ok || v != w.root {
					return true
				}
				var parent, grand ast.Node
				if len(stack) >= 2 {
					parent = stack[len(stack)-2]
				}
				if len(stack) >= 3 {
					grand = stack[len(stack)-3]
				}
				if w.field != "" && f == "" {
					// the struct variable itself: allowed as the base of a selector, in return / return &x, and as the
					// target of a declaration or assignment from a composite literal
					switch p := parent.(type) {
					case *ast.SelectorExpr:
						return true
					case *ast.ReturnStmt:
						return true
					case *ast.UnaryExpr:
						if _, ok := grand.(*ast.ReturnStmt); ok && p.Op == token.AND {
							return true
						}
					case *ast.AssignStmt:
						for i, l := range p.Lhs {
							if l == e && len(p.Lhs) == len(p.Rhs) {
								if cl, ok := p.Rhs[i].(*ast.CompositeLit); ok {
									okLit := true
									for _, el := range cl.Elts {
										if kv, ok := el.(*ast.KeyValueExpr); ok {
											if id, ok := kv.Key.(*ast.Ident); ok && id.Name == w.field && !fresh(kv.Value, nil) {
												okLit = false
											}
										} else {
											okLit = false
										}
									}
									if okLit {
										return true
									}
								}
							}
						}
					case *ast.ValueSpec:
						if len(p.Values) == 0 {
							return true
						}
					}
					bad = c.errf(e, "%s holds a slice that is written; this use of the whole value could create an alias", v.Name())
					return true
				}
				if f != w.field {
					return true
				}
				// the written path itself
				switch p := parent.(type) {
				case *ast.IndexExpr:
					if p.X == e {
						return true
					}
				case *ast.CallExpr:
					if id, ok := p.Fun.(*ast.Ident); ok && id.Name == "len" {
						return true
					}
					if a := isAppend(p); a != nil {
						if a.Args[0] == e {
							// self-append only: checked at the assignment (translator refuses any other shape)
							return true
						}
						if a.Ellipsis.IsValid() && len(a.Args) == 2 && a.Args[1] == e {
							return true
						}
					}
					if c.stdCall(p) == "encoding/binary.BigEndian.PutUint16" && len(p.Args) == 2 && p.Args[0] == e {
						return true
					}
				case *ast.AssignStmt:
					for i, l := range p.Lhs {
						if l == e && len(p.Lhs) == len(p.Rhs) && fresh(p.Rhs[i], e) {
							return true
						}
					}
				case *ast.ValueSpec:
					for i, id := range p.Names {
						if ast.Expr(id) == e && (len(p.Values) == 0 || fresh(p.Values[i], nil)) {
							return true
						}
					}
				case *ast.ReturnStmt:
					if f == "" {
						return true
					}
				case *ast.SelectorExpr:
					if f == "" && p.X == e {
						return true
					}
				}
				bad = c.errf(e, "%s is a slice that is written; this use could create an alias", c.text(e))
				return true
			})
		}
		if bad != nil {
			return bad
		}
	}
	return nil
}
