package main

import (
	"fmt"
	"os"
	"path/filepath"
	"strings"

	st "verifharness/cmd/gen/pureselftest"
)

// pure-selftest-mil: the self-test of the buffer grammar (pure_milenage.go): see pureselftest/buf.go. Output
// Gen/PureSelftestMil.lean = the translation of that file + a Lean transcription of its stand-in library (selfLibMil) + one
// `example … := by decide +kernel` per executed call: the Go results and every out-parameter as the compiled function left it.
func init() { register("pure-selftest-mil", genPureSelftestMil) }

var buSelftest = &buGroup{name: "pure-selftest-mil", ns: "SelftestMil",
	iface: "pureselftest.Blk", ifaceDoc: "the carrier of a pureselftest.Blk value (nil included)",
	lib: []buLib{
		{"pureselftest.NewBlk", "aesNewCipher", buCtor, "NewBlk(key): (blk, err != nil)"},
		{"(pureselftest.Blk).Size", "blockSize", buSize, "blk.Size()"},
		{"(pureselftest.Blk).Enc", "encrypt", buInPlace, "blk.Enc(dst, src): dst afterwards"},
		{"reflect.DeepEqual", "deepEqualBytes", buDeepEq, "reflect.DeepEqual on two non-nil byte slices"},
	},
	targets: []puTarget{
		{pkg: "pureselftest", file: "buf.go", fn: "Fill"}, {pkg: "pureselftest", file: "buf.go", fn: "Rot"},
		{pkg: "pureselftest", file: "buf.go", fn: "Cmp3"}, {pkg: "pureselftest", file: "buf.go", fn: "Outs"},
		{pkg: "pureselftest", file: "buf.go", fn: "Seal"}, {pkg: "pureselftest", file: "buf.go", fn: "Top"},
	}}

const buSelfLibLean = `
/-! ### the library half of pureselftest/buf.go, transcribed (NewBlk, Blk.Size, Blk.Enc) -/

def selfLibMil : Lib where
  Block := Option Bytes
  aesNewCipher := fun k => if k.length = 4 then .ok (some k, false) else .ok (none, true)
  blockSize := fun b =>
    match b with
    | some _ => .ok 4
    | none => .error .panic
  encrypt := fun b dst src =>
    match b with
    | none => .error .panic
    | some k =>
      if src.length < 4 ∨ dst.length < 4 then .error .panic
      else .ok ([(src.getD 1 0 ^^^ k.getD 0 0) + 1, (src.getD 2 0 ^^^ k.getD 1 0) + 1, (src.getD 3 0 ^^^ k.getD 2 0) + 1,
                 (src.getD 0 0 ^^^ k.getD 3 0) + 1] ++ dst.drop 4)
  deepEqualBytes := fun a b => a == b

`

func buOpt(b []byte) string {
	if b == nil {
		return "none"
	}
	return "(some " + puBytesLit(b) + ")"
}

type buCase struct {
	fn, args string
	run      func() string
}

func buSelfCases() []buCase {
	var cs []buCase
	add := func(fn, args string, run func() string) { cs = append(cs, buCase{fn, args, run}) }
	// the callers' buffers have cap == len (the assumption of the grammar about slice arguments)
	cl := func(b []byte) []byte {
		if b == nil {
			return nil
		}
		c := make([]byte, len(b))
		copy(c, b)
		return c
	}
	bufs := [][]byte{nil, {}, {1}, {1, 2, 3}, {9, 8, 7, 6}, {0xff, 0, 0x80, 3, 4, 5}, {1, 2, 3, 4, 5, 6, 7, 8, 9, 10}}
	for _, d := range bufs {
		for _, a := range [][]byte{nil, {0xf0, 0x0f}, {1, 2, 3, 4, 5}} {
			for _, n := range []int{-1, 0, 2, 4, 5} {
				d, a, n := d, a, n
				b := []byte{0xaa, 0x55, 0xff, 0, 7}
				add("Fill", puBytesLit(d)+" "+puBytesLit(a)+" "+puBytesLit(b)+" "+puI(n), func() string {
					x := cl(d)
					st.Fill(x, a, b, n)
					return puBytesLit(x)
				})
			}
		}
	}
	for _, d := range bufs {
		for _, s := range []int{0, 1, 3, 4, 7, -1} {
			d, s := d, s
			src := []byte{10, 20, 30, 40}
			add("Rot", puBytesLit(d)+" "+puBytesLit(src)+" "+puI(s), func() string {
				x := cl(d)
				st.Rot(x, src, s)
				return puBytesLit(x)
			})
		}
		d := d
		add("Rot", puBytesLit(d)+" "+puBytesLit([]byte{1, 2})+" "+puI(1), func() string {
			x := cl(d)
			st.Rot(x, []byte{1, 2}, 1)
			return puBytesLit(x)
		})
	}
	for _, p := range [][2][]byte{{nil, nil}, {{1, 2, 3}, {1, 2, 3}}, {{1, 2, 3}, {1, 3, 3}}, {{1, 9, 3}, {1, 3, 3}}, {{1, 2}, {1, 2, 3}}, {{0}, {255}}} {
		for _, n := range []int{-3, 0, 1, 2, 3, 4} {
			p, n := p, n
			add("Cmp3", puBytesLit(p[0])+" "+puBytesLit(p[1])+" "+puI(n), func() string { return puI(st.Cmp3(p[0], p[1], n)) })
		}
	}
	for _, a := range [][]byte{nil, {1, 2, 3}, {1, 2, 3, 4}, {0x11, 0x22, 0x33, 0x44, 0x55}} {
		for _, x := range [][]byte{nil, {}, {0, 0}, {0, 0, 0, 0}, {7, 7, 7, 7, 7, 7}} {
			for _, y := range [][]byte{nil, {}, {1}, {1, 1, 1}, {0xf0, 0xf0, 0xf0, 0xf0, 0xf0}} {
				a, x, y := a, x, y
				add("Outs", puBytesLit(a)+" "+buOpt(x)+" "+buOpt(y), func() string {
					x2, y2 := cl(x), cl(y)
					err := st.Outs(a, x2, y2)
					return "(" + puB(err != nil) + ", " + buOpt(x2) + ", " + buOpt(y2) + ")"
				})
			}
		}
	}
	keys := [][]byte{nil, {1, 2, 3}, {1, 2, 3, 4}, {0xff, 0x80, 0x7f, 0}, {1, 2, 3, 4, 5}}
	for _, k := range keys {
		for _, in := range [][]byte{nil, {1, 2, 3}, {5, 6, 7, 8}, {0xde, 0xad, 0xbe, 0xef, 1}} {
			for _, out := range [][]byte{nil, {0, 0, 0}, {0, 0, 0, 0}, {1, 1, 1, 1, 1}, {2, 2, 2, 2, 2, 2, 2}} {
				k, in, out := k, in, out
				add("Seal", puBytesLit(k)+" "+puBytesLit(in)+" "+puBytesLit(out), func() string {
					o := cl(out)
					err := st.Seal(k, in, o)
					return "(" + puB(err != nil) + ", " + puBytesLit(o) + ")"
				})
			}
		}
	}
	type np struct {
		isNil bool
		v     uint
	}
	for _, k := range [][]byte{{1, 2, 3}, {1, 2, 3, 4}, {0xff, 0x80, 0x7f, 0}} {
		for _, in := range [][]byte{{1, 2, 3}, {5, 6, 7, 8}, {0xde, 0xad, 0xbe, 0xef, 1}, {9, 9, 9, 9, 9, 9}} {
			for _, o1 := range [][]byte{nil, {0, 0, 0, 0}, {3, 3}} {
				for _, o2 := range [][]byte{nil, {0, 0, 0}, {0, 0, 0, 0, 0}, {1, 1, 1, 1, 1, 1, 1}} {
					for _, n := range []np{{true, 0}, {false, 2}, {false, 1 << 40}} {
						k, in, o1, o2, n := k, in, o1, o2, n
						na := "none"
						if !n.isNil {
							na = "(some " + puU(uint64(n.v), "UInt64") + ")"
						}
						add("Top", puBytesLit(k)+" "+puBytesLit(in)+" "+buOpt(o1)+" "+puBytesLit(o2)+" "+na, func() string {
							a, b := cl(o1), cl(o2)
							var p *uint
							if !n.isNil {
								v := n.v
								p = &v
							}
							r := st.Top(k, in, a, b, p)
							ns := "none"
							if p != nil {
								ns = "(some " + puU(uint64(*p), "UInt64") + ")"
							}
							return "(" + puI(r) + ", " + buOpt(a) + ", " + puBytesLit(b) + ", " + ns + ")"
						})
					}
				}
			}
		}
	}
	return cs
}

func genPureSelftestMil() error {
	tmp, err := os.MkdirTemp("", "pureselftestmil")
	if err != nil {
		return err
	}
	defer os.RemoveAll(tmp)
	dir := filepath.Join(tmp, "src", "pureselftest")
	if err := os.MkdirAll(dir, 0o755); err != nil {
		return err
	}
	if err := os.WriteFile(filepath.Join(dir, "buf.go"), []byte(st.BufSource), 0o644); err != nil {
		return err
	}
	saveRepo, saveRoots := repo, puRepoRoots
	repo, puRepoRoots = tmp, []string{"pureselftest"}
	defer func() { repo, puRepoRoots = saveRepo, saveRoots }()
	if err := writeIfChanged("PureRtBuf.lean", buRuntimeLean); err != nil {
		return err
	}
	out, x, err := genBufGroup(newPuLoader([]string{"pureselftest"}), buSelftest)
	if err != nil {
		return err
	}
	// the classification the argument texts below rely on
	want := map[string][2]string{"Fill": {"dst", ""}, "Rot": {"dst", ""}, "Cmp3": {"", ""}, "Outs": {"x y", "x y"}, "Seal": {"out", ""},
		"Top": {"o1 o2 n", "o1"}}
	takesLib := map[string]bool{}
	for _, f := range x.fns {
		var w, n []string
		for _, p := range f.params {
			if f.written[p] {
				w = append(w, p.Name())
			}
			if f.nilable[p] {
				n = append(n, p.Name())
			}
		}
		if g := [2]string{strings.Join(w, " "), strings.Join(n, " ")}; g != want[f.lean] {
			return fail("pure-selftest-mil: %s: out-parameters / nil-able parameters %q, the self-test expects %q", f.lean, g, want[f.lean])
		}
		takesLib[f.lean] = f.usesLib
	}
	var b strings.Builder
	b.WriteString(buSelfLibLean)
	b.WriteString("/-! ### the translated functions against the compiled ones (outcomes computed by this run of `gen pure-selftest-mil`) -/\n")
	b.WriteString(`local instance {α : Type} [DecidableEq α] : DecidableEq (Res α)
  | .ok a, .ok b => if h : a = b then isTrue (by rw [h]) else isFalse (by intro e; cases e; exact h rfl)
  | .error a, .error b => if h : a = b then isTrue (by rw [h]) else isFalse (by intro e; cases e; exact h rfl)
  | .ok _, .error _ => isFalse (by intro e; cases e)
  | .error _, .ok _ => isFalse (by intro e; cases e)

`)
	npanic, nok := 0, 0
	for _, cs := range buSelfCases() {
		res, panicked := puRun(cs.run)
		if panicked {
			npanic++
			res = ".error .panic"
		} else {
			nok++
			res = ".ok " + res
		}
		lib := ""
		if takesLib[cs.fn] {
			lib = " selfLibMil"
		}
		fmt.Fprintf(&b, "example : %s%s %s = %s := by decide +kernel\n", cs.fn, lib, cs.args, res)
	}
	if npanic == 0 || nok == 0 {
		return fail("pure-selftest-mil: %d calls returned, %d panicked: one path is not exercised", nok, npanic)
	}
	end := "end Stgutg.Gen.Pure.SelftestMil\n"
	out = strings.TrimSuffix(out, end) + b.String() + "\n" + end
	return writeIfChanged("PureSelftestMil.lean", out)
}
