package main

import (
	"fmt"
	"io"
	"log"
	"strings"

	st "verifharness/cmd/gen/pureselftest"
)

// The self-test of the extended grammar: see pureselftest/rich.go. Output Gen/PureSelftestRich.lean = the translation of
// that file + a Lean transcription of its "library" functions (selfLib) + one `example … := by decide +kernel` per
// executed call.

var puSelftestRichGroup = &puGroup{name: "pure-selftest-rich", ns: "SelftestRich", rich: true, imports: []string{"pure-selftest"},
	lib: []*puLibFn{
		{key: "(pureselftest.Msg).Enc", field: "enc", inPlace: -1, resNonNil: []int{0}, doc: "(octets, err != nil)"},
		{key: "(pureselftest.Msg).Dec", field: "dec", inPlace: -1, recvMut: true, retain: []int{0}, doc: "(the message afterwards, err != nil)"},
		{key: "pureselftest.Cipher", field: "cipher", inPlace: 3, nonNil: []int{3}, doc: "p overwritten in place: (p afterwards, err != nil)"},
		{key: "pureselftest.Mac", field: "mac", inPlace: -1, nonNil: []int{3}, doc: "(mac, err != nil)"},
		{key: "reflect.DeepEqual", field: "deepEqualBytes", inPlace: -1, total: true, doc: "on two byte slices"},
	},
	libTotalSig: map[string]puTotalSig{"deepEqualBytes": {2, "Bytes", "Bool"}},
	targets: []puTarget{
		{pkg: "pureselftest", file: "rich.go", fn: "NewMsg"}, {pkg: "pureselftest", file: "rich.go", fn: "Second"},
		{pkg: "pureselftest", file: "rich.go", fn: "Protect"}, {pkg: "pureselftest", file: "rich.go", fn: "Open"},
		{pkg: "pureselftest", file: "rich.go", fn: "Wrap"}, {pkg: "pureselftest", file: "rich.go", fn: "First"},
		{pkg: "pureselftest", file: "rich.go", fn: "Tally"},
	}}

// the Lean transcription of the library half of rich.go
const puSelfLibLean = `
/-! ### the library half of pureselftest/rich.go, transcribed (Cipher, Mac, Msg.Enc, Msg.Dec) -/

/-- m.Body as the rest_ component: 0 = nil, otherwise the octets of X behind a leading 1, base 256 -/
def restOf : Option Bytes → Go.Rest
  | none => ⟨0⟩
  | some b => ⟨b.foldl (fun a x => a * 256 + x.toNat) 1⟩

def bodyAux : Nat → Nat → Bytes → Bytes
  | 0, _, acc => acc
  | f + 1, n, acc => if n ≤ 1 then acc else bodyAux f (n / 256) ((n % 256).toUInt8 :: acc)

def bodyOf (r : Go.Rest) : Option Bytes := if r.code = 0 then none else some (bodyAux 64 r.code [])

def xorFrom (key : Bytes) (n : UInt8) : Nat → Bytes → Bytes
  | _, [] => []
  | i, b :: bs => (b ^^^ (key.getD (i % 4) 0 + n)) :: xorFrom key n (i + 1) bs

def selfLib : Lib where
  enc := fun m =>
    match bodyOf m.rest_ with
    | none => .ok ([], true)
    | some x => .ok (m.Hdr.A :: m.Hdr.B :: x, false)
  dec := fun m b =>
    match b with
    | [] => .error .panic
    | f :: tl => .ok ({ Hdr := { m.Hdr with A := f }, rest_ := restOf (some tl) }, f == 255)
  cipher := fun alg key n p =>
    if alg = 0 then .ok (xorFrom key n.toUInt8 0 p, false)
    else if alg = 1 then .ok (match p with | [] => [] | _ :: tl => 0 :: tl, true)
    else if alg = 2 then .error .panic
    else .ok (p, true)
  mac := fun alg key n p =>
    if alg = 0 then .ok ([], false)
    else if alg = 3 then .ok ([], true)
    else .ok ([p.foldl (· + ·) n.toUInt8, key.getD 0 0], false)
  deepEqualBytes := fun a b => a == b

`

func puRestCode(b *st.Body) string {
	if b == nil {
		return "⟨0⟩"
	}
	// a leading 1, then the octets, base 256 (arbitrary precision: decimal text via big arithmetic in fmt)
	n := []byte{1}
	n = append(n, b.X...)
	// decimal conversion of the base-256 number
	digits := []byte{0}
	for _, by := range n {
		carry := int(by)
		for i := range digits {
			v := int(digits[i])*256 + carry
			digits[i] = byte(v % 10)
			carry = v / 10
		}
		for carry > 0 {
			digits = append(digits, byte(carry%10))
			carry /= 10
		}
	}
	var sb strings.Builder
	for i := len(digits) - 1; i >= 0; i-- {
		sb.WriteByte('0' + digits[i])
	}
	return "⟨" + sb.String() + "⟩"
}

func puUeLean(u *st.Ue) string {
	if u == nil {
		return "none"
	}
	return fmt.Sprintf("(some ({ B := ({ N := %s, M := %s } : Box), Alg := %s, Key := %s } : Ue))",
		puU(uint64(u.B.N), "UInt32"), puU(uint64(u.B.M), "UInt8"), puU(uint64(u.Alg), "UInt8"), puBytesLit(u.Key[:]))
}

func puMsgLean(m *st.Msg) string {
	if m == nil {
		return "none"
	}
	return fmt.Sprintf("(some ({ Hdr := ({ A := %s, B := %s } : Hdr), rest_ := %s } : Msg))",
		puU(uint64(m.Hdr.A), "UInt8"), puU(uint64(m.Hdr.B), "UInt8"), puRestCode(m.Body))
}

func puBagLean(b *st.Bag) string {
	if b == nil {
		return "none"
	}
	var items []string
	for _, it := range b.L {
		p := "none"
		if it.Val.P != nil {
			p = "(some ({ V := " + puBytesLit(it.Val.P.V) + " } : Pdu))"
		}
		items = append(items, fmt.Sprintf("({ Id := %s, Val := ({ P := %s } : ItemVal) } : Item)", puI(int(it.Id)), p))
	}
	return "(some ({ L := ([" + strings.Join(items, ", ") + "] : List Item) } : Bag))"
}

func puErrLean(err error) string { return puB(err != nil) }

type puRichCase struct {
	fn, args string
	// run executes the call; it returns the state text (the object behind u afterwards) through *state even when the
	// call panics, and the rendered results
	run func(state *string) string
}

func puCloneUe(u *st.Ue) *st.Ue {
	if u == nil {
		return nil
	}
	c := *u
	return &c
}

func puCloneMsg(m *st.Msg) *st.Msg {
	if m == nil {
		return nil
	}
	c := *m
	if m.Body != nil {
		c.Body = &st.Body{X: append([]byte(nil), m.Body.X...)}
	}
	return &c
}

func puCloneBytes(b []byte) []byte {
	if b == nil {
		return nil
	}
	return append([]byte{}, b...)
}

func puRichCases() []puRichCase {
	var cs []puRichCase
	ue := func(n uint32, m, alg uint8) *st.Ue {
		return &st.Ue{Name: "x", B: st.Box{N: n, M: m}, Alg: alg, Key: [4]uint8{1, 2, 3, 250}}
	}
	msg := func(a, b uint8, body []byte, hasBody bool) *st.Msg {
		m := &st.Msg{Hdr: st.Hdr{A: a, B: b}}
		if hasBody {
			m.Body = &st.Body{X: body}
		}
		return m
	}
	ues := []*st.Ue{nil, ue(0, 0, 0), ue(0xfffffffe, 255, 0), ue(5, 9, 1), ue(5, 9, 2), ue(7, 3, 3), ue(7, 3, 4)}
	msgs := []*st.Msg{nil, msg(0x7e, 2, []byte{9, 8, 7, 6, 5}, true), msg(0x7e, 1, []byte{1}, true), msg(1, 4, nil, true), msg(3, 2, nil, false)}
	for _, u0 := range ues {
		for _, m0 := range msgs {
			for _, fl := range [][2]bool{{false, false}, {true, false}, {true, true}} {
				u0, m0, fl := u0, m0, fl
				cs = append(cs, puRichCase{"Protect", puUeLean(u0) + " " + puMsgLean(m0) + " " + puB(fl[0]) + " " + puB(fl[1]), func(state *string) string {
					u, m := puCloneUe(u0), puCloneMsg(m0)
					defer func() { *state = puUeLean(u) }()
					out, err := st.Protect(u, m, fl[0], fl[1])
					return "(" + puBytesLit(out) + ", " + puErrLean(err) + ")"
				}})
			}
		}
	}
	payloads := [][]byte{nil, {}, {5}, {0x7e, 1}, {0x7e, 2, 3}, {0x7e, 2, 3, 4}, {0x7e, 2, 3, 200, 0xff, 6}, {1, 2, 3, 4, 5, 6, 7, 8, 9}, {0xff, 0, 1, 2, 3}}
	for _, u0 := range ues {
		for _, t := range []uint8{0, 1, 2, 3} {
			for _, p0 := range payloads {
				u0, t, p0 := u0, t, p0
				arg := "none"
				if p0 != nil {
					arg = "(some " + puBytesLit(p0) + ")"
				}
				cs = append(cs, puRichCase{"Open", puUeLean(u0) + " " + puU(uint64(t), "UInt8") + " " + arg, func(state *string) string {
					u, p := puCloneUe(u0), puCloneBytes(p0)
					defer func() { *state = puUeLean(u) }()
					m, err := st.Open(u, t, p)
					return "(" + puMsgLean(m) + ", " + puErrLean(err) + ")"
				}})
			}
		}
	}
	for _, u0 := range []*st.Ue{nil, ue(3, 4, 0), ue(3, 4, 1), ue(3, 4, 5)} {
		for _, p0 := range [][]byte{nil, {0xff, 1}, {0x7e, 9, 9, 9}, {2}} {
			for _, t := range []uint8{1, 2} {
				for _, fl := range [][2]bool{{false, true}, {true, true}, {true, false}} {
					u0, p0, t, fl := u0, p0, t, fl
					cs = append(cs, puRichCase{"Wrap", puUeLean(u0) + " " + puBytesLit(p0) + " " + puU(uint64(t), "UInt8") + " " + puB(fl[0]) + " " + puB(fl[1]), func(state *string) string {
						u, p := puCloneUe(u0), puCloneBytes(p0)
						defer func() { *state = puUeLean(u) }()
						out, err := st.Wrap(u, p, t, fl[0], fl[1])
						return "(" + puBytesLit(out) + ", " + puErrLean(err) + ")"
					}})
				}
			}
		}
	}
	item := func(id int64, v []byte, has bool) st.Item {
		it := st.Item{Id: id}
		if has {
			it.Val.P = &st.Pdu{V: v}
		}
		return it
	}
	bags := []*st.Bag{nil, {}, {L: []st.Item{item(10, nil, false), item(38, []byte{0x7e, 2, 3, 200, 9, 6, 7}, true), item(38, []byte{1}, true)}},
		{L: []st.Item{item(38, nil, false)}}, {L: []st.Item{item(0, nil, false), item(38, []byte{4}, true)}},
		{L: []st.Item{item(38, []byte{0x7e, 0, 1, 2}, true)}}, {L: []st.Item{item(38, []byte{0xff, 0, 1, 2}, true)}},
		{L: []st.Item{item(5, nil, false), item(0, nil, false), item(7, nil, false), item(1000, nil, false), item(2, nil, false)}}}
	cloneBag := func(b *st.Bag) *st.Bag {
		if b == nil {
			return nil
		}
		c := &st.Bag{}
		for _, it := range b.L {
			n := st.Item{Id: it.Id}
			if it.Val.P != nil {
				n.Val.P = &st.Pdu{V: puCloneBytes(it.Val.P.V)}
			}
			c.L = append(c.L, n)
		}
		return c
	}
	for _, u0 := range []*st.Ue{nil, ue(3, 4, 0), ue(3, 200, 4), ue(1, 1, 2)} {
		for _, b0 := range bags {
			u0, b0 := u0, b0
			cs = append(cs, puRichCase{"First", puUeLean(u0) + " " + puBagLean(b0), func(state *string) string {
				u, b := puCloneUe(u0), cloneBag(b0)
				defer func() { *state = puUeLean(u) }()
				return puMsgLean(st.First(u, b))
			}})
			for _, lim := range []int64{6, 5000} {
				lim := lim
				cs = append(cs, puRichCase{"Tally", puUeLean(u0) + " " + puBagLean(b0) + " " + puI(int(lim)), func(state *string) string {
					u, b := puCloneUe(u0), cloneBag(b0)
					defer func() { *state = puUeLean(u) }()
					n, last := st.Tally(u, b, lim)
					return "(" + puI(n) + ", " + puI(int(last)) + ")"
				}})
			}
		}
	}
	return cs
}

func puRunRich(c puRichCase) (state, res string, panicked bool) {
	defer func() {
		if recover() != nil {
			panicked = true
		}
	}()
	res = c.run(&state)
	return
}

func genPureSelftestRich(ld *puLoader) error {
	out, gc, err := genPureGroupCtx(ld, puSelftestRichGroup)
	if err != nil {
		return err
	}
	takesLib := map[string]bool{}
	for _, f := range gc.fns {
		if !f.stateful() && !f.t.extern {
			continue
		}
		takesLib[f.lean] = f.usesLib
	}
	saveOut := log.Writer()
	log.SetOutput(io.Discard)
	defer log.SetOutput(saveOut)
	var b strings.Builder
	b.WriteString(puSelfLibLean)
	b.WriteString("/-! ### the translated functions against the compiled ones (outcomes computed by this run of `gen pure-selftest`) -/\n")
	b.WriteString(`local instance {α : Type} [DecidableEq α] : DecidableEq (Res α)
  | .ok a, .ok b => if h : a = b then isTrue (by rw [h]) else isFalse (by intro e; cases e; exact h rfl)
  | .error a, .error b => if h : a = b then isTrue (by rw [h]) else isFalse (by intro e; cases e; exact h rfl)
  | .ok _, .error _ => isFalse (by intro e; cases e)
  | .error _, .ok _ => isFalse (by intro e; cases e)

`)
	npanic := 0
	for _, cs := range puRichCases() {
		state, res, panicked := puRunRich(cs)
		if panicked {
			npanic++
			res = ".error .panic"
		} else {
			res = ".ok " + res
		}
		lib := ""
		if takesLib[cs.fn] {
			lib = " selfLib"
		}
		fmt.Fprintf(&b, "example : %s%s %s = (%s, %s) := by decide +kernel\n", cs.fn, lib, cs.args, state, res)
	}
	if npanic == 0 {
		return fail("pure-selftest: no call of the rich self-test panicked (the state-at-panic path is not exercised)")
	}
	end := "end Stgutg.Gen.Pure.SelftestRich\n"
	out = strings.TrimSuffix(out, end) + b.String() + "\n" + end
	return writeIfChanged("PureSelftestRich.lean", out)
}
