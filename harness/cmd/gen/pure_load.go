package main

import (
	"go/ast"
	"go/build"
	"go/importer"
	"go/parser"
	"go/token"
	"go/types"
	"os"
	"path/filepath"
	"sort"
	"strings"
)

// puLoader type-checks packages of the repo from source (the directory is found from the import path:
// free5gclib/… tglib/… stgutg/… → <repo>/src/…), the standard library through go/importer's "source" importer, and
// gives every other import path (third-party modules) an empty package. Type errors are recorded, not fatal: the
// translator refuses a function only if an error lies inside it or one of the types / constants it uses is invalid.
type puLoader struct {
	fset  *token.FileSet
	std   types.Importer
	pkgs  map[string]*puPkg
	stack map[string]bool
	// bodies: the packages whose function bodies are checked (those holding translated functions); fixed before
	// the first load so that every package is checked exactly once
	bodies map[string]bool
}

type puPkg struct {
	path  string
	dir   string
	pkg   *types.Package
	info  *types.Info
	files map[string]*ast.File // base name → file
	errs  []types.Error
}

var puRepoRoots = []string{"free5gclib", "tglib", "stgutg"}

func newPuLoader(bodies []string) *puLoader {
	fset := token.NewFileSet()
	l := &puLoader{fset: fset, std: importer.ForCompiler(fset, "source", nil), pkgs: map[string]*puPkg{}, stack: map[string]bool{},
		bodies: map[string]bool{}}
	for _, b := range bodies {
		l.bodies[b] = true
	}
	return l
}

func puIsRepoPath(path string) bool {
	first := path
	if i := strings.IndexByte(path, '/'); i >= 0 {
		first = path[:i]
	}
	for _, r := range puRepoRoots {
		if first == r {
			return true
		}
	}
	return false
}

func puIsStd(path string) bool {
	first := path
	if i := strings.IndexByte(path, '/'); i >= 0 {
		first = path[:i]
	}
	return !strings.Contains(first, ".")
}

func (l *puLoader) Import(path string) (*types.Package, error) {
	if puIsRepoPath(path) {
		p, err := l.load(path)
		if err != nil {
			return nil, err
		}
		return p.pkg, nil
	}
	if puIsStd(path) {
		return l.std.Import(path)
	}
	// third-party module: an empty, complete package; every use of it is a (recorded) type error
	name := path
	if i := strings.LastIndexByte(path, '/'); i >= 0 {
		name = path[i+1:]
	}
	name = strings.TrimSuffix(name, ".v2")
	p := types.NewPackage(path, name)
	p.MarkComplete()
	return p, nil
}

// load parses and type-checks one package of the repo. Function bodies are checked only in l.bodies.
func (l *puLoader) load(path string) (*puPkg, error) {
	if p, ok := l.pkgs[path]; ok {
		return p, nil
	}
	ignoreBodies := !l.bodies[path]
	if l.stack[path] {
		return nil, fail("import cycle through %s", path)
	}
	l.stack[path] = true
	defer delete(l.stack, path)
	dir := filepath.Join(repo, "src", filepath.FromSlash(path))
	ents, err := os.ReadDir(dir)
	if err != nil {
		return nil, fail("package %s: %v", path, err)
	}
	var names []string
	for _, e := range ents {
		n := e.Name()
		if e.IsDir() || !strings.HasSuffix(n, ".go") || strings.HasSuffix(n, "_test.go") {
			continue
		}
		ctx := build.Default
		ctx.CgoEnabled = false
		ok, err := ctx.MatchFile(dir, n)
		if err != nil {
			return nil, fail("%s/%s: %v", dir, n, err)
		}
		if ok {
			names = append(names, n)
		}
	}
	sort.Strings(names)
	p := &puPkg{path: path, dir: dir, files: map[string]*ast.File{}}
	var files []*ast.File
	for _, n := range names {
		f, err := parser.ParseFile(l.fset, filepath.Join(dir, n), nil, parser.ParseComments)
		if err != nil {
			return nil, err
		}
		p.files[n] = f
		files = append(files, f)
	}
	if len(files) == 0 {
		return nil, fail("package %s: no Go files in %s", path, dir)
	}
	info := &types.Info{
		Types:      map[ast.Expr]types.TypeAndValue{},
		Defs:       map[*ast.Ident]types.Object{},
		Uses:       map[*ast.Ident]types.Object{},
		Selections: map[*ast.SelectorExpr]*types.Selection{},
		Implicits:  map[ast.Node]types.Object{},
		Scopes:     map[ast.Node]*types.Scope{},
	}
	cfg := &types.Config{
		Importer:         l,
		IgnoreFuncBodies: ignoreBodies,
		Error: func(err error) {
			if te, ok := err.(types.Error); ok {
				p.errs = append(p.errs, te)
			}
		},
	}
	pkg, _ := cfg.Check(path, l.fset, files, info)
	p.pkg = pkg
	p.info = info
	l.pkgs[path] = p
	return p, nil
}
