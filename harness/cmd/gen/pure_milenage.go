package main

import (
	"fmt"
	"go/ast"
	"go/constant"
	"go/token"
	"go/types"
	"strconv"
	"strings"
)

// pure-milenage: the BUFFER grammar of the pure-* translators (work package Z). src/free5gclib/milenage/milenage.go is a C
// library carried over to Go: its functions fill buffers the caller provides (some may be nil) and loop over constant
// numbers of octets. The base grammar (pure.go) refuses a write through a slice parameter, the extended grammar
// (pure_nas.go) refuses counted loops; this file has its own statement layer for exactly this style and reuses the
// expression layer (pure_expr.go: fixed-width arithmetic, indexing with Go's panic, constants from go/types).
// ANYTHING not listed fails closed with file:line.
//
//	types       []uint8 parameters and locals (Bytes), uint8, int, bool, error (Bool: != nil), one interface type named by
//	            the group (cipher.Block: the carrier `L.Block`, chosen by the instantiation of Lib), *uint as a parameter
//	            (Option UInt64, none = nil)
//	out-params  a slice parameter the function writes to (x[i] = v, x[i] op= v, copy(x[a:], …), destination of a library
//	            call, passed to a listed function that writes it) is an OUT-PARAMETER: its octets when the function
//	            returns are a component of the result, after the Go results, in parameter order. The same for *uint
//	            parameters assigned through. After a PANIC nothing is said about the caller's octets (Res: the hand
//	            models say nothing either).
//	            ASSUMED about every caller from outside the group (checked for the calls inside it): an out-parameter
//	            shares no storage with any other slice argument, and every slice argument has cap == len (that is how
//	            x[a:b] is read, see below). Both are the hand model's conventions (Model/Milenage.lean, header).
//	nil         a slice parameter compared with nil (anywhere: `if p != nil { … }`), or handed whole to such a parameter
//	            of a listed function, is NILABLE: Option Bytes in the signature, and inside the function two names — the
//	            octets (nil as the empty slice: len, index, slicing, copy do not tell them apart) and the constant
//	            p_nil. An argument for a nilable parameter is `nil`, a nilable parameter, or visibly non-nil (a local
//	            that only ever holds make / a literal, x[a:] with a > 0, x[a:b] with b > a). Library calls get octets;
//	            reflect.DeepEqual (which does tell nil from empty) only visibly non-nil operands.
//	variables   a slice local is FRESH (every assignment is make(…) or a literal: writable, cap == len) or an ALIAS
//	            (assigned from nil, a variable or x[a:]: read only, and no variable it may share storage with is
//	            written anywhere in the function). Parameters are never assigned.
//	slices      x[a:] (panic unless a ≤ len x); x[a:b] only where cap(x) == len(x) is known — a parameter (assumed), a
//	            fresh local, an alias of such values through x[a:] only — and then Go.slice (panic unless b ≤ len x);
//	            its result is used on the spot (source of copy, operand of DeepEqual), never stored, never passed on.
//	statements  := / = / var on locals (n-to-n only if no right side mentions a left side), x[i] = v, x[i] op= v,
//	            *p = constant, copy(x[a:], src) (Go.copyAt; copy inside one buffer is memmove = the value read first),
//	            blk.Encrypt(dst, src) with whole variables (dst == src is the exact overlap crypto/cipher allows; two
//	            different variables never overlap by the rules above), calls of listed functions (out-arguments: a
//	            writable variable or x[a:] of one, rooted at a variable no other argument of the call is rooted at; the
//	            variable is rebound to what the callee left), if / else, `for i := a; i < b; i++` with an int counter the
//	            body does not assign and a bound it does not change, without break / continue (Go.forLt: fuel recursion,
//	            fuel = b - a + 1 visible), `return` inside such a loop (Go.forLtRet), return.
//	conditions  && || ! over atoms; an atom may be a call of a listed function compared with nil / a constant (its
//	            effects happen where Go's short-circuit evaluation puts them: `f(…) != nil || g(…) != nil` runs g, with
//	            its writes, only if f returned nil), p != nil, *p < constant, reflect.DeepEqual(a, b), or an
//	            expression of the base grammar.
//	library     the calls in the group's table are fields of the record Lib (all but DeepEqual are Res: a method call on
//	            a nil interface panics, the instantiation says when).
//	self-test   `gen pure-selftest-mil` translates pureselftest/buf.go (every construct above, stand-in library) and writes
//	            the outcomes of executing the compiled functions beside the translation (Gen/PureSelftestMil.lean).

type buLibKind int

const (
	buCtor    buLibKind = iota // f(key []byte) (I, error)
	buSize                     // (I).M() int
	buInPlace                  // (I).M(dst, src []byte): dst overwritten in place
	buDeepEq                   // reflect.DeepEqual on two byte slices
)

type buLib struct {
	key, field string
	kind       buLibKind
	doc        string
}

type buGroup struct {
	name, ns string
	targets  []puTarget
	lib      []buLib
	iface    string // the interface type carried as L.Block, "pkgpath.Name"
	ifaceDoc string
}

var buMilenage = &buGroup{name: "pure-milenage", ns: "Milenage",
	iface: "crypto/cipher.Block", ifaceDoc: "the carrier of a crypto/cipher.Block value (nil included)",
	lib: []buLib{
		{"crypto/aes.NewCipher", "aesNewCipher", buCtor, "aes.NewCipher(key): (block, err != nil)"},
		{"(crypto/cipher.Block).BlockSize", "blockSize", buSize, "block.BlockSize()"},
		{"(crypto/cipher.Block).Encrypt", "encrypt", buInPlace, "block.Encrypt(dst, src): dst afterwards (a nil slice is passed as no octets: Encrypt panics on both); nothing else changes"},
		{"reflect.DeepEqual", "deepEqualBytes", buDeepEq, "reflect.DeepEqual on two non-nil byte slices"},
	},
	targets: []puTarget{
		{pkg: "free5gclib/milenage", file: "milenage.go", fn: "os_memcmp"},
		{pkg: "free5gclib/milenage", file: "milenage.go", fn: "milenageF1"},
		{pkg: "free5gclib/milenage", file: "milenage.go", fn: "milenageF2345"},
		{pkg: "free5gclib/milenage", file: "milenage.go", fn: "F1"},
		{pkg: "free5gclib/milenage", file: "milenage.go", fn: "F2345"},
		{pkg: "free5gclib/milenage", file: "milenage.go", fn: "GenerateOPC"},
		{pkg: "free5gclib/milenage", file: "milenage.go", fn: "MilenageGenerate"},
		{pkg: "free5gclib/milenage", file: "milenage.go", fn: "Milenage_check"},
		{pkg: "free5gclib/milenage", file: "milenage.go", fn: "Milenage_auts"},
	}}

func init() {
	register(buMilenage.name, func() error {
		if err := writeIfChanged("PureRtBuf.lean", buRuntimeLean); err != nil {
			return err
		}
		out, _, err := genBufGroup(newPuLoader([]string{"free5gclib/milenage"}), buMilenage)
		if err != nil {
			return err
		}
		return writeIfChanged("Pure"+buMilenage.ns+".lean", out)
	})
}

// the additional runtime (fixed text, part of the translator)
const buRuntimeLean = `-- GENERATED by gen pure-milenage / pure-selftest-mil (fixed text, harness/cmd/gen/pure_milenage.go). Do not edit.
import Stgutg.Gen.PureRt
/-!
  Runtime of the buffer grammar of the gen pure translator (harness/cmd/gen/pure_milenage.go): out-parameters, nil-able
  buffers, copy into a buffer, counted loops as a combinator.
-/
namespace Stgutg.Gen.Go
open Stgutg

/-- the octets of a nil-able slice: nil as the empty slice (len, index, slicing, copy do not tell them apart) -/
def optBytes (p : Option Bytes) : Bytes :=
  match p with
  | some b => b
  | none => []

/-- a nil-able slice parameter when the function returns: nil stays nil, otherwise its octets now -/
def optOut (isNil : Bool) (p : Bytes) : Option Bytes := if isNil then none else some p

/-- copy(x[a:], src): x afterwards (x[a:] panics unless 0 ≤ a ≤ len x) -/
def copyAt {α : Type} (x : List α) (a : Int) (src : List α) : Res (List α) :=
  if 0 ≤ a ∧ a ≤ (x.length : Int) then .ok (x.take a.toNat ++ copy (x.drop a.toNat) src) else .error .panic

/-- x after a callee has left 'out' in x[a:] (the slice expression has succeeded: a ≤ len x) -/
def spliceFrom {α : Type} (x : List α) (a : Int) (out : List α) : List α := x.take a.toNat ++ out

/-- 'for i := lo; i < hi; i++ { body }': the body does not assign i, does not change hi, has no break / continue /
    return; s = the variables the body assigns; fuel = iterations + 1 -/
def forLt {σ : Type} (body : Int → σ → Res σ) (hi : Int) : Nat → Int → σ → Res σ
  | 0, _, _ => .error .hang
  | fuel + 1, i, s =>
    if i < hi then
      body i s >>= fun s' => forLt body hi fuel (iadd i 1) s'
    else .ok s

/-- the same with 'return' inside the body: 'Flow.ret s v' = the function returns v from inside the loop -/
def forLtRet {σ ρ : Type} (body : Int → σ → Res (Flow σ ρ)) (hi : Int) : Nat → Int → σ → Res (Flow σ ρ)
  | 0, _, _ => .error .hang
  | fuel + 1, i, s =>
    if i < hi then
      body i s >>= fun r =>
        match r with
        | .ret k v => .ok (.ret k v)
        | .next s' => forLtRet body hi fuel (iadd i 1) s'
    else .ok (.next s)

end Stgutg.Gen.Go
`

// ---------------------------------------------------------------------------------------------- contexts

type buCtx struct {
	g     *buGroup
	ld    *puLoader
	fns   []*buFn
	byObj map[*types.Func]*buFn
}

type buFn struct {
	*puFn
	x        *buCtx
	sig      *types.Signature
	params   []*types.Var
	written  map[*types.Var]bool // parameters whose storage the function writes (out-parameters)
	nilable  map[*types.Var]bool // slice parameters whose nil-ness the function observes
	wroteAny map[*types.Var]bool // every variable whose storage is written somewhere in the function
	defs     map[*types.Var][]ast.Expr
	usesLib  bool
}

func (b *buFn) isSliceT(t types.Type) bool {
	s, ok := t.Underlying().(*types.Slice)
	if !ok {
		return false
	}
	e, ok := s.Elem().Underlying().(*types.Basic)
	return ok && e.Kind() == types.Uint8
}

func (b *buFn) isIfaceT(t types.Type) bool {
	n, ok := t.(*types.Named)
	return ok && n.Obj().Pkg() != nil && n.Obj().Pkg().Path()+"."+n.Obj().Name() == b.x.g.iface
}

func (b *buFn) isUintPtrT(t types.Type) bool {
	p, ok := t.(*types.Pointer)
	if !ok {
		return false
	}
	e, ok := p.Elem().(*types.Basic)
	return ok && e.Kind() == types.Uint
}

func (b *buFn) isParam(v *types.Var) bool {
	for _, p := range b.params {
		if p == v {
			return true
		}
	}
	return false
}

func (b *buFn) varOf(e ast.Expr) *types.Var {
	for {
		p, ok := e.(*ast.ParenExpr)
		if !ok {
			break
		}
		e = p.X
	}
	id, ok := e.(*ast.Ident)
	if !ok {
		return nil
	}
	v, _ := b.pkg.info.ObjectOf(id).(*types.Var)
	if v == nil || v.IsField() || v.Parent() == nil || v.Parent() == v.Pkg().Scope() {
		return nil
	}
	return v
}

func (b *buFn) isNilLit(e ast.Expr) bool {
	for {
		p, ok := e.(*ast.ParenExpr)
		if !ok {
			break
		}
		e = p.X
	}
	id, ok := e.(*ast.Ident)
	if !ok {
		return false
	}
	_, ok = b.pkg.info.ObjectOf(id).(*types.Nil)
	return ok
}

// sliceRoot: the variable at the root of x | x[a:] | x[a:b] | x[i]
func (b *buFn) sliceRoot(e ast.Expr) *types.Var {
	for {
		switch x := e.(type) {
		case *ast.ParenExpr:
			e = x.X
		case *ast.SliceExpr:
			e = x.X
		case *ast.IndexExpr:
			e = x.X
		case *ast.Ident:
			return b.varOf(x)
		default:
			return nil
		}
	}
}

// libOfCall: the library entry a call expression refers to, and the receiver expression of a method call
func (b *buFn) libOfCall(call *ast.CallExpr) (*buLib, ast.Expr) {
	key := ""
	var recv ast.Expr
	if s := b.stdCall(call); s != "" {
		key = s
	} else if id, ok := call.Fun.(*ast.Ident); ok {
		// a function of the same package that is not listed (the self-test's stand-in library)
		if f, ok := b.pkg.info.Uses[id].(*types.Func); ok && f.Pkg() != nil && b.x.byObj[f] == nil {
			key = f.Pkg().Path() + "." + f.Name()
		}
	} else if sel, ok := call.Fun.(*ast.SelectorExpr); ok {
		if s, ok := b.pkg.info.Selections[sel]; ok && s.Kind() == types.MethodVal {
			if n, ok := s.Recv().(*types.Named); ok && n.Obj().Pkg() != nil {
				key = "(" + n.Obj().Pkg().Path() + "." + n.Obj().Name() + ")." + sel.Sel.Name
				recv = sel.X
			}
		}
	}
	if key == "" {
		return nil, nil
	}
	for i := range b.x.g.lib {
		if b.x.g.lib[i].key == key {
			return &b.x.g.lib[i], recv
		}
	}
	return nil, nil
}

func (b *buFn) calleeOf(call *ast.CallExpr) *buFn {
	if id, ok := call.Fun.(*ast.Ident); ok {
		if o, ok := b.pkg.info.Uses[id].(*types.Func); ok {
			return b.x.byObj[o]
		}
	}
	return nil
}

func (b *buFn) isBuiltin(call *ast.CallExpr, name string) bool {
	id, ok := call.Fun.(*ast.Ident)
	if !ok || id.Name != name {
		return false
	}
	_, ok = b.pkg.info.Uses[id].(*types.Builtin)
	return ok
}

// ---------------------------------------------------------------------------------------------- facts

// scan: which parameters are written / observed for nil-ness (monotone; run to a fixpoint over the group)
func (b *buFn) scan() int {
	mark := func(e ast.Expr) {
		if v := b.sliceRoot(e); v != nil {
			b.wroteAny[v] = true
			if b.isParam(v) {
				b.written[v] = true
			}
		}
	}
	markPtr := func(e ast.Expr) {
		for {
			p, ok := e.(*ast.ParenExpr)
			if !ok {
				break
			}
			e = p.X
		}
		if s, ok := e.(*ast.StarExpr); ok {
			if v := b.varOf(s.X); v != nil {
				b.wroteAny[v] = true
				if b.isParam(v) {
					b.written[v] = true
				}
			}
		}
	}
	ast.Inspect(b.decl.Body, func(n ast.Node) bool {
		switch x := n.(type) {
		case *ast.BinaryExpr:
			if x.Op == token.EQL || x.Op == token.NEQ {
				for _, p := range [][2]ast.Expr{{x.X, x.Y}, {x.Y, x.X}} {
					if b.isNilLit(p[1]) {
						if v := b.varOf(p[0]); v != nil && b.isParam(v) && b.isSliceT(v.Type()) {
							b.nilable[v] = true
						}
					}
				}
			}
		case *ast.AssignStmt:
			for _, l := range x.Lhs {
				if _, ok := l.(*ast.IndexExpr); ok {
					mark(l)
				}
				markPtr(l)
			}
		case *ast.IncDecStmt:
			if _, ok := x.X.(*ast.IndexExpr); ok {
				mark(x.X)
			}
			markPtr(x.X)
		case *ast.CallExpr:
			if b.isBuiltin(x, "copy") && len(x.Args) == 2 {
				mark(x.Args[0])
			}
			if l, _ := b.libOfCall(x); l != nil && l.kind == buInPlace && len(x.Args) == 2 {
				mark(x.Args[0])
			}
			if f := b.calleeOf(x); f != nil && len(x.Args) == len(f.params) {
				for j, p := range f.params {
					if f.written[p] && !b.isNilLit(x.Args[j]) {
						mark(x.Args[j])
					}
					if f.nilable[p] {
						if v := b.varOf(x.Args[j]); v != nil && b.isParam(v) && b.isSliceT(v.Type()) {
							b.nilable[v] = true
						}
					}
				}
			}
		}
		return true
	})
	return len(b.written)*1000 + len(b.nilable)
}

// collectDefs: the right sides of every definition / assignment of a slice local (nil entry: `var x []T`)
func (b *buFn) collectDefs() error {
	var err error
	ast.Inspect(b.decl.Body, func(n ast.Node) bool {
		switch x := n.(type) {
		case *ast.AssignStmt:
			for i, l := range x.Lhs {
				v := b.varOf(l)
				if v == nil || !b.isSliceT(v.Type()) {
					continue
				}
				if len(x.Lhs) != len(x.Rhs) {
					err = b.errf(x, "slice variable %s assigned from a multi-valued call", v.Name())
					return false
				}
				b.defs[v] = append(b.defs[v], x.Rhs[i])
			}
		case *ast.ValueSpec:
			for i, id := range x.Names {
				v, _ := b.pkg.info.Defs[id].(*types.Var)
				if v == nil || !b.isSliceT(v.Type()) {
					continue
				}
				if len(x.Values) == 0 {
					b.defs[v] = append(b.defs[v], nil)
				} else if len(x.Values) == len(x.Names) {
					b.defs[v] = append(b.defs[v], x.Values[i])
				} else {
					err = b.errf(x, "slice variable %s declared from a multi-valued call", v.Name())
					return false
				}
			}
		case *ast.RangeStmt, *ast.FuncLit, *ast.GoStmt, *ast.DeferStmt, *ast.SelectStmt, *ast.SendStmt, *ast.LabeledStmt,
			*ast.SwitchStmt, *ast.TypeSwitchStmt, *ast.BranchStmt:
			err = b.errf(n, "%T outside the translated subset", n)
			return false
		case *ast.UnaryExpr:
			if x.Op == token.AND {
				err = b.errf(x, "address-of outside the translated subset")
				return false
			}
		}
		return true
	})
	return err
}

func (b *buFn) isFreshRhs(e ast.Expr) bool {
	switch x := e.(type) {
	case *ast.ParenExpr:
		return b.isFreshRhs(x.X)
	case *ast.CompositeLit:
		return true
	case *ast.CallExpr:
		return b.isBuiltin(x, "make")
	}
	return false
}

// fresh: a slice local every assignment of which is make(…) or a literal
func (b *buFn) fresh(v *types.Var) bool {
	if b.isParam(v) || !b.isSliceT(v.Type()) || len(b.defs[v]) == 0 {
		return false
	}
	for _, d := range b.defs[v] {
		if d == nil || !b.isFreshRhs(d) {
			return false
		}
	}
	return true
}

func (b *buFn) writable(v *types.Var) bool {
	if v == nil || !b.isSliceT(v.Type()) {
		return false
	}
	return b.isParam(v) || b.fresh(v)
}

// exact: cap == len is known for the value of e (parameters: by the group's assumption)
func (b *buFn) exact(e ast.Expr, seen map[*types.Var]bool) bool {
	switch x := e.(type) {
	case *ast.ParenExpr:
		return b.exact(x.X, seen)
	case *ast.Ident:
		if b.isNilLit(x) {
			return true
		}
		v := b.varOf(x)
		if v == nil || !b.isSliceT(v.Type()) {
			return false
		}
		if b.isParam(v) || b.fresh(v) {
			return true
		}
		if seen[v] {
			return true
		}
		seen[v] = true
		for _, d := range b.defs[v] {
			if d != nil && !b.exact(d, seen) {
				return false
			}
		}
		return true
	case *ast.SliceExpr:
		return x.High == nil && !x.Slice3 && b.exact(x.X, seen)
	case *ast.CompositeLit:
		return true
	case *ast.CallExpr:
		return b.isBuiltin(x, "make")
	}
	return false
}

func (b *buFn) constInt(e ast.Expr) (int64, bool) {
	tv, ok := b.pkg.info.Types[e]
	if !ok || tv.Value == nil {
		return 0, false
	}
	v := constant.ToInt(tv.Value)
	if v.Kind() != constant.Int {
		return 0, false
	}
	n, exact := constant.Int64Val(v)
	return n, exact
}

// visNonNil: the value of e cannot be nil (when its evaluation does not panic)
func (b *buFn) visNonNil(e ast.Expr) bool {
	switch x := e.(type) {
	case *ast.ParenExpr:
		return b.visNonNil(x.X)
	case *ast.Ident:
		v := b.varOf(x)
		return v != nil && b.fresh(v)
	case *ast.CompositeLit:
		return true
	case *ast.CallExpr:
		return b.isBuiltin(x, "make")
	case *ast.SliceExpr:
		lo := int64(0)
		if x.Low != nil {
			n, ok := b.constInt(x.Low)
			if !ok || n < 0 {
				return false
			}
			lo = n
		}
		if x.High == nil {
			return lo > 0 // a ≤ len x and a > 0: x is not empty, so not nil, and a slice of a non-nil slice is not nil
		}
		hi, ok := b.constInt(x.High)
		return ok && hi > lo
	}
	return false
}

// checkAliases: an alias local is never written, and nothing it may share storage with is
func (b *buFn) checkAliases() error {
	for v, ds := range b.defs {
		if b.fresh(v) {
			continue
		}
		if b.wroteAny[v] {
			return b.errf(b.decl, "slice variable %s is written but may share storage (it is assigned from something else than make / a literal)", v.Name())
		}
		for _, d := range ds {
			if d == nil || b.isNilLit(d) {
				continue
			}
			r := b.sliceRoot(d)
			if r == nil {
				if b.isFreshRhs(d) {
					continue
				}
				return b.errf(d, "slice variable %s assigned from an expression outside the translated subset", v.Name())
			}
			if b.wroteAny[r] {
				return b.errf(d, "%s may share storage with %s, which the function writes", v.Name(), r.Name())
			}
		}
	}
	return nil
}

// ---------------------------------------------------------------------------------------------- values

func (b *buFn) nilName(v *types.Var) string { return b.name(v) + "_nil" }

// sliceVal: the octets of a slice-typed expression (nil = no octets)
func (b *buFn) sliceVal(e ast.Expr) (string, error) {
	switch x := e.(type) {
	case *ast.ParenExpr:
		return b.sliceVal(x.X)
	case *ast.Ident:
		if b.isNilLit(x) {
			return "([] : Bytes)", nil
		}
		v := b.varOf(x)
		if v == nil || !b.isSliceT(v.Type()) {
			return "", b.errf(e, "%s is not a []uint8 variable", x.Name)
		}
		return b.name(v), nil
	case *ast.SliceExpr:
		if x.Slice3 || x.Max != nil {
			return "", b.errf(e, "three-index slice")
		}
		t, err := b.typeOf(x.X)
		if err != nil {
			return "", err
		}
		if !b.isSliceT(t) {
			return "", b.errf(e, "slice expression on %s", t)
		}
		base, err := b.sliceVal(x.X)
		if err != nil {
			return "", err
		}
		lo := "(0 : Int)"
		if x.Low != nil {
			if lo, err = b.toInt(x.Low); err != nil {
				return "", err
			}
		}
		if x.High == nil {
			if x.Low == nil {
				return base, nil
			}
			return b.bind(e, "Go.sliceFrom "+base+" "+lo)
		}
		if !b.exact(x.X, map[*types.Var]bool{}) {
			return "", b.errf(e, "x[a:b] on a slice whose capacity is not known to equal its length")
		}
		hi, err := b.toInt(x.High)
		if err != nil {
			return "", err
		}
		return b.bind(e, "Go.slice "+base+" "+lo+" "+hi)
	case *ast.CompositeLit:
		t, err := b.typeOf(x)
		if err != nil {
			return "", err
		}
		if !b.isSliceT(t) {
			return "", b.errf(e, "composite literal of %s", t)
		}
		return b.expr(x)
	case *ast.CallExpr:
		if b.isBuiltin(x, "make") {
			return b.makeVal(x)
		}
	}
	return "", b.errf(e, "slice value %s outside the translated subset", b.text(e))
}

// makeVal: make([]uint8, n), n a constant, an int expression or blk.BlockSize()
func (b *buFn) makeVal(x *ast.CallExpr) (string, error) {
	t, err := b.typeOf(x)
	if err != nil {
		return "", err
	}
	if !b.isSliceT(t) || len(x.Args) != 2 {
		return "", b.errf(x, "make outside the translated subset")
	}
	if n, ok := b.constInt(x.Args[1]); ok && n >= 0 {
		return fmt.Sprintf("(List.replicate %d (0 : UInt8))", n), nil
	}
	var n string
	if call, ok := x.Args[1].(*ast.CallExpr); ok {
		l, recv := b.libOfCall(call)
		if l == nil || l.kind != buSize || len(call.Args) != 0 {
			return "", b.errf(x, "make with a length outside the translated subset")
		}
		r, err := b.ifaceVal(recv)
		if err != nil {
			return "", err
		}
		b.usesLib = true
		if n, err = b.bind(call, "L."+l.field+" "+r); err != nil {
			return "", err
		}
	} else if n, err = b.toInt(x.Args[1]); err != nil {
		return "", err
	}
	return b.bind(x, "Go.make (0 : UInt8) "+n)
}

func (b *buFn) ifaceVal(e ast.Expr) (string, error) {
	v := b.varOf(e)
	if v == nil || !b.isIfaceT(v.Type()) {
		return "", b.errf(e, "receiver of a library method is not a local of type %s", b.x.g.iface)
	}
	return b.name(v), nil
}

// scalar: an expression of the base grammar that mentions no slice as a whole value, no interface, no pointer
func (b *buFn) scalar(e ast.Expr) (string, error) {
	var bad ast.Node
	ast.Inspect(e, func(n ast.Node) bool {
		switch x := n.(type) {
		case *ast.CallExpr:
			if !b.isBuiltin(x, "len") {
				if tv, ok := b.pkg.info.Types[x.Fun]; !ok || !tv.IsType() {
					bad = n
				}
			}
		case *ast.SliceExpr, *ast.StarExpr, *ast.CompositeLit:
			bad = n
		}
		return bad == nil
	})
	if bad != nil {
		return "", b.errf(bad, "%s inside an expression (outside the translated subset)", b.text(bad))
	}
	return b.expr(e)
}

// ---------------------------------------------------------------------------------------------- calls

// optArg: an argument for a nilable parameter
func (b *buFn) optArg(a ast.Expr) (string, error) {
	if b.isNilLit(a) {
		return "none", nil
	}
	if v := b.varOf(a); v != nil && b.nilable[v] {
		return "(Go.optOut " + b.nilName(v) + " " + b.name(v) + ")", nil
	}
	if !b.visNonNil(a) {
		return "", b.errf(a, "argument for a parameter that is tested against nil is not visibly nil or non-nil")
	}
	s, err := b.sliceVal(a)
	if err != nil {
		return "", err
	}
	return "(some " + s + ")", nil
}

// outs: the out-parameters in parameter order
func (b *buFn) outs() []*types.Var {
	var o []*types.Var
	for _, p := range b.params {
		if b.written[p] {
			o = append(o, p)
		}
	}
	return o
}

// callHoist: a call of a listed function: the lines that run it and rebind the out-arguments; the texts of its Go results
func (b *buFn) callHoist(call *ast.CallExpr, f *buFn) ([]string, []string, error) {
	if len(call.Args) != len(f.params) || call.Ellipsis.IsValid() {
		return nil, nil, b.errf(call, "call with %d operands", len(call.Args))
	}
	type outArg struct {
		root *types.Var
		low  string // "" = the whole variable
	}
	outArgs := map[*types.Var]*outArg{}
	rooted := map[*types.Var]int{}
	var args []string
	for j, a := range call.Args {
		p := f.params[j]
		switch {
		case b.isSliceT(p.Type()):
			if r := b.sliceRoot(a); r != nil {
				rooted[r]++
			}
			if !b.exact(a, map[*types.Var]bool{}) {
				return nil, nil, b.errf(a, "argument whose capacity is not known to equal its length")
			}
			var s string
			var err error
			if f.nilable[p] {
				s, err = b.optArg(a)
			} else {
				s, err = b.sliceVal(a)
			}
			if err != nil {
				return nil, nil, err
			}
			args = append(args, s)
			if f.written[p] && !b.isNilLit(a) {
				oa := &outArg{root: b.sliceRoot(a)}
				if !b.writable(oa.root) {
					return nil, nil, b.errf(a, "out-argument is not a parameter or a local that only holds make / a literal")
				}
				for {
					pe, ok := a.(*ast.ParenExpr)
					if !ok {
						break
					}
					a = pe.X
				}
				switch y := a.(type) {
				case *ast.Ident:
				case *ast.SliceExpr:
					if _, ok := y.X.(*ast.Ident); !ok || y.High != nil || y.Low == nil {
						return nil, nil, b.errf(a, "out-argument is not x or x[a:]")
					}
					n, ok := b.constInt(y.Low)
					if !ok || n < 0 {
						return nil, nil, b.errf(a, "out-argument x[a:] with a low bound that is not a constant")
					}
					oa.low = fmt.Sprintf("(%d : Int)", n)
				default:
					return nil, nil, b.errf(a, "out-argument is not x or x[a:]")
				}
				outArgs[p] = oa
			}
		case b.isUintPtrT(p.Type()), b.isIfaceT(p.Type()):
			return nil, nil, b.errf(a, "pointer / interface argument")
		default:
			s, err := b.scalar(a)
			if err != nil {
				return nil, nil, err
			}
			args = append(args, s)
		}
	}
	for _, oa := range outArgs {
		if rooted[oa.root] != 1 {
			return nil, nil, b.errf(call, "%s is an out-argument and another argument of the same call", oa.root.Name())
		}
	}
	lines := b.takePre()
	t := b.puFn.fresh()
	head := f.lean
	if f.usesLib {
		head += " L"
		b.usesLib = true
	}
	lines = append(lines, strings.Join(append([]string{head}, args...), " ")+" >>= fun "+t+" =>")
	nres := f.sig.Results().Len()
	fo := f.outs()
	total := nres + len(fo)
	var res []string
	for i := 0; i < nres; i++ {
		res = append(res, puProj(t, i, total))
	}
	for i, p := range fo {
		oa := outArgs[p]
		if oa == nil {
			continue
		}
		val := puProj(t, nres+i, total)
		if f.nilable[p] {
			val = "(Go.optBytes " + val + ")"
		}
		if oa.low == "" {
			lines = append(lines, "let "+b.name(oa.root)+" := "+val)
		} else {
			lines = append(lines, "let "+b.name(oa.root)+" := Go.spliceFrom "+b.name(oa.root)+" "+oa.low+" "+val)
		}
	}
	return lines, res, nil
}

// ---------------------------------------------------------------------------------------------- conditions

type buRet struct {
	inLoop bool
	ret    func(tuple string) string
}

// atom: a condition without && || !: the lines that must run first and the Bool text
func (b *buFn) atom(e ast.Expr) ([]string, string, error) {
	for {
		p, ok := e.(*ast.ParenExpr)
		if !ok {
			break
		}
		e = p.X
	}
	unparen := func(e ast.Expr) ast.Expr {
		for {
			p, ok := e.(*ast.ParenExpr)
			if !ok {
				return e
			}
			e = p.X
		}
	}
	switch x := e.(type) {
	case *ast.BinaryExpr:
		l, r := unparen(x.X), unparen(x.Y)
		// p == nil / p != nil on a slice parameter
		if (x.Op == token.EQL || x.Op == token.NEQ) && b.isNilLit(r) {
			if v := b.varOf(l); v != nil && b.isSliceT(v.Type()) {
				if !b.nilable[v] {
					return nil, "", b.errf(e, "comparison of %s with nil (only parameters are carried with their nil-ness)", v.Name())
				}
				if x.Op == token.EQL {
					return nil, b.nilName(v), nil
				}
				return nil, "(!" + b.nilName(v) + ")", nil
			}
		}
		// f(…) != nil, f(…) == nil, f(…) <op> constant
		if call, ok := l.(*ast.CallExpr); ok {
			if f := b.calleeOf(call); f != nil {
				if f.sig.Results().Len() != 1 {
					return nil, "", b.errf(e, "multi-valued call in a condition")
				}
				lines, res, err := b.callHoist(call, f)
				if err != nil {
					return nil, "", err
				}
				rt := f.sig.Results().At(0).Type()
				switch {
				case puIsErrorType(rt) && b.isNilLit(r) && x.Op == token.NEQ:
					return lines, res[0], nil
				case puIsErrorType(rt) && b.isNilLit(r) && x.Op == token.EQL:
					return lines, "(!" + res[0] + ")", nil
				case b.kindOf(rt) == puInt && b.isConst(r):
					c, err := b.expr(r)
					if err != nil {
						return nil, "", err
					}
					op := map[token.Token]string{token.EQL: "=", token.NEQ: "≠", token.LSS: "<", token.LEQ: "≤", token.GTR: ">", token.GEQ: "≥"}[x.Op]
					if op == "" {
						return nil, "", b.errf(e, "operator %s on a call", x.Op)
					}
					return lines, "(decide (" + res[0] + " " + op + " " + c + "))", nil
				}
				return nil, "", b.errf(e, "comparison of a call outside the translated subset")
			}
		}
		// *p <op> constant
		if s, ok := l.(*ast.StarExpr); ok {
			v := b.varOf(s.X)
			n, isC := b.constInt(r)
			op := map[token.Token]string{token.EQL: "=", token.NEQ: "≠", token.LSS: "<", token.LEQ: "≤", token.GTR: ">", token.GEQ: "≥"}[x.Op]
			if v == nil || !b.isUintPtrT(v.Type()) || !isC || n < 0 || op == "" {
				return nil, "", b.errf(e, "comparison through a pointer outside the translated subset")
			}
			t, err := b.bind(s, "Go.deref "+b.name(v))
			if err != nil {
				return nil, "", err
			}
			return b.takePre(), fmt.Sprintf("(decide (%s %s (%d : UInt64)))", t, op, n), nil
		}
	case *ast.CallExpr:
		if l, _ := b.libOfCall(x); l != nil && l.kind == buDeepEq {
			if len(x.Args) != 2 {
				return nil, "", b.errf(e, "DeepEqual with %d operands", len(x.Args))
			}
			var as []string
			for _, a := range x.Args {
				t, err := b.typeOf(a)
				if err != nil {
					return nil, "", err
				}
				if !b.isSliceT(t) || !b.visNonNil(a) {
					return nil, "", b.errf(a, "operand of DeepEqual that is not a visibly non-nil []uint8")
				}
				s, err := b.sliceVal(a)
				if err != nil {
					return nil, "", err
				}
				as = append(as, s)
			}
			b.usesLib = true
			return b.takePre(), "(L." + l.field + " " + as[0] + " " + as[1] + ")", nil
		}
	}
	t, err := b.typeOf(e)
	if err != nil {
		return nil, "", err
	}
	if b.kindOf(t) != puBool {
		return nil, "", b.errf(e, "condition of type %s", t)
	}
	s, err := b.scalar(e)
	if err != nil {
		return nil, "", err
	}
	return b.takePre(), s, nil
}

// cond: if e then thenK else elseK, with Go's short-circuit order for the effects inside e
func (b *buFn) cond(e ast.Expr, thenK, elseK puK) ([]string, error) {
	switch x := e.(type) {
	case *ast.ParenExpr:
		return b.cond(x.X, thenK, elseK)
	case *ast.UnaryExpr:
		if x.Op == token.NOT {
			return b.cond(x.X, elseK, thenK)
		}
	case *ast.BinaryExpr:
		if x.Op == token.LOR {
			return b.cond(x.X, thenK, func() ([]string, error) { return b.cond(x.Y, thenK, elseK) })
		}
		if x.Op == token.LAND {
			return b.cond(x.X, func() ([]string, error) { return b.cond(x.Y, thenK, elseK) }, elseK)
		}
	}
	pre, s, err := b.atom(e)
	if err != nil {
		return nil, err
	}
	th, err := thenK()
	if err != nil {
		return nil, err
	}
	el, err := elseK()
	if err != nil {
		return nil, err
	}
	lines := append(pre, "if "+s+" then")
	lines = append(lines, puIndent(th)...)
	lines = append(lines, "else")
	return append(lines, puIndent(el)...), nil
}

// ---------------------------------------------------------------------------------------------- statements

func buHasReturn(n ast.Node) bool {
	found := false
	ast.Inspect(n, func(m ast.Node) bool {
		if _, ok := m.(*ast.ReturnStmt); ok {
			found = true
		}
		return !found
	})
	return found
}

func buTerminates(list []ast.Stmt) bool {
	if len(list) == 0 {
		return false
	}
	_, ok := list[len(list)-1].(*ast.ReturnStmt)
	return ok
}

// assignedOutside: the variables declared outside the nodes that the nodes assign or write through, in order of appearance
func (b *buFn) assignedOutside(nodes []ast.Node) []*types.Var {
	var out []*types.Var
	seen := map[*types.Var]bool{}
	add := func(v *types.Var) {
		if v == nil || seen[v] {
			return
		}
		for _, n := range nodes {
			if v.Pos() >= n.Pos() && v.Pos() < n.End() {
				return
			}
		}
		seen[v] = true
		out = append(out, v)
	}
	for _, n := range nodes {
		ast.Inspect(n, func(m ast.Node) bool {
			switch x := m.(type) {
			case *ast.AssignStmt:
				for _, l := range x.Lhs {
					if s, ok := l.(*ast.StarExpr); ok {
						add(b.varOf(s.X))
					} else {
						add(b.sliceRoot(l))
					}
				}
			case *ast.IncDecStmt:
				add(b.sliceRoot(x.X))
			case *ast.CallExpr:
				if b.isBuiltin(x, "copy") && len(x.Args) == 2 {
					add(b.sliceRoot(x.Args[0]))
				}
				if l, _ := b.libOfCall(x); l != nil && l.kind == buInPlace && len(x.Args) == 2 {
					add(b.sliceRoot(x.Args[0]))
				}
				if f := b.calleeOf(x); f != nil && len(x.Args) == len(f.params) {
					for j, p := range f.params {
						if f.written[p] && !b.isNilLit(x.Args[j]) {
							add(b.sliceRoot(x.Args[j]))
						}
					}
				}
			}
			return true
		})
	}
	return out
}

func (b *buFn) stmts(list []ast.Stmt, k puK, rc *buRet) ([]string, error) {
	if len(list) == 0 {
		return k()
	}
	rest := puMemo(func() ([]string, error) { return b.stmts(list[1:], k, rc) })
	switch x := list[0].(type) {
	case *ast.ReturnStmt:
		if len(list) != 1 {
			return nil, b.errf(list[1], "statement after return")
		}
		return b.retStmt(x, rc)
	case *ast.IfStmt:
		return b.ifStmt(x, rest, rc)
	case *ast.ForStmt:
		return b.forStmt(x, rest, rc)
	}
	lines, err := b.simple(list[0])
	if err != nil {
		return nil, err
	}
	if len(b.pre) != 0 {
		return nil, b.errf(list[0], "internal: hoisted operations left over")
	}
	r, err := rest()
	if err != nil {
		return nil, err
	}
	return append(lines, r...), nil
}

func (b *buFn) retTuple(vals []string) string {
	parts := append([]string(nil), vals...)
	for _, p := range b.outs() {
		if b.nilable[p] {
			parts = append(parts, "(Go.optOut "+b.nilName(p)+" "+b.name(p)+")")
		} else {
			parts = append(parts, b.name(p))
		}
	}
	return puTuple(parts)
}

func (b *buFn) retStmt(x *ast.ReturnStmt, rc *buRet) ([]string, error) {
	res := b.sig.Results()
	if len(x.Results) != res.Len() {
		return nil, b.errf(x, "return with %d operands in a function with %d results", len(x.Results), res.Len())
	}
	var vals []string
	for i, e := range x.Results {
		rt := res.At(i).Type()
		var s string
		var err error
		switch {
		case b.isSliceT(rt):
			s, err = b.sliceVal(e)
		case puIsErrorType(rt) && b.isNilLit(e):
			s = "false"
		default:
			s, err = b.scalar(e)
		}
		if err != nil {
			return nil, err
		}
		vals = append(vals, s)
	}
	return append(b.takePre(), rc.ret(b.retTuple(vals))), nil
}

func (b *buFn) ifStmt(x *ast.IfStmt, next puK, rc *buRet) ([]string, error) {
	if x.Init != nil {
		return nil, b.errf(x, "if with an init statement")
	}
	var elseList []ast.Stmt
	switch e := x.Else.(type) {
	case nil:
	case *ast.BlockStmt:
		elseList = e.List
	default:
		return nil, b.errf(x.Else, "else if")
	}
	thenRet, elseRet := buHasReturn(x.Body), x.Else != nil && buHasReturn(x.Else)
	dead := func() ([]string, error) { return nil, b.errf(x, "internal: continuation of a branch that returns") }
	switch {
	case !thenRet && !elseRet:
		// join: both branches fall through with the variables they assign
		nodes := []ast.Node{x.Body}
		if x.Else != nil {
			nodes = append(nodes, x.Else)
		}
		var names []string
		for _, v := range b.assignedOutside(nodes) {
			names = append(names, b.name(v))
		}
		join := func() ([]string, error) { return []string{".ok " + puTuple(names)}, nil }
		sub := &buRet{inLoop: rc.inLoop, ret: func(string) string { return "" }}
		body, err := b.cond(x.Cond,
			func() ([]string, error) { return b.stmts(x.Body.List, join, sub) },
			func() ([]string, error) { return b.stmts(elseList, join, sub) })
		if err != nil {
			return nil, err
		}
		t := b.puFn.fresh()
		body[0] = "(" + body[0]
		body[len(body)-1] += ") >>= fun " + t + " =>"
		for i, n := range names {
			body = append(body, "let "+n+" := "+puProj(t, i, len(names)))
		}
		r, err := next()
		if err != nil {
			return nil, err
		}
		return append(body, r...), nil
	case buTerminates(x.Body.List) && !elseRet:
		return b.cond(x.Cond,
			func() ([]string, error) { return b.stmts(x.Body.List, dead, rc) },
			func() ([]string, error) { return b.stmts(elseList, next, rc) })
	case buTerminates(x.Body.List) && buTerminates(elseList):
		return b.cond(x.Cond,
			func() ([]string, error) { return b.stmts(x.Body.List, dead, rc) },
			func() ([]string, error) { return b.stmts(elseList, dead, rc) })
	}
	return nil, b.errf(x, "if statement one branch of which may or may not return")
}

func (b *buFn) forStmt(x *ast.ForStmt, next puK, rc *buRet) ([]string, error) {
	if x.Init == nil || x.Cond == nil || x.Post == nil {
		return nil, b.errf(x, "loop without init / condition / post statement (no visible bound)")
	}
	init, ok := x.Init.(*ast.AssignStmt)
	if !ok || init.Tok != token.DEFINE || len(init.Lhs) != 1 || len(init.Rhs) != 1 {
		return nil, b.errf(x.Init, "loop init is not `i := a`")
	}
	iv, _ := b.pkg.info.Defs[init.Lhs[0].(*ast.Ident)].(*types.Var)
	if iv == nil || b.kindOf(iv.Type()) != puInt {
		return nil, b.errf(x.Init, "loop counter is not an int")
	}
	cnd, ok := x.Cond.(*ast.BinaryExpr)
	if !ok || cnd.Op != token.LSS {
		return nil, b.errf(x.Cond, "loop condition is not `i < b`")
	}
	if v := b.varOf(cnd.X); v != iv {
		return nil, b.errf(x.Cond, "loop condition does not test the counter")
	}
	if p, ok := x.Post.(*ast.IncDecStmt); !ok || p.Tok != token.INC || b.varOf(p.X) != iv {
		return nil, b.errf(x.Post, "loop post statement is not i++")
	}
	carried := b.assignedOutside([]ast.Node{x.Body})
	isCarried := map[*types.Var]bool{iv: true}
	for _, v := range carried {
		if v == iv {
			return nil, b.errf(x.Body, "loop body assigns the counter")
		}
		isCarried[v] = true
	}
	// a plain assignment to the counter is not a write through it: look for it separately
	bad := false
	ast.Inspect(x.Body, func(n ast.Node) bool {
		switch y := n.(type) {
		case *ast.AssignStmt:
			for _, l := range y.Lhs {
				if b.varOf(l) == iv {
					bad = true
				}
			}
		case *ast.IncDecStmt:
			if b.varOf(y.X) == iv {
				bad = true
			}
		}
		return true
	})
	if bad {
		return nil, b.errf(x.Body, "loop body assigns the counter")
	}
	boundOK := true
	ast.Inspect(cnd.Y, func(n ast.Node) bool {
		if id, ok := n.(*ast.Ident); ok {
			if v, ok := b.pkg.info.ObjectOf(id).(*types.Var); ok && isCarried[v] {
				boundOK = false
			}
		}
		return true
	})
	if !boundOK {
		return nil, b.errf(cnd.Y, "loop bound depends on a variable the loop assigns")
	}
	lo, err := b.scalar(init.Rhs[0])
	if err != nil {
		return nil, err
	}
	hi, err := b.scalar(cnd.Y)
	if err != nil {
		return nil, err
	}
	if len(b.pre) != 0 {
		return nil, b.errf(x.Cond, "loop bounds that can fail")
	}
	var names []string
	for _, v := range carried {
		names = append(names, b.name(v))
	}
	state := puTuple(names)
	withRet := buHasReturn(x.Body)
	st := b.puFn.fresh()
	unpack := func(from string) []string {
		var l []string
		for i, n := range names {
			l = append(l, "let "+n+" := "+puProj(from, i, len(names)))
		}
		return l
	}
	var body []string
	comb := "Go.forLt"
	if withRet {
		comb = "Go.forLtRet"
		sub := &buRet{inLoop: true, ret: func(t string) string { return ".ok (Go.Flow.ret " + state + " " + parenIfNeeded(t) + ")" }}
		body, err = b.stmts(x.Body.List, func() ([]string, error) { return []string{".ok (Go.Flow.next " + state + ")"}, nil }, sub)
	} else {
		sub := &buRet{inLoop: true, ret: func(string) string { return "" }}
		body, err = b.stmts(x.Body.List, func() ([]string, error) { return []string{".ok " + state}, nil }, sub)
	}
	if err != nil {
		return nil, err
	}
	fuel := fmt.Sprintf("(Int.toNat (%s - %s) + 1)", hi, lo)
	t := b.puFn.fresh()
	lines := []string{comb + " (fun " + b.name(iv) + " " + st + " =>"}
	lines = append(lines, puIndent(puIndent(unpack(st)))...)
	lines = append(lines, puIndent(puIndent(body))...)
	lines[len(lines)-1] += ") " + hi + " " + fuel + " " + lo + " " + state + " >>= fun " + t + " =>"
	if !withRet {
		lines = append(lines, unpack(t)...)
		r, err := next()
		if err != nil {
			return nil, err
		}
		return append(lines, r...), nil
	}
	r, err := next()
	if err != nil {
		return nil, err
	}
	s2, rv := b.puFn.fresh(), b.puFn.fresh()
	lines = append(lines, "match "+t+" with")
	if rc.inLoop {
		return nil, b.errf(x, "a loop with return inside another loop")
	}
	lines = append(lines, "| .ret _ "+rv+" => .ok "+rv)
	lines = append(lines, "| .next "+s2+" =>")
	lines = append(lines, puIndent(unpack(s2))...)
	return append(lines, puIndent(r)...), nil
}

func parenIfNeeded(s string) string {
	if strings.HasPrefix(s, "(") || !strings.ContainsAny(s, " ") {
		return s
	}
	return "(" + s + ")"
}

var buOpText = map[token.Token]string{token.XOR_ASSIGN: "^^^", token.OR_ASSIGN: "|||", token.AND_ASSIGN: "&&&", token.ADD_ASSIGN: "+", token.SUB_ASSIGN: "-"}

// setElem: x[i] = v / x[i] op= v
func (b *buFn) setElem(l *ast.IndexExpr, tok token.Token, rhs ast.Expr) ([]string, error) {
	v := b.varOf(l.X)
	if !b.writable(v) {
		return nil, b.errf(l, "element assignment to something else than a []uint8 parameter or a local that only holds make / a literal")
	}
	i, err := b.toInt(l.Index)
	if err != nil {
		return nil, err
	}
	val, err := b.scalar(rhs)
	if err != nil {
		return nil, err
	}
	if tok != token.ASSIGN {
		op := buOpText[tok]
		if op == "" {
			return nil, b.errf(l, "assignment operator %s", tok)
		}
		cur, err := b.bind(l, "Go.idx "+b.name(v)+" "+i)
		if err != nil {
			return nil, err
		}
		val = "(" + cur + " " + op + " " + val + ")"
	}
	t, err := b.bind(l, "Go.set "+b.name(v)+" "+i+" "+val)
	if err != nil {
		return nil, err
	}
	return append(b.takePre(), "let "+b.name(v)+" := "+t), nil
}

// bindLocal: `let v := val` for a local that may be assigned
func (b *buFn) bindLocal(l ast.Expr, val string) ([]string, error) {
	if id, ok := l.(*ast.Ident); ok && id.Name == "_" {
		return nil, nil
	}
	v := b.varOf(l)
	if v == nil {
		return nil, b.errf(l, "assignment target outside the translated subset")
	}
	if b.isParam(v) {
		return nil, b.errf(l, "assignment to the parameter %s", v.Name())
	}
	return []string{"let " + b.name(v) + " := " + val}, nil
}

func (b *buFn) simple(s ast.Stmt) ([]string, error) {
	switch x := s.(type) {
	case *ast.EmptyStmt:
		return nil, nil
	case *ast.DeclStmt:
		gd, ok := x.Decl.(*ast.GenDecl)
		if !ok || gd.Tok != token.VAR {
			return nil, b.errf(s, "declaration outside the translated subset")
		}
		var lines []string
		for _, sp := range gd.Specs {
			vs := sp.(*ast.ValueSpec)
			if len(vs.Values) != 0 {
				return nil, b.errf(s, "var with a value (use :=)")
			}
			for _, id := range vs.Names {
				v, _ := b.pkg.info.Defs[id].(*types.Var)
				if v == nil {
					continue
				}
				if !b.isSliceT(v.Type()) && !b.kindOf(v.Type()).integer() && b.kindOf(v.Type()) != puBool && b.kindOf(v.Type()) != puErr {
					return nil, b.errf(s, "var of type %s", v.Type())
				}
				z, err := b.zero(v.Type())
				if err != nil {
					return nil, b.errf(s, "%v", err)
				}
				lt, _ := b.leanType(v.Type())
				lines = append(lines, "let "+b.name(v)+" : "+lt+" := "+z)
			}
		}
		return lines, nil
	case *ast.ExprStmt:
		call, ok := x.X.(*ast.CallExpr)
		if !ok {
			return nil, b.errf(s, "expression statement")
		}
		if b.isBuiltin(call, "copy") && len(call.Args) == 2 {
			return b.copyStmt(call)
		}
		if l, recv := b.libOfCall(call); l != nil && l.kind == buInPlace {
			if len(call.Args) != 2 {
				return nil, b.errf(s, "%s with %d operands", l.key, len(call.Args))
			}
			r, err := b.ifaceVal(recv)
			if err != nil {
				return nil, err
			}
			dst, src := b.varOf(call.Args[0]), b.varOf(call.Args[1])
			if !b.writable(dst) || src == nil || !b.isSliceT(src.Type()) {
				return nil, b.errf(s, "%s: destination and source must be whole []uint8 variables, the destination a parameter or a local that only holds make / a literal", l.key)
			}
			b.usesLib = true
			t, err := b.bind(call, "L."+l.field+" "+r+" "+b.name(dst)+" "+b.name(src))
			if err != nil {
				return nil, err
			}
			return append(b.takePre(), "let "+b.name(dst)+" := "+t), nil
		}
		if f := b.calleeOf(call); f != nil {
			lines, _, err := b.callHoist(call, f)
			return lines, err
		}
		return nil, b.errf(s, "call of %s: not a listed function", b.text(call.Fun))
	case *ast.AssignStmt:
		return b.assignStmt(x)
	}
	return nil, b.errf(s, "statement %T outside the translated subset", s)
}

func (b *buFn) copyStmt(call *ast.CallExpr) ([]string, error) {
	d := call.Args[0]
	for {
		p, ok := d.(*ast.ParenExpr)
		if !ok {
			break
		}
		d = p.X
	}
	lo := "(0 : Int)"
	var v *types.Var
	switch y := d.(type) {
	case *ast.Ident:
		v = b.varOf(y)
	case *ast.SliceExpr:
		v = b.varOf(y.X)
		if y.High != nil || y.Slice3 {
			return nil, b.errf(d, "destination of copy is not x or x[a:]")
		}
		if y.Low != nil {
			n, ok := b.constInt(y.Low)
			if !ok || n < 0 {
				return nil, b.errf(d, "destination of copy: x[a:] with a low bound that is not a constant")
			}
			lo = fmt.Sprintf("(%d : Int)", n)
		}
	}
	if !b.writable(v) {
		return nil, b.errf(d, "destination of copy is not x or x[a:] of a []uint8 parameter or a local that only holds make / a literal")
	}
	st, err := b.typeOf(call.Args[1])
	if err != nil {
		return nil, err
	}
	if !b.isSliceT(st) {
		return nil, b.errf(call.Args[1], "source of copy of type %s", st)
	}
	src, err := b.sliceVal(call.Args[1])
	if err != nil {
		return nil, err
	}
	t, err := b.bind(call, "Go.copyAt "+b.name(v)+" "+lo+" "+src)
	if err != nil {
		return nil, err
	}
	return append(b.takePre(), "let "+b.name(v)+" := "+t), nil
}

func (b *buFn) assignStmt(x *ast.AssignStmt) ([]string, error) {
	// x[i] = v, x[i] op= v
	if len(x.Lhs) == 1 && len(x.Rhs) == 1 {
		if ie, ok := x.Lhs[0].(*ast.IndexExpr); ok {
			return b.setElem(ie, x.Tok, x.Rhs[0])
		}
		l := x.Lhs[0]
		if p, ok := l.(*ast.ParenExpr); ok {
			l = p.X
		}
		if se, ok := l.(*ast.StarExpr); ok {
			v := b.varOf(se.X)
			n, isC := b.constInt(x.Rhs[0])
			if v == nil || !b.isParam(v) || !b.isUintPtrT(v.Type()) || x.Tok != token.ASSIGN || !isC || n < 0 {
				return nil, b.errf(x, "assignment through a pointer outside the translated subset (*p = constant, p a *uint parameter)")
			}
			if _, err := b.bind(se, "Go.deref "+b.name(v)); err != nil {
				return nil, err
			}
			return append(b.takePre(), fmt.Sprintf("let %s := (some (%d : UInt64))", b.name(v), n)), nil
		}
	}
	if x.Tok != token.DEFINE && x.Tok != token.ASSIGN {
		return nil, b.errf(x, "assignment operator %s on a variable", x.Tok)
	}
	if len(x.Rhs) == 1 {
		if call, ok := x.Rhs[0].(*ast.CallExpr); ok {
			if f := b.calleeOf(call); f != nil {
				lines, res, err := b.callHoist(call, f)
				if err != nil {
					return nil, err
				}
				if len(res) != len(x.Lhs) {
					return nil, b.errf(x, "%d targets for %d results", len(x.Lhs), len(res))
				}
				for i, l := range x.Lhs {
					if rt := f.sig.Results().At(i).Type(); b.isSliceT(rt) {
						return nil, b.errf(x, "slice result of a listed function stored in a variable")
					}
					ls, err := b.bindLocal(l, res[i])
					if err != nil {
						return nil, err
					}
					lines = append(lines, ls...)
				}
				return lines, nil
			}
			if l, _ := b.libOfCall(call); l != nil && l.kind == buCtor {
				if len(x.Lhs) != 2 || len(call.Args) != 1 {
					return nil, b.errf(x, "%s: expected `blk, err := f(key)`", l.key)
				}
				if v := b.varOf(x.Lhs[0]); v == nil || !b.isIfaceT(v.Type()) {
					return nil, b.errf(x, "%s: the first target is not of type %s", l.key, b.x.g.iface)
				}
				if v := b.varOf(x.Lhs[1]); v == nil || !puIsErrorType(v.Type()) {
					return nil, b.errf(x, "%s: the second target is not an error", l.key)
				}
				key, err := b.sliceVal(call.Args[0])
				if err != nil {
					return nil, err
				}
				b.usesLib = true
				t, err := b.bind(call, "L."+l.field+" "+key)
				if err != nil {
					return nil, err
				}
				lines := b.takePre()
				for i, l := range x.Lhs {
					ls, err := b.bindLocal(l, puProj(t, i, 2))
					if err != nil {
						return nil, err
					}
					lines = append(lines, ls...)
				}
				return lines, nil
			}
		}
	}
	if len(x.Lhs) != len(x.Rhs) {
		return nil, b.errf(x, "%d targets for %d values", len(x.Lhs), len(x.Rhs))
	}
	if len(x.Lhs) > 1 {
		lv := map[*types.Var]bool{}
		for _, l := range x.Lhs {
			if v := b.varOf(l); v != nil {
				lv[v] = true
			}
		}
		clash := false
		for _, r := range x.Rhs {
			ast.Inspect(r, func(n ast.Node) bool {
				if id, ok := n.(*ast.Ident); ok {
					if v, ok := b.pkg.info.Uses[id].(*types.Var); ok && lv[v] {
						clash = true
					}
				}
				return true
			})
		}
		if clash {
			return nil, b.errf(x, "parallel assignment whose right side mentions a target")
		}
	}
	var vals []string
	for i, r := range x.Rhs {
		lt, err := b.typeOf(x.Lhs[i])
		if id, ok := x.Lhs[i].(*ast.Ident); ok && x.Tok == token.DEFINE {
			if o := b.pkg.info.Defs[id]; o != nil {
				lt, err = o.Type(), nil
			}
		}
		if err != nil {
			return nil, err
		}
		var s string
		switch {
		case b.isSliceT(lt):
			if se, ok := r.(*ast.SliceExpr); ok && se.High != nil {
				return nil, b.errf(r, "x[a:b] stored in a variable")
			}
			s, err = b.sliceVal(r)
		case b.isIfaceT(lt), b.isUintPtrT(lt):
			return nil, b.errf(x, "assignment of a value of type %s", lt)
		default:
			s, err = b.scalar(r)
		}
		if err != nil {
			return nil, err
		}
		vals = append(vals, s)
	}
	lines := b.takePre()
	for i, l := range x.Lhs {
		ls, err := b.bindLocal(l, vals[i])
		if err != nil {
			return nil, err
		}
		lines = append(lines, ls...)
	}
	return lines, nil
}

// ---------------------------------------------------------------------------------------------- function / group

func (b *buFn) translate() (string, error) {
	if err := b.checkAliases(); err != nil {
		return "", err
	}
	var params, prologue []string
	for i, p := range b.params {
		if p.Name() == "" || p.Name() == "_" {
			return "", b.errf(b.decl, "unnamed parameter %d", i)
		}
		n := b.name(p)
		switch {
		case b.isSliceT(p.Type()) && b.nilable[p]:
			for _, x := range []string{n + "_opt", n + "_nil"} {
				if b.used[x] {
					return "", b.errf(b.decl, "name clash on %s", x)
				}
				b.used[x] = true
			}
			params = append(params, "("+n+"_opt : Option Bytes)")
			prologue = append(prologue, "let "+n+"_nil := "+n+"_opt.isNone", "let "+n+" := Go.optBytes "+n+"_opt")
		case b.isSliceT(p.Type()):
			params = append(params, "("+n+" : Bytes)")
		case b.isUintPtrT(p.Type()):
			params = append(params, "("+n+" : Option UInt64)")
		case b.kindOf(p.Type()).integer() || b.kindOf(p.Type()) == puBool:
			lt, _ := b.leanType(p.Type())
			params = append(params, "("+n+" : "+lt+")")
		default:
			return "", b.errf(b.decl, "parameter %s of type %s", p.Name(), p.Type())
		}
	}
	var rts []string
	for i := 0; i < b.sig.Results().Len(); i++ {
		r := b.sig.Results().At(i)
		if r.Name() != "" {
			return "", b.errf(b.decl, "named result")
		}
		switch {
		case b.isSliceT(r.Type()):
			rts = append(rts, "Bytes")
		case puIsErrorType(r.Type()):
			rts = append(rts, "Bool")
		case b.kindOf(r.Type()).integer() || b.kindOf(r.Type()) == puBool:
			lt, _ := b.leanType(r.Type())
			rts = append(rts, lt)
		default:
			return "", b.errf(b.decl, "result of type %s", r.Type())
		}
	}
	for _, p := range b.outs() {
		switch {
		case b.isUintPtrT(p.Type()):
			rts = append(rts, "Option UInt64")
		case b.nilable[p]:
			rts = append(rts, "Option Bytes")
		default:
			rts = append(rts, "Bytes")
		}
	}
	rt := "Unit"
	if len(rts) > 0 {
		rt = strings.Join(rts, " × ")
	}
	top := &buRet{ret: func(t string) string { return ".ok " + t }}
	fall := func() ([]string, error) {
		if b.sig.Results().Len() != 0 {
			return nil, b.errf(b.decl, "control reaches the end of a function with results")
		}
		return []string{".ok " + b.retTuple(nil)}, nil
	}
	body, err := b.stmts(b.decl.Body.List, fall, top)
	if err != nil {
		return "", err
	}
	if len(b.pre) != 0 {
		return "", b.errf(b.decl, "internal: hoisted operations left over")
	}
	if b.usesLib {
		params = append([]string{"(L : Lib)"}, params...)
	}
	var sb strings.Builder
	var onames []string
	for _, p := range b.outs() {
		onames = append(onames, p.Name())
	}
	note := ""
	if len(onames) > 0 {
		note = "; result: the Go results, then the out-parameters " + strings.Join(onames, ", ") + " as the function leaves them"
	}
	fmt.Fprintf(&sb, "/-- src/%s/%s func %s%s -/\n", b.t.pkg, b.t.file, b.t.fn, note)
	fmt.Fprintf(&sb, "def %s %s : Res (%s) :=\n", b.lean, strings.Join(params, " "), rt)
	for _, l := range append(prologue, body...) {
		sb.WriteString("  " + l + "\n")
	}
	return sb.String(), nil
}

func genBufGroup(ld *puLoader, g *buGroup) (string, *buCtx, error) {
	x := &buCtx{g: g, ld: ld, byObj: map[*types.Func]*buFn{}}
	pg := &puGroup{name: g.name, ns: g.ns}
	gc := &puGroupCtx{g: pg, ld: ld, byObj: map[*types.Func]*puFn{}, sname: map[*types.TypeName]string{}, staken: map[string]bool{},
		libUsed: map[string]string{}}
	for _, t := range g.targets {
		p, err := ld.load(t.pkg)
		if err != nil {
			return "", nil, err
		}
		fd, err := puFindFunc(p, t)
		if err != nil {
			return "", nil, err
		}
		obj, _ := p.info.Defs[fd.Name].(*types.Func)
		if obj == nil {
			return "", nil, fail("%s: no type information for func %s", t.file, t.fn)
		}
		for _, te := range p.errs {
			if te.Pos >= fd.Pos() && te.Pos <= fd.End() {
				return "", nil, fail("%s: %s: type error: %s", ld.fset.Position(te.Pos), t.fn, te.Msg)
			}
		}
		c := &puFn{t: t, grp: gc, pkg: p, decl: fd, obj: obj, lean: t.fn, names: map[types.Object]string{}, used: map[string]bool{},
			bound: map[*types.Var]bool{}, fx: newPuFx(), monadic: true}
		sig := obj.Type().(*types.Signature)
		if sig.Recv() != nil || sig.Variadic() || sig.TypeParams() != nil {
			return "", nil, c.errf(fd, "method / variadic / generic function")
		}
		b := &buFn{puFn: c, x: x, sig: sig, written: map[*types.Var]bool{}, nilable: map[*types.Var]bool{}, wroteAny: map[*types.Var]bool{},
			defs: map[*types.Var][]ast.Expr{}}
		for i := 0; i < sig.Params().Len(); i++ {
			b.params = append(b.params, sig.Params().At(i))
		}
		c.used["L"] = true
		x.fns = append(x.fns, b)
		x.byObj[obj] = b
	}
	for _, b := range x.fns {
		if err := b.collectDefs(); err != nil {
			return "", nil, err
		}
	}
	for changed := true; changed; {
		changed = false
		for _, b := range x.fns {
			before := len(b.written)*1000 + len(b.nilable)
			if b.scan() != before {
				changed = true
			}
		}
	}
	// usesLib to a fixpoint: a function that calls one that takes L takes L. Translate in dependency order instead:
	// translate callees first (the listed order need not be the call order), repeating until nothing changes.
	var defs map[*buFn]string
	for round := 0; ; round++ {
		defs = map[*buFn]string{}
		sigBefore := ""
		for _, b := range x.fns {
			sigBefore += strconv.FormatBool(b.usesLib)
		}
		for _, b := range x.fns {
			b.names, b.used, b.tmp, b.pre = map[types.Object]string{}, map[string]bool{"L": true}, 0, nil
			d, err := b.translate()
			if err != nil {
				return "", nil, err
			}
			defs[b] = d
		}
		sigAfter := ""
		for _, b := range x.fns {
			sigAfter += strconv.FormatBool(b.usesLib)
		}
		if sigAfter == sigBefore {
			break
		}
		if round > len(x.fns)+1 {
			return "", nil, fail("%s: internal: no fixpoint", g.name)
		}
	}
	// emit callees before callers
	var order []*buFn
	done := map[*buFn]bool{}
	var visit func(b *buFn, stack map[*buFn]bool) error
	visit = func(b *buFn, stack map[*buFn]bool) error {
		if done[b] {
			return nil
		}
		if stack[b] {
			return b.errf(b.decl, "recursion")
		}
		stack[b] = true
		var err error
		ast.Inspect(b.decl.Body, func(n ast.Node) bool {
			if call, ok := n.(*ast.CallExpr); ok && err == nil {
				if f := b.calleeOf(call); f != nil {
					err = visit(f, stack)
				}
			}
			return err == nil
		})
		if err != nil {
			return err
		}
		delete(stack, b)
		done[b] = true
		order = append(order, b)
		return nil
	}
	for _, b := range x.fns {
		if err := visit(b, map[*buFn]bool{}); err != nil {
			return "", nil, err
		}
	}
	var sb strings.Builder
	fmt.Fprintf(&sb, "-- GENERATED by `gen %s` from /repo's working tree (harness/cmd/gen/pure_milenage.go). Do not edit.\n", g.name)
	sb.WriteString("import Stgutg.Gen.PureRtBuf\n")
	fmt.Fprintf(&sb, "namespace Stgutg.Gen.Pure.%s\nopen Stgutg Stgutg.Gen\nset_option linter.unusedVariables false\n\n", g.ns)
	sb.WriteString("/-- the library calls the functions of this group make and the translator does not interpret. Each is taken to be\n")
	sb.WriteString("    a function of the VALUES of its operands; its only effect is the declared one (the destination afterwards is its result). -/\n")
	sb.WriteString("structure Lib where\n")
	fmt.Fprintf(&sb, "  /-- %s -/\n  Block : Type\n", g.ifaceDoc)
	for _, l := range g.lib {
		ty := map[buLibKind]string{buCtor: "Bytes → Res (Block × Bool)", buSize: "Block → Res Int", buInPlace: "Block → Bytes → Bytes → Res Bytes",
			buDeepEq: "Bytes → Bytes → Bool"}[l.kind]
		fmt.Fprintf(&sb, "  /-- %s: %s -/\n  %s : %s\n", l.key, l.doc, l.field, ty)
	}
	sb.WriteString("\n")
	for _, b := range order {
		sb.WriteString(defs[b])
		sb.WriteString("\n")
	}
	fmt.Fprintf(&sb, "end Stgutg.Gen.Pure.%s\n", g.ns)
	return sb.String(), x, nil
}
