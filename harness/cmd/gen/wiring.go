package main

import (
	"fmt"
	"go/ast"
	"go/parser"
	"go/printer"
	"go/token"
	"path/filepath"
	"reflect"
	"sort"
	"strconv"
	"strings"

	"verifharness/internal/docs"
)

// wiring (C18): how the configuration reaches the procedures.
//
//   src/stgutg/utils.go   type Conf struct { Configuration struct { <Field> <kind> `yaml:"<tag>"` … } }
//   src/config.yaml       the keys under `configuration:` (the documented keys)
//   README.md             the keys shown in the snippets of section "3. Configure STGUTG"
//   stg-utg.go            func main: declarations, `c.GetConfiguration()`, `mode := stgutg.GetMode(os.Args)`, then
//                         `if mode == 1 {…} else if mode == 2 {…}` without else. Inside a mode block:
//        x := c.Configuration.F | x := stgutg.Min(a, b) | L = append(L, v) | other assignments / declarations,
//        expression statements, `if` (only non-procedure calls inside), `defer <non-procedure call>`,
//        `for i := 0; i < B; i++ {…}` and `for … := range L {…}`, not nested.
//      A procedure call is a call of stgutg.* (except ManageError, Min, GetMode), tglib.* or net.InterfaceByName.
//      Each of its arguments is `c.Configuration.F`, a local defined once from it, or an expression that does not
//      mention `c` and contains no call. Everything else — `c` used in any other way, a re-assigned local, a
//      procedure call under an `if`, an unknown callee — fails closed.
func init() { register("wiring", genWiring) }

type wSrc struct {
	kind string // field | min | other
	name string
	a, b *wSrc
}

func (s *wSrc) lean() string {
	switch s.kind {
	case "field":
		return fmt.Sprintf("(.field %s)", strconv.Quote(s.name))
	case "min":
		return fmt.Sprintf("(.min %s %s)", s.a.lean(), s.b.lean())
	}
	return fmt.Sprintf("(.other %s)", strconv.Quote(s.name))
}

type wLoop struct {
	upto  *wSrc  // for i := 0; i < upto; i++
	list  string // range over list
	calls int
	pos   token.Pos
}

type wCall struct {
	callee string
	args   []*wSrc
	loop   *wLoop
}

type wiringTr struct {
	fset    *token.FileSet
	fields  map[string]bool
	locals  map[string]*wSrc
	calls   []*wCall
	appends map[string][]*wLoop // list → loops in which `list = append(list, _)` occurs
	assigned map[string]int     // other assignments to identifiers (to reject re-assignment of tracked names)
}

func (t *wiringTr) pos(n ast.Node) string { return t.fset.Position(n.Pos()).String() }

func (t *wiringTr) text(n ast.Node) string {
	var b strings.Builder
	printer.Fprint(&b, t.fset, n)
	return b.String()
}

func mentionsC(n ast.Node) bool {
	found := false
	ast.Inspect(n, func(x ast.Node) bool {
		if id, ok := x.(*ast.Ident); ok && id.Name == "c" {
			found = true
		}
		return !found
	})
	return found
}

func containsCall(n ast.Node) bool {
	found := false
	ast.Inspect(n, func(x ast.Node) bool {
		if _, ok := x.(*ast.CallExpr); ok {
			found = true
		}
		return !found
	})
	return found
}

// configField recognises c.Configuration.<F>
func (t *wiringTr) configField(e ast.Expr) (string, bool) {
	s, ok := e.(*ast.SelectorExpr)
	if !ok {
		return "", false
	}
	s2, ok := s.X.(*ast.SelectorExpr)
	if !ok || s2.Sel.Name != "Configuration" {
		return "", false
	}
	id, ok := s2.X.(*ast.Ident)
	if !ok || id.Name != "c" {
		return "", false
	}
	return s.Sel.Name, true
}

func (t *wiringTr) src(e ast.Expr) (*wSrc, error) {
	if f, ok := t.configField(e); ok {
		if !t.fields[f] {
			return nil, fail("%s: c.Configuration.%s is not a field of Conf", t.pos(e), f)
		}
		return &wSrc{kind: "field", name: f}, nil
	}
	if id, ok := e.(*ast.Ident); ok {
		if s, ok := t.locals[id.Name]; ok {
			return s, nil
		}
	}
	if mentionsC(e) {
		return nil, fail("%s: the configuration is used in an unrecognised expression: %s", t.pos(e), t.text(e))
	}
	if containsCall(e) {
		return nil, fail("%s: call inside an argument: %s", t.pos(e), t.text(e))
	}
	// a tracked local hidden inside a larger expression would escape the table
	bad := ""
	ast.Inspect(e, func(x ast.Node) bool {
		if id, ok := x.(*ast.Ident); ok {
			if _, ok := t.locals[id.Name]; ok && x != ast.Node(e) {
				bad = id.Name
			}
		}
		return true
	})
	if bad != "" {
		return nil, fail("%s: configuration value %s inside a larger expression: %s", t.pos(e), bad, t.text(e))
	}
	return &wSrc{kind: "other", name: t.text(e)}, nil
}

func calleeName(c *ast.CallExpr) string {
	switch f := c.Fun.(type) {
	case *ast.Ident:
		return f.Name
	case *ast.SelectorExpr:
		if id, ok := f.X.(*ast.Ident); ok {
			return id.Name + "." + f.Sel.Name
		}
	}
	return ""
}

func isProcedure(name string) bool {
	switch name {
	case "stgutg.ManageError", "stgutg.Min", "stgutg.GetMode":
		return false
	case "net.InterfaceByName":
		return true
	}
	return strings.HasPrefix(name, "stgutg.") || strings.HasPrefix(name, "tglib.")
}

var ignorableCalls = map[string]bool{
	"fmt.Println": true, "time.Sleep": true, "stgutg.ManageError": true, "os.Exit": true, "xdpgtp.NewXDPGTP": true,
	"append": true, "make": true, "len": true, "conn.Close": true,
}

// calls handles every call expression inside e (source order).
func (t *wiringTr) callsIn(e ast.Node, loop *wLoop, inIf bool) error {
	var err error
	ast.Inspect(e, func(x ast.Node) bool {
		if err != nil {
			return false
		}
		c, ok := x.(*ast.CallExpr)
		if !ok {
			return true
		}
		name := calleeName(c)
		switch {
		case isProcedure(name):
			if inIf {
				err = fail("%s: procedure call %s under a condition", t.pos(c), name)
				return false
			}
			wc := &wCall{callee: name, loop: loop}
			for _, a := range c.Args {
				s, e2 := t.src(a)
				if e2 != nil {
					err = e2
					return false
				}
				wc.args = append(wc.args, s)
			}
			if loop != nil {
				loop.calls++
			}
			t.calls = append(t.calls, wc)
			return false
		case name == "stgutg.Min" || name == "stgutg.GetMode":
			err = fail("%s: %s outside its recognised position", t.pos(c), name)
			return false
		case ignorableCalls[name] || strings.HasPrefix(name, "xgtp."):
			if name != "fmt.Println" {
				for _, a := range c.Args {
					if mentionsC(a) {
						err = fail("%s: configuration passed to %s", t.pos(c), name)
						return false
					}
					if id, ok := a.(*ast.Ident); ok {
						if _, tracked := t.locals[id.Name]; tracked {
							err = fail("%s: configuration value %s passed to %s", t.pos(c), id.Name, name)
							return false
						}
					}
				}
			}
			return true
		default:
			err = fail("%s: unknown callee %q", t.pos(c), name)
			return false
		}
	})
	return err
}

func (t *wiringTr) stmts(list []ast.Stmt, loop *wLoop, inIf bool) error {
	for _, s := range list {
		if err := t.stmt(s, loop, inIf); err != nil {
			return err
		}
	}
	return nil
}

func (t *wiringTr) stmt(s ast.Stmt, loop *wLoop, inIf bool) error {
	switch s := s.(type) {
	case *ast.ExprStmt:
		return t.callsIn(s.X, loop, inIf)
	case *ast.DeferStmt:
		if isProcedure(calleeName(s.Call)) {
			return fail("%s: deferred procedure call", t.pos(s))
		}
		return t.callsIn(s.Call, loop, inIf)
	case *ast.DeclStmt:
		gd, ok := s.Decl.(*ast.GenDecl)
		if !ok || gd.Tok != token.VAR {
			return fail("%s: unsupported declaration", t.pos(s))
		}
		for _, sp := range gd.Specs {
			vs := sp.(*ast.ValueSpec)
			for _, v := range vs.Values {
				if mentionsC(v) {
					return fail("%s: configuration in a var declaration", t.pos(v))
				}
				if err := t.callsIn(v, loop, inIf); err != nil {
					return err
				}
			}
		}
		return nil
	case *ast.AssignStmt:
		// x := c.Configuration.F  |  x := stgutg.Min(a, b)
		if s.Tok == token.DEFINE && len(s.Lhs) == 1 && len(s.Rhs) == 1 {
			if id, ok := s.Lhs[0].(*ast.Ident); ok {
				if f, ok := t.configField(s.Rhs[0]); ok {
					if loop != nil || inIf {
						return fail("%s: configuration copied inside a loop or condition", t.pos(s))
					}
					if !t.fields[f] {
						return fail("%s: c.Configuration.%s is not a field of Conf", t.pos(s), f)
					}
					if _, dup := t.locals[id.Name]; dup {
						return fail("%s: %s defined twice", t.pos(s), id.Name)
					}
					t.locals[id.Name] = &wSrc{kind: "field", name: f}
					return nil
				}
				if c, ok := s.Rhs[0].(*ast.CallExpr); ok && calleeName(c) == "stgutg.Min" {
					if loop != nil || inIf || len(c.Args) != 2 {
						return fail("%s: stgutg.Min in an unrecognised position", t.pos(s))
					}
					a, err := t.src(c.Args[0])
					if err != nil {
						return err
					}
					b, err := t.src(c.Args[1])
					if err != nil {
						return err
					}
					if _, dup := t.locals[id.Name]; dup {
						return fail("%s: %s defined twice", t.pos(s), id.Name)
					}
					t.locals[id.Name] = &wSrc{kind: "min", a: a, b: b}
					return nil
				}
			}
		}
		// L = append(L, v)
		if s.Tok == token.ASSIGN && len(s.Lhs) == 1 && len(s.Rhs) == 1 {
			if id, ok := s.Lhs[0].(*ast.Ident); ok {
				if c, ok := s.Rhs[0].(*ast.CallExpr); ok && calleeName(c) == "append" && len(c.Args) == 2 {
					if a0, ok := c.Args[0].(*ast.Ident); ok && a0.Name == id.Name {
						if mentionsC(c.Args[1]) || containsCall(c.Args[1]) {
							return fail("%s: unsupported append", t.pos(s))
						}
						if inIf {
							return fail("%s: append under a condition", t.pos(s))
						}
						t.appends[id.Name] = append(t.appends[id.Name], loop)
						return nil
					}
				}
			}
		}
		for _, l := range s.Lhs {
			if mentionsC(l) {
				return fail("%s: assignment to the configuration", t.pos(s))
			}
			if id, ok := l.(*ast.Ident); ok {
				if _, tracked := t.locals[id.Name]; tracked {
					return fail("%s: %s (a configuration value) is re-assigned", t.pos(s), id.Name)
				}
				t.assigned[id.Name]++
			}
		}
		for _, r := range s.Rhs {
			if mentionsC(r) && !containsCall(r) {
				return fail("%s: configuration used in an unrecognised assignment", t.pos(s))
			}
			if err := t.callsIn(r, loop, inIf); err != nil {
				return err
			}
		}
		return nil
	case *ast.IncDecStmt:
		if id, ok := s.X.(*ast.Ident); ok {
			if _, tracked := t.locals[id.Name]; tracked {
				return fail("%s: %s (a configuration value) is modified", t.pos(s), id.Name)
			}
		}
		return nil
	case *ast.IfStmt:
		if s.Init != nil {
			return fail("%s: if with init statement", t.pos(s))
		}
		if mentionsC(s.Cond) {
			return fail("%s: configuration in a condition", t.pos(s))
		}
		if err := t.callsIn(s.Cond, loop, true); err != nil {
			return err
		}
		if err := t.stmts(s.Body.List, loop, true); err != nil {
			return err
		}
		if s.Else != nil {
			return t.stmt(s.Else, loop, true)
		}
		return nil
	case *ast.BlockStmt:
		return t.stmts(s.List, loop, inIf)
	case *ast.ForStmt:
		if loop != nil {
			return fail("%s: nested loop", t.pos(s))
		}
		if inIf {
			return fail("%s: loop under a condition", t.pos(s))
		}
		// for i := 0; i < B; i++
		init, ok := s.Init.(*ast.AssignStmt)
		if !ok || init.Tok != token.DEFINE || len(init.Lhs) != 1 || len(init.Rhs) != 1 {
			return fail("%s: unsupported for-init", t.pos(s))
		}
		iv, ok := init.Lhs[0].(*ast.Ident)
		lit, ok2 := init.Rhs[0].(*ast.BasicLit)
		if !ok || !ok2 || lit.Value != "0" {
			return fail("%s: loop does not start at 0", t.pos(s))
		}
		cond, ok := s.Cond.(*ast.BinaryExpr)
		if !ok || cond.Op != token.LSS {
			return fail("%s: loop condition is not i < B", t.pos(s))
		}
		if cv, ok := cond.X.(*ast.Ident); !ok || cv.Name != iv.Name {
			return fail("%s: loop condition is not i < B", t.pos(s))
		}
		post, ok := s.Post.(*ast.IncDecStmt)
		if !ok || post.Tok != token.INC {
			return fail("%s: loop step is not i++", t.pos(s))
		}
		if pv, ok := post.X.(*ast.Ident); !ok || pv.Name != iv.Name {
			return fail("%s: loop step is not i++", t.pos(s))
		}
		b, err := t.src(cond.Y)
		if err != nil {
			return err
		}
		l := &wLoop{upto: b, pos: s.Pos()}
		return t.stmts(s.Body.List, l, false)
	case *ast.RangeStmt:
		if loop != nil {
			return fail("%s: nested loop", t.pos(s))
		}
		if inIf {
			return fail("%s: loop under a condition", t.pos(s))
		}
		id, ok := s.X.(*ast.Ident)
		if !ok {
			return fail("%s: range over a non-identifier", t.pos(s))
		}
		if _, tracked := t.locals[id.Name]; tracked {
			return fail("%s: range over a configuration value", t.pos(s))
		}
		l := &wLoop{list: id.Name, pos: s.Pos()}
		return t.stmts(s.Body.List, l, false)
	}
	return fail("%s: unsupported statement %T", t.pos(s), s)
}

// resolve the bound of a range loop: the list must be appended to exactly once, in exactly one counted loop
func (t *wiringTr) boundLean(l *wLoop) (string, error) {
	if l == nil {
		return ".none", nil
	}
	if l.upto != nil {
		return fmt.Sprintf("(.upto %s)", l.upto.lean()), nil
	}
	ap := t.appends[l.list]
	if len(ap) != 1 || ap[0] == nil || ap[0].upto == nil {
		return "", fail("%s: cannot determine the length of %s (needs exactly one `%s = append(%s, _)` in one counted loop)",
			t.fset.Position(l.pos), l.list, l.list, l.list)
	}
	if t.assigned[l.list] != 0 {
		return "", fail("%s: %s is assigned elsewhere", t.fset.Position(l.pos), l.list)
	}
	return fmt.Sprintf("(.each %s %s)", strconv.Quote(l.list), ap[0].upto.lean()), nil
}

func yamlTagOf(tag string) (string, bool) {
	st := reflect.StructTag(strings.Trim(tag, "`"))
	v, ok := st.Lookup("yaml")
	if !ok {
		return "", false
	}
	if i := strings.IndexByte(v, ','); i >= 0 {
		return "", false // options (omitempty, inline, flow) are outside the grammar
	}
	return v, v != "" && v != "-"
}

func confFields(fset *token.FileSet, f *ast.File) ([][3]string, error) {
	for _, d := range f.Decls {
		gd, ok := d.(*ast.GenDecl)
		if !ok || gd.Tok != token.TYPE {
			continue
		}
		for _, sp := range gd.Specs {
			ts := sp.(*ast.TypeSpec)
			if ts.Name.Name != "Conf" {
				continue
			}
			st, ok := ts.Type.(*ast.StructType)
			if !ok || len(st.Fields.List) != 1 || len(st.Fields.List[0].Names) != 1 ||
				st.Fields.List[0].Names[0].Name != "Configuration" || st.Fields.List[0].Tag != nil {
				return nil, fail("%s: Conf is not struct { Configuration struct {…} } (untagged: yaml key `configuration`)", fset.Position(ts.Pos()))
			}
			inner, ok := st.Fields.List[0].Type.(*ast.StructType)
			if !ok {
				return nil, fail("%s: Configuration is not an inline struct", fset.Position(ts.Pos()))
			}
			var out [][3]string
			for _, fl := range inner.Fields.List {
				if len(fl.Names) != 1 || fl.Tag == nil {
					return nil, fail("%s: field without a single name and a tag", fset.Position(fl.Pos()))
				}
				kind, ok := fl.Type.(*ast.Ident)
				if !ok {
					return nil, fail("%s: field type is not a basic type", fset.Position(fl.Pos()))
				}
				switch kind.Name {
				case "string", "int", "int32", "uint64":
				default:
					return nil, fail("%s: unsupported field kind %s", fset.Position(fl.Pos()), kind.Name)
				}
				tag, ok := yamlTagOf(fl.Tag.Value)
				if !ok {
					return nil, fail("%s: no plain yaml tag", fset.Position(fl.Pos()))
				}
				out = append(out, [3]string{tag, fl.Names[0].Name, kind.Name})
			}
			return out, nil
		}
	}
	return nil, fail("type Conf not found")
}

func leanStrList(name, doc string, xs []string) string {
	var b strings.Builder
	fmt.Fprintf(&b, "/-- %s -/\ndef %s : List String := [", doc, name)
	for i, x := range xs {
		if i > 0 {
			b.WriteString(", ")
		}
		b.WriteString(strconv.Quote(x))
	}
	b.WriteString("]\n\n")
	return b.String()
}

func genWiring() error {
	fset := token.NewFileSet()
	uf, err := parser.ParseFile(fset, filepath.Join(repo, "src/stgutg/utils.go"), nil, 0)
	if err != nil {
		return err
	}
	fields, err := confFields(fset, uf)
	if err != nil {
		return err
	}
	docKeys, err := docs.ConfigYamlKeys(filepath.Join(repo, "src/config.yaml"))
	if err != nil {
		return err
	}
	rmKeys, err := docs.ReadmeKeys(filepath.Join(repo, "README.md"))
	if err != nil {
		return err
	}

	mf, err := parser.ParseFile(fset, filepath.Join(repo, "stg-utg.go"), nil, 0)
	if err != nil {
		return err
	}
	var mainFn *ast.FuncDecl
	for _, d := range mf.Decls {
		if fd, ok := d.(*ast.FuncDecl); ok {
			if fd.Name.Name == "main" && fd.Recv == nil {
				mainFn = fd
			} else {
				// any other function could receive the configuration
				if mentionsC(fd) {
					return fail("%s: function %s mentions an identifier c", fset.Position(fd.Pos()), fd.Name.Name)
				}
			}
		}
	}
	if mainFn == nil {
		return fail("stg-utg.go: func main not found")
	}
	fieldSet := map[string]bool{}
	for _, f := range fields {
		fieldSet[f[1]] = true
	}

	// preamble: var declarations, `c.GetConfiguration()`, `mode := stgutg.GetMode(os.Args)`, then the if chain
	var preamble []string
	sawConf, sawGet, sawMode := false, false, false
	var chain *ast.IfStmt
	for i, s := range mainFn.Body.List {
		switch s := s.(type) {
		case *ast.DeclStmt:
			gd := s.Decl.(*ast.GenDecl)
			for _, sp := range gd.Specs {
				vs, ok := sp.(*ast.ValueSpec)
				if !ok || len(vs.Values) != 0 {
					return fail("%s: unsupported declaration before the mode switch", fset.Position(s.Pos()))
				}
				for _, n := range vs.Names {
					if n.Name == "c" {
						var tb strings.Builder
						printer.Fprint(&tb, fset, vs.Type)
						if tb.String() != "stgutg.Conf" {
							return fail("%s: c is not a stgutg.Conf", fset.Position(s.Pos()))
						}
						sawConf = true
					}
				}
			}
		case *ast.ExprStmt:
			var tb strings.Builder
			printer.Fprint(&tb, fset, s.X)
			if tb.String() != "c.GetConfiguration()" || !sawConf || sawGet {
				return fail("%s: unexpected statement before the mode switch: %s", fset.Position(s.Pos()), tb.String())
			}
			sawGet = true
			preamble = append(preamble, "c.GetConfiguration")
		case *ast.AssignStmt:
			var tb strings.Builder
			printer.Fprint(&tb, fset, s)
			if tb.String() != "mode := stgutg.GetMode(os.Args)" || sawMode {
				return fail("%s: unexpected statement before the mode switch: %s", fset.Position(s.Pos()), tb.String())
			}
			sawMode = true
			preamble = append(preamble, "stgutg.GetMode(os.Args)")
		case *ast.IfStmt:
			if i != len(mainFn.Body.List)-1 {
				return fail("%s: statements after the mode switch", fset.Position(s.Pos()))
			}
			chain = s
		default:
			return fail("%s: unsupported statement in main", fset.Position(s.Pos()))
		}
	}
	if !sawGet || !sawMode || chain == nil {
		return fail("stg-utg.go: main does not have the shape GetConfiguration; GetMode; if mode == …")
	}

	var b strings.Builder
	b.WriteString("-- GENERATED by `gen wiring` from src/stgutg/utils.go, src/config.yaml, README.md and stg-utg.go. Do not edit.\n")
	b.WriteString("import Stgutg.Model.ConfigTypes\n")
	b.WriteString("namespace Stgutg.Gen.Wiring\nopen Stgutg.Model.Config\n\n")
	b.WriteString("/-- (yaml tag, struct field, Go kind) of `Conf.Configuration`, in declaration order -/\n")
	b.WriteString("def fields : List (String × String × String) := [\n")
	for i, f := range fields {
		sep := ","
		if i == len(fields)-1 {
			sep = ""
		}
		fmt.Fprintf(&b, "  (%s, %s, %s)%s\n", strconv.Quote(f[0]), strconv.Quote(f[1]), strconv.Quote(f[2]), sep)
	}
	b.WriteString("]\n\n")
	b.WriteString(leanStrList("documentedKeys", "the keys under `configuration:` in src/config.yaml, in file order", docKeys))
	b.WriteString(leanStrList("readmeKeys", "the keys shown in the snippets of README.md, section \"Configure STGUTG\"", rmKeys))
	b.WriteString(leanStrList("preamble", "what `main` does before the mode switch", preamble))

	b.WriteString("/-- mode (the value `mode ==` is compared with) ↦ the procedure calls of its block in source order -/\n")
	b.WriteString("def modes : List (Nat × List Call) := [\n")
	cur := chain
	first := true
	var usedCallees []string
	for cur != nil {
		be, ok := cur.Cond.(*ast.BinaryExpr)
		if !ok || be.Op != token.EQL {
			return fail("%s: mode condition is not mode == N", fset.Position(cur.Pos()))
		}
		x, ok1 := be.X.(*ast.Ident)
		y, ok2 := be.Y.(*ast.BasicLit)
		if !ok1 || !ok2 || x.Name != "mode" || y.Kind != token.INT || cur.Init != nil {
			return fail("%s: mode condition is not mode == N", fset.Position(cur.Pos()))
		}
		t := &wiringTr{fset: fset, fields: fieldSet, locals: map[string]*wSrc{}, appends: map[string][]*wLoop{}, assigned: map[string]int{}}
		if err := t.stmts(cur.Body.List, nil, false); err != nil {
			return err
		}
		if !first {
			b.WriteString(",\n")
		}
		first = false
		fmt.Fprintf(&b, "  (%s, [\n", y.Value)
		for i, c := range t.calls {
			usedCallees = append(usedCallees, c.callee)
			bl, err := t.boundLean(c.loop)
			if err != nil {
				return err
			}
			var as []string
			for _, a := range c.args {
				as = append(as, a.lean())
			}
			sep := ","
			if i == len(t.calls)-1 {
				sep = ""
			}
			fmt.Fprintf(&b, "    { callee := %s, args := [%s], bound := %s }%s\n", strconv.Quote(c.callee), strings.Join(as, ", "), bl, sep)
		}
		b.WriteString("  ])")
		switch e := cur.Else.(type) {
		case nil:
			cur = nil
		case *ast.IfStmt:
			cur = e
		default:
			return fail("%s: the mode switch has a final else", fset.Position(e.Pos()))
		}
	}
	b.WriteString("\n]\n\n")

	// parameter names of the procedures (from their declarations), so that positions can be read as parameters
	sigs := map[string][]string{"net.InterfaceByName": {"name"}} // standard library: func InterfaceByName(name string)
	for _, dir := range []struct{ pkg, path string }{{"stgutg", "src/stgutg"}, {"tglib", "src/tglib"}} {
		pkgs, err := parser.ParseDir(fset, filepath.Join(repo, dir.path), nil, 0)
		if err != nil {
			return err
		}
		for _, pk := range pkgs {
			for _, file := range pk.Files {
				for _, d := range file.Decls {
					fd, ok := d.(*ast.FuncDecl)
					if !ok || fd.Recv != nil || !fd.Name.IsExported() {
						continue
					}
					var ps []string
					for _, fl := range fd.Type.Params.List {
						if len(fl.Names) == 0 {
							ps = append(ps, "_")
						}
						for _, n := range fl.Names {
							ps = append(ps, n.Name)
						}
					}
					name := dir.pkg + "." + fd.Name.Name
					if _, dup := sigs[name]; dup {
						return fail("%s: %s declared twice", fset.Position(fd.Pos()), name)
					}
					sigs[name] = ps
				}
			}
		}
	}
	used := map[string]bool{}
	for _, n := range usedCallees {
		used[n] = true
	}
	var names []string
	for n := range used {
		if _, ok := sigs[n]; !ok {
			return fail("stg-utg.go calls %s whose declaration was not found", n)
		}
		names = append(names, n)
	}
	sort.Strings(names)
	b.WriteString("/-- parameter names of the called procedures, from their declarations -/\n")
	b.WriteString("def signatures : List (String × List String) := [\n")
	for i, n := range names {
		var qs []string
		for _, p := range sigs[n] {
			qs = append(qs, strconv.Quote(p))
		}
		sep := ","
		if i == len(names)-1 {
			sep = ""
		}
		fmt.Fprintf(&b, "  (%s, [%s])%s\n", strconv.Quote(n), strings.Join(qs, ", "), sep)
	}
	b.WriteString("]\n\nend Stgutg.Gen.Wiring\n")
	return writeIfChanged("Wiring.lean", b.String())
}
