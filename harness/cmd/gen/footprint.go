package main

import (
	"fmt"
	"go/ast"
	"go/token"
	"go/types"
	"os"
	"sort"
	"strings"

	"golang.org/x/tools/go/callgraph"
	"golang.org/x/tools/go/callgraph/cha"
	"golang.org/x/tools/go/packages"
	"golang.org/x/tools/go/ssa"
	"golang.org/x/tools/go/ssa/ssautil"
)

// footprint (C20): for every codec / security entry point, the transitive set of PACKAGE-LEVEL VARIABLES OF THE
// REPO'S OWN PACKAGES (free5gclib/..., tglib, stgutg) that are loaded from / stored to outside `init`.
//
// Method (go/ssa + class-hierarchy call graph, both from golang.org/x/tools v0.29.0):
//   - the whole program (entry packages + all dependencies, standard library included) is built in SSA form;
//   - reachability from an entry point follows every CHA edge (static calls; interface calls to every
//     implementing method; calls through func values to every function of that signature), through third-party
//     and standard-library code too, so call-backs into the repo's packages (String/Error/Fire/... methods) count;
//   - in every reachable function of the repo's packages each use of a *ssa.Global of the repo's packages is
//     classified: the address is followed through FieldAddr/IndexAddr/Slice/Phi chains; a load is a READ, a store
//     a WRITE; an address that escapes (call argument, stored, captured, returned, converted) is a WRITE;
//   - reference values (pointers, slices, maps, interfaces, funcs, structs holding them) LOADED from a global
//     are followed too (through fields, elements, phis, parameters of repo functions, closures, results):
//     a store / map update / append / copy-into through such a reference is a WRITE of that global, a load a
//     READ; where the reference leaves what is followed (stored into other memory, handed to a function outside
//     the repo's packages) the global is recorded as SHARED by that entry point (by whom: see the comment lines).
//
// Input grammar / fail closed (naming file:line): a `go` statement, a conversion from or to unsafe.Pointer, a
// cgo package, a select/send/receive on a channel loaded from a global, a reflect call on a value that comes
// from a global, a call with such a value that has no resolvable callee, or an SSA instruction form not listed
// in (*fpAnalysis).use, in any reachable function of the repo's packages, is a TRANSLATOR-FAILED.
// Not followed (trusted base): what third-party and standard-library code does with its own package-level
// state; references after they were recorded as SHARED; calls made through reflect.Value.Call/Method.
//
// Self-test: the same analysis first runs on verifharness/internal/fptest, a package of small functions whose
// footprints are stated in their doc comments (stores through loaded slices / pointers / maps, through
// parameters, returned references, closures, interface and func-value calls, init-only tables, append/copy);
// any difference is a TRANSLATOR-FAILED.
func init() { register("footprint", genFootprint) }

type fpEntry struct {
	name  string // name in the Lean table
	pkg   string // import path
	recv  string // "" or the receiver's named type (pointer receiver)
	fn    string
	perUE bool      // part of the property's "for different UEs" entry points
	self  *fpExpect // self-test function: the footprint it must have
}

var fpEntries = []fpEntry{
	{"ngap.Encoder", "free5gclib/ngap", "", "Encoder", true, nil},
	{"ngap.Decoder", "free5gclib/ngap", "", "Decoder", true, nil},
	{"aper.Marshal", "free5gclib/aper", "", "Marshal", true, nil},
	{"aper.MarshalWithParams", "free5gclib/aper", "", "MarshalWithParams", true, nil},
	{"aper.Unmarshal", "free5gclib/aper", "", "Unmarshal", true, nil},
	{"aper.UnmarshalWithParams", "free5gclib/aper", "", "UnmarshalWithParams", true, nil},
	{"nas.Message.PlainNasEncode", "free5gclib/nas", "Message", "PlainNasEncode", true, nil},
	{"nas.Message.PlainNasDecode", "free5gclib/nas", "Message", "PlainNasDecode", true, nil},
	{"tglib.NASEncode", "tglib", "", "NASEncode", true, nil},
	{"tglib.NASDecode", "tglib", "", "NASDecode", true, nil},
	{"security.NASEncrypt", "free5gclib/nas/security", "", "NASEncrypt", true, nil},
	{"security.NASMacCalculate", "free5gclib/nas/security", "", "NASMacCalculate", true, nil},
	{"tglib.RanUeContext.DeriveRESstarAndSetKey", "tglib", "RanUeContext", "DeriveRESstarAndSetKey", true, nil},
	{"UeauCommon.GetKDFValue", "free5gclib/UeauCommon", "", "GetKDFValue", true, nil},
	{"milenage.F1", "free5gclib/milenage", "", "F1", true, nil},
	{"milenage.F2345", "free5gclib/milenage", "", "F2345", true, nil},
	{"milenage.GenerateOPC", "free5gclib/milenage", "", "GenerateOPC", true, nil},
	{"milenage.MilenageGenerate", "free5gclib/milenage", "", "MilenageGenerate", true, nil},
	{"milenage.Milenage_check", "free5gclib/milenage", "", "Milenage_check", true, nil},
	{"milenage.Milenage_auts", "free5gclib/milenage", "", "Milenage_auts", true, nil},
	{"tglib.EncodeNasPduWithSecurity", "tglib", "", "EncodeNasPduWithSecurity", true, nil},
	{"tglib.GetNasPdu", "tglib", "", "GetNasPdu", true, nil},
	// the emulator's own pure per-UE helpers (listed with the builders)
	{"stgutg.CreateUE", "stgutg", "", "CreateUE", false, nil},
	{"stgutg.EncodeSuci", "stgutg", "", "EncodeSuci", false, nil},
	{"stgutg.FindPDUSessionResourceSetupListSUReq", "stgutg", "", "FindPDUSessionResourceSetupListSUReq", false, nil},
	{"stgutg.DecodePDUSessionResourceSetupRequestTransfer", "stgutg", "", "DecodePDUSessionResourceSetupRequestTransfer", false, nil},
	{"stgutg.DecodePDUSessionNASPDU", "stgutg", "", "DecodePDUSessionNASPDU", false, nil},
}

// fpTrustedPkgs: third-party packages that are handed values loaded from the repo's globals and are in the
// trusted base (DESIGN.md section 6): logrus serialises its entries/loggers internally (Logger.mu, atomic level).
var fpTrustedPkgs = map[string]bool{"github.com/sirupsen/logrus": true}

// fpSelfTest: a package of small functions with known footprints, analysed on every run (see its doc comments)
const fpSelfTest = "verifharness/internal/fptest"

type fpExpect struct{ r, w, s []string }

func fpOwnPath(p string) bool {
	if p == fpSelfTest {
		return true
	}
	for _, r := range []string{"free5gclib", "tglib", "stgutg"} {
		if p == r || strings.HasPrefix(p, r+"/") {
			return true
		}
	}
	return false
}

func fpOwnFunc(f *ssa.Function) bool {
	if f == nil {
		return false
	}
	if f.Pkg != nil {
		return fpOwnPath(f.Pkg.Pkg.Path())
	}
	// synthetic wrappers / instantiations: owned by the package of the object they wrap
	if o := f.Object(); o != nil && o.Pkg() != nil {
		return fpOwnPath(o.Pkg().Path())
	}
	if f.Parent() != nil {
		return fpOwnFunc(f.Parent())
	}
	return false
}

// fpIsInit: the package initialiser or a declared init function (they run before main, happens-before every
// goroutine). A closure created there may run later and is NOT exempt.
func fpIsInit(f *ssa.Function) bool {
	return f.Parent() == nil && f.Signature.Recv() == nil && (f.Name() == "init" || strings.HasPrefix(f.Name(), "init#"))
}

// fpRootOfAddr: the global whose own storage the address lies in (through FieldAddr / IndexAddr chains), or nil
func fpRootOfAddr(v ssa.Value) *ssa.Global {
	for {
		switch x := v.(type) {
		case *ssa.Global:
			return x
		case *ssa.FieldAddr:
			v = x.X
		case *ssa.IndexAddr:
			if _, isPtr := x.X.Type().Underlying().(*types.Pointer); !isPtr {
				return nil
			}
			v = x.X
		default:
			return nil
		}
	}
}

// hasRefs: can a value of this type hold a reference to mutable memory? (strings are immutable)
func fpHasRefs(t types.Type, seen map[types.Type]bool) bool {
	if seen[t] {
		return false
	}
	seen[t] = true
	switch u := t.Underlying().(type) {
	case *types.Basic:
		return u.Kind() == types.UnsafePointer
	case *types.Pointer, *types.Slice, *types.Map, *types.Chan, *types.Signature, *types.Interface:
		return true
	case *types.Array:
		return fpHasRefs(u.Elem(), seen)
	case *types.Struct:
		for i := 0; i < u.NumFields(); i++ {
			if fpHasRefs(u.Field(i).Type(), seen) {
				return true
			}
		}
		return false
	case *types.Tuple:
		for i := 0; i < u.Len(); i++ {
			if fpHasRefs(u.At(i).Type(), seen) {
				return true
			}
		}
		return false
	}
	return true
}

func hasRefs(t types.Type) bool { return fpHasRefs(t, map[types.Type]bool{}) }

type fpAccess struct {
	reads, writes map[*ssa.Global]bool
	shares        map[*ssa.Global]map[string]bool // global -> how it is shared
}

type fpAnalysis struct {
	prog      *ssa.Program
	cg        *callgraph.Graph
	acc       map[*ssa.Function]*fpAccess
	seen      map[fpItem]bool
	addrTaken map[*ssa.Function]bool
	trusted   map[string]bool
	work      []fpItem
	errs      []string
}

type fpItem struct {
	v    ssa.Value
	root *ssa.Global
	addr bool // v is an address inside the global's own storage (or inside memory reachable from it)
}

func (a *fpAnalysis) pos(p token.Pos) string {
	if !p.IsValid() {
		return "?"
	}
	q := a.prog.Fset.Position(p)
	return fmt.Sprintf("%s:%d", strings.TrimPrefix(q.Filename, repo+"/"), q.Line)
}

func (a *fpAnalysis) failf(instr ssa.Instruction, format string, args ...interface{}) {
	where := "?"
	if instr != nil {
		where = a.pos(instr.Pos())
		if where == "?" && instr.Parent() != nil {
			where = instr.Parent().String()
		}
	}
	a.errs = append(a.errs, where+": "+fmt.Sprintf(format, args...))
}

func (a *fpAnalysis) of(f *ssa.Function) *fpAccess {
	x := a.acc[f]
	if x == nil {
		x = &fpAccess{map[*ssa.Global]bool{}, map[*ssa.Global]bool{}, map[*ssa.Global]map[string]bool{}}
		a.acc[f] = x
	}
	return x
}

func (a *fpAnalysis) read(i ssa.Instruction, g *ssa.Global)  { a.of(i.Parent()).reads[g] = true }
func (a *fpAnalysis) write(i ssa.Instruction, g *ssa.Global) { a.of(i.Parent()).writes[g] = true }
func (a *fpAnalysis) share(i ssa.Instruction, g *ssa.Global, how string) {
	x := a.of(i.Parent())
	if x.shares[g] == nil {
		x.shares[g] = map[string]bool{}
	}
	x.shares[g][how] = true
}

func (a *fpAnalysis) push(v ssa.Value, root *ssa.Global, addr bool) {
	it := fpItem{v, root, addr}
	if a.seen[it] {
		return
	}
	a.seen[it] = true
	a.work = append(a.work, it)
}

// pushVal follows a loaded value only if it can hold references.
func (a *fpAnalysis) pushVal(v ssa.Value, root *ssa.Global) {
	if hasRefs(v.Type()) {
		a.push(v, root, false)
	}
}

func isUnsafePtr(t types.Type) bool {
	b, ok := t.Underlying().(*types.Basic)
	return ok && b.Kind() == types.UnsafePointer
}

// keep: is the CHA edge kept? A call through a func value can only reach a function whose address is taken
// somewhere in the program (CHA alone matches every function of the signature).
func (a *fpAnalysis) keep(e *callgraph.Edge) bool {
	c := e.Site.Common()
	if c.IsInvoke() || c.StaticCallee() != nil {
		return true
	}
	return a.addrTaken[e.Callee.Func]
}

// callees of a call site according to the (filtered) CHA graph
func (a *fpAnalysis) callees(site ssa.CallInstruction) []*ssa.Function {
	n := a.cg.Nodes[site.Parent()]
	if n == nil {
		return nil
	}
	var out []*ssa.Function
	for _, e := range n.Out {
		if e.Site == site && a.keep(e) {
			out = append(out, e.Callee.Func)
		}
	}
	return out
}

// functions used as values (operand of anything but the callee position of a call, or bound in a closure)
func fpAddrTaken(prog *ssa.Program) map[*ssa.Function]bool {
	out := map[*ssa.Function]bool{}
	for f := range ssautil.AllFunctions(prog) {
		for _, b := range f.Blocks {
			for _, instr := range b.Instrs {
				var calleeOp *ssa.Value
				if site, ok := instr.(ssa.CallInstruction); ok && !site.Common().IsInvoke() {
					calleeOp = &site.Common().Value
				}
				for _, op := range instr.Operands(nil) {
					if g, ok := (*op).(*ssa.Function); ok && op != calleeOp {
						out[g] = true
					}
				}
			}
		}
	}
	return out
}

// a reference value v (rooted at global root; addr says whether it is an address whose loads/stores are
// accesses of the global) is an operand of a call
func (a *fpAnalysis) useInCall(site ssa.CallInstruction, v ssa.Value, root *ssa.Global, addr bool) {
	c := site.Common()
	instr := site.(ssa.Instruction)
	if _, isGo := site.(*ssa.Go); isGo {
		a.failf(instr, "go statement")
		return
	}
	if b, ok := c.Value.(*ssa.Builtin); ok {
		switch b.Name() {
		case "len", "cap", "print", "println", "min", "max":
			a.read(instr, root)
		case "copy":
			if c.Args[0] == v {
				a.write(instr, root)
			}
			if c.Args[1] == v {
				a.read(instr, root)
			}
		case "append":
			if c.Args[0] == v {
				// may store into the spare capacity of the shared backing array
				a.write(instr, root)
				if val := site.Value(); val != nil {
					a.pushVal(val, root)
				}
			}
			if len(c.Args) > 1 && c.Args[1] == v {
				a.read(instr, root)
			}
		case "delete", "clear", "close":
			a.write(instr, root)
		default:
			a.failf(instr, "builtin %s on a value rooted at global %s", b.Name(), root)
		}
		return
	}
	if !c.IsInvoke() && c.Value == v {
		// the value is the func being called (a func loaded from a global): calling it reads it; what runs is
		// covered by the call graph
		a.read(instr, root)
	}
	isActual := c.IsInvoke() && c.Value == v
	for _, x := range c.Args {
		if x == v {
			isActual = true
		}
	}
	if !isActual {
		return
	}
	cs := a.callees(site)
	if len(cs) == 0 {
		a.failf(instr, "call with a value rooted at global %s has no resolvable callee", root)
		return
	}
	for _, callee := range cs {
		if !fpOwnFunc(callee) || len(callee.Blocks) == 0 {
			name := callee.String()
			pk := ""
			if callee.Pkg != nil {
				pk = callee.Pkg.Pkg.Path()
			} else if o := callee.Object(); o != nil && o.Pkg() != nil {
				pk = o.Pkg().Path()
			}
			if pk == "reflect" {
				a.failf(instr, "reflect call %s on a value rooted at global %s", name, root)
				continue
			}
			if addr {
				// the address of (part of) the global is handed to code outside the analysis
				a.write(instr, root)
				a.share(instr, root, "address passed to "+name)
			} else if fpTrustedPkgs[pk] {
				a.read(instr, root)
				a.trusted[root.String()+" -> "+pk] = true
			} else {
				a.read(instr, root)
				a.share(instr, root, "passed to "+name)
			}
			continue
		}
		// repo function: follow the matching parameter(s)
		params := callee.Params
		var actuals []ssa.Value
		if c.IsInvoke() {
			actuals = append([]ssa.Value{c.Value}, c.Args...)
		} else {
			actuals = c.Args
		}
		if len(actuals) != len(params) {
			// bound-method closures etc.: be conservative
			if addr {
				a.write(instr, root)
			}
			a.share(instr, root, "passed to "+callee.String()+" (arity mismatch)")
			continue
		}
		for k, act := range actuals {
			if act == v {
				a.push(params[k], root, addr)
			}
		}
	}
}

func (a *fpAnalysis) use(it fpItem, instr ssa.Instruction) {
	v, root := it.v, it.root
	switch i := instr.(type) {
	case *ssa.DebugRef:
	case *ssa.UnOp:
		switch i.Op {
		case token.MUL:
			a.read(i, root)
			a.pushVal(i, root)
		case token.ARROW:
			a.failf(i, "channel receive on a value rooted at global %s", root)
		default:
			// arithmetic / logic on loaded scalars cannot happen: scalars are not followed
			a.failf(i, "unary %s on a value rooted at global %s", i.Op, root)
		}
	case *ssa.Store:
		if i.Addr == v {
			a.write(i, root)
		}
		if i.Val == v {
			if it.addr {
				a.write(i, root) // address of the global stored somewhere: escapes
				a.share(i, root, "address stored")
			} else if fpRootOfAddr(i.Addr) != root {
				// (storing it back into the variable it came from shares nothing new)
				a.share(i, root, "reference stored into other memory")
			}
		}
	case *ssa.FieldAddr:
		a.push(i, root, true)
	case *ssa.IndexAddr:
		if i.X == v {
			a.push(i, root, true)
		}
	case *ssa.Field, *ssa.Index, *ssa.Extract, *ssa.Next:
		if x, ok := i.(*ssa.Index); ok && x.X != v {
			return
		}
		a.read(instr, root)
		a.pushVal(i.(ssa.Value), root)
	case *ssa.Slice:
		if i.X == v {
			a.push(i, root, false) // a slice aliasing the storage
		}
	case *ssa.Phi:
		a.push(i, root, it.addr)
	case *ssa.ChangeType, *ssa.ChangeInterface, *ssa.MakeInterface, *ssa.SliceToArrayPointer:
		a.push(i.(ssa.Value), root, it.addr)
	case *ssa.TypeAssert:
		a.pushVal(i, root)
	case *ssa.Convert:
		if isUnsafePtr(i.Type()) || isUnsafePtr(i.X.Type()) {
			a.failf(i, "unsafe.Pointer conversion of a value rooted at global %s", root)
			return
		}
		// string <-> []byte / []rune conversions copy
		a.read(i, root)
	case *ssa.Lookup:
		if i.X == v {
			a.read(i, root)
			a.pushVal(i, root)
		}
	case *ssa.MapUpdate:
		if i.Map == v {
			a.write(i, root)
		}
		if i.Key == v || i.Value == v {
			a.share(i, root, "reference stored into a map")
		}
	case *ssa.Range:
		a.read(i, root)
		a.push(i, root, false)
	case *ssa.BinOp, *ssa.If:
		a.read(instr, root)
	case *ssa.Return:
		f := i.Parent()
		if it.addr {
			a.write(i, root)
			a.share(i, root, "address returned")
		}
		// the callers' call values carry the reference
		if n := a.cg.Nodes[f]; n != nil {
			for _, e := range n.In {
				if val := e.Site.Value(); val != nil && fpOwnFunc(e.Caller.Func) && a.keep(e) {
					a.push(val, root, false)
				}
			}
		}
	case *ssa.MakeClosure:
		fn := i.Fn.(*ssa.Function)
		for k, b := range i.Bindings {
			if b == v {
				a.push(fn.FreeVars[k], root, it.addr)
			}
		}
	case *ssa.Call:
		a.useInCall(i, v, root, it.addr)
	case *ssa.Defer:
		a.useInCall(i, v, root, it.addr)
	case *ssa.Go:
		a.failf(i, "go statement")
	case *ssa.Send, *ssa.Select:
		a.failf(instr, "channel operation on a value rooted at global %s", root)
	case *ssa.MakeSlice, *ssa.MakeMap, *ssa.MakeChan, *ssa.Alloc:
		// sizes only
	default:
		a.failf(instr, "unhandled SSA instruction %T on a value rooted at global %s", instr, root)
	}
}

type fpRow struct {
	reads, writes, shares map[*ssa.Global]bool
	how                   map[*ssa.Global]map[string]bool
	writers               map[*ssa.Global]map[string]bool
	nOwn, nAll            int
}

type fpResult struct {
	entries []fpEntry
	rows    []fpRow
	globals map[*ssa.Global]bool
	a       *fpAnalysis
}

// fpRun analyses either the repo's packages (entry points + builders) or, selfTest, the self-test package alone
// (so that its functions cannot leak into the repo's call graph).
func fpRun(selfTest bool) (*fpResult, error) {
	harness := os.Getenv("VERIF_HARNESS")
	if harness == "" {
		harness = "/verif/harness"
	}
	env := append(os.Environ(), "GOFLAGS=-mod=mod", "GOPROXY=off", "GOSUMDB=off", "GOTOOLCHAIN=local", "GOWORK=off", "CGO_ENABLED=0")
	cfg := &packages.Config{Mode: packages.LoadAllSyntax, Dir: harness, Env: env}
	patSet := map[string]bool{}
	for _, e := range fpEntries {
		patSet[e.pkg] = true
	}
	var pats []string
	for p := range patSet {
		pats = append(pats, p)
	}
	pats = append(pats, "tglib/ngapTestpacket", "free5gclib/nas/nasTestpacket")
	sort.Strings(pats)
	if selfTest {
		pats = []string{fpSelfTest}
	}
	pkgs, err := packages.Load(cfg, pats...)
	if err != nil {
		return nil, err
	}
	bad := false
	packages.Visit(pkgs, nil, func(p *packages.Package) {
		for _, e := range p.Errors {
			fmt.Fprintln(os.Stderr, "load:", e)
			bad = true
		}
		if fpOwnPath(p.PkgPath) {
			for _, f := range p.Syntax {
				for _, im := range f.Imports {
					if im.Path.Value == `"C"` {
						fmt.Fprintf(os.Stderr, "%s: cgo\n", p.Fset.Position(im.Pos()))
						bad = true
					}
				}
			}
		}
	})
	if bad {
		return nil, fail("packages did not load cleanly (or use cgo)")
	}
	prog, _ := ssautil.AllPackages(pkgs, ssa.InstantiateGenerics)
	prog.Build()
	cg := cha.CallGraph(prog)

	a := &fpAnalysis{prog: prog, cg: cg, acc: map[*ssa.Function]*fpAccess{}, seen: map[fpItem]bool{}, addrTaken: fpAddrTaken(prog), trusted: map[string]bool{}}

	// the message builders / constructors (every exported function of these packages) are listed after the
	// property's entry points, as group "builder"
	fpEntries := append([]fpEntry{}, fpEntries...)
	builderPkgs := []struct{ pkg, short string }{{"tglib", "tglib"}, {"tglib/ngapTestpacket", "ngapTestpacket"}, {"free5gclib/nas/nasTestpacket", "nasTestpacket"}}
	if selfTest {
		fpEntries, builderPkgs = nil, nil
	}
	for _, bp := range builderPkgs {
		p := prog.ImportedPackage(bp.pkg)
		if p == nil {
			return nil, fail("package %s not in the program", bp.pkg)
		}
		var names []string
		for n, m := range p.Members {
			if f, ok := m.(*ssa.Function); ok && token.IsExported(n) && f.Signature.Recv() == nil {
				names = append(names, n)
			}
		}
		sort.Strings(names)
	next:
		for _, n := range names {
			for _, e := range fpEntries {
				if e.pkg == bp.pkg && e.recv == "" && e.fn == n {
					continue next
				}
			}
			if bp.pkg == "tglib" && n == "ConnectToAmf" {
				continue // opens the SCTP association: not a codec / security function
			}
			fpEntries = append(fpEntries, fpEntry{bp.short + "." + n, bp.pkg, "", n, false, nil})
		}
	}
	// self-test entries: every documented function of the self-test package, with the footprint its comment states
	nSelf := 0
	for _, lp := range pkgs {
		if lp.PkgPath != fpSelfTest {
			continue
		}
		for _, file := range lp.Syntax {
			for _, d := range file.Decls {
				fd, ok := d.(*ast.FuncDecl)
				if !ok || fd.Recv != nil || fd.Doc == nil || !fd.Name.IsExported() {
					continue
				}
				line := strings.TrimSpace(strings.SplitN(fd.Doc.Text(), "\n", 2)[0])
				if !strings.HasPrefix(line, fd.Name.Name+":") {
					return nil, fail("%s: self-test function %s has no expectation comment", lp.Fset.Position(fd.Pos()), fd.Name.Name)
				}
				line = strings.TrimPrefix(line, fd.Name.Name+":")
				if i := strings.Index(line, "("); i >= 0 {
					line = line[:i]
				}
				ex := &fpExpect{}
				cur := (*[]string)(nil)
				for _, tok := range strings.Fields(line) {
					switch tok {
					case "R":
						cur = &ex.r
					case "W":
						cur = &ex.w
					case "S":
						cur = &ex.s
					default:
						if cur == nil {
							return nil, fail("%s: malformed expectation for %s", lp.Fset.Position(fd.Pos()), fd.Name.Name)
						}
						*cur = append(*cur, tok)
					}
				}
				fpEntries = append(fpEntries, fpEntry{"selftest." + fd.Name.Name, fpSelfTest, "", fd.Name.Name, false, ex})
				nSelf++
			}
		}
	}
	if selfTest && nSelf < 20 {
		return nil, fail("self-test package %s: only %d documented functions found", fpSelfTest, nSelf)
	}
	// entry functions
	entries := make([]*ssa.Function, len(fpEntries))
	for k, e := range fpEntries {
		p := prog.ImportedPackage(e.pkg)
		if p == nil {
			return nil, fail("package %s not in the program", e.pkg)
		}
		var f *ssa.Function
		if e.recv == "" {
			f = p.Func(e.fn)
		} else {
			t := p.Type(e.recv)
			if t == nil {
				return nil, fail("type %s.%s not found", e.pkg, e.recv)
			}
			sel := prog.MethodSets.MethodSet(types.NewPointer(t.Type())).Lookup(p.Pkg, e.fn)
			if sel != nil {
				f = prog.MethodValue(sel)
			}
		}
		if f == nil {
			return nil, fail("entry point %s not found", e.name)
		}
		entries[k] = f
	}

	// reachable sets
	reach := make([]map[*ssa.Function]bool, len(entries))
	all := map[*ssa.Function]bool{}
	for k, f := range entries {
		r := map[*ssa.Function]bool{}
		stack := []*ssa.Function{f}
		r[f] = true
		for len(stack) > 0 {
			g := stack[len(stack)-1]
			stack = stack[:len(stack)-1]
			if n := cg.Nodes[g]; n != nil {
				for _, e := range n.Out {
					if !r[e.Callee.Func] && a.keep(e) {
						r[e.Callee.Func] = true
						stack = append(stack, e.Callee.Func)
					}
				}
			}
		}
		reach[k] = r
		for g := range r {
			all[g] = true
		}
	}

	// seed: every use of a global of the repo's packages in a reachable repo function outside init
	for f := range all {
		if !fpOwnFunc(f) || fpIsInit(f) {
			continue
		}
		for _, b := range f.Blocks {
			for _, instr := range b.Instrs {
				switch i := instr.(type) {
				case *ssa.Go:
					a.failf(i, "go statement in %s", f)
				case *ssa.Convert:
					if isUnsafePtr(i.Type()) || isUnsafePtr(i.X.Type()) {
						a.failf(i, "unsafe.Pointer conversion in %s", f)
					}
				}
				for _, op := range instr.Operands(nil) {
					g, ok := (*op).(*ssa.Global)
					if !ok || g.Pkg == nil || !fpOwnPath(g.Pkg.Pkg.Path()) {
						continue
					}
					a.use(fpItem{g, g, true}, instr)
				}
			}
		}
	}
	for len(a.work) > 0 {
		it := a.work[len(a.work)-1]
		a.work = a.work[:len(a.work)-1]
		refs := it.v.Referrers()
		if refs == nil {
			continue
		}
		for _, r := range *refs {
			if fpIsInit(r.Parent()) {
				continue
			}
			a.use(it, r)
		}
	}
	if len(a.errs) > 0 {
		sort.Strings(a.errs)
		return nil, fail("%d construct(s) outside the input grammar:\n  %s", len(a.errs), strings.Join(a.errs, "\n  "))
	}

	// per entry union
	rows := make([]fpRow, len(entries))
	globals := map[*ssa.Global]bool{}
	for k := range entries {
		r := fpRow{map[*ssa.Global]bool{}, map[*ssa.Global]bool{}, map[*ssa.Global]bool{}, map[*ssa.Global]map[string]bool{}, map[*ssa.Global]map[string]bool{}, 0, len(reach[k])}
		for f := range reach[k] {
			if !fpOwnFunc(f) || fpIsInit(f) {
				continue
			}
			r.nOwn++
			x := a.acc[f]
			if x == nil {
				continue
			}
			for g := range x.reads {
				r.reads[g] = true
				globals[g] = true
			}
			for g := range x.writes {
				r.writes[g] = true
				globals[g] = true
				if r.writers[g] == nil {
					r.writers[g] = map[string]bool{}
				}
				r.writers[g][f.String()] = true
			}
			for g, hs := range x.shares {
				r.shares[g] = true
				globals[g] = true
				if r.how[g] == nil {
					r.how[g] = map[string]bool{}
				}
				for h := range hs {
					r.how[g][f.String()+": "+h] = true
				}
			}
		}
		rows[k] = r
	}
	return &fpResult{fpEntries, rows, globals, a}, nil
}

func genFootprint() error {
	self, err := fpRun(true)
	if err != nil {
		return err
	}
	res, err := fpRun(false)
	if err != nil {
		return err
	}
	fpEntries, rows, globals, a := res.entries, res.rows, res.globals, res.a
	gname := func(g *ssa.Global) string { return g.Pkg.Pkg.Path() + "." + g.Name() }
	// self-test verdict: the computed footprint over the self-test package's variables must be the stated one
	var selfErrs []string
	for k, e := range self.entries {
		if e.self == nil {
			continue
		}
		got := func(m map[*ssa.Global]bool) string {
			var xs []string
			for g := range m {
				if g.Pkg.Pkg.Path() == fpSelfTest {
					xs = append(xs, g.Name())
				}
			}
			sort.Strings(xs)
			return strings.Join(xs, " ")
		}
		want := func(xs []string) string {
			ys := append([]string{}, xs...)
			sort.Strings(ys)
			return strings.Join(ys, " ")
		}
		r := self.rows[k]
		if got(r.reads) != want(e.self.r) || got(r.writes) != want(e.self.w) || got(r.shares) != want(e.self.s) {
			selfErrs = append(selfErrs, fmt.Sprintf("%s: computed R[%s] W[%s] S[%s], stated R[%s] W[%s] S[%s]", e.name,
				got(r.reads), got(r.writes), got(r.shares), want(e.self.r), want(e.self.w), want(e.self.s)))
		}
	}
	if len(selfErrs) > 0 {
		return fail("self-test of the footprint analysis failed:\n  %s", strings.Join(selfErrs, "\n  "))
	}
	var gl []*ssa.Global
	for g := range globals {
		gl = append(gl, g)
	}
	sort.Slice(gl, func(i, j int) bool { return gname(gl[i]) < gname(gl[j]) })
	idx := map[*ssa.Global]int{}
	for i, g := range gl {
		idx[g] = i
	}
	lst := func(m map[*ssa.Global]bool) string {
		var xs []int
		for g := range m {
			xs = append(xs, idx[g])
		}
		sort.Ints(xs)
		var ss []string
		for _, x := range xs {
			ss = append(ss, fmt.Sprint(x))
		}
		return "[" + strings.Join(ss, ", ") + "]"
	}
	keys := func(m map[string]bool) []string {
		var ks []string
		for k := range m {
			ks = append(ks, k)
		}
		sort.Strings(ks)
		return ks
	}

	var b strings.Builder
	b.WriteString("-- GENERATED by `gen footprint` (go/ssa + CHA call graph over /repo's working tree). Do not edit.\n")
	b.WriteString("namespace Stgutg.Gen.Footprint\n\n")
	b.WriteString("/-- package-level variables of the repo's packages touched (outside `init`) by some entry point; a location is its index -/\n")
	b.WriteString("def globals : List String := [")
	for i, g := range gl {
		if i > 0 {
			b.WriteString(",")
		}
		fmt.Fprintf(&b, "\n  %q", gname(g))
	}
	b.WriteString("]\n\n")
	b.WriteString("/-- reads / writes: the variable's own storage and memory reached through references loaded from it;\n")
	b.WriteString("    shares: a reference loaded from the variable is copied into other memory or handed to code outside\n")
	b.WriteString("    the repo's packages (other than the trusted logrus), so the analysis stops following it -/\n")
	b.WriteString("structure Entry where\n  name : String\n  reads : List Nat\n  writes : List Nat\n  shares : List Nat\n  deriving Repr, DecidableEq\n\n")
	for _, t := range keys(a.trusted) {
		fmt.Fprintf(&b, "-- handed to a trusted package (counted as read): %s\n", t)
	}
	table := func(name, doc string, core bool) {
		fmt.Fprintf(&b, "\n/-- %s -/\ndef %s : List Entry := [", doc, name)
		first := true
		for k, e := range fpEntries {
			if e.perUE != core || e.self != nil {
				continue
			}
			if !first {
				b.WriteString(",")
			}
			first = false
			r := rows[k]
			fmt.Fprintf(&b, "\n  -- %s: %d reachable functions, %d of them in the repo's packages\n", e.name, r.nAll, r.nOwn)
			var gs []*ssa.Global
			for g := range r.writers {
				gs = append(gs, g)
			}
			sort.Slice(gs, func(i, j int) bool { return idx[gs[i]] < idx[gs[j]] })
			for _, g := range gs {
				fmt.Fprintf(&b, "  --   writes %s in: %s\n", gname(g), strings.Join(keys(r.writers[g]), ", "))
			}
			gs = gs[:0]
			for g := range r.how {
				gs = append(gs, g)
			}
			sort.Slice(gs, func(i, j int) bool { return idx[gs[i]] < idx[gs[j]] })
			for _, g := range gs {
				for _, h := range keys(r.how[g]) {
					fmt.Fprintf(&b, "  --   shares %s: %s\n", gname(g), h)
				}
			}
			fmt.Fprintf(&b, "  { name := %q, reads := %s, writes := %s, shares := %s }", e.name, lst(r.reads), lst(r.writes), lst(r.shares))
		}
		b.WriteString("]\n")
	}
	table("footprint", "the property's entry points: codecs, NAS protection, key derivation", true)
	table("builders", "the emulator's pure per-UE helpers (stgutg) and every other exported function of tglib, tglib/ngapTestpacket and nas/nasTestpacket (message builders)", false)
	b.WriteString("\nend Stgutg.Gen.Footprint\n")
	return writeIfChanged("Footprint.lean", b.String())
}
