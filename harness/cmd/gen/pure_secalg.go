package main

import (
	"fmt"
	"go/ast"
	"go/constant"
	"go/token"
	"go/types"
	"math/big"
	"sort"
	"strconv"
	"strings"
)

// pure-secalg: the WORD-MACHINE grammar of the pure-* translators (work package S7). src/free5gclib/nas/security/snow3g/snow3g.go
// is a C reference implementation carried over to Go: a state struct of fixed-size word arrays changed through a pointer receiver,
// look-ups in package-level byte tables, a function that recurses on a decreasing counter, counted loops, one caller-provided
// output slice. The base grammar (pure.go) has no arrays, tables, recursion or writes through a slice parameter; this file is a
// self-contained statement + expression layer for exactly this style. ANYTHING not listed fails closed with file:line.
//
//	types       uint8/byte uint16 uint32 uint64 (UIntN), int (Int, wrapped to 64 bits), bool; [N]T and []T of these (List T: an
//	            array is a VALUE in Go, carried as the list of its N elements — every value of the Go type has length N, the tie
//	            theorems quantify over exactly those lists; x[i] is Go.idx whatever the index, so nothing is assumed about it);
//	            named struct types of such fields, nested (a Lean structure with every field); *S for a named struct S only as the
//	            pointer receiver, as a local `p := new(S)` / `p := f(…)` (f listed, returning such a local: a fresh object) and as
//	            the single result `return p` of such a local
//	pointers    a pointer variable is never assigned again, copied, compared or passed as an argument: the object behind it has
//	            this one name inside the function and is carried as a value of that name. A method that assigns through its
//	            pointer receiver (or calls one that does) returns the object as the FIRST component of its result
//	            (State × results × out-parameters). After a PANIC nothing is said about the object (Res; the hand models say nothing)
//	tables      a package-level `var t = [...]T{constants}` that is unexported and that every use in its package (go/types Uses) reads
//	            as t[i] (never assigned, sliced, address taken, ranged, passed whole) is a CONSTANT list emitted from the same source
//	out-params  a slice parameter written through (x[i] = v, handed to a listed function that writes it) is an OUT-PARAMETER: its
//	            elements when the function returns are a component of the result, after the Go results, in parameter order.
//	            ASSUMED about callers outside the group: an out-parameter shares no storage with another argument (inside
//	            the group: an out-argument is a whole variable that holds make(…) or is itself an out-parameter)
//	expressions constants as go/types evaluates them; + - * & | ^ &^ on the unsigned types (wrap-around) and on int (wrapped);
//	            / % by a non-zero constant on the unsigned types; << >> by a constant count, and on uint32 / uint64 by an unsigned
//	            VARIABLE count (Go.shlv / Go.shrv: 0 from the width on); comparisons; && || ! over operands that cannot fail;
//	            ^x; conversions between the integer types; x.f; x[i] (panic out of range); len(x) of a slice; [N]T{…} / []T{…}
//	            literals without keys; make([]T, n); new(S); calls of listed functions that change nothing
//	statements  := / = / op= / var on locals; assignment to a path root.f.g[i] (fields of a struct variable or of the object behind a
//	            pointer variable, a final index into an array / a fresh or out-parameter slice); p.M(…) and x, y := f(…) statements of
//	            listed functions (the object behind p, the out-arguments and the left sides rebound in this order); if / else
//	            (no init; a branch either returns on every path or contains no return); `for i := a; i < b; i++` with a counter
//	            the body does not assign, a bound over variables the body does not assign that cannot fail, no return / break /
//	            continue inside (an auxiliary definition recursing on FUEL = b - a + 1, visible in the output; outliving it is
//	            .error .hang); return
//	            a counter declared BEFORE the loop (`for i = a; i < b; i++`) is also a result of the loop (it is read afterwards);
//	            named results are locals that start at their zero values (every return names its values); an `error` result is
//	            Bool and only ever `nil`
//	octets      binary.BigEndian.Uint32(x) / Uint64(x) (Go.beU32 / beU64: panic on fewer than 4 / 8 octets) and the source of copy take
//	            a list value, x[a:b] / x[a:] / x[:b] of an ARRAY (cap = len = N, so Go.slice / Go.sliceFrom check the bounds exactly
//	            as Go does) or x[a:] of a slice (checked against len); x[a:b] of a slice is refused (its limit is cap(x)). These
//	            slices are read on the spot, never stored. copy(dst, src) and binary.BigEndian.PutUint32(dst, v) write to a WHOLE
//	            variable dst that holds make(…) only or is an out-parameter (Go.copy, Go.putU32BE)
//	imports     a group may import another (pure-secnas imports pure-secalg): the imported functions are analysed for their
//	            facts, not emitted again, and called by their qualified names
//	recursion   a function that calls itself is a recursion on FUEL = p + 1 for the first integer parameter p that every self-call
//	            passes as p - 1 (visible in the output; outliving it is .error .hang, so a wrong guess cannot make a theorem true)
//	self-test   `gen pure-selftest-sec` translates pureselftest/sec.go (every construct above) and writes the outcomes of executing
//	            the compiled functions beside the translation (Gen/PureSelftestSec.lean, `decide +kernel`)

type saGroup struct {
	name, ns string
	targets  []puTarget
	imports  []*saGroup // groups whose functions this group calls (their module is imported, their definitions not re-emitted)
}

var saSecAlg = &saGroup{name: "pure-secalg", ns: "SecAlg", targets: []puTarget{
	{pkg: "free5gclib/nas/security/snow3g", file: "snow3g.go", fn: "mulx"},
	{pkg: "free5gclib/nas/security/snow3g", file: "snow3g.go", fn: "mulxPow"},
	{pkg: "free5gclib/nas/security/snow3g", file: "snow3g.go", fn: "s1"},
	{pkg: "free5gclib/nas/security/snow3g", file: "snow3g.go", fn: "s2"},
	{pkg: "free5gclib/nas/security/snow3g", file: "snow3g.go", fn: "mulAlpha"},
	{pkg: "free5gclib/nas/security/snow3g", file: "snow3g.go", fn: "divAlpha"},
	{pkg: "free5gclib/nas/security/snow3g", file: "snow3g.go", fn: "State.lfsrInitialisationMode"},
	{pkg: "free5gclib/nas/security/snow3g", file: "snow3g.go", fn: "State.lfsrKeystreamMode"},
	{pkg: "free5gclib/nas/security/snow3g", file: "snow3g.go", fn: "State.clockFsm"},
	{pkg: "free5gclib/nas/security/snow3g", file: "snow3g.go", fn: "InitSnow3g"},
	{pkg: "free5gclib/nas/security/snow3g", file: "snow3g.go", fn: "State.GenerateKeystream"},
}}

// pure-secnas: the GF(2^64) helpers of NIA1 in src/free5gclib/nas/security/security.go (same grammar; a group of its own because
// the package has functions named like snow3g's)
var saSecNas = &saGroup{name: "pure-secnas", ns: "SecNas", targets: []puTarget{
	{pkg: "free5gclib/nas/security", file: "security.go", fn: "mulx"},
	{pkg: "free5gclib/nas/security", file: "security.go", fn: "mulxPow"},
	{pkg: "free5gclib/nas/security", file: "security.go", fn: "mul"},
	{pkg: "free5gclib/nas/security", file: "security.go", fn: "NIA1"},
	{pkg: "free5gclib/nas/security", file: "security.go", fn: "NEA1"},
}}

func init() { saSecNas.imports = []*saGroup{saSecAlg} }

func init() {
	register(saSecNas.name, func() error {
		if err := writeIfChanged("PureRt.lean", puRuntimeLean); err != nil {
			return err
		}
		if err := writeIfChanged("PureRtSec.lean", saRuntimeLean); err != nil {
			return err
		}
		out, _, err := genSaGroup(newPuLoader([]string{"free5gclib/nas/security", "free5gclib/nas/security/snow3g"}), saSecNas)
		if err != nil {
			return err
		}
		return writeIfChanged("Pure"+saSecNas.ns+".lean", out)
	})
	register(saSecAlg.name, func() error {
		if err := writeIfChanged("PureRt.lean", puRuntimeLean); err != nil {
			return err
		}
		if err := writeIfChanged("PureRtSec.lean", saRuntimeLean); err != nil {
			return err
		}
		out, _, err := genSaGroup(newPuLoader([]string{"free5gclib/nas/security/snow3g"}), saSecAlg)
		if err != nil {
			return err
		}
		return writeIfChanged("Pure"+saSecAlg.ns+".lean", out)
	})
}

const saRuntimeLean = `-- GENERATED by gen pure-secalg / pure-selftest-sec (fixed text, harness/cmd/gen/pure_secalg.go). Do not edit.
import Stgutg.Gen.PureRt
/-!
  Runtime of the word-machine grammar of the gen pure translator (harness/cmd/gen/pure_secalg.go): shifts by a variable count.
-/
namespace Stgutg.Gen.Go
open Stgutg

/-- x << n on uint32 with a variable unsigned count n (given as its value): 0 from 32 on -/
def shlv32 (x : UInt32) (n : Nat) : UInt32 := if n < 32 then x <<< (UInt32.ofNat n) else 0
/-- x >> n on uint32 with a variable unsigned count -/
def shrv32 (x : UInt32) (n : Nat) : UInt32 := if n < 32 then x >>> (UInt32.ofNat n) else 0
/-- x << n on uint64 with a variable unsigned count: 0 from 64 on -/
def shlv64 (x : UInt64) (n : Nat) : UInt64 := if n < 64 then x <<< (UInt64.ofNat n) else 0
/-- x >> n on uint64 with a variable unsigned count -/
def shrv64 (x : UInt64) (n : Nat) : UInt64 := if n < 64 then x >>> (UInt64.ofNat n) else 0

/-- binary.BigEndian.Uint32(b): '_ = b[3]', then the four octets -/
def beU32 (b : List UInt8) : Res UInt32 :=
  match b with
  | b0 :: b1 :: b2 :: b3 :: _ => .ok ((b0.toUInt32 <<< 24) ||| (b1.toUInt32 <<< 16) ||| (b2.toUInt32 <<< 8) ||| b3.toUInt32)
  | _ => .error .panic

/-- binary.BigEndian.Uint64(b): '_ = b[7]', then the eight octets -/
def beU64 (b : List UInt8) : Res UInt64 :=
  match b with
  | b0 :: b1 :: b2 :: b3 :: b4 :: b5 :: b6 :: b7 :: _ =>
    .ok ((b0.toUInt64 <<< 56) ||| (b1.toUInt64 <<< 48) ||| (b2.toUInt64 <<< 40) ||| (b3.toUInt64 <<< 32) |||
         (b4.toUInt64 <<< 24) ||| (b5.toUInt64 <<< 16) ||| (b6.toUInt64 <<< 8) ||| b7.toUInt64)
  | _ => .error .panic

/-- binary.BigEndian.PutUint32(b, v): '_ = b[3]', then the four octets; b afterwards -/
def putU32BE (b : List UInt8) (v : UInt32) : Res (List UInt8) :=
  match b with
  | _ :: _ :: _ :: _ :: rest => .ok ((v >>> 24).toUInt8 :: (v >>> 16).toUInt8 :: (v >>> 8).toUInt8 :: v.toUInt8 :: rest)
  | _ => .error .panic

end Stgutg.Gen.Go
`

// ---------------------------------------------------------------------------------------------- contexts

type saCtx struct {
	extStruct map[*types.TypeName]string // struct types of imported groups: their qualified Lean names
	g         *saGroup
	ld        *puLoader
	fns       []*saFn
	byObj     map[*types.Func]*saFn
	structs   []string
	sdone     map[*types.TypeName]bool
	tables    []string
	tname     map[*types.Var]string
}

type saFn struct {
	t      puTarget
	grp    *saCtx
	pkg    *puPkg
	decl   *ast.FuncDecl
	obj    *types.Func
	lean   string
	recv   *types.Var // pointer receiver
	sig    *types.Signature
	extern bool // a function of an imported group: analysed, not emitted
	// facts (fixpoint)
	mutRecv   bool
	monadic   bool
	outs      map[*types.Var]bool
	recursive bool
	fuelParam *types.Var
	// translation state
	names map[types.Object]string
	used  map[string]bool
	tmp   int
	pre   []string
	aux   []string
	nloop int
	self  string // the name self-calls use (the fuel recursion)
}

func (c *saFn) pos(n ast.Node) string {
	p := c.grp.ld.fset.Position(n.Pos())
	return fmt.Sprintf("%s:%d", strings.TrimPrefix(p.Filename, repo+"/"), p.Line)
}

func (c *saFn) errf(n ast.Node, format string, a ...interface{}) error {
	return fmt.Errorf("%s: %s: %s", c.pos(n), c.t.fn, fmt.Sprintf(format, a...))
}

func (c *saFn) fresh() string {
	for {
		c.tmp++
		n := "t" + strconv.Itoa(c.tmp)
		if !c.used[n] {
			return n
		}
	}
}

func (c *saFn) name(o types.Object) string {
	if n, ok := c.names[o]; ok {
		return n
	}
	base := puLeanIdent(o.Name())
	if len(base) > 1 && base[0] == 't' && base[1] >= '0' && base[1] <= '9' {
		base += "_"
	}
	n := base
	for i := 1; c.used[n]; i++ {
		n = base + "_" + strconv.Itoa(i)
	}
	c.used[n] = true
	c.names[o] = n
	return n
}

func (c *saFn) info() *types.Info { return c.pkg.info }

func (c *saFn) typeOf(e ast.Expr) (types.Type, error) {
	tv, ok := c.info().Types[e]
	if !ok || tv.Type == nil {
		return nil, c.errf(e, "no type information")
	}
	if b, ok := tv.Type.(*types.Basic); ok && b.Kind() == types.Invalid {
		return nil, c.errf(e, "invalid type")
	}
	return tv.Type, nil
}

// ---------------------------------------------------------------------------------------------- types

type saKind int

const (
	saBad saKind = iota
	saU8
	saU16
	saU32
	saU64
	saInt
	saBool
	saList // [N]T, []T
	saStruct
	saPtr
	saErr // error: Bool (err != nil); only ever nil in this grammar
)

func (k saKind) unsigned() bool { return k >= saU8 && k <= saU64 }
func (k saKind) integer() bool  { return k.unsigned() || k == saInt }
func (k saKind) width() int {
	return map[saKind]int{saU8: 8, saU16: 16, saU32: 32, saU64: 64, saInt: 64}[k]
}

var saLeanUint = map[saKind]string{saU8: "UInt8", saU16: "UInt16", saU32: "UInt32", saU64: "UInt64"}

func saKindOf(t types.Type) saKind {
	if t == nil {
		return saBad
	}
	if puIsErrorType(t) {
		return saErr
	}
	switch u := t.Underlying().(type) {
	case *types.Basic:
		switch u.Kind() {
		case types.Uint8:
			return saU8
		case types.Uint16:
			return saU16
		case types.Uint32:
			return saU32
		case types.Uint64:
			return saU64
		case types.Int, types.Int64, types.UntypedInt:
			return saInt
		case types.Bool, types.UntypedBool:
			return saBool
		}
	case *types.Array:
		if k := saKindOf(u.Elem()); k.integer() || k == saBool {
			return saList
		}
	case *types.Slice:
		if k := saKindOf(u.Elem()); k.integer() || k == saBool {
			return saList
		}
	case *types.Struct:
		if _, ok := t.(*types.Named); ok {
			return saStruct
		}
	case *types.Pointer:
		if n, ok := u.Elem().(*types.Named); ok {
			if _, ok := n.Underlying().(*types.Struct); ok {
				return saPtr
			}
		}
	}
	return saBad
}

func saElem(t types.Type) types.Type {
	switch u := t.Underlying().(type) {
	case *types.Array:
		return u.Elem()
	case *types.Slice:
		return u.Elem()
	}
	return nil
}

func (gc *saCtx) leanType(t types.Type) (string, error) {
	switch k := saKindOf(t); k {
	case saU8, saU16, saU32, saU64:
		return saLeanUint[k], nil
	case saInt:
		return "Int", nil
	case saBool, saErr:
		return "Bool", nil
	case saList:
		e, err := gc.leanType(saElem(t))
		if err != nil {
			return "", err
		}
		return "(List " + e + ")", nil
	case saStruct:
		return gc.structName(t.(*types.Named))
	case saPtr:
		return gc.structName(t.Underlying().(*types.Pointer).Elem().(*types.Named))
	}
	return "", fmt.Errorf("type %s is outside the translated subset", t)
}

func (gc *saCtx) structName(n *types.Named) (string, error) {
	if q, ok := gc.extStruct[n.Obj()]; ok {
		return q, nil
	}
	name := puLeanIdent(n.Obj().Name())
	if gc.sdone[n.Obj()] {
		return name, nil
	}
	for tn := range gc.sdone {
		if tn.Name() == n.Obj().Name() {
			return "", fmt.Errorf("two struct types named %s", name)
		}
	}
	gc.sdone[n.Obj()] = true
	st := n.Underlying().(*types.Struct)
	var b strings.Builder
	var fields []string
	for i := 0; i < st.NumFields(); i++ {
		f := st.Field(i)
		if f.Embedded() {
			return "", fmt.Errorf("struct %s: embedded field", name)
		}
		lt, err := gc.leanType(f.Type())
		if err != nil {
			return "", fmt.Errorf("struct %s field %s: %v", name, f.Name(), err)
		}
		if saKindOf(f.Type()) == saPtr {
			return "", fmt.Errorf("struct %s field %s: pointer field", name, f.Name())
		}
		note := ""
		if a, ok := f.Type().Underlying().(*types.Array); ok {
			note = fmt.Sprintf("  -- [%d]%s", a.Len(), a.Elem())
		}
		fields = append(fields, fmt.Sprintf("  %s : %s%s\n", puLeanIdent(f.Name()), lt, note))
	}
	fmt.Fprintf(&b, "/-- %s.%s -/\nstructure %s where\n", n.Obj().Pkg().Path(), n.Obj().Name(), name)
	for _, f := range fields {
		b.WriteString(f)
	}
	b.WriteString("  deriving DecidableEq, Repr\n")
	gc.structs = append(gc.structs, b.String())
	return name, nil
}

func (gc *saCtx) zero(t types.Type) (string, error) {
	switch k := saKindOf(t); k {
	case saU8, saU16, saU32, saU64:
		return "(0 : " + saLeanUint[k] + ")", nil
	case saInt:
		return "(0 : Int)", nil
	case saBool, saErr:
		return "false", nil
	case saList:
		lt, err := gc.leanType(t)
		if err != nil {
			return "", err
		}
		if a, ok := t.Underlying().(*types.Array); ok {
			z, err := gc.zero(a.Elem())
			if err != nil {
				return "", err
			}
			return fmt.Sprintf("(List.replicate %d %s)", a.Len(), z), nil
		}
		return "([] : " + strings.Trim(lt, "()") + ")", nil
	case saStruct:
		n := t.(*types.Named)
		name, err := gc.structName(n)
		if err != nil {
			return "", err
		}
		st := n.Underlying().(*types.Struct)
		var parts []string
		for i := 0; i < st.NumFields(); i++ {
			z, err := gc.zero(st.Field(i).Type())
			if err != nil {
				return "", err
			}
			parts = append(parts, puLeanIdent(st.Field(i).Name())+" := "+z)
		}
		return "({ " + strings.Join(parts, ", ") + " } : " + name + ")", nil
	}
	return "", fmt.Errorf("zero value of %s is outside the translated subset", t)
}

func (c *saFn) literal(v constant.Value, t types.Type) (string, error) {
	k := saKindOf(t)
	switch {
	case k == saBool && v.Kind() == constant.Bool:
		if constant.BoolVal(v) {
			return "true", nil
		}
		return "false", nil
	case k.integer():
		iv := constant.ToInt(v)
		if iv.Kind() != constant.Int {
			break
		}
		bi, ok := new(big.Int).SetString(iv.ExactString(), 10)
		if !ok {
			break
		}
		if k.unsigned() {
			if bi.Sign() < 0 || bi.BitLen() > k.width() {
				return "", fmt.Errorf("constant %s does not fit %s", bi, t)
			}
			return "(" + bi.String() + " : " + saLeanUint[k] + ")", nil
		}
		if bi.BitLen() > 63 {
			return "", fmt.Errorf("constant %s does not fit %s", bi, t)
		}
		return "(" + bi.String() + " : Int)", nil
	}
	return "", fmt.Errorf("constant %s of type %s is outside the translated subset", v, t)
}

// ---------------------------------------------------------------------------------------------- tables

// table: the Lean name of a package-level constant table, or "" if v is not one
func (c *saFn) table(v *types.Var) (string, error) {
	gc := c.grp
	if n, ok := gc.tname[v]; ok {
		return n, nil
	}
	if ast.IsExported(v.Name()) {
		return "", fmt.Errorf("package-level variable %s is exported (another package could assign it)", v.Name())
	}
	// its declaration
	var spec *ast.ValueSpec
	var pkgOf *puPkg
	for _, p := range gc.ld.pkgs {
		if p.pkg == v.Pkg() {
			pkgOf = p
		}
	}
	if pkgOf == nil {
		return "", fmt.Errorf("package of %s not loaded", v.Name())
	}
	var fnames []string
	for n := range pkgOf.files {
		fnames = append(fnames, n)
	}
	sort.Strings(fnames)
	for _, fname := range fnames {
		for _, d := range pkgOf.files[fname].Decls {
			gd, ok := d.(*ast.GenDecl)
			if !ok || gd.Tok != token.VAR {
				continue
			}
			for _, s := range gd.Specs {
				vs := s.(*ast.ValueSpec)
				for _, id := range vs.Names {
					if pkgOf.info.Defs[id] == v {
						spec = vs
					}
				}
			}
		}
	}
	if spec == nil || len(spec.Names) != 1 || len(spec.Values) != 1 {
		return "", fmt.Errorf("package-level variable %s: not declared as `var %s = literal`", v.Name(), v.Name())
	}
	lit, ok := spec.Values[0].(*ast.CompositeLit)
	arr, isArr := v.Type().Underlying().(*types.Array)
	if !ok || !isArr || !saKindOf(arr.Elem()).integer() {
		return "", fmt.Errorf("package-level variable %s: not an array literal of integers", v.Name())
	}
	var elts []string
	for _, e := range lit.Elts {
		if _, kv := e.(*ast.KeyValueExpr); kv {
			return "", fmt.Errorf("package-level variable %s: keyed element", v.Name())
		}
		tv, ok := pkgOf.info.Types[e]
		if !ok || tv.Value == nil {
			return "", fmt.Errorf("package-level variable %s: element that is not a constant", v.Name())
		}
		iv := constant.ToInt(tv.Value)
		if iv.Kind() != constant.Int {
			return "", fmt.Errorf("package-level variable %s: element that is not an integer", v.Name())
		}
		elts = append(elts, iv.ExactString())
	}
	if int64(len(elts)) != arr.Len() {
		return "", fmt.Errorf("package-level variable %s: %d elements for [%d]", v.Name(), len(elts), arr.Len())
	}
	// every use reads one element
	idxBase, written := map[*ast.Ident]bool{}, map[*ast.Ident]bool{}
	baseOf := func(e ast.Expr) *ast.Ident {
		if ie, ok := e.(*ast.IndexExpr); ok {
			if id, ok := ie.X.(*ast.Ident); ok {
				return id
			}
		}
		return nil
	}
	for _, fname := range fnames {
		ast.Inspect(pkgOf.files[fname], func(n ast.Node) bool {
			switch x := n.(type) {
			case *ast.IndexExpr:
				if id := baseOf(x); id != nil {
					idxBase[id] = true
				}
			case *ast.AssignStmt:
				for _, l := range x.Lhs {
					if id := baseOf(l); id != nil {
						written[id] = true
					}
				}
			case *ast.IncDecStmt:
				if id := baseOf(x.X); id != nil {
					written[id] = true
				}
			case *ast.UnaryExpr:
				if id := baseOf(x.X); id != nil && x.Op == token.AND {
					written[id] = true
				}
			}
			return true
		})
	}
	for id, o := range pkgOf.info.Uses {
		if o != v {
			continue
		}
		if !idxBase[id] || written[id] {
			return "", fmt.Errorf("%s: package-level variable %s is used other than as a read of %s[i]", gc.ld.fset.Position(id.Pos()), v.Name(), v.Name())
		}
	}
	et, err := gc.leanType(arr.Elem())
	if err != nil {
		return "", err
	}
	name := puLeanIdent(v.Name())
	for _, f := range gc.fns {
		if f.lean == name {
			return "", fmt.Errorf("table %s has the name of a function", name)
		}
	}
	var b strings.Builder
	fmt.Fprintf(&b, "/-- %s: package-level `var %s = [...]%s{…}` (%d constants), only ever read as %s[i] -/\ndef %s : List %s := [",
		strings.TrimPrefix(gc.ld.fset.Position(spec.Pos()).Filename, repo+"/"), v.Name(), arr.Elem(), len(elts), v.Name(), name, et)
	for i, e := range elts {
		if i > 0 {
			b.WriteString(", ")
		}
		if i%16 == 0 {
			b.WriteString("\n  ")
		}
		b.WriteString(e)
	}
	b.WriteString("]\n")
	gc.tables = append(gc.tables, b.String())
	gc.tname[v] = name
	return name, nil
}

// ---------------------------------------------------------------------------------------------- expressions

func (c *saFn) bind(op string) string {
	t := c.fresh()
	c.pre = append(c.pre, op+" >>= fun "+t+" =>")
	return t
}

func (c *saFn) takePre() []string {
	p := c.pre
	c.pre = nil
	return p
}

func (c *saFn) toInt(e ast.Expr) (string, error) {
	t, err := c.typeOf(e)
	if err != nil {
		return "", err
	}
	s, err := c.expr(e)
	if err != nil {
		return "", err
	}
	switch k := saKindOf(t); {
	case k == saInt:
		return s, nil
	case k.unsigned():
		return "(" + s + ".toNat : Int)", nil
	}
	return "", c.errf(e, "index of type %s", t)
}

func (c *saFn) localVar(x *ast.Ident) (*types.Var, error) {
	v, ok := c.info().ObjectOf(x).(*types.Var)
	if !ok {
		return nil, c.errf(x, "identifier %s outside the translated subset", x.Name)
	}
	if v.IsField() {
		return nil, c.errf(x, "bare field name")
	}
	if v.Parent() == nil || v.Parent() == v.Pkg().Scope() {
		return nil, c.errf(x, "package-level variable %s in this position", x.Name)
	}
	return v, nil
}

func (c *saFn) expr(e ast.Expr) (string, error) {
	if tv, ok := c.info().Types[e]; ok && tv.Value != nil {
		if _, err := c.typeOf(e); err != nil {
			return "", err
		}
		s, err := c.literal(tv.Value, tv.Type)
		if err != nil {
			return "", c.errf(e, "%v", err)
		}
		return s, nil
	}
	switch x := e.(type) {
	case *ast.ParenExpr:
		return c.expr(x.X)
	case *ast.Ident:
		v, err := c.localVar(x)
		if err != nil {
			return "", err
		}
		if k := saKindOf(v.Type()); k == saBad {
			return "", c.errf(x, "variable %s of type %s", x.Name, v.Type())
		} else if k == saPtr {
			return "", c.errf(x, "pointer %s as a value", x.Name)
		}
		return c.name(v), nil
	case *ast.SelectorExpr:
		sel, ok := c.info().Selections[x]
		if !ok || sel.Kind() != types.FieldVal || len(sel.Index()) != 1 {
			return "", c.errf(x, "selector outside the translated subset")
		}
		bt, err := c.typeOf(x.X)
		if err != nil {
			return "", err
		}
		var base string
		switch saKindOf(bt) {
		case saPtr:
			id, ok := x.X.(*ast.Ident)
			if !ok {
				return "", c.errf(x, "field through a pointer expression")
			}
			v, err := c.localVar(id)
			if err != nil {
				return "", err
			}
			base = c.name(v)
		case saStruct:
			if base, err = c.expr(x.X); err != nil {
				return "", err
			}
		default:
			return "", c.errf(x, "field of %s", bt)
		}
		if _, err := c.grp.leanType(bt); err != nil {
			return "", c.errf(x, "%v", err)
		}
		return base + "." + puLeanIdent(x.Sel.Name), nil
	case *ast.IndexExpr:
		if id, ok := x.X.(*ast.Ident); ok {
			if v, ok := c.info().ObjectOf(id).(*types.Var); ok && !v.IsField() && v.Parent() == v.Pkg().Scope() {
				tn, err := c.table(v)
				if err != nil {
					return "", c.errf(x, "%v", err)
				}
				i, err := c.toInt(x.Index)
				if err != nil {
					return "", err
				}
				return c.bind("Go.idx " + tn + " " + i), nil
			}
		}
		t, err := c.typeOf(x.X)
		if err != nil {
			return "", err
		}
		if saKindOf(t) != saList {
			return "", c.errf(e, "index into %s", t)
		}
		base, err := c.expr(x.X)
		if err != nil {
			return "", err
		}
		i, err := c.toInt(x.Index)
		if err != nil {
			return "", err
		}
		return c.bind("Go.idx " + base + " " + i), nil
	case *ast.BinaryExpr:
		return c.binary(x)
	case *ast.UnaryExpr:
		t, err := c.typeOf(x)
		if err != nil {
			return "", err
		}
		k := saKindOf(t)
		a, err := c.expr(x.X)
		if err != nil {
			return "", err
		}
		switch {
		case x.Op == token.NOT && k == saBool:
			return "(!" + a + ")", nil
		case x.Op == token.XOR && k.unsigned():
			return "(~~~" + a + ")", nil
		case x.Op == token.SUB && k.unsigned():
			return "((0 : " + saLeanUint[k] + ") - " + a + ")", nil
		}
		return "", c.errf(x, "unary %s on %s", x.Op, t)
	case *ast.CompositeLit:
		t, err := c.typeOf(x)
		if err != nil {
			return "", err
		}
		if saKindOf(t) != saList {
			return "", c.errf(x, "composite literal of %s", t)
		}
		var parts []string
		for _, el := range x.Elts {
			if _, kv := el.(*ast.KeyValueExpr); kv {
				return "", c.errf(el, "keyed element")
			}
			s, err := c.expr(el)
			if err != nil {
				return "", err
			}
			parts = append(parts, s)
		}
		if a, ok := t.Underlying().(*types.Array); ok && int64(len(parts)) != a.Len() {
			return "", c.errf(x, "array literal with %d of %d elements", len(parts), a.Len())
		}
		lt, err := c.grp.leanType(t)
		if err != nil {
			return "", c.errf(x, "%v", err)
		}
		return "([" + strings.Join(parts, ", ") + "] : " + strings.Trim(lt, "()") + ")", nil
	case *ast.CallExpr:
		return c.call(x)
	}
	return "", c.errf(e, "expression %T outside the translated subset", e)
}

func (c *saFn) binop(n ast.Node, op token.Token, t types.Type, l, r string, constR bool, zeroR bool) (string, error) {
	k := saKindOf(t)
	switch {
	case k.unsigned():
		if s := map[token.Token]string{token.ADD: "+", token.SUB: "-", token.MUL: "*", token.AND: "&&&", token.OR: "|||", token.XOR: "^^^"}[op]; s != "" {
			return "(" + l + " " + s + " " + r + ")", nil
		}
		switch {
		case op == token.AND_NOT:
			return "(" + l + " &&& ~~~" + r + ")", nil
		case (op == token.QUO || op == token.REM) && constR && !zeroR:
			return "(" + l + " " + map[token.Token]string{token.QUO: "/", token.REM: "%"}[op] + " " + r + ")", nil
		}
	case k == saInt:
		if fn := map[token.Token]string{token.ADD: "Go.iadd", token.SUB: "Go.isub", token.MUL: "Go.imul"}[op]; fn != "" {
			return "(" + fn + " " + l + " " + r + ")", nil
		}
	}
	return "", c.errf(n, "operator %s on %s outside the translated subset", op, t)
}

func (c *saFn) binary(x *ast.BinaryExpr) (string, error) {
	switch x.Op {
	case token.LAND, token.LOR:
		n := len(c.pre)
		l, err := c.expr(x.X)
		if err != nil {
			return "", err
		}
		r, err := c.expr(x.Y)
		if err != nil {
			return "", err
		}
		if len(c.pre) != n {
			return "", c.errf(x, "operand of %s that can fail (short-circuit evaluation is not translated)", x.Op)
		}
		return "(" + l + map[token.Token]string{token.LAND: " && ", token.LOR: " || "}[x.Op] + r + ")", nil
	case token.EQL, token.NEQ, token.LSS, token.LEQ, token.GTR, token.GEQ:
		tx, err := c.typeOf(x.X)
		if err != nil {
			return "", err
		}
		ty, err := c.typeOf(x.Y)
		if err != nil {
			return "", err
		}
		kx, ky := saKindOf(tx), saKindOf(ty)
		if kx != ky || !(kx.integer() || (kx == saBool && (x.Op == token.EQL || x.Op == token.NEQ))) {
			return "", c.errf(x, "comparison of %s with %s", tx, ty)
		}
		l, err := c.expr(x.X)
		if err != nil {
			return "", err
		}
		r, err := c.expr(x.Y)
		if err != nil {
			return "", err
		}
		op := map[token.Token]string{token.EQL: "=", token.NEQ: "≠", token.LSS: "<", token.LEQ: "≤", token.GTR: ">", token.GEQ: "≥"}[x.Op]
		return "(decide (" + l + " " + op + " " + r + "))", nil
	case token.SHL, token.SHR:
		t, err := c.typeOf(x)
		if err != nil {
			return "", err
		}
		k := saKindOf(t)
		if !k.unsigned() {
			return "", c.errf(x, "shift of %s", t)
		}
		a, err := c.expr(x.X)
		if err != nil {
			return "", err
		}
		if tv := c.info().Types[x.Y]; tv.Value != nil {
			iv := constant.ToInt(tv.Value)
			n, exact := constant.Int64Val(iv)
			if iv.Kind() != constant.Int || !exact || n < 0 {
				return "", c.errf(x, "shift count")
			}
			if n >= int64(k.width()) {
				return "(0 : " + saLeanUint[k] + ")", nil
			}
			return fmt.Sprintf("(%s %s (%d : %s))", a, map[token.Token]string{token.SHL: "<<<", token.SHR: ">>>"}[x.Op], n, saLeanUint[k]), nil
		}
		ty, err := c.typeOf(x.Y)
		if err != nil {
			return "", err
		}
		if !saKindOf(ty).unsigned() || (k != saU32 && k != saU64) {
			return "", c.errf(x, "shift of %s by a variable count of type %s", t, ty)
		}
		n, err := c.expr(x.Y)
		if err != nil {
			return "", err
		}
		return fmt.Sprintf("(Go.%s%d %s %s.toNat)", map[token.Token]string{token.SHL: "shlv", token.SHR: "shrv"}[x.Op], k.width(), a, n), nil
	}
	t, err := c.typeOf(x)
	if err != nil {
		return "", err
	}
	l, err := c.expr(x.X)
	if err != nil {
		return "", err
	}
	r, err := c.expr(x.Y)
	if err != nil {
		return "", err
	}
	constR, zeroR := false, false
	if tv := c.info().Types[x.Y]; tv.Value != nil {
		constR = true
		zeroR = constant.Sign(constant.ToInt(tv.Value)) == 0
	}
	return c.binop(x, x.Op, t, l, r, constR, zeroR)
}

func (c *saFn) convert(call *ast.CallExpr, to types.Type) (string, error) {
	if len(call.Args) != 1 {
		return "", c.errf(call, "conversion with %d operands", len(call.Args))
	}
	from, err := c.typeOf(call.Args[0])
	if err != nil {
		return "", err
	}
	a, err := c.expr(call.Args[0])
	if err != nil {
		return "", err
	}
	kf, kt := saKindOf(from), saKindOf(to)
	switch {
	case kf == kt && kf.integer():
		return a, nil
	case kf.unsigned() && kt.unsigned():
		return "(" + a + ".to" + saLeanUint[kt] + ")", nil
	case kf == saInt && kt.unsigned():
		return "(" + saLeanUint[kt] + ".ofInt " + a + ")", nil
	case kf.unsigned() && kt == saInt:
		if kf == saU64 {
			return "(Go.wrapInt (" + a + ".toNat : Int))", nil
		}
		return "(" + a + ".toNat : Int)", nil
	}
	return "", c.errf(call, "conversion from %s to %s outside the translated subset", from, to)
}

func (c *saFn) callee(call *ast.CallExpr) (*saFn, *ast.Ident, error) {
	switch f := call.Fun.(type) {
	case *ast.Ident:
		if o, ok := c.info().Uses[f].(*types.Func); ok {
			return c.grp.byObj[o], nil, nil
		}
	case *ast.SelectorExpr:
		if sel, ok := c.info().Selections[f]; ok && sel.Kind() == types.MethodVal {
			if o, ok := sel.Obj().(*types.Func); ok {
				if c.grp.byObj[o] == nil {
					return nil, nil, nil
				}
				id, ok := f.X.(*ast.Ident)
				if !ok {
					return nil, nil, c.errf(call, "method call on an expression that is not a variable")
				}
				return c.grp.byObj[o], id, nil
			}
		}
		if id, ok := f.X.(*ast.Ident); ok {
			if _, isPkg := c.info().Uses[id].(*types.PkgName); isPkg {
				if o, ok := c.info().Uses[f.Sel].(*types.Func); ok {
					return c.grp.byObj[o], nil, nil
				}
			}
		}
	}
	return nil, nil, nil
}

func (c *saFn) builtin(call *ast.CallExpr) string {
	if id, ok := call.Fun.(*ast.Ident); ok {
		if _, ok := c.info().Uses[id].(*types.Builtin); ok {
			return id.Name
		}
	}
	return ""
}

// call: a call in expression position (one result, nothing changed)
func (c *saFn) call(x *ast.CallExpr) (string, error) {
	if x.Ellipsis.IsValid() {
		return "", c.errf(x, "f(xs...)")
	}
	if tv, ok := c.info().Types[x.Fun]; ok && tv.IsType() {
		return c.convert(x, tv.Type)
	}
	switch c.builtin(x) {
	case "len":
		t, err := c.typeOf(x.Args[0])
		if err != nil {
			return "", err
		}
		if _, isSlice := t.Underlying().(*types.Slice); !isSlice || saKindOf(t) != saList {
			return "", c.errf(x, "len of %s", t)
		}
		a, err := c.expr(x.Args[0])
		if err != nil {
			return "", err
		}
		return "(Go.len " + a + ")", nil
	case "make":
		t, err := c.typeOf(x)
		if err != nil {
			return "", err
		}
		sl, ok := t.Underlying().(*types.Slice)
		if !ok || len(x.Args) != 2 || saKindOf(t) != saList {
			return "", c.errf(x, "make outside the translated subset")
		}
		z, err := c.grp.zero(sl.Elem())
		if err != nil {
			return "", c.errf(x, "%v", err)
		}
		n, err := c.toInt(x.Args[1])
		if err != nil {
			return "", err
		}
		return c.bind("Go.make " + z + " " + n), nil
	case "new":
		return "", c.errf(x, "new(T) outside `p := new(T)`")
	case "":
	default:
		return "", c.errf(x, "builtin %s", c.builtin(x))
	}
	switch c.stdName(x) {
	case "encoding/binary.BigEndian.Uint32", "encoding/binary.BigEndian.Uint64":
		if len(x.Args) != 1 {
			break
		}
		a, err := c.sliceArg(x.Args[0])
		if err != nil {
			return "", err
		}
		return c.bind("Go.beU" + strings.TrimPrefix(c.stdName(x), "encoding/binary.BigEndian.Uint") + " " + a), nil
	}
	f, rx, err := c.callee(x)
	if err != nil {
		return "", err
	}
	if f == nil {
		return "", c.errf(x, "call of a function that is not listed")
	}
	if f.mutRecv || len(f.outList()) > 0 {
		return "", c.errf(x, "call of a function that changes its receiver / an argument inside an expression")
	}
	if f.sig.Results().Len() != 1 {
		return "", c.errf(x, "call with %d results inside an expression", f.sig.Results().Len())
	}
	if saKindOf(f.sig.Results().At(0).Type()) == saPtr {
		return "", c.errf(x, "pointer-valued call outside `p := f(…)`")
	}
	app, err := c.app(x, f, rx)
	if err != nil {
		return "", err
	}
	if f.monadic {
		return c.bind(app), nil
	}
	return "(" + app + ")", nil
}

func (c *saFn) app(x *ast.CallExpr, f *saFn, rx *ast.Ident) (string, error) {
	name := f.lean
	if f == c && c.self != "" {
		name = c.self + " fuel"
	}
	parts := []string{name}
	if rx != nil {
		v, err := c.localVar(rx)
		if err != nil {
			return "", err
		}
		parts = append(parts, c.name(v))
	}
	for _, a := range x.Args {
		if t, err := c.typeOf(a); err != nil {
			return "", err
		} else if saKindOf(t) == saPtr {
			return "", c.errf(a, "pointer argument")
		}
		s, err := c.expr(a)
		if err != nil {
			return "", err
		}
		parts = append(parts, s)
	}
	return strings.Join(parts, " "), nil
}

func (c *saFn) outList() []*types.Var {
	var o []*types.Var
	for i := 0; i < c.sig.Params().Len(); i++ {
		if p := c.sig.Params().At(i); c.outs[p] {
			o = append(o, p)
		}
	}
	return o
}

// stdName: "encoding/binary.BigEndian.Uint32" for binary.BigEndian.Uint32(…)
func (c *saFn) stdName(call *ast.CallExpr) string {
	sel, ok := call.Fun.(*ast.SelectorExpr)
	if !ok {
		return ""
	}
	in, ok := sel.X.(*ast.SelectorExpr)
	if !ok {
		return ""
	}
	id, ok := in.X.(*ast.Ident)
	if !ok {
		return ""
	}
	pn, ok := c.info().Uses[id].(*types.PkgName)
	if !ok {
		return ""
	}
	return pn.Imported().Path() + "." + in.Sel.Name + "." + sel.Sel.Name
}

// sliceArg: a byte-slice operand that is read on the spot (operand of binary.BigEndian.UintN, source of copy): a list value,
// x[a:b] / x[a:] / x[:b] of an ARRAY (cap = len = N: the bounds are checked against the length, as Go does), x[a:] of a slice
// (checked against len). x[a:b] of a slice is refused: its limit is cap(x), which the carrier does not have.
func (c *saFn) sliceArg(e ast.Expr) (string, error) {
	for {
		p, ok := e.(*ast.ParenExpr)
		if !ok {
			break
		}
		e = p.X
	}
	se, ok := e.(*ast.SliceExpr)
	if !ok {
		t, err := c.typeOf(e)
		if err != nil {
			return "", err
		}
		if saKindOf(t) != saList || saKindOf(saElem(t)) != saU8 {
			return "", c.errf(e, "operand of type %s where octets are read", t)
		}
		return c.expr(e)
	}
	if se.Slice3 || se.Max != nil {
		return "", c.errf(e, "three-index slice")
	}
	t, err := c.typeOf(se.X)
	if err != nil {
		return "", err
	}
	if saKindOf(t) != saList || saKindOf(saElem(t)) != saU8 {
		return "", c.errf(e, "slice of %s", t)
	}
	_, isArr := t.Underlying().(*types.Array)
	base, err := c.expr(se.X)
	if err != nil {
		return "", err
	}
	lo := "(0 : Int)"
	if se.Low != nil {
		if lo, err = c.toInt(se.Low); err != nil {
			return "", err
		}
	}
	if se.High == nil {
		if se.Low == nil {
			return base, nil
		}
		return c.bind("Go.sliceFrom " + base + " " + lo), nil
	}
	if !isArr {
		return "", c.errf(e, "x[a:b] of a slice (its limit is cap(x), which the carrier does not have)")
	}
	hi, err := c.toInt(se.High)
	if err != nil {
		return "", err
	}
	return c.bind("Go.slice " + base + " " + lo + " " + hi), nil
}
