package main

import (
	"fmt"
	"os"
	"path/filepath"
	"strings"

	st "verifharness/cmd/gen/pureselftest"
)

// pure-selftest-ext: the self-test of the slice-walker grammar (pure_extract.go): see pureselftest/ext.go. Output
// Gen/PureSelftestExt.lean = the translation of that file + one `example … := by decide +kernel` per executed call. A
// disagreement between the translator (or Gen/PureRtSl.lean) and the Go compiler on any of these calls makes the module fail
// to build.
func init() { register("pure-selftest-ext", genPxSelftest) }

var pxSelftestGroup = &pxGroup{name: "pure-selftest-ext", ns: "SelftestExt", targets: []puTarget{
	{pkg: "pureselftest", file: "ext.go", fn: "XIdx"}, {pkg: "pureselftest", file: "ext.go", fn: "XFrom"},
	{pkg: "pureselftest", file: "ext.go", fn: "XSlice"}, {pkg: "pureselftest", file: "ext.go", fn: "XTo"},
	{pkg: "pureselftest", file: "ext.go", fn: "XReslice"}, {pkg: "pureselftest", file: "ext.go", fn: "XBE"},
	{pkg: "pureselftest", file: "ext.go", fn: "XWrap16"}, {pkg: "pureselftest", file: "ext.go", fn: "XIdxU"},
	{pkg: "pureselftest", file: "ext.go", fn: "XConv"}, {pkg: "pureselftest", file: "ext.go", fn: "XConvU"}, {pkg: "pureselftest", file: "ext.go", fn: "XArith"},
	{pkg: "pureselftest", file: "ext.go", fn: "XMap"}, {pkg: "pureselftest", file: "ext.go", fn: "XWalk"},
	{pkg: "pureselftest", file: "ext.go", fn: "XTwo"}, {pkg: "pureselftest", file: "ext.go", fn: "XJoin"},
	{pkg: "pureselftest", file: "ext.go", fn: "XTop"},
}}

// pxArg: a slice of n octets whose backing array goes on with the rest of buf, and its Lean carrier
func pxArg(buf []byte, n int) ([]byte, string) {
	b := append([]byte(nil), buf...)
	return b[:n:len(b)], pxSlLit(b, n)
}

func pxSlLit(mem []byte, n int) string {
	parts := make([]string, len(mem))
	for i, x := range mem {
		parts[i] = fmt.Sprint(x)
	}
	return fmt.Sprintf("(⟨[%s], %d⟩ : Go.Sl)", strings.Join(parts, ", "), n)
}

// pxRes: a returned slice as its carrier (the octets up to its capacity, its length)
func pxRes(r []byte) string {
	if r == nil {
		return "(⟨[], 0⟩ : Go.Sl)"
	}
	return pxSlLit(r[:cap(r)], len(r))
}

type pxCase struct {
	fn, args string
	fuel     int // < 0: the function takes none
	hang     bool
	run      func() string
}

func pxSelftestCases() []pxCase {
	var cs []pxCase
	add := func(fn, args string, run func() string) {
		cs = append(cs, pxCase{fn: fn, args: args, fuel: -1, run: run})
	}
	type in struct {
		buf []byte
		n   int
	}
	const minInt = -1 << 63
	const maxInt = 1<<63 - 1
	ins := []in{{nil, 0}, {[]byte{7}, 0}, {[]byte{1, 2, 3, 4, 5, 6, 7, 8}, 3}, {[]byte{9, 8, 7, 6}, 4}, {[]byte{0, 139, 0, 4, 1, 2, 3, 4, 5, 6}, 6}}
	for _, x := range ins {
		x := x
		for _, i := range []int{-1, 0, 2, 3, 4, 7, 8, maxInt, minInt} {
			i := i
			p, l := pxArg(x.buf, x.n)
			add("XIdx", l+" "+puI(i), func() string { return puU(uint64(st.XIdx(p, i)), "UInt8") })
			add("XFrom", l+" "+puI(i), func() string { return pxRes(st.XFrom(p, i)) })
		}
		for _, ab := range [][2]int{{0, 0}, {0, 3}, {1, 4}, {2, 8}, {3, 9}, {4, 3}, {-1, 2}, {0, -1}, {8, 8}, {9, 9}, {3, 3}, {0, maxInt}, {minInt, 0}} {
			ab := ab
			p, l := pxArg(x.buf, x.n)
			add("XSlice", l+" "+puI(ab[0])+" "+puI(ab[1]), func() string { return pxRes(st.XSlice(p, ab[0], ab[1])) })
			add("XReslice", l+" "+puI(ab[0])+" "+puI(ab[1]), func() string {
				r, n := st.XReslice(p, ab[0], ab[1])
				return "(" + pxRes(r) + ", " + puI(n) + ")"
			})
		}
		for _, b := range []uint8{0, 1, 3, 4, 8, 9, 255} {
			b := b
			p, l := pxArg(x.buf, x.n)
			add("XTo", l+" "+puU(uint64(b), "UInt8"), func() string { return pxRes(st.XTo(p, b)) })
		}
		for _, k := range []uint16{0, 1, 2, 3, 0xfffa, 0xfffb, 0xfffc, 0xfffd, 0xffff, 4} {
			k := k
			p, l := pxArg(x.buf, x.n)
			add("XWrap16", l+" "+puU(uint64(k), "UInt16"), func() string { return pxRes(st.XWrap16(p, k)) })
		}
		for _, t := range []struct {
			a uint8
			b uint32
			c uint64
		}{{0, 0, 0}, {2, 1, 0}, {0, 3, 0}, {0, 0, 5}, {255, 0, 0}, {0, 0xffffffff, 0}, {0, 0, 1 << 63}, {1, 2, 0xffffffffffffffff}} {
			t := t
			p, l := pxArg(x.buf, x.n)
			add("XIdxU", l+" "+puU(uint64(t.a), "UInt8")+" "+puU(uint64(t.b), "UInt32")+" "+puU(t.c, "UInt64"), func() string {
				a, b, c := st.XIdxU(p, t.a, t.b, t.c)
				return "(" + puU(uint64(a), "UInt8") + ", " + puU(uint64(b), "UInt8") + ", " + puU(uint64(c), "UInt8") + ")"
			})
		}
	}
	for _, x := range []in{{nil, 0}, {[]byte{1}, 1}, {[]byte{1, 2}, 2}, {[]byte{1, 2, 3, 4, 5}, 1}, {[]byte{1, 2, 3, 4}, 4}, {[]byte{0xfe, 0xdc, 0xba, 0x98, 0x76}, 5},
		{[]byte{0xff, 0xff, 0xff, 0xff, 0xff, 0xff}, 5}, {[]byte{0, 1, 0, 0, 0, 9}, 6}} {
		p, l := pxArg(x.buf, x.n)
		add("XBE", l, func() string {
			a, b := st.XBE(p)
			return "(" + puU(uint64(a), "UInt16") + ", " + puU(uint64(b), "UInt32") + ")"
		})
	}
	for _, t := range []struct {
		a uint8
		b uint16
		c uint32
		d uint64
	}{{0, 0, 0, 0}, {255, 65535, 0xffffffff, 0xffffffffffffffff}, {200, 0x1234, 0x89abcdef, 0x1ff}, {1, 0x8001, 0x10000, 256}} {
		t := t
		add("XConv", puU(uint64(t.a), "UInt8")+" "+puU(uint64(t.b), "UInt16")+" "+puU(uint64(t.c), "UInt32")+" "+puU(t.d, "UInt64"), func() string {
			a, b, c, d := st.XConv(t.a, t.b, t.c, t.d)
			return "(" + puI(a) + ", " + puI(b) + ", " + puI(c) + ", " + puU(uint64(d), "UInt8") + ")"
		})
		add("XConvU", puU(uint64(t.a), "UInt8")+" "+puU(uint64(t.b), "UInt16")+" "+puU(uint64(t.c), "UInt32"), func() string {
			e, f, g, h := st.XConvU(t.a, t.b, t.c)
			return "(" + puU(uint64(e), "UInt16") + ", " + puU(uint64(f), "UInt32") + ", " + puU(g, "UInt64") + ", " + puU(uint64(h), "UInt8") + ")"
		})
	}
	for _, t := range []struct {
		a, b int
		x, y uint8
	}{{0, 0, 0, 0}, {3, 4, 16, 16}, {maxInt, maxInt, 255, 255}, {minInt, -1, 7, 250}, {-3, 1 << 62, 200, 3}, {5, -5, 1, 2}, {7, 7, 9, 9}, {maxInt, minInt, 0, 1}} {
		t := t
		add("XArith", puI(t.a)+" "+puI(t.b)+" "+puU(uint64(t.x), "UInt8")+" "+puU(uint64(t.y), "UInt8"), func() string {
			c, z, ok := st.XArith(t.a, t.b, t.x, t.y)
			return "(" + puI(c) + ", " + puU(uint64(z), "UInt8") + ", " + puB(ok) + ")"
		})
	}
	for _, k := range []byte{0, 0x10, 0x20, 0x30, 0x40, 0x41, 0xff} {
		k := k
		add("XMap", puU(uint64(k), "UInt8"), func() string { return puI(st.XMap(k)) })
	}
	// the loops: with ample fuel, and with exactly the fuel the walk needs / one unit less (n iterations and the final
	// test of the condition use n+1 units; a walk left by break uses n)
	walks := []in{{nil, 0}, {[]byte{0x10, 0, 0x10, 1}, 4}, {[]byte{0x10, 0, 0x10, 1}, 3}, {[]byte{0x80, 0xC5, 0xE1, 0xA0, 0x10, 9}, 6},
		{[]byte{0x20, 2, 1, 1, 0xFF, 5, 6, 7}, 5}, {[]byte{0x20, 2, 1, 1, 0xFF, 5, 6, 7}, 8}, {[]byte{0x20, 2, 1, 1, 0xFF, 5}, 6},
		{[]byte{0x30, 0, 1, 9, 0x40, 0xFF}, 6}, {[]byte{0x30, 0, 1, 9, 0x40, 0xFF}, 2}, {[]byte{0x30, 0}, 2}, {[]byte{0x20}, 1}, {[]byte{0x20, 200, 0xff}, 2},
		{[]byte{0, 0, 0, 0x55, 0x10}, 5}, {[]byte{0x55}, 1}, {[]byte{0x40, 1, 2, 3, 4, 0xFF, 1, 2}, 8}, {[]byte{0x40, 1, 2, 3, 4, 0xFF, 1, 2}, 6},
		{[]byte{0x30, 0xff, 0xff}, 3}, {[]byte{0xFF, 1}, 1}, {[]byte{0xFF, 1, 2}, 1}}
	for _, x := range walks {
		x := x
		p, l := pxArg(x.buf, x.n)
		run := func() string {
			n, f, i := st.XWalk(p)
			return "(" + puI(n) + ", " + pxRes(f) + ", " + puI(i) + ")"
		}
		cs = append(cs, pxCase{fn: "XWalk", args: l, fuel: 40, run: run})
		// how many units the walk needs: measured
		if _, panicked := puRun(run); !panicked {
			n, _, i := st.XWalk(p)
			need := n + 1
			if i < len(p) { // left by break: the condition was not tested again
				need = n
			}
			cs = append(cs, pxCase{fn: "XWalk", args: l, fuel: need, run: run})
			if need > 0 {
				cs = append(cs, pxCase{fn: "XWalk", args: l, fuel: need - 1, hang: true})
			}
		}
	}
	for _, x := range []in{{nil, 0}, {[]byte{1, 2, 3}, 3}, {[]byte{1, 2, 0, 3}, 4}, {[]byte{5, 5, 5, 5}, 2}} {
		for _, k := range []int{-4, 0, 1, 4, 9, 50} {
			x, k := x, k
			p, l := pxArg(x.buf, x.n)
			cs = append(cs, pxCase{fn: "XTwo", args: l + " " + puI(k), fuel: 60, run: func() string {
				a, b := st.XTwo(p, k)
				return "(" + puI(a) + ", " + puI(b) + ")"
			}})
		}
	}
	cs = append(cs, pxCase{fn: "XTwo", args: pxSlLit([]byte{1, 2, 3}, 3) + " " + puI(50), fuel: 4, hang: true}) // the second loop needs 46
	cs = append(cs, pxCase{fn: "XTwo", args: pxSlLit([]byte{1, 2, 3}, 3) + " " + puI(2), fuel: 3, hang: true})  // the first loop needs 4
	for _, x := range []in{{nil, 0}, {[]byte{1, 9, 9, 1, 1, 9}, 6}, {[]byte{9, 9, 9}, 3}, {[]byte{0, 0, 0, 9}, 3}} {
		for _, t := range []int{-1, 0, 5, 300} {
			x, t := x, t
			p, l := pxArg(x.buf, x.n)
			cs = append(cs, pxCase{fn: "XJoin", args: l + " " + puI(t), fuel: 10, run: func() string { return puI(st.XJoin(p, t)) }})
		}
	}
	for _, b := range []byte{0, 0x80, 0xff, 0x55} {
		for _, x := range []in{{nil, 0}, {[]byte{3}, 0}, {[]byte{3, 4}, 1}} {
			b, x := b, x
			p, l := pxArg(x.buf, x.n)
			add("XTop", puU(uint64(b), "UInt8")+" "+l, func() string { return puI(st.XTop(b, p)) })
		}
	}
	return cs
}

func genPxSelftest() error {
	tmp, err := os.MkdirTemp("", "pureselftestext")
	if err != nil {
		return err
	}
	defer os.RemoveAll(tmp)
	dir := filepath.Join(tmp, "src", "pureselftest")
	if err := os.MkdirAll(dir, 0o755); err != nil {
		return err
	}
	if err := os.WriteFile(filepath.Join(dir, "ext.go"), []byte(st.ExtSource), 0o644); err != nil {
		return err
	}
	saveRepo, saveRoots := repo, puRepoRoots
	repo, puRepoRoots = tmp, []string{"pureselftest"}
	defer func() { repo, puRepoRoots = saveRepo, saveRoots }()
	if err := writeIfChanged("PureRt.lean", puRuntimeLean); err != nil {
		return err
	}
	if err := writeIfChanged("PureRtSl.lean", pxRuntimeLean); err != nil {
		return err
	}
	out, gen, err := genPx(newPuLoader([]string{"pureselftest"}), pxSelftestGroup, true)
	if err != nil {
		return err
	}
	var b strings.Builder
	b.WriteString("\n/-! ### the translated functions against the compiled ones (outcomes computed by this run of `gen pure-selftest-ext`) -/\n")
	b.WriteString(`local instance {α : Type} [DecidableEq α] : DecidableEq (Res α)
  | .ok a, .ok b => if h : a = b then isTrue (by rw [h]) else isFalse (by intro e; cases e; exact h rfl)
  | .error a, .error b => if h : a = b then isTrue (by rw [h]) else isFalse (by intro e; cases e; exact h rfl)
  | .ok _, .error _ => isFalse (by intro e; cases e)
  | .error _, .ok _ => isFalse (by intro e; cases e)

`)
	nPanic, nHang := 0, 0
	cases := pxSelftestCases()
	for _, cs := range cases {
		f := gen.fns[cs.fn]
		if f == nil {
			return fail("pure-selftest-ext: case for %s, which is not translated", cs.fn)
		}
		if f.fuel != (cs.fuel >= 0) {
			return fail("pure-selftest-ext: %s: fuel argument expected/unexpected", cs.fn)
		}
		args := cs.args
		if cs.fuel >= 0 {
			args = fmt.Sprint(cs.fuel) + " " + args
		}
		var res string
		if cs.hang {
			res = ".error .hang"
			nHang++
		} else {
			r, panicked := puRun(cs.run)
			if panicked {
				res = ".error .panic"
				nPanic++
			} else {
				res = ".ok " + r
			}
		}
		fmt.Fprintf(&b, "example : %s %s = %s := by decide +kernel\n", cs.fn, args, res)
	}
	fmt.Fprintf(&b, "\n-- %d calls, %d of them panics, %d of them out of fuel\n", len(cases), nPanic, nHang)
	end := "end Stgutg.Gen.Pure.SelftestExt\n"
	out = strings.TrimSuffix(out, end) + b.String() + "\n" + end
	return writeIfChanged("PureSelftestExt.lean", out)
}
