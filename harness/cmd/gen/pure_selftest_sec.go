package main

import (
	"fmt"
	"os"
	"path/filepath"
	"strings"

	st "verifharness/cmd/gen/pureselftest"
)

// pure-selftest-sec: the self-test of the word-machine grammar (pure_secalg.go): see pureselftest/sec.go. Output
// Gen/PureSelftestSec.lean = the translation of that file + one `example … := by decide +kernel` per executed call: the object
// behind the receiver as the compiled method left it, the Go results and every out-parameter.
func init() { register("pure-selftest-sec", genPureSelftestSec) }

var saSelftest = &saGroup{name: "pure-selftest-sec", ns: "SelftestSec", targets: []puTarget{
	{pkg: "pureselftest", file: "sec.go", fn: "SecMulx"}, {pkg: "pureselftest", file: "sec.go", fn: "SecPow"},
	{pkg: "pureselftest", file: "sec.go", fn: "SecTri"}, {pkg: "pureselftest", file: "sec.go", fn: "SecLook"},
	{pkg: "pureselftest", file: "sec.go", fn: "SecArr"}, {pkg: "pureselftest", file: "sec.go", fn: "SecMach.Rot"},
	{pkg: "pureselftest", file: "sec.go", fn: "SecMach.Step"}, {pkg: "pureselftest", file: "sec.go", fn: "SecMach.Peek"},
	{pkg: "pureselftest", file: "sec.go", fn: "NewSecMach"}, {pkg: "pureselftest", file: "sec.go", fn: "SecMach.Fill"},
	{pkg: "pureselftest", file: "sec.go", fn: "SecMach.FillTwice"}, {pkg: "pureselftest", file: "sec.go", fn: "SecRun"},
	{pkg: "pureselftest", file: "sec.go", fn: "SecMake"}, {pkg: "pureselftest", file: "sec.go", fn: "SecShift"},
	{pkg: "pureselftest", file: "sec.go", fn: "SecOps"}, {pkg: "pureselftest", file: "sec.go", fn: "SecOuter"},
}}

var saSelftestB = &saGroup{name: "pure-selftest-sec", ns: "SelftestSecB", imports: []*saGroup{saSelftest}, targets: []puTarget{
	{pkg: "pureselftest", file: "sec.go", fn: "SecMac"},
}}

func saSelfCasesB() []buCase {
	var cs []buCase
	msgs := [][]byte{nil, {1, 2, 3}, {1, 2, 3, 4, 5, 6, 7, 8}, {0xff, 0xfe, 0xfd, 0xfc, 0xfb, 0xfa, 0xf9, 0xf8, 0x80, 0x7f, 9},
		{1, 2, 3, 4, 5, 6, 7, 8, 9, 10, 11, 12, 13, 14, 15, 16, 17, 18, 19, 20}}
	keys := [][8]byte{{1, 2, 3, 4, 5, 6, 7, 8}, {0xff, 0x80, 0x7f, 0, 0xde, 0xad, 0xbe, 0xef}}
	for _, key := range keys {
		for _, msg := range msgs {
			for _, n := range []uint64{0, 1, 2, 3, 1 << 61} {
				for _, ab := range [][2]uint32{{0, 4}, {4, 8}, {2, 8}, {3, 7}, {3, 6}, {5, 9}, {6, 2}, {7, 0xffffffff}} {
					key, msg, n, ab := key, msg, n, ab
					cs = append(cs, buCase{"SecMac", puBytesLit(key[:]) + " " + puBytesLit(msg) + " " + puU(n, "UInt64") + " " + puU(uint64(ab[0]), "UInt32") + " " + puU(uint64(ab[1]), "UInt32"),
						func() string {
							mac, err := st.SecMac(key, msg, n, ab[0], ab[1])
							return "(" + puBytesLit(mac) + ", " + puB(err != nil) + ")"
						}})
				}
			}
		}
	}
	return cs
}

func saU32s(xs []uint32) string {
	if len(xs) == 0 {
		return "([] : List UInt32)"
	}
	p := make([]string, len(xs))
	for i, x := range xs {
		p[i] = fmt.Sprint(x)
	}
	return "([" + strings.Join(p, ", ") + "] : List UInt32)"
}

func saMach(m *st.SecMach) string {
	return fmt.Sprintf("({ Reg := ({ W := %s } : SecRegs), Acc := ([%d, %d] : List UInt64), N := %s, On := %s } : SecMach)",
		saU32s(m.Reg.W[:]), m.Acc[0], m.Acc[1], puU(uint64(m.N), "UInt8"), puB(m.On))
}

func saSelfCases() []buCase {
	var cs []buCase
	add := func(fn, args string, run func() string) { cs = append(cs, buCase{fn, args, run}) }
	u8, u16, u32, u64 := func(v uint8) string { return puU(uint64(v), "UInt8") }, func(v uint16) string { return puU(uint64(v), "UInt16") },
		func(v uint32) string { return puU(uint64(v), "UInt32") }, func(v uint64) string { return puU(v, "UInt64") }
	for _, p := range [][2]uint8{{0, 0}, {0x80, 0x1b}, {0x7f, 0xa9}, {0xff, 0xff}, {0x81, 0}} {
		p := p
		add("SecMulx", u8(p[0])+" "+u8(p[1]), func() string { return u8(st.SecMulx(p[0], p[1])) })
	}
	for _, b := range []uint32{0, 3, 0xffffffff, 0x10001} {
		for _, n := range []uint8{0, 1, 5, 31, 255} {
			b, n := b, n
			add("SecPow", u32(b)+" "+u8(n), func() string { return u32(st.SecPow(b, n)) })
		}
	}
	for _, n := range []int{-3, 0, 1, 10, 100} {
		n := n
		add("SecTri", puI(n), func() string { return puI(st.SecTri(n)) })
	}
	for _, a := range []uint8{0, 7, 9, 255} {
		for _, b := range []uint32{0, 0x70000000, 0xffffffff} {
			for _, i := range []int{-1, 0, 3, 7, 8, 1 << 40} {
				a, b, i := a, b, i
				add("SecLook", u8(a)+" "+u32(b)+" "+puI(i), func() string { return u32(st.SecLook(a, b, i)) })
			}
		}
	}
	seeds := [][4]uint32{{0, 0, 0, 0}, {1, 2, 3, 4}, {0xffffffff, 0x80000000, 0x7fffffff, 0xfffffffb}, {0xdeadbeef, 0x01234567, 0x89abcdef, 0x00ff00ff}}
	for _, s := range seeds {
		for _, k := range []int{-1, 0, 1, 2, 3, 4} {
			s, k := s, k
			add("SecArr", saU32s(s[:])+" "+puI(k), func() string { return u32(st.SecArr(s, k)) })
		}
	}
	machs := []st.SecMach{{}, {Reg: st.SecRegs{W: [4]uint32{1, 2, 3, 4}}, Acc: [2]uint64{5, 6}, N: 1, On: true},
		{Reg: st.SecRegs{W: [4]uint32{0xffffffff, 0xfffffffe, 0x80000000, 0x7fffffff}}, Acc: [2]uint64{1 << 63, 0xffffffffffffffff}, N: 255}}
	for _, m := range machs {
		for _, k := range []int{-1, 0, 2, 3, 4, 9} {
			m, k := m, k
			add("SecMach.Rot", saMach(&m)+" "+puI(k), func() string {
				x := m
				x.Rot(k)
				return saMach(&x)
			})
		}
		for _, x := range []uint32{0, 0xfffffff0, 77} {
			for _, d := range []uint8{0, 1, 2, 7, 254} {
				m, x, d := m, x, d
				add("SecMach.Step", saMach(&m)+" "+u32(x)+" "+u8(d), func() string {
					y := m
					r := y.Step(x, d)
					return "(" + saMach(&y) + ", " + u32(r) + ")"
				})
			}
		}
		m := m
		add("SecMach.Peek", saMach(&m), func() string { y := m; return u64(y.Peek()) })
		for _, n := range []int{-2, 0, 1, 3, 4} {
			for _, out := range [][]uint32{{}, {9}, {9, 8, 7}, {1, 2, 3, 4, 5}} {
				n, out := n, out
				add("SecMach.Fill", saMach(&m)+" "+puI(n)+" "+saU32s(out), func() string {
					y, o := m, append([]uint32(nil), out...)
					y.Fill(n, o)
					return "(" + saMach(&y) + ", " + saU32s(o) + ")"
				})
				add("SecMach.FillTwice", saMach(&m)+" "+puI(n)+" "+saU32s(out), func() string {
					y, o := m, append([]uint32(nil), out...)
					r := y.FillTwice(n, o)
					return "(" + saMach(&y) + ", " + u32(r) + ", " + saU32s(o) + ")"
				})
			}
		}
	}
	for _, s := range seeds {
		for _, r := range []int{-1, 0, 1, 3} {
			s, r := s, r
			add("NewSecMach", saU32s(s[:])+" "+puI(r), func() string { return saMach(st.NewSecMach(s, r)) })
		}
		for _, p := range [][2]int{{0, 0}, {2, 4}, {4, 4}, {5, 4}, {-1, 2}, {1, 0}, {3, 40}} {
			s, p := s, p
			add("SecRun", saU32s(s[:])+" "+puI(p[0])+" "+u32(uint32(p[1])), func() string { return u32(st.SecRun(s, p[0], uint32(p[1]))) })
		}
	}
	for _, n := range []int{-1, 0, 5} {
		n := n
		add("SecMake", puI(n), func() string { return puI(st.SecMake(n)) })
	}
	for _, x := range []uint64{0, 1, 0x8000000000000001, 0xffffffffffffffff, 0x0123456789abcdef} {
		for _, n := range []uint64{0, 3, 63, 64, 200, 1 << 40} {
			for _, k := range []uint8{0, 1, 31, 32, 255} {
				x, n, k := x, n, k
				y := uint32(x>>7) | 1
				add("SecShift", u64(x)+" "+u32(y)+" "+u64(n)+" "+u8(k), func() string {
					a, b, c := st.SecShift(x, y, n, k)
					return "(" + u64(a) + ", " + u32(b) + ", " + u64(c) + ")"
				})
			}
		}
	}
	for _, in := range [][]uint8{nil, {1, 2, 3}, {1, 2, 3, 4, 5}, {0xff, 0xfe, 0xfd, 0xfc, 0xfb, 0xfa, 0xf9, 0xf8}, {9, 8, 7, 6, 5, 4, 3, 2, 1, 0, 1, 2, 3}} {
		for _, n := range []uint32{0, 3, 4, 5, 8, 13, 14} {
			for _, a := range []uint32{0, 1, 5} {
				in, n, a := in, n, a
				add("SecOuter", puBytesLit(in)+" "+u32(n)+" "+u32(a), func() string {
					r1, r2 := st.SecOuter(in, n, a)
					return "(" + u32(r1) + ", " + u32(r2) + ")"
				})
			}
		}
	}
	for _, a := range []uint8{3, 200} {
		for _, b := range []uint16{0, 999, 0xffff} {
			for _, c := range []uint32{5, 6, 0x12345678} {
				for _, d := range []uint64{6, 7, 1 << 63, 0xffffffffffffffff} {
					for _, i := range []int{-5, 0, 1 << 33} {
						a, b, c, d, i := a, b, c, d, i
						add("SecOps", u8(a)+" "+u16(b)+" "+u32(c)+" "+u64(d)+" "+puI(i), func() string {
							r1, r2, r3, r4, r5, r6 := st.SecOps(a, b, c, d, i)
							return "(" + u8(r1) + ", " + u16(r2) + ", " + u32(r3) + ", " + u64(r4) + ", " + puI(r5) + ", " + puB(r6) + ")"
						})
					}
				}
			}
		}
	}
	return cs
}

func genPureSelftestSec() error {
	tmp, err := os.MkdirTemp("", "pureselftestsec")
	if err != nil {
		return err
	}
	defer os.RemoveAll(tmp)
	dir := filepath.Join(tmp, "src", "pureselftest")
	if err := os.MkdirAll(dir, 0o755); err != nil {
		return err
	}
	if err := os.WriteFile(filepath.Join(dir, "sec.go"), []byte(st.SecSource), 0o644); err != nil {
		return err
	}
	saveRepo, saveRoots := repo, puRepoRoots
	repo, puRepoRoots = tmp, []string{"pureselftest"}
	defer func() { repo, puRepoRoots = saveRepo, saveRoots }()
	if err := writeIfChanged("PureRt.lean", puRuntimeLean); err != nil {
		return err
	}
	if err := writeIfChanged("PureRtSec.lean", saRuntimeLean); err != nil {
		return err
	}
	out, gc, err := genSaGroup(newPuLoader([]string{"pureselftest"}), saSelftest)
	if err != nil {
		return err
	}
	// the classification the result texts above rely on: "receiver changed / monadic / out-parameters"
	want := map[string]string{"SecMulx": "false false ", "SecPow": "false true ", "SecTri": "false true ", "SecLook": "false true ",
		"SecArr": "false true ", "SecMach.Rot": "true true ", "SecMach.Step": "true true ", "SecMach.Peek": "false true ",
		"NewSecMach": "false true ", "SecMach.Fill": "true true out", "SecMach.FillTwice": "true true out", "SecRun": "false true ",
		"SecMake": "false true ", "SecShift": "false true ", "SecOps": "false false ", "SecOuter": "false true "}
	monadic := map[string]bool{}
	for _, f := range gc.fns {
		var o []string
		for _, p := range f.outList() {
			o = append(o, p.Name())
		}
		if g := fmt.Sprintf("%v %v %s", f.mutRecv, f.monadic, strings.Join(o, " ")); g != want[f.lean] {
			return fail("pure-selftest-sec: %s: classified %q, the self-test expects %q", f.lean, g, want[f.lean])
		}
		monadic[f.lean] = f.monadic
	}
	var b strings.Builder
	b.WriteString("/-! ### the translated functions against the compiled ones (outcomes computed by this run of `gen pure-selftest-sec`) -/\n")
	b.WriteString(`local instance {α : Type} [DecidableEq α] : DecidableEq (Res α)
  | .ok a, .ok b => if h : a = b then isTrue (by rw [h]) else isFalse (by intro e; cases e; exact h rfl)
  | .error a, .error b => if h : a = b then isTrue (by rw [h]) else isFalse (by intro e; cases e; exact h rfl)
  | .ok _, .error _ => isFalse (by intro e; cases e)
  | .error _, .ok _ => isFalse (by intro e; cases e)

`)
	run := func(b *strings.Builder, cases []buCase, monadic map[string]bool) error {
		npanic, nok := 0, 0
		for _, cs := range cases {
			res, panicked := puRun(cs.run)
			switch {
			case panicked && !monadic[cs.fn]:
				return fail("pure-selftest-sec: %s %s panicked but the translator classified it as total", cs.fn, cs.args)
			case panicked:
				npanic++
				res = ".error .panic"
			case monadic[cs.fn]:
				nok++
				res = ".ok " + res
			default:
				nok++
			}
			fmt.Fprintf(b, "example : %s %s = %s := by decide +kernel\n", cs.fn, cs.args, res)
		}
		if npanic == 0 || nok == 0 {
			return fail("pure-selftest-sec: %d calls returned, %d panicked: one path is not exercised", nok, npanic)
		}
		fmt.Fprintf(b, "-- %d executed calls, %d of them panics\n", nok+npanic, npanic)
		return nil
	}
	if err := run(&b, saSelfCases(), monadic); err != nil {
		return err
	}
	end := "end Stgutg.Gen.Pure.SelftestSec\n"
	out = strings.TrimSuffix(out, end) + b.String() + "\n" + end
	if err := writeIfChanged("PureSelftestSec.lean", out); err != nil {
		return err
	}
	// the second group: imports the first
	outB, gcB, err := genSaGroup(newPuLoader([]string{"pureselftest"}), saSelftestB)
	if err != nil {
		return err
	}
	for _, f := range gcB.fns {
		if f.lean == "SecMac" && (f.mutRecv || !f.monadic || len(f.outList()) != 0) {
			return fail("pure-selftest-sec: SecMac: classification")
		}
	}
	var bb strings.Builder
	bb.WriteString("/-! ### the translated function against the compiled one (outcomes computed by this run of `gen pure-selftest-sec`) -/\n")
	bb.WriteString(saDecEqRes)
	if err := run(&bb, saSelfCasesB(), map[string]bool{"SecMac": true}); err != nil {
		return err
	}
	endB := "end Stgutg.Gen.Pure.SelftestSecB\n"
	outB = strings.TrimSuffix(outB, endB) + bb.String() + "\n" + endB
	return writeIfChanged("PureSelftestSecB.lean", outB)
}

const saDecEqRes = `local instance {α : Type} [DecidableEq α] : DecidableEq (Res α)
  | .ok a, .ok b => if h : a = b then isTrue (by rw [h]) else isFalse (by intro e; cases e; exact h rfl)
  | .error a, .error b => if h : a = b then isTrue (by rw [h]) else isFalse (by intro e; cases e; exact h rfl)
  | .ok _, .error _ => isFalse (by intro e; cases e)
  | .error _, .ok _ => isFalse (by intro e; cases e)

`
