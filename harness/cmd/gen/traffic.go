package main

import (
	"fmt"
	"go/ast"
	"go/parser"
	"go/token"
	"path/filepath"
	"strings"
)

// Translator `traffic`: the signalling skeleton of main's TRAFFIC-mode branch (`if mode == 1 {…}` of stg-utg.go).
//
// Traffic mode needs XDP and cannot be run in the sandbox, so nothing differential ties it to a model. What CAN be tied is its
// structure: which procedure each loop calls, for which UE, how often, and what it hands to the data plane. The translator
// reads the branch statement by statement against the grammar below and FAILS CLOSED on anything else; Props/C02Traffic.lean
// proves that the extracted skeleton makes the same (procedure, UE index) calls as the test-mode branch with the counts
// (N, N, 0, N, N), on which C01 / C02 are proved and run.
//
// Grammar (in any order, the order is part of the output):
//   fmt.Println(…)                                         ignored (no call in the arguments)
//   time.Sleep(…)                                          ignored
//   data-plane statement                                   `.dataplane` (consecutive ones collapse): an assignment, if, defer, range or
//                                                          declaration that mentions none of conn / ueList / pduList / imsi, calls no
//                                                          stgutg function but ManageError and no tglib function, and contains no
//                                                          os.Exit, return, go, channel operation or counted for loop
//   conn, err := tglib.ConnectToAmf(…) ; stgutg.ManageError(…, err)          `.connect`
//   imsi := c.Configuration.Initial_imsi                                     (remembered)
//   stgutg.ManageNGSetup(conn, _, imsi, …)                                   `.ngsetup`
//   for i := 0; i < c.Configuration.F; i++ { ue := stgutg.CreateUE(imsi, i, …); ue, pdu, _ := stgutg.RegisterUE(ue, …, conn);
//         L1 = append(L1, ue); L2 = append(L2, pdu) }                        `.regLoop F [L1, L2]`
//   for i := range L { r… := stgutg.P(…, L'[i], conn, …); if !xgtp.Q(r) { xgtp.A(r…) } … }   `.procLoop P L (.index L') [(Q, positions of r), (A, …)]`
//   for _, ue := range L { stgutg.P(…, ue, …, conn) }                         `.procLoop P L (.rangeVar L) []`
//   var s = make(chan os.Signal) ; sig := <-s                                `.waitSignal`
//   conn.Close()                                                             `.closeConn`
//   os.Exit(k)                                                               `.exit k`
func init() { register("traffic", genTraffic) }

type trafTr struct {
	fset    *token.FileSet
	src     []byte
	procs   map[string]bool // stgutg functions with a connection parameter
	imsiVar string
	chans   map[string]bool
	items   []string
}

func (t *trafTr) pos(n ast.Node) string {
	p := t.fset.Position(n.Pos())
	return fmt.Sprintf("%s:%d", filepath.Base(p.Filename), p.Line)
}

// mentionsAny: does the node mention one of the identifiers?
func trafMentions(n ast.Node, names ...string) bool {
	found := false
	ast.Inspect(n, func(x ast.Node) bool {
		if id, ok := x.(*ast.Ident); ok {
			for _, nm := range names {
				if id.Name == nm {
					found = true
				}
			}
		}
		return !found
	})
	return found
}

func trafCalls(n ast.Node) []string {
	var out []string
	ast.Inspect(n, func(x ast.Node) bool {
		if c, ok := x.(*ast.CallExpr); ok {
			out = append(out, calleeName(c))
		}
		return true
	})
	return out
}

// dataplane: a statement that cannot touch the signalling state
func (t *trafTr) dataplane(s ast.Stmt) bool {
	names := []string{"conn", "ueList", "pduList"}
	if t.imsiVar != "" {
		names = append(names, t.imsiVar)
	}
	if trafMentions(s, names...) {
		return false
	}
	for _, c := range trafCalls(s) {
		switch {
		case c == "stgutg.ManageError":
		case strings.HasPrefix(c, "stgutg."), strings.HasPrefix(c, "tglib."), c == "os.Exit", c == "panic", c == "":
			return false
		}
	}
	bad := false
	ast.Inspect(s, func(x ast.Node) bool {
		switch v := x.(type) {
		case *ast.ReturnStmt, *ast.GoStmt, *ast.SendStmt, *ast.SelectStmt, *ast.ForStmt, *ast.BranchStmt, *ast.LabeledStmt, *ast.FuncLit:
			bad = true
		case *ast.UnaryExpr:
			if v.Op == token.ARROW {
				bad = true
			}
		case *ast.SelectorExpr:
			// the UE population size may not steer the data plane silently
			if v.Sel.Name == "UeNumber" {
				bad = true
			}
		}
		return !bad
	})
	if bad {
		return false
	}
	switch s.(type) {
	case *ast.AssignStmt, *ast.IfStmt, *ast.DeferStmt, *ast.RangeStmt, *ast.ExprStmt:
		return true
	}
	return false
}

func (t *trafTr) emit(item string) {
	if item == ".dataplane" && len(t.items) > 0 && t.items[len(t.items)-1] == ".dataplane" {
		return
	}
	t.items = append(t.items, item)
}

func isPrintln(s ast.Stmt) bool {
	es, ok := s.(*ast.ExprStmt)
	if !ok {
		return false
	}
	c, ok := es.X.(*ast.CallExpr)
	if !ok || calleeName(c) != "fmt.Println" {
		return false
	}
	for _, a := range c.Args {
		if containsCall(a) {
			return false
		}
	}
	return true
}

func isSleep(s ast.Stmt) bool {
	es, ok := s.(*ast.ExprStmt)
	if !ok {
		return false
	}
	c, ok := es.X.(*ast.CallExpr)
	if !ok || calleeName(c) != "time.Sleep" {
		return false
	}
	_, ok = sleepMs(c)
	return ok
}

func cfgField(e ast.Expr) string {
	if se, ok := e.(*ast.SelectorExpr); ok {
		if s2, ok := se.X.(*ast.SelectorExpr); ok && s2.Sel.Name == "Configuration" && identName(s2.X) == "c" {
			return se.Sel.Name
		}
	}
	return ""
}

// callFreeCfgArgs: every argument but the listed positions is a call-free expression without index expressions
func (t *trafTr) plainArgs(c *ast.CallExpr, except map[int]bool) error {
	for k, a := range c.Args {
		if except[k] {
			continue
		}
		if containsCall(a) {
			return fail("%s: call in a procedure argument", t.pos(a))
		}
		if trafMentions(a, "ueList", "pduList") {
			return fail("%s: a UE list in an argument position that does not carry the UE", t.pos(a))
		}
		bad := false
		ast.Inspect(a, func(x ast.Node) bool {
			if _, ok := x.(*ast.IndexExpr); ok {
				bad = true
			}
			return !bad
		})
		if bad {
			return fail("%s: index expression in a procedure argument", t.pos(a))
		}
	}
	return nil
}

// the position of the parameter named `ue` / of type *tglib.RanUeContext and of the connection in a stgutg procedure
func ueAndConnParam(fd *ast.FuncDecl) (ue, conn int) {
	ue, conn = -1, -1
	k := 0
	for _, f := range fd.Type.Params.List {
		typ := ""
		if st, ok := f.Type.(*ast.StarExpr); ok {
			if se, ok := st.X.(*ast.SelectorExpr); ok {
				typ = identName(se.X) + "." + se.Sel.Name
			}
		}
		n := len(f.Names)
		if n == 0 {
			n = 1
		}
		for j := 0; j < n; j++ {
			if typ == "tglib.RanUeContext" && ue < 0 {
				ue = k
			}
			if typ == "sctp.SCTPConn" && conn < 0 {
				conn = k
			}
			k++
		}
	}
	return
}

func (t *trafTr) regLoop(fs *ast.ForStmt, funcs map[string]*ast.FuncDecl) error {
	init, ok1 := fs.Init.(*ast.AssignStmt)
	cond, ok2 := fs.Cond.(*ast.BinaryExpr)
	post, ok3 := fs.Post.(*ast.IncDecStmt)
	if !ok1 || !ok2 || !ok3 || init.Tok != token.DEFINE || len(init.Lhs) != 1 || len(init.Rhs) != 1 || cond.Op != token.LSS || post.Tok != token.INC {
		return fail("%s: loop outside `for i := 0; i < c.Configuration.F; i++`", t.pos(fs))
	}
	iv := identName(init.Lhs[0])
	if bl, ok := init.Rhs[0].(*ast.BasicLit); !ok || bl.Value != "0" || iv == "" || identName(cond.X) != iv || identName(post.X) != iv {
		return fail("%s: loop outside `for i := 0; i < c.Configuration.F; i++`", t.pos(fs))
	}
	bound := cfgField(cond.Y)
	if bound == "" {
		return fail("%s: loop bound is not a configuration field", t.pos(cond.Y))
	}
	ueVar, pduVar := "", ""
	created, registered := false, false
	var appends []string
	for _, s := range fs.Body.List {
		if isPrintln(s) || isSleep(s) {
			if trafMentions(s, iv) && !isPrintln(s) {
				return fail("%s: loop variable outside CreateUE", t.pos(s))
			}
			continue
		}
		as, ok := s.(*ast.AssignStmt)
		if !ok || len(as.Rhs) != 1 {
			return fail("%s: statement outside the registration loop grammar", t.pos(s))
		}
		c, ok := as.Rhs[0].(*ast.CallExpr)
		if !ok {
			return fail("%s: statement outside the registration loop grammar", t.pos(s))
		}
		switch calleeName(c) {
		case "stgutg.CreateUE":
			if created || registered || len(as.Lhs) != 1 || as.Tok != token.DEFINE || len(c.Args) < 2 {
				return fail("%s: CreateUE outside `ue := stgutg.CreateUE(imsi, i, …)`", t.pos(s))
			}
			if t.imsiVar == "" || identName(c.Args[0]) != t.imsiVar || identName(c.Args[1]) != iv {
				return fail("%s: CreateUE is not called with (imsi, loop variable, …)", t.pos(s))
			}
			if err := t.plainArgs(c, map[int]bool{0: true, 1: true}); err != nil {
				return err
			}
			for _, a := range c.Args[2:] {
				if trafMentions(a, iv) {
					return fail("%s: loop variable in a credential argument", t.pos(a))
				}
			}
			ueVar = identName(as.Lhs[0])
			created = true
		case "stgutg.RegisterUE":
			fd := funcs["RegisterUE"]
			if fd == nil {
				return fail("RegisterUE not found")
			}
			up, cp := ueAndConnParam(fd)
			if !created || registered || up < 0 || cp < 0 || len(c.Args) <= cp || len(as.Lhs) != 3 {
				return fail("%s: RegisterUE outside `ue, pdu, _ := stgutg.RegisterUE(ue, …, conn)`", t.pos(s))
			}
			if identName(c.Args[up]) != ueVar || identName(c.Args[cp]) != "conn" || identName(as.Lhs[0]) != ueVar || identName(as.Lhs[1]) == "" || identName(as.Lhs[1]) == "_" {
				return fail("%s: RegisterUE is not called on the UE just created / its results are not kept", t.pos(s))
			}
			if err := t.plainArgs(c, map[int]bool{up: true, cp: true}); err != nil {
				return err
			}
			for k, a := range c.Args {
				if k != up && trafMentions(a, iv, ueVar) {
					return fail("%s: loop state in a RegisterUE argument", t.pos(a))
				}
			}
			pduVar = identName(as.Lhs[1])
			registered = true
		case "append":
			if !registered || len(as.Lhs) != 1 || len(c.Args) != 2 || as.Tok != token.ASSIGN || identName(as.Lhs[0]) == "" || identName(c.Args[0]) != identName(as.Lhs[0]) {
				return fail("%s: append outside `L = append(L, v)` after RegisterUE", t.pos(s))
			}
			l, v := identName(as.Lhs[0]), identName(c.Args[1])
			if !(l == "ueList" && v == ueVar) && !(l == "pduList" && v == pduVar) {
				return fail("%s: append of something else than the registered UE to ueList / its PDU to pduList", t.pos(s))
			}
			for _, o := range appends {
				if o == l {
					return fail("%s: %s appended twice in one iteration", t.pos(s), l)
				}
			}
			appends = append(appends, l)
		default:
			return fail("%s: call outside the registration loop grammar: %s", t.pos(s), calleeName(c))
		}
	}
	if !created || !registered {
		return fail("%s: registration loop without CreateUE + RegisterUE", t.pos(fs))
	}
	qs := make([]string, len(appends))
	for i, a := range appends {
		qs[i] = lq(a)
	}
	t.emit(fmt.Sprintf(".regLoop %s [%s]", lq(bound), strings.Join(qs, ", ")))
	return nil
}

func (t *trafTr) rangeLoop(rs *ast.RangeStmt, funcs map[string]*ast.FuncDecl) error {
	over := identName(rs.X)
	if over != "ueList" && over != "pduList" {
		return fail("%s: range over something else than ueList / pduList", t.pos(rs))
	}
	if rs.Tok != token.DEFINE {
		return fail("%s: range without :=", t.pos(rs))
	}
	key, val := "", ""
	if rs.Key != nil {
		key = identName(rs.Key)
	}
	if rs.Value != nil {
		val = identName(rs.Value)
	}
	if key == "_" {
		key = ""
	}
	if (key == "") == (val == "") {
		return fail("%s: range outside `for i := range L` / `for _, ue := range L`", t.pos(rs))
	}
	if val != "" && over != "ueList" {
		return fail("%s: the range value of %s is not a UE", t.pos(rs), over)
	}
	proc := ""
	ueRef := ""
	var results []string
	var dp []string
	for _, s := range rs.Body.List {
		if isPrintln(s) || isSleep(s) {
			continue
		}
		var c *ast.CallExpr
		var lhs []ast.Expr
		switch v := s.(type) {
		case *ast.ExprStmt:
			c, _ = v.X.(*ast.CallExpr)
		case *ast.AssignStmt:
			if len(v.Rhs) == 1 && v.Tok == token.DEFINE {
				c, _ = v.Rhs[0].(*ast.CallExpr)
				lhs = v.Lhs
			}
		case *ast.IfStmt:
			// if !xgtp.Q(r) { xgtp.A(r…) }: data plane bookkeeping on the procedure's results
			if proc == "" || v.Init != nil || v.Else != nil || len(v.Body.List) != 1 {
				return fail("%s: if outside `if !xgtp.Q(r) { xgtp.A(r…) }` after the procedure call", t.pos(s))
			}
			ue, ok := v.Cond.(*ast.UnaryExpr)
			if !ok || ue.Op != token.NOT {
				return fail("%s: if outside `if !xgtp.Q(r) { xgtp.A(r…) }`", t.pos(s))
			}
			q, ok := ue.X.(*ast.CallExpr)
			es, ok2 := v.Body.List[0].(*ast.ExprStmt)
			if !ok || !ok2 {
				return fail("%s: if outside `if !xgtp.Q(r) { xgtp.A(r…) }`", t.pos(s))
			}
			a, ok := es.X.(*ast.CallExpr)
			if !ok {
				return fail("%s: if outside `if !xgtp.Q(r) { xgtp.A(r…) }`", t.pos(s))
			}
			for _, call := range []*ast.CallExpr{q, a} {
				name := calleeName(call)
				if !strings.HasPrefix(name, "xgtp.") {
					return fail("%s: call outside the data plane object: %s", t.pos(call), name)
				}
				var posns []string
				for _, arg := range call.Args {
					k := -1
					for j, r := range results {
						if identName(arg) == r {
							k = j
						}
					}
					if k < 0 {
						return fail("%s: data plane argument that is not a result of the procedure: %s", t.pos(arg), identName(arg))
					}
					posns = append(posns, fmt.Sprint(k))
				}
				dp = append(dp, fmt.Sprintf("(%s, [%s])", lq(strings.TrimPrefix(name, "xgtp.")), strings.Join(posns, ", ")))
			}
			continue
		}
		if c == nil {
			return fail("%s: statement outside the per-UE loop grammar", t.pos(s))
		}
		name := calleeName(c)
		short := strings.TrimPrefix(name, "stgutg.")
		if !strings.HasPrefix(name, "stgutg.") || !t.procs[short] || proc != "" {
			return fail("%s: the loop body must call exactly one procedure: %s", t.pos(s), name)
		}
		up, cp := ueAndConnParam(funcs[short])
		if up < 0 || cp < 0 || len(c.Args) <= up || len(c.Args) <= cp || identName(c.Args[cp]) != "conn" {
			return fail("%s: %s is not called with a UE and conn", t.pos(s), short)
		}
		if key != "" {
			ix, ok := c.Args[up].(*ast.IndexExpr)
			if !ok || identName(ix.X) != "ueList" || identName(ix.Index) != key {
				return fail("%s: the UE argument is not ueList[%s]", t.pos(c.Args[up]), key)
			}
			ueRef = "(.index \"ueList\")"
		} else {
			if identName(c.Args[up]) != val {
				return fail("%s: the UE argument is not the range variable %s", t.pos(c.Args[up]), val)
			}
			ueRef = "(.rangeVar " + lq(over) + ")"
		}
		if err := t.plainArgs(c, map[int]bool{up: true, cp: true}); err != nil {
			return err
		}
		for k, a := range c.Args {
			if k != up && ((key != "" && trafMentions(a, key)) || (val != "" && trafMentions(a, val))) {
				return fail("%s: loop state in an argument that is not the UE", t.pos(a))
			}
		}
		for _, l := range lhs {
			results = append(results, identName(l))
		}
		proc = short
	}
	if proc == "" {
		return fail("%s: per-UE loop without a procedure call", t.pos(rs))
	}
	t.emit(fmt.Sprintf(".procLoop %s %s %s [%s]", lq(proc), lq(over), ueRef, strings.Join(dp, ", ")))
	return nil
}

func genTraffic() error {
	t := &trafTr{fset: token.NewFileSet(), procs: map[string]bool{}, chans: map[string]bool{}}
	funcs := map[string]*ast.FuncDecl{}
	for _, f := range []string{"ngsetup.go", "ue.go", "pdu.go", "service.go", "utils.go"} {
		af, err := parser.ParseFile(t.fset, filepath.Join(repo, "src/stgutg", f), nil, 0)
		if err != nil {
			return err
		}
		for _, d := range af.Decls {
			if fd, ok := d.(*ast.FuncDecl); ok && fd.Recv == nil && fd.Body != nil {
				funcs[fd.Name.Name] = fd
				if hasConnParam(fd) {
					t.procs[fd.Name.Name] = true
				}
			}
		}
	}
	mf, err := parser.ParseFile(t.fset, filepath.Join(repo, "stg-utg.go"), nil, 0)
	if err != nil {
		return err
	}
	var branch *ast.BlockStmt
	for _, d := range mf.Decls {
		fd, ok := d.(*ast.FuncDecl)
		if !ok || fd.Name.Name != "main" {
			continue
		}
		for _, s := range fd.Body.List {
			ifs, ok := s.(*ast.IfStmt)
			for ok && ifs != nil {
				if be, ok := ifs.Cond.(*ast.BinaryExpr); ok && be.Op == token.EQL && identName(be.X) == "mode" {
					if bl, ok := be.Y.(*ast.BasicLit); ok && bl.Value == "1" {
						if branch != nil {
							return fail("%s: two traffic-mode branches", t.pos(ifs))
						}
						branch = ifs.Body
					}
				}
				ifs, _ = ifs.Else.(*ast.IfStmt)
			}
		}
	}
	if branch == nil {
		return fail("stg-utg.go: no `if mode == 1` branch in main")
	}
	list := branch.List
	for i := 0; i < len(list); i++ {
		s := list[i]
		if isPrintln(s) || isSleep(s) {
			continue
		}
		switch v := s.(type) {
		case *ast.ForStmt:
			if err := t.regLoop(v, funcs); err != nil {
				return err
			}
			continue
		case *ast.RangeStmt:
			if trafMentions(v, "ueList", "pduList", "conn") {
				if err := t.rangeLoop(v, funcs); err != nil {
					return err
				}
				continue
			}
		case *ast.DeclStmt:
			// var s = make(chan os.Signal)
			gd, ok := v.Decl.(*ast.GenDecl)
			if ok && gd.Tok == token.VAR && len(gd.Specs) == 1 {
				vs := gd.Specs[0].(*ast.ValueSpec)
				if len(vs.Names) == 1 && len(vs.Values) == 1 {
					if c, ok := vs.Values[0].(*ast.CallExpr); ok && calleeName(c) == "make" && len(c.Args) == 1 {
						if ch, ok := c.Args[0].(*ast.ChanType); ok {
							if se, ok := ch.Value.(*ast.SelectorExpr); ok && identName(se.X) == "os" && se.Sel.Name == "Signal" {
								t.chans[vs.Names[0].Name] = true
								continue
							}
						}
					}
				}
			}
			return fail("%s: declaration outside `var s = make(chan os.Signal)`", t.pos(s))
		case *ast.AssignStmt:
			if len(v.Rhs) == 1 {
				if ue, ok := v.Rhs[0].(*ast.UnaryExpr); ok && ue.Op == token.ARROW && t.chans[identName(ue.X)] {
					t.emit(".waitSignal")
					continue
				}
				if c, ok := v.Rhs[0].(*ast.CallExpr); ok && calleeName(c) == "tglib.ConnectToAmf" {
					if !lhsHasErr(v.Lhs) || len(v.Lhs) != 2 || identName(v.Lhs[0]) != "conn" || i+1 >= len(list) {
						return fail("%s: ConnectToAmf outside `conn, err := tglib.ConnectToAmf(…)` + ManageError", t.pos(s))
					}
					es, ok := list[i+1].(*ast.ExprStmt)
					if !ok {
						return fail("%s: ConnectToAmf without ManageError", t.pos(s))
					}
					me, ok := es.X.(*ast.CallExpr)
					if !ok || calleeName(me) != "stgutg.ManageError" || len(me.Args) != 2 || identName(me.Args[1]) != "err" {
						return fail("%s: ConnectToAmf without ManageError", t.pos(s))
					}
					t.emit(".connect")
					i++
					continue
				}
				if len(v.Lhs) == 1 && v.Tok == token.DEFINE && cfgField(v.Rhs[0]) == "Initial_imsi" {
					if t.imsiVar != "" {
						return fail("%s: the IMSI is read twice", t.pos(s))
					}
					t.imsiVar = identName(v.Lhs[0])
					continue
				}
			}
		case *ast.ExprStmt:
			if c, ok := v.X.(*ast.CallExpr); ok {
				switch calleeName(c) {
				case "stgutg.ManageNGSetup":
					fd := funcs["ManageNGSetup"]
					imsiPos := -1
					if fd != nil {
						k := 0
						for _, f := range fd.Type.Params.List {
							for _, n := range f.Names {
								if n.Name == "imsi" {
									imsiPos = k
								}
								k++
							}
						}
					}
					if imsiPos < 0 || len(c.Args) <= imsiPos || identName(c.Args[0]) != "conn" || t.imsiVar == "" || identName(c.Args[imsiPos]) != t.imsiVar {
						return fail("%s: ManageNGSetup is not called with (conn, …, imsi, …)", t.pos(s))
					}
					if err := t.plainArgs(c, map[int]bool{0: true}); err != nil {
						return err
					}
					t.emit(".ngsetup")
					continue
				case "conn.Close":
					t.emit(".closeConn")
					continue
				case "os.Exit":
					if len(c.Args) == 1 {
						if bl, ok := c.Args[0].(*ast.BasicLit); ok && bl.Kind == token.INT {
							t.emit(".exit " + bl.Value)
							continue
						}
					}
					return fail("%s: os.Exit argument", t.pos(s))
				}
			}
		}
		if t.dataplane(s) {
			t.emit(".dataplane")
			continue
		}
		return fail("%s: statement outside the traffic-mode grammar: %T", t.pos(s), s)
	}
	var b strings.Builder
	b.WriteString("-- GENERATED by `gen traffic` from the traffic-mode branch (`mode == 1`) of stg-utg.go. Do not edit.\n")
	b.WriteString("import Stgutg.Model.TrafficTypes\nnamespace Stgutg.Gen.Traffic\nopen Stgutg.Model.Traffic\n\n")
	b.WriteString("/-- `main`, the `mode == 1` branch: signalling skeleton -/\ndef traffic : List Item := [\n")
	for i, it := range t.items {
		sep := ","
		if i == len(t.items)-1 {
			sep = ""
		}
		fmt.Fprintf(&b, "  %s%s\n", it, sep)
	}
	b.WriteString("]\n\nend Stgutg.Gen.Traffic\n")
	return writeIfChanged("Traffic.lean", b.String())
}
