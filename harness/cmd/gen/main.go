// Command gen regenerates the Lean tables under lean/Stgutg/Gen from /repo's working tree.
// Every translator has an explicit input grammar and fails closed (non-zero exit naming file:line)
// on anything it does not recognise.
package main

import (
	"fmt"
	"os"
	"path/filepath"
)

var repo = "/repo"
var outDir = "/verif/lean/Stgutg/Gen"

type translator struct {
	name string
	run  func() error
}

var translators = map[string]func() error{}

func register(name string, f func() error) { translators[name] = f }

func fail(format string, a ...interface{}) error {
	return fmt.Errorf(format, a...)
}

// writeIfChanged keeps mtime (and so the .olean) when the content is unchanged.
func writeIfChanged(name string, content string) error {
	p := filepath.Join(outDir, name)
	old, err := os.ReadFile(p)
	if err == nil && string(old) == content {
		return nil
	}
	if err := os.MkdirAll(outDir, 0o755); err != nil {
		return err
	}
	return os.WriteFile(p, []byte(content), 0o644)
}

func main() {
	if v := os.Getenv("VERIF_REPO"); v != "" {
		repo = v
	}
	if v := os.Getenv("VERIF_GEN_OUT"); v != "" {
		outDir = v
	}
	if len(os.Args) < 2 {
		fmt.Fprintln(os.Stderr, "usage: gen <translator>...")
		os.Exit(2)
	}
	for _, n := range os.Args[1:] {
		f, ok := translators[n]
		if !ok {
			fmt.Fprintf(os.Stderr, "gen: unknown translator %q\n", n)
			os.Exit(2)
		}
		if err := f(); err != nil {
			fmt.Fprintf(os.Stderr, "gen %s: TRANSLATOR-FAILED: %v\n", n, err)
			os.Exit(3)
		}
	}
}
