package main

import (
	"fmt"
	"go/ast"
	"go/token"
	"go/types"
	"strconv"
	"strings"
)

// puK: the lines of what follows a statement list (relative indentation 0); memoised because a continuation is
// emitted twice when only one branch of an if returns
type puK func() ([]string, error)

func puMemo(k puK) puK {
	var done bool
	var lines []string
	var err error
	return func() ([]string, error) {
		if !done {
			lines, err = k()
			done = true
		}
		return append([]string(nil), lines...), err
	}
}

type puLoop struct {
	brk, cont puK
	ret       func(vals []string) string // return from inside the loop (range loops only)
}

func puHasBind(lines []string) bool {
	for _, l := range lines {
		if strings.Contains(l, ">>=") || strings.Contains(l, "Go.bindS") || strings.Contains(l, "Go.bindT") {
			return true
		}
	}
	return false
}

func puIndent(lines []string) []string {
	out := make([]string, len(lines))
	for i, l := range lines {
		out[i] = "  " + l
	}
	return out
}

// tuple: (a, b, c) as right-nested pairs; projections .1, .2.1, .2.2
func puTuple(parts []string) string {
	switch len(parts) {
	case 0:
		return "()"
	case 1:
		return parts[0]
	}
	return "(" + strings.Join(parts, ", ") + ")"
}

func puProj(t string, i, n int) string {
	if n == 1 {
		return t
	}
	s := t
	for j := 0; j < i; j++ {
		s += ".2"
	}
	if i < n-1 {
		s += ".1"
	}
	return s
}

func (c *puFn) wrapOk(s string) string {
	if c.stateful() {
		return c.okText(s)
	}
	if c.monadic {
		return ".ok " + s
	}
	return s
}

// ---------------------------------------------------------------------------------------------- analyses

// assigned: the variables declared outside `nodes` that the nodes assign (by any route), in order of appearance
func (c *puFn) assigned(nodes []ast.Node) []*types.Var {
	declared := map[types.Object]bool{}
	for _, n := range nodes {
		if n == nil {
			continue
		}
		ast.Inspect(n, func(m ast.Node) bool {
			if id, ok := m.(*ast.Ident); ok {
				if o := c.pkg.info.Defs[id]; o != nil {
					declared[o] = true
				}
			}
			return true
		})
	}
	var out []*types.Var
	seen := map[*types.Var]bool{}
	add := func(e ast.Expr) {
		if id, ok := e.(*ast.Ident); ok && id.Name == "_" {
			return
		}
		v := c.rootVar(e)
		if v != nil && !declared[v] && !seen[v] {
			seen[v] = true
			out = append(out, v)
		}
	}
	for _, n := range nodes {
		if n == nil {
			continue
		}
		ast.Inspect(n, func(m ast.Node) bool {
			switch x := m.(type) {
			case *ast.AssignStmt:
				for _, l := range x.Lhs {
					add(l)
				}
			case *ast.IncDecStmt:
				add(x.X)
			case *ast.CallExpr:
				if f, rx := c.callee(x); f != nil && f.mutRecv && rx != nil {
					add(rx)
				}
				if c.stdCall(x) == "encoding/binary.BigEndian.PutUint16" && len(x.Args) == 2 {
					add(x.Args[0])
				}
				if c.grp.g.rich && c.builtinCall(x, "copy") != nil && len(x.Args) == 2 {
					if se, ok := x.Args[0].(*ast.SliceExpr); ok {
						add(se.X)
					}
				}
				if f, _ := c.callee(x); f != nil && c.grp.g.rich && !f.t.extern {
					fps := f.allParams()
					for i, a := range x.Args {
						if i < len(fps) && f.isState(fps[i]) {
							add(a)
						}
					}
				}
				if l := c.libOf(x); l != nil {
					if l.recvMut {
						if sel, ok := x.Fun.(*ast.SelectorExpr); ok {
							add(sel.X)
						}
					}
					if l.inPlace >= 0 && l.inPlace < len(x.Args) {
						add(x.Args[l.inPlace])
					}
				}
			}
			return true
		})
	}
	return out
}

// jumps: does the statement list contain a return, or a break/continue that leaves it (not one of a nested loop)?
func puJumps(stmts []ast.Stmt) bool {
	found := false
	var walk func(n ast.Node, inLoop bool)
	walk = func(n ast.Node, inLoop bool) {
		ast.Inspect(n, func(m ast.Node) bool {
			switch x := m.(type) {
			case *ast.ReturnStmt:
				found = true
			case *ast.BranchStmt:
				if !inLoop {
					found = true
				}
			case *ast.ForStmt:
				if m != n {
					walk(x.Body, true)
					return false
				}
			case *ast.RangeStmt:
				if m != n {
					walk(x.Body, true)
					return false
				}
			case *ast.FuncLit:
				return false
			}
			return true
		})
	}
	for _, s := range stmts {
		walk(s, false)
	}
	return found
}

// ---------------------------------------------------------------------------------------------- statements

func (c *puFn) block(stmts []ast.Stmt, k puK, lp *puLoop) ([]string, error) {
	if len(stmts) == 0 {
		return k()
	}
	s, rest := stmts[0], stmts[1:]
	next := c.memo(func() ([]string, error) { return c.block(rest, k, lp) })
	c.curTop = s
	if v, ok := c.guards[s]; ok && lp == nil {
		return c.guardStmt(s.(*ast.IfStmt), v, next)
	}
	switch x := s.(type) {
	case *ast.BlockStmt:
		// declarations inside have their own Lean names, so the block can be flattened
		return c.block(append(append([]ast.Stmt(nil), x.List...), rest...), k, lp)
	case *ast.EmptyStmt:
		return next()
	case *ast.ReturnStmt:
		if lp != nil && lp.ret == nil {
			return nil, c.errf(x, "return inside a loop")
		}
		if c.t.upto != "" {
			return nil, c.errf(x, "return in the translated prefix (prefix mode)")
		}
		return c.ret(x, lp)
	case *ast.RangeStmt:
		if !c.grp.g.rich {
			return nil, c.errf(s, "statement %T outside the translated subset", s)
		}
		return c.rangeStmt(x, next, lp)
	case *ast.BranchStmt:
		if x.Label != nil || lp == nil {
			return nil, c.errf(x, "%s outside the translated subset", x.Tok)
		}
		switch x.Tok {
		case token.BREAK:
			return lp.brk()
		case token.CONTINUE:
			return lp.cont()
		}
		return nil, c.errf(x, "%s outside the translated subset", x.Tok)
	case *ast.IfStmt:
		return c.ifStmt(x, next, lp)
	case *ast.SwitchStmt:
		return c.switchStmt(x, next, lp)
	case *ast.ForStmt:
		return c.forStmt(x, next, lp)
	case *ast.AssignStmt, *ast.DeclStmt, *ast.IncDecStmt, *ast.ExprStmt:
		lines, err := c.simple(s)
		if err != nil {
			return nil, err
		}
		r, err := next()
		if err != nil {
			return nil, err
		}
		return append(lines, r...), nil
	}
	return nil, c.errf(s, "statement %T outside the translated subset", s)
}

// ret: a return statement
func (c *puFn) ret(x *ast.ReturnStmt, lp *puLoop) ([]string, error) {
	sig := c.obj.Type().(*types.Signature)
	var vals []string
	finish := func(lines []string, vals []string) ([]string, error) {
		if lp != nil {
			if c.mutRecv {
				return nil, c.errf(x, "return inside a loop of a receiver-mutating method")
			}
			return append(lines, lp.ret(vals)), nil
		}
		return append(lines, c.retLine(vals)), nil
	}
	if len(x.Results) == 1 && sig.Results().Len() > 1 {
		// return f(…) with a multi-valued f
		call, ok := x.Results[0].(*ast.CallExpr)
		if !ok {
			return nil, c.errf(x, "return of a multi-valued expression")
		}
		lines, exprs, _, ok, err := c.callFx(call)
		if err != nil {
			return nil, err
		}
		if !ok || len(exprs) != sig.Results().Len() {
			return nil, c.errf(x, "return of a multi-valued call")
		}
		return finish(lines, exprs)
	}
	if len(x.Results) == 0 {
		for i := 0; i < sig.Results().Len(); i++ {
			r := sig.Results().At(i)
			if r.Name() == "" || r.Name() == "_" {
				return nil, c.errf(x, "bare return with unnamed results")
			}
			vals = append(vals, c.name(r))
		}
	} else {
		if len(x.Results) != sig.Results().Len() {
			return nil, c.errf(x, "return of a multi-valued call")
		}
		for i, e := range x.Results {
			if c.grp.g.rich && c.isNilIdent(e) {
				z, err := c.zero(sig.Results().At(i).Type())
				if err != nil {
					return nil, c.errf(e, "%v", err)
				}
				vals = append(vals, z)
				continue
			}
			if u, ok := e.(*ast.UnaryExpr); ok && u.Op == token.AND {
				id, ok := u.X.(*ast.Ident)
				if !ok {
					return nil, c.errf(e, "address of something that is not a local variable")
				}
				v, _ := c.pkg.info.ObjectOf(id).(*types.Var)
				if v == nil || v == c.recv || c.isParam(v) || c.kindOf(v.Type()) != puStruct {
					return nil, c.errf(e, "address of something that is not a local struct")
				}
				if c.grp.g.rich {
					return nil, c.errf(e, "return &local in a group with pointers")
				}
				e = id
			} else if c.grp.g.rich {
				if err := c.checkPtrSource(e, true); err != nil {
					return nil, err
				}
			}
			s, err := c.expr(e)
			if err != nil {
				return nil, err
			}
			vals = append(vals, s)
		}
	}
	return finish(c.takePre(), vals)
}

func (c *puFn) retLine(vals []string) string {
	if c.mutRecv {
		vals = append([]string{c.name(c.recv)}, vals...)
	}
	return c.wrapOk(puTuple(vals))
}

func (c *puFn) isParam(v *types.Var) bool {
	sig := c.obj.Type().(*types.Signature)
	for i := 0; i < sig.Params().Len(); i++ {
		if sig.Params().At(i) == v {
			return true
		}
	}
	return false
}

// assignTo: the lines that store `val` into x | x.f | p[i] (p = x | x.f)
func (c *puFn) assignTo(lhs ast.Expr, val string) ([]string, error) {
	switch l := lhs.(type) {
	case *ast.ParenExpr:
		return c.assignTo(l.X, val)
	case *ast.Ident:
		if l.Name == "_" {
			return nil, nil
		}
		v, _ := c.pkg.info.ObjectOf(l).(*types.Var)
		if v == nil || v.IsField() || v.Parent() == nil || v.Parent() == v.Pkg().Scope() {
			return nil, c.errf(l, "assignment to %s, which is not a local variable", l.Name)
		}
		if v == c.recv {
			return nil, c.errf(l, "assignment to the receiver variable")
		}
		if c.kindOf(v.Type()) == puBad {
			return nil, c.errf(l, "variable %s of type %s", l.Name, v.Type())
		}
		if _, isPtr := v.Type().Underlying().(*types.Pointer); isPtr && c.kindOf(v.Type()) != puPtr {
			return nil, c.errf(l, "pointer variable %s", l.Name)
		}
		if c.bound[v] && c.kindOf(v.Type()) == puPtr {
			return nil, c.errf(l, "assignment to a pointer parameter after its nil guard")
		}
		delete(c.fx.poison, v)
		delete(c.fx.nonNil, v)
		return []string{"let " + c.name(v) + " := " + val}, nil
	case *ast.SelectorExpr:
		id, ok := l.X.(*ast.Ident)
		if !ok {
			return nil, c.errf(l, "assignment to a nested field")
		}
		v, _ := c.pkg.info.ObjectOf(id).(*types.Var)
		if v != nil && c.kindOf(v.Type()) == puPtr {
			if sel, ok := c.pkg.info.Selections[l]; !ok || sel.Kind() != types.FieldVal || len(sel.Index()) != 1 {
				return nil, c.errf(l, "selector %s outside the translated subset", c.text(l))
			}
			if _, err := c.leanType(c.pkg.info.Types[l].Type); err != nil {
				return nil, c.errf(l, "%v", err)
			}
			// through a pointer variable: the object behind it (a state parameter, or a local that owns its object)
			if c.isParam(v) && !c.isState(v) {
				return nil, c.errf(l, "internal: write through a parameter that is not a state parameter")
			}
			n := c.name(v)
			if c.bound[v] {
				return []string{"let " + n + " := { " + n + " with " + puLeanIdent(l.Sel.Name) + " := " + val + " }"}, nil
			}
			t, err := c.derefVar(l, v)
			if err != nil {
				return nil, err
			}
			lines := c.takePre()
			return append(lines, "let "+n+" := some { "+t+" with "+puLeanIdent(l.Sel.Name)+" := "+val+" }"), nil
		}
		if _, err := c.selector(l); err != nil {
			return nil, err
		}
		if v == nil || (c.isParam(v) && v != c.recv) {
			// a struct parameter is a copy: assigning its field is local, but nothing needs it
			return nil, c.errf(l, "assignment to a field of a parameter")
		}
		n := c.name(v)
		return []string{"let " + n + " := { " + n + " with " + puLeanIdent(l.Sel.Name) + " := " + val + " }"}, nil
	case *ast.IndexExpr:
		t, err := c.typeOf(l.X)
		if err != nil {
			return nil, err
		}
		if k := c.kindOf(t); k != puBytes && k != puList {
			return nil, c.errf(l, "element assignment into %s", t)
		}
		if _, isSlice := t.Underlying().(*types.Slice); !isSlice {
			return nil, c.errf(l, "element assignment into %s", t)
		}
		base, err := c.expr(l.X)
		if err != nil {
			return nil, err
		}
		i, err := c.toInt(l.Index)
		if err != nil {
			return nil, err
		}
		t2, err := c.bind(l, "Go.set "+base+" "+i+" "+val)
		if err != nil {
			return nil, err
		}
		lines := c.takePre()
		more, err := c.assignTo(l.X, t2)
		return append(lines, more...), err
	}
	return nil, c.errf(lhs, "assignment target %T outside the translated subset", lhs)
}

var puLogCalls = map[string]bool{"log.Printf": true, "log.Println": true, "fmt.Println": true, "fmt.Printf": true}

// isLogging: a statement call whose only effect is output
func (c *puFn) isLogging(call *ast.CallExpr) bool {
	if puLogCalls[c.stdCall(call)] {
		return true
	}
	// logger.XLog.Warnf(…): a package-level *logrus.Entry of a repo package named logger
	if sel, ok := call.Fun.(*ast.SelectorExpr); ok {
		if in, ok := sel.X.(*ast.SelectorExpr); ok {
			if id, ok := in.X.(*ast.Ident); ok {
				if pn, ok := c.pkg.info.Uses[id].(*types.PkgName); ok {
					p := pn.Imported().Path()
					if puIsRepoPath(p) && strings.HasSuffix(p, "/logger") && strings.HasSuffix(in.Sel.Name, "Log") {
						switch sel.Sel.Name {
						case "Debugf", "Debugln", "Infof", "Infoln", "Warnf", "Warnln", "Errorf", "Errorln", "Tracef", "Traceln":
							return true
						}
					}
				}
			}
		}
	}
	return false
}

// harmlessOperand: an operand of a logging call that cannot fail and has no effect
func puHarmless(e ast.Expr) bool {
	ok := true
	ast.Inspect(e, func(n ast.Node) bool {
		switch n.(type) {
		case *ast.CallExpr, *ast.IndexExpr, *ast.SliceExpr, *ast.StarExpr, *ast.FuncLit, *ast.TypeAssertExpr:
			ok = false
		case *ast.BinaryExpr:
			ok = false
		}
		return ok
	})
	return ok
}

// simple: a statement without control flow → the lines it contributes (hoisted operations first)
func (c *puFn) simple(s ast.Stmt) ([]string, error) {
	switch x := s.(type) {
	case *ast.DeclStmt:
		gd, ok := x.Decl.(*ast.GenDecl)
		if !ok || gd.Tok != token.VAR {
			return nil, c.errf(x, "declaration outside the translated subset")
		}
		var lines []string
		for _, sp := range gd.Specs {
			vs := sp.(*ast.ValueSpec)
			if len(vs.Values) != 0 && len(vs.Values) != len(vs.Names) {
				return nil, c.errf(vs, "var with a multi-valued initialiser")
			}
			for i, id := range vs.Names {
				if id.Name == "_" {
					continue
				}
				v := c.pkg.info.Defs[id].(*types.Var)
				lt, err := c.leanType(v.Type())
				if err != nil {
					return nil, c.errf(id, "%v", err)
				}
				if _, isPtr := v.Type().Underlying().(*types.Pointer); isPtr {
					return nil, c.errf(id, "pointer variable")
				}
				var val string
				nnInit := false
				if len(vs.Values) == 0 {
					if val, err = c.zero(v.Type()); err != nil {
						return nil, c.errf(id, "%v", err)
					}
				} else {
					if c.grp.g.rich {
						if err := c.checkPtrSource(vs.Values[i], false); err != nil {
							return nil, err
						}
					}
					nnInit = c.nonNilExpr(vs.Values[i])
					if val, err = c.expr(vs.Values[i]); err != nil {
						return nil, err
					}
				}
				lines = append(lines, c.takePre()...)
				lines = append(lines, "let "+c.name(v)+" : "+lt+" := "+val)
				delete(c.fx.poison, v)
				delete(c.fx.nonNil, v)
				if nnInit {
					c.fx.nonNil[v] = true
				}
			}
		}
		return lines, nil
	case *ast.IncDecStmt:
		t, err := c.typeOf(x.X)
		if err != nil {
			return nil, err
		}
		cur, err := c.expr(x.X)
		if err != nil {
			return nil, err
		}
		k := c.kindOf(t)
		var val string
		switch {
		case k.unsigned() && x.Tok == token.INC:
			val = "(" + cur + " + (1 : " + puLeanUint[k] + "))"
		case k.unsigned():
			val = "(" + cur + " - (1 : " + puLeanUint[k] + "))"
		case k == puInt && x.Tok == token.INC:
			val = "(Go.iadd " + cur + " (1 : Int))"
		case k == puInt:
			val = "(Go.isub " + cur + " (1 : Int))"
		default:
			return nil, c.errf(x, "%s on %s", x.Tok, t)
		}
		lines := c.takePre()
		more, err := c.assignTo(x.X, val)
		return append(lines, more...), err
	case *ast.ExprStmt:
		call, ok := x.X.(*ast.CallExpr)
		if !ok {
			return nil, c.errf(x, "expression statement outside the translated subset")
		}
		if c.isLogging(call) {
			for _, a := range call.Args {
				if !puHarmless(a) {
					return nil, c.errf(a, "operand of a logging call that could fail or have an effect")
				}
			}
			return nil, nil
		}
		if c.stdCall(call) == "encoding/binary.BigEndian.PutUint16" && len(call.Args) == 2 {
			b, err := c.expr(call.Args[0])
			if err != nil {
				return nil, err
			}
			v, err := c.expr(call.Args[1])
			if err != nil {
				return nil, err
			}
			t, err := c.bind(call, "Go.putU16BE "+b+" "+v)
			if err != nil {
				return nil, err
			}
			lines := c.takePre()
			more, err := c.assignTo(call.Args[0], t)
			return append(lines, more...), err
		}
		if c.grp.g.rich && c.builtinCall(call, "copy") != nil {
			return c.copyStmt(call)
		}
		if lines, _, _, ok, err := c.callFx(call); ok || err != nil {
			return lines, err
		}
		if f, rx := c.callee(call); f != nil {
			return c.callStmt(call, f, rx, nil, false)
		}
		return nil, c.errf(x, "statement call of %s: not a listed function", c.text(call.Fun))
	case *ast.AssignStmt:
		return c.assign(x)
	}
	return nil, c.errf(s, "statement %T outside the translated subset", s)
}

// callStmt: a call of a listed function as a statement or as the whole right-hand side; lhs = targets of its results
func (c *puFn) callStmt(call *ast.CallExpr, f *puFn, rx ast.Expr, lhs []ast.Expr, define bool) ([]string, error) {
	app, nres, err := c.calleeApp(call, f, rx)
	if err != nil {
		return nil, err
	}
	if lhs != nil && len(lhs) != nres {
		return nil, c.errf(call, "%d targets for %d results", len(lhs), nres)
	}
	lines := c.takePre()
	ncomp := nres
	if f.mutRecv {
		ncomp++
	}
	if ncomp == 0 {
		return lines, nil // a total function without results and without effect on the receiver
	}
	t := app
	if !f.monadic {
		t = c.fresh()
		lines = append(lines, "let "+t+" := "+app)
	}
	comp := 0
	if f.mutRecv {
		if rx == nil {
			return nil, c.errf(call, "internal: receiver-mutating function without receiver")
		}
		if id, ok := rx.(*ast.Ident); ok && c.recv != nil && c.pkg.info.ObjectOf(id) == c.recv {
			// the receiver after the call (the pointer itself does not change, the struct behind it does)
			lines = append(lines, "let "+c.name(c.recv)+" := "+puProj(t, comp, ncomp))
		} else {
			more, err := c.assignTo(rx, puProj(t, comp, ncomp))
			if err != nil {
				return nil, err
			}
			lines = append(lines, more...)
		}
		comp++
	}
	for i := 0; lhs != nil && i < nres; i++ {
		more, err := c.assignTo(lhs[i], puProj(t, comp+i, ncomp))
		if err != nil {
			return nil, err
		}
		lines = append(lines, more...)
	}
	return lines, nil
}

func (c *puFn) assign(x *ast.AssignStmt) ([]string, error) {
	// op=
	if x.Tok != token.ASSIGN && x.Tok != token.DEFINE {
		ops := map[token.Token]token.Token{token.ADD_ASSIGN: token.ADD, token.SUB_ASSIGN: token.SUB, token.MUL_ASSIGN: token.MUL,
			token.QUO_ASSIGN: token.QUO, token.REM_ASSIGN: token.REM, token.AND_ASSIGN: token.AND, token.OR_ASSIGN: token.OR,
			token.XOR_ASSIGN: token.XOR, token.SHL_ASSIGN: token.SHL, token.SHR_ASSIGN: token.SHR, token.AND_NOT_ASSIGN: token.AND_NOT}
		op, ok := ops[x.Tok]
		if !ok || len(x.Lhs) != 1 || len(x.Rhs) != 1 {
			return nil, c.errf(x, "assignment %s outside the translated subset", x.Tok)
		}
		// x op= y  is  x = x op (y); go/types recorded the operand types, a synthetic node needs its own entry
		be := &ast.BinaryExpr{X: x.Lhs[0], Op: op, Y: x.Rhs[0], OpPos: x.TokPos}
		c.pkg.info.Types[be] = c.pkg.info.Types[x.Lhs[0]]
		val, err := c.binary(be)
		delete(c.pkg.info.Types, be)
		if err != nil {
			return nil, err
		}
		lines := c.takePre()
		more, err := c.assignTo(x.Lhs[0], val)
		return append(lines, more...), err
	}
	// multi-valued right-hand side
	if len(x.Rhs) == 1 && len(x.Lhs) > 1 {
		call, ok := x.Rhs[0].(*ast.CallExpr)
		if !ok {
			return nil, c.errf(x, "multi-valued right-hand side that is not a call")
		}
		if lines, ok, err := c.assignCall(call, x.Lhs); ok || err != nil {
			return lines, err
		}
		if f, rx := c.callee(call); f != nil {
			return c.callStmt(call, f, rx, x.Lhs, x.Tok == token.DEFINE)
		}
		var app string
		switch c.stdCall(call) {
		case "strconv.Atoi":
			if c.isAtoiByte(call) {
				b, err := c.expr(call.Args[0].(*ast.CallExpr).Args[0])
				if err != nil {
					return nil, err
				}
				app = "Go.atoiByte " + b
			} else {
				a, err := c.args(call)
				if err != nil {
					return nil, err
				}
				t, err := c.typeOf(call.Args[0])
				if err != nil {
					return nil, err
				}
				if _, isStr := t.Underlying().(*types.Basic); !isStr {
					return nil, c.errf(call, "Atoi operand")
				}
				app = "E.atoi " + a[0]
			}
		case "encoding/hex.DecodeString":
			a, err := c.args(call)
			if err != nil {
				return nil, err
			}
			app = "E.hexDecode " + a[0]
		default:
			return nil, c.errf(call, "two-valued call of %s: not a listed function", c.text(call.Fun))
		}
		if len(x.Lhs) != 2 {
			return nil, c.errf(x, "%d targets for 2 results", len(x.Lhs))
		}
		lines := c.takePre()
		t := c.fresh()
		lines = append(lines, "let "+t+" := "+app)
		for i, l := range x.Lhs {
			more, err := c.assignTo(l, puProj(t, i, 2))
			if err != nil {
				return nil, err
			}
			lines = append(lines, more...)
		}
		return lines, nil
	}
	if len(x.Lhs) != len(x.Rhs) {
		return nil, c.errf(x, "assignment shape outside the translated subset")
	}
	if len(x.Lhs) > 1 {
		// parallel assignment: only the `_, _ = a, b` idiom
		for i, l := range x.Lhs {
			id, ok := l.(*ast.Ident)
			if !ok || id.Name != "_" || !puHarmless(x.Rhs[i]) {
				return nil, c.errf(x, "parallel assignment outside the translated subset")
			}
		}
		return nil, nil
	}
	lhs, rhs := x.Lhs[0], x.Rhs[0]
	if id, ok := lhs.(*ast.Ident); ok && id.Name == "_" {
		if !puHarmless(rhs) {
			return nil, c.errf(x, "_ = <expression that could fail>")
		}
		return nil, nil
	}
	if c.grp.g.rich {
		if lines, ok, err := c.richAssign(lhs, rhs); ok || err != nil {
			return lines, err
		}
	}
	// p = append(p, …)
	if call, ok := rhs.(*ast.CallExpr); ok {
		if id, ok := call.Fun.(*ast.Ident); ok && id.Name == "append" {
			if _, ok := c.pkg.info.Uses[id].(*types.Builtin); ok {
				if len(call.Args) < 1 || c.text(call.Args[0]) != c.text(lhs) {
					return nil, c.errf(x, "append whose result is not assigned to its first operand")
				}
				base, err := c.expr(call.Args[0])
				if err != nil {
					return nil, err
				}
				var val string
				if call.Ellipsis.IsValid() {
					if len(call.Args) != 2 {
						return nil, c.errf(x, "append shape")
					}
					t, err := c.typeOf(call.Args[1])
					if err != nil {
						return nil, err
					}
					if _, isSlice := t.Underlying().(*types.Slice); !isSlice {
						return nil, c.errf(x, "append(x, s...) with s of type %s", t)
					}
					y, err := c.expr(call.Args[1])
					if err != nil {
						return nil, err
					}
					val = "(" + base + " ++ " + y + ")"
				} else {
					var parts []string
					for _, a := range call.Args[1:] {
						s, err := c.expr(a)
						if err != nil {
							return nil, err
						}
						parts = append(parts, s)
					}
					val = "(" + base + " ++ [" + strings.Join(parts, ", ") + "])"
				}
				lines := c.takePre()
				more, err := c.assignTo(lhs, val)
				return append(lines, more...), err
			}
		}
		if f, rx := c.callee(call); f != nil && f.mutRecv {
			return c.callStmt(call, f, rx, x.Lhs, x.Tok == token.DEFINE)
		}
	}
	val, err := c.expr(rhs)
	if err != nil {
		return nil, err
	}
	lines := c.takePre()
	more, err := c.assignTo(lhs, val)
	return append(lines, more...), err
}

// ---------------------------------------------------------------------------------------------- if / switch

func (c *puFn) ifStmt(x *ast.IfStmt, next puK, lp *puLoop) ([]string, error) {
	var lines []string
	if x.Init != nil {
		l, err := c.simple(x.Init)
		if err != nil {
			return nil, err
		}
		lines = append(lines, l...)
	}
	c.curTop = x.Cond
	cond, err := c.expr(x.Cond)
	if err != nil {
		return nil, err
	}
	lines = append(lines, c.takePre()...)
	var els []ast.Stmt
	switch e := x.Else.(type) {
	case nil:
	case *ast.BlockStmt:
		els = e.List
	case *ast.IfStmt:
		els = []ast.Stmt{e}
	default:
		return nil, c.errf(x, "else branch %T", x.Else)
	}
	l, err := c.branch(cond, x.Body.List, els, next, lp)
	return append(lines, l...), err
}

// branch: if cond {a} else {b}; rest
func (c *puFn) branch(cond string, a, b []ast.Stmt, next puK, lp *puLoop) ([]string, error) {
	if !puJumps(a) && !puJumps(b) {
		var nodes []ast.Node
		for _, s := range a {
			nodes = append(nodes, s)
		}
		for _, s := range b {
			nodes = append(nodes, s)
		}
		vars := c.assigned(nodes)
		names := make([]string, len(vars))
		for i, v := range vars {
			names[i] = c.name(v)
		}
		join := func() ([]string, error) { return []string{c.wrapOk(puTuple(names))}, nil }
		fx0 := c.fx.clone()
		la, err := c.block(a, join, nil)
		if err != nil {
			return nil, err
		}
		fxA := c.fx
		c.fx = fx0
		lb, err := c.block(b, join, nil)
		if err != nil {
			return nil, err
		}
		c.fx = puFxMeet(fxA, c.fx)
		var lines []string
		if len(vars) == 0 && len(la) == 1 && len(lb) == 1 {
			// nothing that can fail and nothing assigned that outlives the branches: no effect
			return next()
		}
		t := c.fresh()
		if c.stateful() {
			return c.statefulJoin(cond, la, lb, names, t, next)
		}
		// branches in which nothing can fail join as a value even inside a function that can fail
		total := !c.monadic
		if c.monadic && !puHasBind(la) && !puHasBind(lb) &&
			strings.HasPrefix(la[len(la)-1], ".ok ") && strings.HasPrefix(lb[len(lb)-1], ".ok ") {
			la[len(la)-1] = strings.TrimPrefix(la[len(la)-1], ".ok ")
			lb[len(lb)-1] = strings.TrimPrefix(lb[len(lb)-1], ".ok ")
			total = true
		}
		open := "(if " + cond + " then"
		if total {
			open = "let " + t + " := " + open
		}
		lines = append(lines, open)
		lines = append(lines, puIndent(la)...)
		lines = append(lines, "else")
		lb = puIndent(lb)
		if !total {
			lb[len(lb)-1] += ") >>= fun " + t + " =>"
		} else {
			lb[len(lb)-1] += ")"
		}
		lines = append(lines, lb...)
		for i, n := range names {
			lines = append(lines, "let "+n+" := "+puProj(t, i, len(names)))
		}
		r, err := next()
		if err != nil {
			return nil, err
		}
		return append(lines, r...), nil
	}
	fx0 := c.fx.clone()
	la, err := c.block(a, next, lp)
	if err != nil {
		return nil, err
	}
	c.fx = fx0
	lb, err := c.block(b, next, lp)
	if err != nil {
		return nil, err
	}
	lines := []string{"if " + cond + " then"}
	lines = append(lines, puIndent(la)...)
	lines = append(lines, "else")
	lines = append(lines, puIndent(lb)...)
	return lines, nil
}

func (c *puFn) switchStmt(x *ast.SwitchStmt, next puK, lp *puLoop) ([]string, error) {
	if c.grp.g.rich {
		return nil, c.errf(x, "switch in a group with pointers (not translated)")
	}
	if x.Init != nil {
		return nil, c.errf(x, "switch with an init statement")
	}
	var lines []string
	tag := ""
	if x.Tag != nil {
		t, err := c.typeOf(x.Tag)
		if err != nil {
			return nil, err
		}
		if !c.kindOf(t).integer() {
			return nil, c.errf(x, "switch on %s", t)
		}
		s, err := c.expr(x.Tag)
		if err != nil {
			return nil, err
		}
		lines = append(lines, c.takePre()...)
		tag = c.fresh()
		lines = append(lines, "let "+tag+" := "+s)
	}
	var clauses []puClause
	var deflt []ast.Stmt
	hasDefault := false
	for i, s := range x.Body.List {
		cc := s.(*ast.CaseClause)
		for _, b := range cc.Body {
			if br, ok := b.(*ast.BranchStmt); ok {
				if br.Tok == token.FALLTHROUGH || (br.Tok == token.BREAK && br.Label == nil) {
					return nil, c.errf(br, "%s inside a switch", br.Tok)
				}
			}
		}
		// a `break` deeper inside a case would leave the switch, not a loop
		for _, b := range cc.Body {
			bad := false
			ast.Inspect(b, func(n ast.Node) bool {
				switch y := n.(type) {
				case *ast.ForStmt:
					return false
				case *ast.BranchStmt:
					if y.Tok == token.BREAK {
						bad = true
					}
				}
				return true
			})
			if bad {
				return nil, c.errf(b, "break inside a switch")
			}
		}
		if cc.List == nil {
			if i != len(x.Body.List)-1 {
				return nil, c.errf(cc, "default that is not the last clause")
			}
			hasDefault = true
			deflt = cc.Body
			continue
		}
		var conds []string
		for _, e := range cc.List {
			n := len(c.pre)
			s, err := c.expr(e)
			if err != nil {
				return nil, err
			}
			if len(c.pre) != n {
				return nil, c.errf(e, "case expression that can fail")
			}
			if tag != "" {
				s = "(decide (" + tag + " = " + s + "))"
			}
			conds = append(conds, s)
		}
		cond := conds[0]
		if len(conds) > 1 {
			cond = "(" + strings.Join(conds, " || ") + ")"
		}
		clauses = append(clauses, puClause{cond, cc.Body})
	}
	_ = hasDefault
	// chain: decide join for the whole switch at once
	var all []ast.Stmt
	for _, cl := range clauses {
		all = append(all, cl.body...)
	}
	all = append(all, deflt...)
	if !puJumps(all) {
		var nodes []ast.Node
		for _, s := range all {
			nodes = append(nodes, s)
		}
		vars := c.assigned(nodes)
		names := make([]string, len(vars))
		for i, v := range vars {
			names[i] = c.name(v)
		}
		if !c.monadic && len(vars) == 0 {
			r, err := next()
			return append(lines, r...), err
		}
		join := func() ([]string, error) { return []string{c.wrapOk(puTuple(names))}, nil }
		chain, err := c.chain(clausesConds(clauses), clausesBodies(clauses), deflt, join, nil)
		if err != nil {
			return nil, err
		}
		t := c.fresh()
		chain[0] = "(" + chain[0]
		if c.monadic {
			chain[len(chain)-1] += ") >>= fun " + t + " =>"
		} else {
			chain[0] = "let " + t + " := " + chain[0]
			chain[len(chain)-1] += ")"
		}
		lines = append(lines, chain...)
		for i, n := range names {
			lines = append(lines, "let "+n+" := "+puProj(t, i, len(names)))
		}
		r, err := next()
		return append(lines, r...), err
	}
	chain, err := c.chain(clausesConds(clauses), clausesBodies(clauses), deflt, next, lp)
	return append(lines, chain...), err
}

type puClause struct {
	cond string
	body []ast.Stmt
}

func clausesConds(cl []puClause) []string {
	out := make([]string, len(cl))
	for i := range cl {
		out[i] = cl[i].cond
	}
	return out
}

func clausesBodies(cl []puClause) [][]ast.Stmt {
	out := make([][]ast.Stmt, len(cl))
	for i := range cl {
		out[i] = cl[i].body
	}
	return out
}

// chain: if c0 then b0 else if c1 then b1 … else deflt, every branch continued by k
func (c *puFn) chain(conds []string, bodies [][]ast.Stmt, deflt []ast.Stmt, k puK, lp *puLoop) ([]string, error) {
	if len(conds) == 0 {
		return c.block(deflt, k, lp)
	}
	la, err := c.block(bodies[0], k, lp)
	if err != nil {
		return nil, err
	}
	lb, err := c.chain(conds[1:], bodies[1:], deflt, k, lp)
	if err != nil {
		return nil, err
	}
	lines := []string{"if " + conds[0] + " then"}
	lines = append(lines, puIndent(la)...)
	lines = append(lines, "else")
	lines = append(lines, puIndent(lb)...)
	return lines, nil
}

// ---------------------------------------------------------------------------------------------- for

func (c *puFn) forStmt(x *ast.ForStmt, next puK, lp *puLoop) ([]string, error) {
	if c.grp.g.rich {
		return nil, c.errf(x, "counted loop in a group with pointers (not translated)")
	}
	if x.Init == nil || x.Cond == nil || x.Post == nil {
		return nil, c.errf(x, "loop without init / condition / post statement (no visible bound)")
	}
	init, ok := x.Init.(*ast.AssignStmt)
	if !ok || init.Tok != token.DEFINE || len(init.Lhs) != 1 || len(init.Rhs) != 1 {
		return nil, c.errf(x.Init, "loop init is not `i := a`")
	}
	iv, _ := c.pkg.info.Defs[init.Lhs[0].(*ast.Ident)].(*types.Var)
	if iv == nil || c.kindOf(iv.Type()) != puInt {
		return nil, c.errf(x.Init, "loop counter is not an int")
	}
	cond, ok := x.Cond.(*ast.BinaryExpr)
	if !ok || (cond.Op != token.LSS && cond.Op != token.LEQ) {
		return nil, c.errf(x.Cond, "loop condition is not `i < b` / `i <= b`")
	}
	if id, ok := cond.X.(*ast.Ident); !ok || c.pkg.info.ObjectOf(id) != iv {
		return nil, c.errf(x.Cond, "loop condition does not test the counter")
	}
	// post: i++ | i += k, k a positive constant
	switch p := x.Post.(type) {
	case *ast.IncDecStmt:
		if id, ok := p.X.(*ast.Ident); !ok || c.pkg.info.ObjectOf(id) != iv || p.Tok != token.INC {
			return nil, c.errf(p, "loop post statement is not i++ / i += k")
		}
	case *ast.AssignStmt:
		id, ok := p.Lhs[0].(*ast.Ident)
		if !ok || len(p.Lhs) != 1 || c.pkg.info.ObjectOf(id) != iv || p.Tok != token.ADD_ASSIGN {
			return nil, c.errf(p, "loop post statement is not i++ / i += k")
		}
		if n, ok := c.constCount(p.Rhs[0]); !ok || n < 1 {
			return nil, c.errf(p, "loop step is not a positive constant")
		}
	default:
		return nil, c.errf(x.Post, "loop post statement is not i++ / i += k")
	}
	lines, err := c.simple(init)
	if err != nil {
		return nil, err
	}
	bodyAssigned := c.assigned([]ast.Node{x.Body})
	for _, v := range bodyAssigned {
		if v == iv {
			return nil, c.errf(x.Body, "loop body assigns the counter")
		}
	}
	carried := append([]*types.Var{iv}, bodyAssigned...)
	isCarried := map[*types.Var]bool{}
	for _, v := range carried {
		isCarried[v] = true
	}
	// the bound may not depend on anything the loop changes
	boundOK := true
	ast.Inspect(cond.Y, func(n ast.Node) bool {
		if id, ok := n.(*ast.Ident); ok {
			if v, ok := c.pkg.info.ObjectOf(id).(*types.Var); ok && isCarried[v] {
				boundOK = false
			}
		}
		return true
	})
	if !boundOK {
		return nil, c.errf(cond.Y, "loop bound depends on a variable the loop assigns")
	}
	// free variables: locals read inside the loop that it does not carry, in order of appearance
	declared := map[types.Object]bool{}
	ast.Inspect(x.Body, func(n ast.Node) bool {
		if id, ok := n.(*ast.Ident); ok {
			if o := c.pkg.info.Defs[id]; o != nil {
				declared[o] = true
			}
		}
		return true
	})
	var frees []*types.Var
	seen := map[*types.Var]bool{}
	for _, n := range []ast.Node{x.Cond, x.Body, x.Post} {
		ast.Inspect(n, func(m ast.Node) bool {
			if id, ok := m.(*ast.Ident); ok {
				if v, ok := c.pkg.info.Uses[id].(*types.Var); ok && !v.IsField() && v.Parent() != nil && v.Parent() != v.Pkg().Scope() &&
					!declared[v] && !isCarried[v] && !seen[v] {
					seen[v] = true
					frees = append(frees, v)
				}
			}
			return true
		})
	}
	c.nloop++
	name := c.lean + ".loop" + strconv.Itoa(c.nloop)
	var sigParts, freeNames, carriedNames, carriedTypes []string
	if c.usesExt {
		sigParts = append(sigParts, "(E : Go.Ext)")
		freeNames = append(freeNames, "E")
	}
	for _, v := range frees {
		lt, err := c.leanType(v.Type())
		if err != nil {
			return nil, c.errf(x, "%v", err)
		}
		sigParts = append(sigParts, "("+c.name(v)+" : "+lt+")")
		freeNames = append(freeNames, c.name(v))
	}
	for _, v := range carried {
		lt, err := c.leanType(v.Type())
		if err != nil {
			return nil, c.errf(x, "%v", err)
		}
		carriedNames = append(carriedNames, c.name(v))
		carriedTypes = append(carriedTypes, lt)
	}
	recur := strings.Join(append(append([]string{name}, freeNames...), append([]string{"fuel"}, carriedNames...)...), " ")
	exit := func() ([]string, error) { return []string{".ok " + puTuple(carriedNames)}, nil }
	cont := puMemo(func() ([]string, error) {
		l, err := c.simple(x.Post)
		if err != nil {
			return nil, err
		}
		return append(l, recur), nil
	})
	// condition and fuel are evaluated with the names as they are at loop entry = the pattern variables
	bound, err := c.expr(cond.Y)
	if err != nil {
		return nil, err
	}
	if len(c.pre) != 0 {
		return nil, c.errf(cond.Y, "loop bound that can fail")
	}
	op, extra := "<", 1
	if cond.Op == token.LEQ {
		op, extra = "≤", 2
	}
	body, err := c.block(x.Body.List, cont, &puLoop{brk: exit, cont: cont})
	if err != nil {
		return nil, err
	}
	var d []string
	d = append(d, fmt.Sprintf("/-- the loop `%s` of %s; fuel = iterations left + 1 -/", c.text(x.Cond), c.t.fn))
	d = append(d, "def "+name+" "+strings.Join(sigParts, " ")+" : Nat → "+strings.Join(carriedTypes, " → ")+" → Res "+puTupleType(carriedTypes))
	d = append(d, "  | 0, "+strings.Repeat("_, ", len(carried)-1)+"_ => .error .hang")
	d = append(d, "  | fuel + 1, "+strings.Join(carriedNames, ", ")+" =>")
	d = append(d, "    if (decide ("+c.name(iv)+" "+op+" "+bound+")) then")
	for _, l := range body {
		d = append(d, "      "+l)
	}
	d = append(d, "    else")
	d = append(d, "      .ok "+puTuple(carriedNames))
	c.aux = append(c.aux, strings.Join(d, "\n")+"\n")
	// the call
	t := c.fresh()
	fuel := fmt.Sprintf("(Int.toNat (%s - %s) + %d)", bound, c.name(iv), extra)
	lines = append(lines, strings.Join(append(append([]string{name}, freeNames...), append([]string{fuel}, carriedNames...)...), " ")+" >>= fun "+t+" =>")
	for i, n := range carriedNames {
		lines = append(lines, "let "+n+" := "+puProj(t, i, len(carriedNames)))
	}
	r, err := next()
	return append(lines, r...), err
}

func puTupleType(ts []string) string {
	if len(ts) == 1 {
		return ts[0]
	}
	return "(" + strings.Join(ts, " × ") + ")"
}

// ---------------------------------------------------------------------------------------------- function

func (c *puFn) translate() (string, error) {
	sig := c.obj.Type().(*types.Signature)
	var params []string
	if c.usesExt {
		params = append(params, "(E : Go.Ext)")
	}
	if c.usesLib {
		params = append(params, "(L : Lib)")
	}
	if c.grp.g.rich {
		c.guards = c.prologueGuards()
		if err := c.checkRich(); err != nil {
			return "", err
		}
	}
	addParam := func(v *types.Var, i int, isRecv bool) error {
		lt, err := c.varLeanType(v)
		if err != nil {
			return c.errf(c.decl, "parameter %s: %v", v.Name(), err)
		}
		if _, isPtr := v.Type().Underlying().(*types.Pointer); isPtr && !isRecv && c.kindOf(v.Type()) != puPtr {
			return c.errf(c.decl, "pointer parameter %s", v.Name())
		}
		n := ""
		if v.Name() == "" || v.Name() == "_" {
			n = "_p" + strconv.Itoa(i)
			c.used[n] = true
		} else {
			n = c.name(v)
		}
		params = append(params, "("+n+" : "+lt+")")
		return nil
	}
	if c.recv != nil {
		if err := addParam(c.recv, 0, true); err != nil {
			return "", err
		}
	}
	for i := 0; i < sig.Params().Len(); i++ {
		if err := addParam(sig.Params().At(i), i+1, false); err != nil {
			return "", err
		}
	}
	// result type
	var rts []string
	var lines []string
	if c.mutRecv {
		lt, _ := c.leanType(c.recv.Type())
		rts = append(rts, lt)
	}
	var fall puK
	if c.t.upto != "" {
		var vals []string
		for _, rn := range c.t.results {
			var found *types.Var
			for o := range c.pkg.info.Defs {
				if v, ok := c.pkg.info.Defs[o].(*types.Var); ok && o.Name == rn && o.Pos() >= c.decl.Pos() && o.Pos() < c.decl.End() {
					if found != nil {
						return "", c.errf(c.decl, "two locals named %s (prefix mode)", rn)
					}
					found = v
				}
			}
			if found == nil || c.tail[0].Pos() < found.Pos() {
				return "", c.errf(c.decl, "local %s is not declared in the translated prefix", rn)
			}
			lt, err := c.leanType(found.Type())
			if err != nil {
				return "", c.errf(c.decl, "%s: %v", rn, err)
			}
			rts = append(rts, lt)
			vals = append(vals, c.name(found))
		}
		fall = func() ([]string, error) { return []string{c.retLine(vals)}, nil }
	} else {
		named := true
		for i := 0; i < sig.Results().Len(); i++ {
			r := sig.Results().At(i)
			lt, err := c.leanType(r.Type())
			if err != nil {
				return "", c.errf(c.decl, "result: %v", err)
			}
			if _, isPtr := r.Type().Underlying().(*types.Pointer); isPtr {
				// *T result: only `return &local` is accepted (ret), the value is returned
				_ = isPtr
			}
			rts = append(rts, lt)
			if r.Name() == "" || r.Name() == "_" {
				named = false
			} else {
				z, err := c.zero(r.Type())
				if err != nil {
					return "", c.errf(c.decl, "result: %v", err)
				}
				lines = append(lines, "let "+c.name(r)+" : "+lt+" := "+z)
			}
		}
		fall = func() ([]string, error) {
			if sig.Results().Len() != 0 && !named {
				return nil, c.errf(c.decl, "control reaches the end of a function with results")
			}
			var vals []string
			for i := 0; i < sig.Results().Len(); i++ {
				vals = append(vals, c.name(sig.Results().At(i)))
			}
			return []string{c.retLine(vals)}, nil
		}
	}
	body, err := c.block(c.body, fall, nil)
	if err != nil {
		return "", err
	}
	if len(c.pre) != 0 {
		return "", c.errf(c.decl, "internal: hoisted operations left over")
	}
	lines = append(lines, body...)
	rt := "Unit"
	if len(rts) > 0 {
		rt = puTupleType(rts)
	}
	if c.monadic {
		rt = "Res " + rt
	}
	if c.stateful() {
		if c.mutRecv {
			return "", c.errf(c.decl, "receiver-mutating method with state parameters")
		}
		st, err := c.stateType()
		if err != nil {
			return "", c.errf(c.decl, "%v", err)
		}
		rt = st + " × " + rt
	}
	var b strings.Builder
	for _, a := range c.aux {
		b.WriteString(a)
		b.WriteString("\n")
	}
	what := "func " + c.t.fn
	if c.t.upto != "" {
		what += " (the statements before `" + c.t.upto + "…`; result: " + strings.Join(c.t.results, ", ") + ")"
	}
	fmt.Fprintf(&b, "/-- src/%s/%s %s -/\n", c.t.pkg, c.t.file, what)
	fmt.Fprintf(&b, "def %s %s : %s :=\n", c.lean, strings.Join(params, " "), rt)
	for _, l := range lines {
		b.WriteString("  " + l + "\n")
	}
	if c.t.upto != "" {
		fmt.Fprintf(&b, "\n/-- the statements of %s after the translated prefix, as text (pinned by the tie theorem) -/\n", c.t.fn)
		fmt.Fprintf(&b, "def %s.tail : List String := [\n", c.lean)
		for i, s := range c.tail {
			sep := ","
			if i == len(c.tail)-1 {
				sep = ""
			}
			txt := strings.Join(strings.Fields(c.text(s)), " ")
			for _, r := range txt {
				if r < 0x20 || r > 0x7e {
					return "", c.errf(s, "non-ASCII text in the pinned tail")
				}
			}
			fmt.Fprintf(&b, "  %s%s\n", strconv.Quote(txt), sep)
		}
		b.WriteString("]\n")
		// the named constants the pinned statements mention, with the values go/types gives them
		var consts []string
		seenC := map[string]bool{}
		for _, st := range c.tail {
			ast.Inspect(st, func(n ast.Node) bool {
				e, ok := n.(ast.Expr)
				if !ok {
					return true
				}
				switch e.(type) {
				case *ast.Ident, *ast.SelectorExpr:
				default:
					return true
				}
				tv, ok := c.pkg.info.Types[e]
				if !ok || tv.Value == nil || !c.kindOf(tv.Type).integer() {
					return true
				}
				name := c.text(e)
				if !seenC[name] {
					seenC[name] = true
					consts = append(consts, fmt.Sprintf("(%s, %s)", strconv.Quote(name), tv.Value.ExactString()))
				}
				return false
			})
		}
		fmt.Fprintf(&b, "\n/-- the named integer constants in those statements, with their values -/\ndef %s.tailConsts : List (String × Int) := [%s]\n",
			c.lean, strings.Join(consts, ", "))
		fmt.Fprintf(&b, "\n/-- the signature of %s, as text -/\ndef %s.signature : String := %s\n", c.t.fn, c.lean,
			strconv.Quote(strings.Join(strings.Fields(c.text(c.decl.Type)), " ")))
	}
	return b.String(), nil
}
