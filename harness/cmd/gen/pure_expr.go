package main

import (
	"fmt"
	"go/ast"
	"go/constant"
	"go/token"
	"go/types"
	"strings"
)

// bind: hoist an operation that can fail; returns the name bound to its value
func (c *puFn) bind(n ast.Node, op string) (string, error) {
	if !c.monadic {
		return "", c.errf(n, "internal: failing operation in a function classified as total")
	}
	t := c.fresh()
	if c.stateful() {
		c.pre = append(c.pre, "Go.bindS "+c.stateText()+" ("+op+") fun "+t+" =>")
		return t, nil
	}
	c.pre = append(c.pre, op+" >>= fun "+t+" =>")
	return t, nil
}

func (c *puFn) takePre() []string {
	p := c.pre
	c.pre = nil
	return p
}

// constCount: a constant non-negative integer operand (shift counts, make sizes)
func (c *puFn) constCount(e ast.Expr) (int64, bool) {
	tv, ok := c.pkg.info.Types[e]
	if !ok || tv.Value == nil {
		return 0, false
	}
	v := constant.ToInt(tv.Value)
	if v.Kind() != constant.Int {
		return 0, false
	}
	n, exact := constant.Int64Val(v)
	if !exact || n < 0 {
		return 0, false
	}
	return n, true
}

// toInt: an integer-typed expression as a Lean Int (for indices)
func (c *puFn) toInt(e ast.Expr) (string, error) {
	t, err := c.typeOf(e)
	if err != nil {
		return "", err
	}
	s, err := c.expr(e)
	if err != nil {
		return "", err
	}
	switch k := c.kindOf(t); {
	case k == puInt || k == puI32:
		return s, nil
	case k.unsigned():
		return "(" + s + ".toNat : Int)", nil
	}
	return "", c.errf(e, "index of type %s", t)
}

func (c *puFn) expr(e ast.Expr) (string, error) {
	tv, ok := c.pkg.info.Types[e]
	if ok && tv.Value != nil {
		if _, err := c.typeOf(e); err != nil {
			return "", err
		}
		s, err := c.literal(tv.Value, tv.Type)
		if err != nil {
			return "", c.errf(e, "%v", err)
		}
		return s, nil
	}
	switch x := e.(type) {
	case *ast.ParenExpr:
		return c.expr(x.X)
	case *ast.Ident:
		return c.ident(x)
	case *ast.BasicLit:
		return "", c.errf(e, "literal without a constant value")
	case *ast.SelectorExpr:
		return c.selector(x)
	case *ast.BinaryExpr:
		return c.binary(x)
	case *ast.UnaryExpr:
		return c.unary(x)
	case *ast.IndexExpr:
		t, err := c.typeOf(x.X)
		if err != nil {
			return "", err
		}
		if k := c.kindOf(t); k != puBytes && k != puList {
			return "", c.errf(e, "index into %s", t)
		}
		if _, isPtr := t.Underlying().(*types.Pointer); isPtr {
			return "", c.errf(e, "index through a pointer")
		}
		if _, isArr := t.Underlying().(*types.Array); isArr {
			return "", c.errf(e, "index into an array")
		}
		base, err := c.expr(x.X)
		if err != nil {
			return "", err
		}
		i, err := c.toInt(x.Index)
		if err != nil {
			return "", err
		}
		return c.bind(e, "Go.idx "+base+" "+i)
	case *ast.SliceExpr:
		if x.Max != nil || x.Slice3 || (x.High != nil && !c.forcedHigh[x]) {
			return "", c.errf(e, "slice expression with a high bound (its limit is cap(x), which the carrier does not have)")
		}
		t, err := c.typeOf(x.X)
		if err != nil {
			return "", err
		}
		if k := c.kindOf(t); k != puBytes && k != puList {
			return "", c.errf(e, "slice of %s", t)
		}
		if _, isArr := t.Underlying().(*types.Array); isArr {
			return "", c.errf(e, "slice of an array")
		}
		base, err := c.expr(x.X)
		if err != nil {
			return "", err
		}
		if c.grp.g.rich && x.Low == nil && x.High == nil {
			if _, isSlice := t.Underlying().(*types.Slice); isSlice {
				return base, nil // x[:] of a slice is x
			}
		}
		if x.High != nil {
			lo := "(0 : Int)"
			if x.Low != nil {
				if lo, err = c.toInt(x.Low); err != nil {
					return "", err
				}
			}
			hi, err := c.toInt(x.High)
			if err != nil {
				return "", err
			}
			return c.bind(e, "Go.slice "+base+" "+lo+" "+hi)
		}
		lo := "(0 : Int)"
		if x.Low != nil {
			if lo, err = c.toInt(x.Low); err != nil {
				return "", err
			}
		}
		return c.bind(e, "Go.sliceFrom "+base+" "+lo)
	case *ast.CompositeLit:
		return c.composite(x)
	case *ast.CallExpr:
		return c.call(x)
	}
	return "", c.errf(e, "expression %T outside the translated subset", e)
}

func (c *puFn) ident(x *ast.Ident) (string, error) {
	o := c.pkg.info.ObjectOf(x)
	switch v := o.(type) {
	case *types.Var:
		if v.IsField() {
			return "", c.errf(x, "bare field name")
		}
		if v.Parent() == nil || v.Parent() == v.Pkg().Scope() {
			return "", c.errf(x, "package-level variable %s", x.Name)
		}
		if _, err := c.typeOf(x); err != nil {
			return "", err
		}
		if c.kindOf(v.Type()) == puBad {
			return "", c.errf(x, "variable %s of type %s", x.Name, v.Type())
		}
		if c.fx.poison[v] {
			return "", c.errf(x, "%s may have been overwritten in place through another name", x.Name)
		}
		if c.kindOf(v.Type()) == puPtr {
			return c.varText(v), nil
		}
		if c.nilable[v] && !c.bound[v] {
			return "", c.errf(x, "%s is read before it is tested against nil", x.Name)
		}
		return c.name(v), nil
	case *types.Nil:
		t, err := c.typeOf(x)
		if err != nil {
			return "", err
		}
		if c.kindOf(t) == puPtr {
			return "none", nil
		}
		if k := c.kindOf(t); k == puBytes || k == puList {
			return c.zero(t)
		}
		return "", c.errf(x, "nil of type %s", t)
	}
	return "", c.errf(x, "identifier %s (%T) outside the translated subset", x.Name, o)
}

func (c *puFn) selector(x *ast.SelectorExpr) (string, error) {
	sel, ok := c.pkg.info.Selections[x]
	if !ok || sel.Kind() != types.FieldVal || len(sel.Index()) != 1 {
		return "", c.errf(x, "selector %s outside the translated subset", c.text(x))
	}
	if _, err := c.typeOf(x); err != nil {
		return "", err
	}
	bt, err := c.typeOf(x.X)
	if err != nil {
		return "", err
	}
	if c.grp.g.rich {
		if n := puNamedStruct(bt); n != nil {
			fs, _, err := c.grp.structFields(n)
			if err != nil {
				return "", c.errf(x, "%v", err)
			}
			has := false
			for _, f := range fs {
				if f.Name() == x.Sel.Name {
					has = true
				}
			}
			if !has {
				return "", c.errf(x, "field %s has no carrier (it is part of rest_)", x.Sel.Name)
			}
		}
	}
	if c.kindOf(bt) == puPtr {
		if _, err := c.leanType(bt); err != nil {
			return "", c.errf(x, "%v", err)
		}
		var base string
		if v := c.identVar(x.X); v != nil {
			if base, err = c.derefVar(x, v); err != nil {
				return "", err
			}
		} else {
			inner, err := c.expr(x.X)
			if err != nil {
				return "", err
			}
			if base, err = c.bind(x, "Go.deref "+inner); err != nil {
				return "", err
			}
		}
		return base + "." + puLeanIdent(x.Sel.Name), nil
	}
	if c.kindOf(bt) != puStruct {
		return "", c.errf(x, "field of %s", bt)
	}
	if _, isPtr := bt.Underlying().(*types.Pointer); isPtr && c.rootVar(x.X) != c.recv {
		return "", c.errf(x, "field through a pointer that is not the receiver")
	}
	if _, err := c.leanType(bt); err != nil {
		return "", c.errf(x, "%v", err)
	}
	base, err := c.expr(x.X)
	if err != nil {
		return "", err
	}
	return base + "." + puLeanIdent(x.Sel.Name), nil
}

func (c *puFn) unary(x *ast.UnaryExpr) (string, error) {
	if lit, ok := x.X.(*ast.CompositeLit); ok && x.Op == token.AND && c.grp.g.rich {
		s, err := c.composite(lit)
		if err != nil {
			return "", err
		}
		return "(some " + s + ")", nil
	}
	t, err := c.typeOf(x)
	if err != nil {
		return "", err
	}
	k := c.kindOf(t)
	a, err := c.expr(x.X)
	if err != nil {
		return "", err
	}
	switch {
	case x.Op == token.NOT && k == puBool:
		return "(!" + a + ")", nil
	case x.Op == token.SUB && k.unsigned():
		return "((0 : " + puLeanUint[k] + ") - " + a + ")", nil
	case x.Op == token.SUB && k == puInt:
		return "(Go.ineg " + a + ")", nil
	case x.Op == token.XOR && k.unsigned():
		return "(~~~" + a + ")", nil
	case x.Op == token.ADD && k.integer():
		return a, nil
	}
	return "", c.errf(x, "unary %s on %s", x.Op, t)
}

func (c *puFn) binary(x *ast.BinaryExpr) (string, error) {
	switch x.Op {
	case token.LAND, token.LOR:
		l, err := c.expr(x.X)
		if err != nil {
			return "", err
		}
		n := len(c.pre)
		r, err := c.expr(x.Y)
		if err != nil {
			return "", err
		}
		if len(c.pre) != n {
			return "", c.errf(x.Y, "right operand of %s can fail (short-circuit evaluation is not translated)", x.Op)
		}
		if x.Op == token.LAND {
			return "(" + l + " && " + r + ")", nil
		}
		return "(" + l + " || " + r + ")", nil
	case token.EQL, token.NEQ, token.LSS, token.LEQ, token.GTR, token.GEQ:
		return c.compare(x)
	case token.SHL, token.SHR:
		return c.shift(x)
	}
	t, err := c.typeOf(x)
	if err != nil {
		return "", err
	}
	k := c.kindOf(t)
	l, err := c.expr(x.X)
	if err != nil {
		return "", err
	}
	r, err := c.expr(x.Y)
	if err != nil {
		return "", err
	}
	constDiv := false
	if x.Op == token.QUO || x.Op == token.REM {
		if tv := c.pkg.info.Types[x.Y]; tv.Value != nil {
			if constant.Sign(constant.ToInt(tv.Value)) == 0 {
				return "", c.errf(x, "division by the constant 0")
			}
			constDiv = true
		}
	}
	switch {
	case k == puBytes && x.Op == token.ADD:
		if _, isStr := t.Underlying().(*types.Basic); isStr {
			return "(" + l + " ++ " + r + ")", nil
		}
	case k.unsigned():
		op := map[token.Token]string{token.ADD: "+", token.SUB: "-", token.MUL: "*", token.AND: "&&&", token.OR: "|||", token.XOR: "^^^"}[x.Op]
		if op != "" {
			return "(" + l + " " + op + " " + r + ")", nil
		}
		switch {
		case x.Op == token.AND_NOT:
			return "(" + l + " &&& ~~~" + r + ")", nil
		case x.Op == token.QUO && constDiv:
			return "(" + l + " / " + r + ")", nil
		case x.Op == token.REM && constDiv:
			return "(" + l + " % " + r + ")", nil
		}
	case k == puInt:
		fn := map[token.Token]string{token.ADD: "Go.iadd", token.SUB: "Go.isub", token.MUL: "Go.imul", token.AND: "Go.iand", token.OR: "Go.ior", token.XOR: "Go.ixor"}[x.Op]
		if fn != "" {
			return "(" + fn + " " + l + " " + r + ")", nil
		}
		switch {
		case x.Op == token.QUO && constDiv:
			return "(Go.idivc " + l + " " + r + ")", nil
		case x.Op == token.REM && constDiv:
			return "(Go.imodc " + l + " " + r + ")", nil
		case x.Op == token.QUO:
			return c.bind(x, "Go.idiv "+l+" "+r)
		case x.Op == token.REM:
			return c.bind(x, "Go.imod "+l+" "+r)
		}
	}
	return "", c.errf(x, "operator %s on %s outside the translated subset", x.Op, t)
}

func (c *puFn) compare(x *ast.BinaryExpr) (string, error) {
	tx, err := c.typeOf(x.X)
	if err != nil {
		return "", err
	}
	ty, err := c.typeOf(x.Y)
	if err != nil {
		return "", err
	}
	// err != nil / err == nil
	isNil := func(e ast.Expr) bool {
		id, ok := e.(*ast.Ident)
		if !ok {
			return false
		}
		_, ok = c.pkg.info.ObjectOf(id).(*types.Nil)
		return ok
	}
	if c.kindOf(tx) == puErr && isNil(x.Y) && (x.Op == token.NEQ || x.Op == token.EQL) {
		a, err := c.expr(x.X)
		if err != nil {
			return "", err
		}
		if x.Op == token.NEQ {
			return a, nil
		}
		return "(!" + a + ")", nil
	}
	if isNil(x.X) || isNil(x.Y) {
		return "", c.errf(x, "comparison with nil (the carrier does not distinguish nil from empty)")
	}
	kx, ky := c.kindOf(tx), c.kindOf(ty)
	if kx != ky || !(kx.integer() || kx == puBool || kx == puBytes) {
		return "", c.errf(x, "comparison of %s with %s", tx, ty)
	}
	if kx == puBytes {
		_, sx := tx.Underlying().(*types.Basic)
		_, sy := ty.Underlying().(*types.Basic)
		if !sx || !sy || (x.Op != token.EQL && x.Op != token.NEQ) {
			return "", c.errf(x, "comparison %s of %s", x.Op, tx)
		}
	}
	if kx == puBool && x.Op != token.EQL && x.Op != token.NEQ {
		return "", c.errf(x, "comparison %s of bool", x.Op)
	}
	l, err := c.expr(x.X)
	if err != nil {
		return "", err
	}
	r, err := c.expr(x.Y)
	if err != nil {
		return "", err
	}
	op := map[token.Token]string{token.EQL: "=", token.NEQ: "≠", token.LSS: "<", token.LEQ: "≤", token.GTR: ">", token.GEQ: "≥"}[x.Op]
	return "(decide (" + l + " " + op + " " + r + "))", nil
}

func (c *puFn) shift(x *ast.BinaryExpr) (string, error) {
	t, err := c.typeOf(x)
	if err != nil {
		return "", err
	}
	k := c.kindOf(t)
	n, ok := c.constCount(x.Y)
	if !ok {
		return "", c.errf(x, "shift by a count that is not a non-negative constant")
	}
	a, err := c.expr(x.X)
	if err != nil {
		return "", err
	}
	switch {
	case k.unsigned():
		if n >= int64(k.width()) {
			return "(0 : " + puLeanUint[k] + ")", nil
		}
		op := "<<<"
		if x.Op == token.SHR {
			op = ">>>"
		}
		return fmt.Sprintf("(%s %s (%d : %s))", a, op, n, puLeanUint[k]), nil
	case k == puInt:
		if x.Op == token.SHL {
			if n >= 64 {
				return "(0 : Int)", nil
			}
			return fmt.Sprintf("(Go.ishlc %s %d)", a, n), nil
		}
		return fmt.Sprintf("(Go.ishrc %s %d)", a, n), nil
	}
	return "", c.errf(x, "shift of %s", t)
}

func (c *puFn) composite(x *ast.CompositeLit) (string, error) {
	t, err := c.typeOf(x)
	if err != nil {
		return "", err
	}
	switch k := c.kindOf(t); k {
	case puBytes, puList:
		if _, isSlice := t.Underlying().(*types.Slice); !isSlice {
			break
		}
		var parts []string
		for _, el := range x.Elts {
			if _, kv := el.(*ast.KeyValueExpr); kv {
				return "", c.errf(el, "keyed element in a slice literal")
			}
			s, err := c.expr(el)
			if err != nil {
				return "", err
			}
			parts = append(parts, s)
		}
		lt, err := c.leanType(t)
		if err != nil {
			return "", c.errf(x, "%v", err)
		}
		return "([" + strings.Join(parts, ", ") + "] : " + strings.Trim(lt, "()") + ")", nil
	case puStruct:
		if _, isPtr := t.Underlying().(*types.Pointer); isPtr {
			break
		}
		given := map[string]string{}
		for _, el := range x.Elts {
			kv, ok := el.(*ast.KeyValueExpr)
			if !ok {
				return "", c.errf(el, "struct literal without field names")
			}
			id, ok := kv.Key.(*ast.Ident)
			if !ok {
				return "", c.errf(el, "struct literal key")
			}
			s, err := c.expr(kv.Value)
			if err != nil {
				return "", err
			}
			given[id.Name] = s
		}
		s, err := c.structLit(t, given)
		if err != nil {
			return "", c.errf(x, "%v", err)
		}
		return s, nil
	}
	return "", c.errf(x, "composite literal of %s", t)
}

// convert: T(x)
func (c *puFn) convert(call *ast.CallExpr, to types.Type) (string, error) {
	if len(call.Args) != 1 {
		return "", c.errf(call, "conversion with %d operands", len(call.Args))
	}
	from, err := c.typeOf(call.Args[0])
	if err != nil {
		return "", err
	}
	a, err := c.expr(call.Args[0])
	if err != nil {
		return "", err
	}
	kf, kt := c.kindOf(from), c.kindOf(to)
	_, fromStr := from.Underlying().(*types.Basic)
	switch {
	case kf == kt && kf.integer():
		return a, nil
	case kf.unsigned() && kt.unsigned():
		return "(" + a + ".to" + puLeanUint[kt] + ")", nil
	case kf == puInt && kt.unsigned(), kf == puI32 && kt.unsigned():
		return "(" + puLeanUint[kt] + ".ofInt " + a + ")", nil
	case kf.unsigned() && kt == puInt:
		if kf == puU64 {
			return "(Go.wrapInt (" + a + ".toNat : Int))", nil
		}
		return "(" + a + ".toNat : Int)", nil
	case kf.unsigned() && kt == puI32:
		if kf == puU8 || kf == puU16 {
			return "(" + a + ".toNat : Int)", nil
		}
		return "(Go.wrapI32 (" + a + ".toNat : Int))", nil
	case kf == puI32 && kt == puInt:
		return a, nil
	case kf == puInt && kt == puI32:
		return "(Go.wrapI32 " + a + ")", nil
	case kf == puBytes && kt == puBytes:
		// []byte(s), string(b []byte), and conversions between named forms: the octets
		_ = fromStr
		return a, nil
	}
	return "", c.errf(call, "conversion from %s to %s outside the translated subset", from, to)
}

func (c *puFn) args(call *ast.CallExpr) ([]string, error) {
	var out []string
	for _, a := range call.Args {
		s, err := c.expr(a)
		if err != nil {
			return nil, err
		}
		out = append(out, s)
	}
	return out, nil
}

// call: a call in expression position with exactly one result (multi-valued calls are handled by the assignment)
func (c *puFn) call(x *ast.CallExpr) (string, error) {
	if x.Ellipsis.IsValid() {
		return "", c.errf(x, "f(xs...) outside append")
	}
	if tv, ok := c.pkg.info.Types[x.Fun]; ok && tv.IsType() {
		return c.convert(x, tv.Type)
	}
	if id, ok := x.Fun.(*ast.Ident); ok {
		if _, ok := c.pkg.info.Uses[id].(*types.Builtin); ok {
			switch id.Name {
			case "len":
				t, err := c.typeOf(x.Args[0])
				if err != nil {
					return "", err
				}
				if k := c.kindOf(t); k != puBytes && k != puList {
					return "", c.errf(x, "len of %s", t)
				}
				if _, isArr := t.Underlying().(*types.Array); isArr {
					return "", c.errf(x, "len of an array")
				}
				a, err := c.expr(x.Args[0])
				if err != nil {
					return "", err
				}
				return "(Go.len " + a + ")", nil
			case "make":
				t, err := c.typeOf(x)
				if err != nil {
					return "", err
				}
				sl, ok := t.Underlying().(*types.Slice)
				if !ok || len(x.Args) != 2 {
					return "", c.errf(x, "make outside the translated subset")
				}
				z, err := c.zero(sl.Elem())
				if err != nil {
					return "", c.errf(x, "%v", err)
				}
				if n, ok := c.constCount(x.Args[1]); ok {
					return fmt.Sprintf("(List.replicate %d %s)", n, z), nil
				}
				n, err := c.toInt(x.Args[1])
				if err != nil {
					return "", err
				}
				return c.bind(x, "Go.make "+z+" "+n)
			}
			if id.Name == "new" && c.grp.g.rich && len(x.Args) == 1 {
				t, err := c.typeOf(x)
				if err != nil {
					return "", err
				}
				if c.kindOf(t) != puPtr {
					return "", c.errf(x, "new of %s", t)
				}
				z, err := c.structLit(t, nil)
				if err != nil {
					return "", c.errf(x, "%v", err)
				}
				return "(some " + z + ")", nil
			}
			return "", c.errf(x, "builtin %s in this position", id.Name)
		}
	}
	if f, rx := c.callee(x); f != nil {
		if f.mutRecv {
			if c.grp.g.rich && f.t.extern {
				return c.hoistMut(x, f, rx)
			}
			return "", c.errf(x, "call of a receiver-mutating method inside an expression")
		}
		if c.grp.g.rich && !f.t.extern {
			if f.stateful() {
				return "", c.errf(x, "call of a function that changes objects behind its pointer parameters inside an expression")
			}
			lines, exprs, _, err := c.richCall(x, f)
			if err != nil {
				return "", err
			}
			if len(exprs) != 1 {
				return "", c.errf(x, "multi-valued call inside an expression")
			}
			c.pre = append(lines, c.pre...)
			return exprs[0], nil
		}
		s, _, err := c.calleeApp(x, f, rx)
		return s, err
	}
	if l := c.libOf(x); l != nil {
		if !l.total {
			return "", c.errf(x, "library call %s inside an expression", l.key)
		}
		fo := c.libFuncObj(x)
		if fo == nil {
			return "", c.errf(x, "library call %s: no type information", l.key)
		}
		a, err := c.args(x)
		if err != nil {
			return "", err
		}
		// the operands must have the carriers the field is typed with
		want := c.grp.g.libTotalSig[l.field]
		for _, arg := range x.Args {
			t, err := c.typeOf(arg)
			if err != nil {
				return "", err
			}
			lt, err := c.leanType(t)
			if err != nil || lt != want.arg {
				return "", c.errf(arg, "operand of %s of type %s", l.key, t)
			}
		}
		if len(a) != want.n {
			return "", c.errf(x, "%s with %d operands", l.key, len(a))
		}
		parts := make([]string, want.n)
		for i := range parts {
			parts[i] = want.arg
		}
		c.grp.libUsed[l.field] = strings.Join(append(parts, want.res), " → ")
		return "(L." + l.field + " " + strings.Join(a, " ") + ")", nil
	}
	if c.grp.g.rich && c.stdCall(x) == "fmt.Errorf" {
		// a non-nil error whatever the operands; they are evaluated for nothing else
		for _, a := range x.Args {
			if !puHarmless(a) {
				return "", c.errf(a, "operand of fmt.Errorf that could fail or have an effect")
			}
		}
		return "true", nil
	}
	switch c.stdCall(x) {
	case "fmt.Sprintf":
		return c.sprintf(x)
	case "strconv.Atoi", "encoding/hex.DecodeString":
		return "", c.errf(x, "two-valued call inside an expression")
	}
	return "", c.errf(x, "call of %s: not a listed function", c.text(x.Fun))
}

// calleeApp: the application text of a listed function (hoisted if it can fail); nres = number of Go results
func (c *puFn) calleeApp(x *ast.CallExpr, f *puFn, rx ast.Expr) (string, int, error) {
	args, err := c.args(x)
	if err != nil {
		return "", 0, err
	}
	parts := []string{f.lean}
	if f.usesExt {
		parts = append(parts, "E")
	}
	if rx != nil {
		r, err := c.expr(rx)
		if err != nil {
			return "", 0, err
		}
		parts = append(parts, r)
	}
	parts = append(parts, args...)
	app := strings.Join(parts, " ")
	nres := f.obj.Type().(*types.Signature).Results().Len()
	if f.monadic {
		t, err := c.bind(x, app)
		return t, nres, err
	}
	return "(" + app + ")", nres, nil
}

// sprintf: literal text, %s, %d, %0*d, %%
func (c *puFn) sprintf(x *ast.CallExpr) (string, error) {
	if len(x.Args) == 0 {
		return "", c.errf(x, "Sprintf without format")
	}
	tv := c.pkg.info.Types[x.Args[0]]
	if tv.Value == nil || tv.Value.Kind() != constant.String {
		return "", c.errf(x, "Sprintf with a format that is not a constant")
	}
	f := constant.StringVal(tv.Value)
	rest := x.Args[1:]
	next := func(want puKind) (string, error) {
		if len(rest) == 0 {
			return "", c.errf(x, "Sprintf: too few operands")
		}
		a := rest[0]
		rest = rest[1:]
		t, err := c.typeOf(a)
		if err != nil {
			return "", err
		}
		if c.kindOf(t) != want {
			return "", c.errf(a, "Sprintf operand of type %s", t)
		}
		if want == puBytes {
			if _, isStr := t.Underlying().(*types.Basic); !isStr {
				return "", c.errf(a, "Sprintf %%s of a byte slice")
			}
		}
		return c.expr(a)
	}
	var parts []string
	lit := []byte{}
	flush := func() {
		if len(lit) > 0 {
			parts = append(parts, puBytesLit(lit))
			lit = []byte{}
		}
	}
	for i := 0; i < len(f); i++ {
		if f[i] != '%' {
			lit = append(lit, f[i])
			continue
		}
		switch {
		case strings.HasPrefix(f[i:], "%%"):
			lit = append(lit, '%')
			i++
		case strings.HasPrefix(f[i:], "%s"):
			flush()
			a, err := next(puBytes)
			if err != nil {
				return "", err
			}
			parts = append(parts, a)
			i++
		case strings.HasPrefix(f[i:], "%d"):
			flush()
			a, err := next(puInt)
			if err != nil {
				return "", err
			}
			parts = append(parts, "(E.fmtD "+a+")")
			i++
		case strings.HasPrefix(f[i:], "%0*d"):
			flush()
			w, err := next(puInt)
			if err != nil {
				return "", err
			}
			a, err := next(puInt)
			if err != nil {
				return "", err
			}
			parts = append(parts, "(E.fmtD0Star "+w+" "+a+")")
			i += 3
		default:
			return "", c.errf(x, "Sprintf verb at %q outside the translated subset", f[i:])
		}
	}
	flush()
	if len(rest) != 0 {
		return "", c.errf(x, "Sprintf: too many operands")
	}
	if len(parts) == 0 {
		return "([] : Bytes)", nil
	}
	return "(" + strings.Join(parts, " ++ ") + ")", nil
}
