package main

import (
	"fmt"
	"go/ast"
	"go/constant"
	"go/types"
	"math/big"
	"strings"
)

// Carriers: how a Go type is represented in the generated Lean (see Gen/PureRt.lean).
type puKind int

const (
	puBad puKind = iota
	puU8
	puU16
	puU32
	puU64
	puInt // int and int64: Int wrapped to 64 bits
	puI32 // Int wrapped to 32 bits
	puBool
	puBytes // string and []byte / []uint8
	puList  // []T, T another carrier
	puStruct
	puErr // error: Bool (err != nil)
	puPtr // rich groups: *T for a named struct T, carried as Option T (none = nil)
)

func (k puKind) unsigned() bool { return k == puU8 || k == puU16 || k == puU32 || k == puU64 }
func (k puKind) integer() bool  { return k.unsigned() || k == puInt || k == puI32 }
func (k puKind) width() int {
	switch k {
	case puU8:
		return 8
	case puU16:
		return 16
	case puU32, puI32:
		return 32
	}
	return 64
}

var puLeanUint = map[puKind]string{puU8: "UInt8", puU16: "UInt16", puU32: "UInt32", puU64: "UInt64"}

func puIsErrorType(t types.Type) bool {
	n, ok := t.(*types.Named)
	return ok && n.Obj().Pkg() == nil && n.Obj().Name() == "error"
}

func (c *puFn) kindOf(t types.Type) puKind {
	if t == nil {
		return puBad
	}
	if puIsErrorType(t) {
		return puErr
	}
	switch u := t.Underlying().(type) {
	case *types.Basic:
		switch u.Kind() {
		case types.Uint8:
			return puU8
		case types.Uint16:
			return puU16
		case types.Uint32:
			return puU32
		case types.Uint64:
			return puU64
		case types.Int, types.Int64, types.UntypedInt, types.UntypedRune:
			return puInt
		case types.Int32:
			return puI32
		case types.Bool, types.UntypedBool:
			return puBool
		case types.String, types.UntypedString:
			return puBytes
		}
	case *types.Slice:
		if b, ok := u.Elem().Underlying().(*types.Basic); ok && b.Kind() == types.Uint8 {
			return puBytes
		}
		if c.kindOf(u.Elem()) != puBad {
			return puList
		}
	case *types.Struct:
		if _, ok := t.(*types.Named); ok {
			return puStruct
		}
	case *types.Pointer:
		if _, ok := u.Elem().Underlying().(*types.Struct); ok {
			if _, ok := u.Elem().(*types.Named); ok {
				if c.grp.g.rich && !(c.recv != nil && types.Identical(t, c.recv.Type())) {
					return puPtr
				}
				return puStruct
			}
		}
	case *types.Array:
		// [N]uint8 as a whole value (arrays are values in Go): read, copied, passed on; never indexed or sliced
		if b, ok := u.Elem().Underlying().(*types.Basic); ok && b.Kind() == types.Uint8 && c.grp.g.rich {
			return puBytes
		}
	}
	return puBad
}

// leanType: the Lean type text of a Go type; registers the structures it needs.
func (c *puFn) leanType(t types.Type) (string, error) {
	switch k := c.kindOf(t); k {
	case puU8, puU16, puU32, puU64:
		return puLeanUint[k], nil
	case puInt, puI32:
		return "Int", nil
	case puBool, puErr:
		return "Bool", nil
	case puBytes:
		return "Bytes", nil
	case puList:
		e, err := c.leanType(t.Underlying().(*types.Slice).Elem())
		if err != nil {
			return "", err
		}
		return "(List " + e + ")", nil
	case puStruct:
		return c.grp.structName(c, t)
	case puPtr:
		n, err := c.grp.structName(c, t)
		if err != nil {
			return "", err
		}
		return "(Option " + n + ")", nil
	}
	return "", fmt.Errorf("type %s is outside the translated subset", t)
}

func puNamedStruct(t types.Type) *types.Named {
	if p, ok := t.Underlying().(*types.Pointer); ok {
		t = p.Elem()
	}
	if p, ok := t.(*types.Pointer); ok {
		t = p.Elem()
	}
	n, _ := t.(*types.Named)
	return n
}

// zero: the zero value of a Go type
func (c *puFn) zero(t types.Type) (string, error) {
	switch k := c.kindOf(t); k {
	case puU8, puU16, puU32, puU64:
		return "(0 : " + puLeanUint[k] + ")", nil
	case puInt, puI32:
		return "(0 : Int)", nil
	case puBool, puErr:
		return "false", nil
	case puBytes:
		return "([] : Bytes)", nil
	case puList:
		lt, err := c.leanType(t)
		if err != nil {
			return "", err
		}
		return "([] : " + lt[1:len(lt)-1] + ")", nil
	case puStruct:
		return c.structLit(t, nil)
	case puPtr:
		return "none", nil
	}
	return "", fmt.Errorf("type %s is outside the translated subset", t)
}

// structLit: { f := v, … } with the zero value for the fields not given
func (c *puFn) structLit(t types.Type, given map[string]string) (string, error) {
	n := puNamedStruct(t)
	name, err := c.grp.structName(c, t)
	if err != nil {
		return "", err
	}
	fields, hasRest, err := c.grp.structFields(n)
	if err != nil {
		return "", err
	}
	var parts []string
	for _, f := range fields {
		v, ok := given[f.Name()]
		if !ok {
			z, err := c.zero(f.Type())
			if err != nil {
				return "", err
			}
			v = z
		}
		parts = append(parts, puLeanIdent(f.Name())+" := "+v)
	}
	for g := range given {
		found := false
		for _, f := range fields {
			if f.Name() == g {
				found = true
			}
		}
		if !found {
			return "", fmt.Errorf("field %s of %s has no carrier", g, name)
		}
	}
	if hasRest {
		parts = append(parts, "rest_ := Go.Rest.zero")
	}
	return "({ " + strings.Join(parts, ", ") + " } : " + name + ")", nil
}

// literal: a constant of the given type
func (c *puFn) literal(v constant.Value, t types.Type) (string, error) {
	k := c.kindOf(t)
	switch {
	case k == puBool:
		if v.Kind() != constant.Bool {
			break
		}
		if constant.BoolVal(v) {
			return "true", nil
		}
		return "false", nil
	case k == puBytes:
		if v.Kind() != constant.String {
			break
		}
		return puBytesLit([]byte(constant.StringVal(v))), nil
	case k.integer():
		iv := constant.ToInt(v)
		if iv.Kind() != constant.Int {
			break
		}
		bi, ok := new(big.Int).SetString(iv.ExactString(), 10)
		if !ok {
			break
		}
		if k.unsigned() {
			if bi.Sign() < 0 || bi.BitLen() > k.width() {
				return "", fmt.Errorf("constant %s does not fit %s", bi, t)
			}
			return "(" + bi.String() + " : " + puLeanUint[k] + ")", nil
		}
		if bi.BitLen() > 63 && !(bi.Sign() < 0 && bi.BitLen() == 64 && bi.TrailingZeroBits() == 63) {
			return "", fmt.Errorf("constant %s does not fit %s", bi, t)
		}
		return "(" + bi.String() + " : Int)", nil
	}
	return "", fmt.Errorf("constant %s of type %s is outside the translated subset", v, t)
}

func puBytesLit(b []byte) string {
	if len(b) == 0 {
		return "([] : Bytes)"
	}
	parts := make([]string, len(b))
	for i, x := range b {
		parts[i] = fmt.Sprint(x)
	}
	return "([" + strings.Join(parts, ", ") + "] : Bytes)"
}

var puLeanKeywords = map[string]bool{}

func init() {
	for _, w := range strings.Fields(`abbrev alias at axiom by calc class def deriving do else end example export extends
		finally for from fun have if import in inductive infix infixl infixr instance let local macro match mutual
		namespace notation nomatch open opaque partial postfix prefix private protected rec section set_option show
		structure suffices syntax then theorem unless universe unsafe using variable where with mut return try catch
		break continue Type Prop Sort fuel E Go pure bind`) {
		puLeanKeywords[w] = true
	}
}

// puLeanIdent: a Go identifier as a Lean identifier
func puLeanIdent(n string) string {
	if puLeanKeywords[n] || strings.HasPrefix(n, "_") {
		return n + "_"
	}
	return n
}

func (c *puFn) typeOf(e ast.Expr) (types.Type, error) {
	tv, ok := c.pkg.info.Types[e]
	if !ok || tv.Type == nil {
		return nil, c.errf(e, "no type information")
	}
	if b, ok := tv.Type.(*types.Basic); ok && b.Kind() == types.Invalid {
		return nil, c.errf(e, "invalid type")
	}
	return tv.Type, nil
}
