package main

import (
	"fmt"
	"go/ast"
	"go/parser"
	"go/token"
	"path/filepath"
	"strconv"
	"strings"
)

// Translator `transport`: facts about how tglib.ConnectToAmf (src/tglib/ngsetup.go) turns its four arguments into the SCTP
// association — the part of the emulator that the `verif` hook replaces by an inherited socket and that therefore no
// correspondence run executes. The two functions are read statement by statement against the grammar below (fail closed);
// Props/C01Transport.lean proves from the extracted facts that the association is dialled FROM (stgIP, stgPort) TO
// (amfIP, amfPort) with the NGAP payload protocol identifier 60.
//
//	getNgapIp(p0, p1, p2, p3) (r0, r1 *sctp.SCTPAddr, err error):
//	    ips := []net.IPAddr{}                                   (also `ips = []net.IPAddr{}`: reset)
//	    if ip, e := net.ResolveIPAddr(<net>, P); e != nil { err = …; return nil, nil, err } else { ips = append(ips, *ip) }
//	    R = &sctp.SCTPAddr{IPAddrs: ips, Port: Q}               fact: result R is (address P, port Q), ips holding exactly P
//	    return r0, r1, nil
//	ConnectToAmf(a0, a1, a2, a3):
//	    if c := verifAdopt(); c != nil { return c, nil }        the hook, first
//	    x, y, err := getNgapIp(args…)  ; if err != nil { return nil, err }
//	    conn, err := sctp.DialSCTP(<net>, L, R) ; if err != nil { return nil, err }
//	    info, err := conn.GetDefaultSentParam() ; if err != nil { … os.Exit / return }
//	    info.PPID = <constant>
//	    err = conn.SetDefaultSentParam(info) ; if err != nil { return nil, err }
//	    return conn, nil
func init() { register("transport", genTransport) }

type tpTr struct {
	fset *token.FileSet
}

func (t *tpTr) pos(n ast.Node) string {
	p := t.fset.Position(n.Pos())
	return fmt.Sprintf("src/tglib/%s:%d", filepath.Base(p.Filename), p.Line)
}

func paramNames(fd *ast.FuncDecl) []string {
	var out []string
	for _, f := range fd.Type.Params.List {
		for _, n := range f.Names {
			out = append(out, n.Name)
		}
	}
	return out
}

func resultNames(fd *ast.FuncDecl) []string {
	var out []string
	if fd.Type.Results == nil {
		return nil
	}
	for _, f := range fd.Type.Results.List {
		for _, n := range f.Names {
			out = append(out, n.Name)
		}
	}
	return out
}

func indexOf(l []string, s string) int {
	for i, x := range l {
		if x == s {
			return i
		}
	}
	return -1
}

func strLit(e ast.Expr) (string, bool) {
	bl, ok := e.(*ast.BasicLit)
	if !ok || bl.Kind != token.STRING {
		return "", false
	}
	s, err := strconv.Unquote(bl.Value)
	return s, err == nil
}

// errReturn: `if err != nil { return nil, err }` (or `return nil, nil, err`)
func isErrReturn(s ast.Stmt, errName string, exitOK bool) bool {
	ifs, ok := s.(*ast.IfStmt)
	if !ok || ifs.Init != nil || ifs.Else != nil {
		return false
	}
	be, ok := ifs.Cond.(*ast.BinaryExpr)
	if !ok || be.Op != token.NEQ || identName(be.X) != errName || identName(be.Y) != "nil" {
		return false
	}
	if len(ifs.Body.List) == 0 {
		return false
	}
	last := ifs.Body.List[len(ifs.Body.List)-1]
	if rs, ok := last.(*ast.ReturnStmt); ok {
		if len(rs.Results) == 0 {
			return false
		}
		for _, r := range rs.Results[:len(rs.Results)-1] {
			if identName(r) != "nil" {
				return false
			}
		}
		return identName(rs.Results[len(rs.Results)-1]) == errName
	}
	if exitOK {
		if es, ok := last.(*ast.ExprStmt); ok {
			if c, ok := es.X.(*ast.CallExpr); ok && calleeName(c) == "os.Exit" && len(c.Args) == 1 {
				if bl, ok := c.Args[0].(*ast.BasicLit); ok && bl.Value != "0" {
					return true
				}
			}
		}
	}
	return false
}

func genTransport() error {
	t := &tpTr{fset: token.NewFileSet()}
	af, err := parser.ParseFile(t.fset, filepath.Join(repo, "src/tglib/ngsetup.go"), nil, 0)
	if err != nil {
		return err
	}
	funcs := map[string]*ast.FuncDecl{}
	consts := map[string]string{}
	for _, d := range af.Decls {
		switch v := d.(type) {
		case *ast.FuncDecl:
			if v.Recv == nil && v.Body != nil {
				funcs[v.Name.Name] = v
			}
		case *ast.GenDecl:
			if v.Tok == token.CONST {
				for _, sp := range v.Specs {
					vs := sp.(*ast.ValueSpec)
					if len(vs.Names) == 1 && len(vs.Values) == 1 {
						if bl, ok := vs.Values[0].(*ast.BasicLit); ok && bl.Kind == token.INT {
							consts[vs.Names[0].Name] = bl.Value
						}
					}
				}
			}
		}
	}
	gi, ca := funcs["getNgapIp"], funcs["ConnectToAmf"]
	if gi == nil || ca == nil {
		return fail("src/tglib/ngsetup.go: getNgapIp / ConnectToAmf not found")
	}
	// ---------------------------------------------------------------- getNgapIp
	gp, gr := paramNames(gi), resultNames(gi)
	if len(gp) != 4 || len(gr) != 3 || gr[2] != "err" {
		return fail("%s: getNgapIp outside (p0, p1, p2, p3) (r0, r1, err)", t.pos(gi))
	}
	type addrFact struct{ result, ip, port int }
	var addrs []addrFact
	resolveNet := ""
	ipsVar := ""
	held := -1 // the parameter whose address ips holds (exactly one), -1 = empty
	var retOrder []int
	for i, s := range gi.Body.List {
		switch v := s.(type) {
		case *ast.AssignStmt:
			if len(v.Lhs) == 1 && len(v.Rhs) == 1 {
				// ips := []net.IPAddr{} / ips = []net.IPAddr{}
				if cl, ok := v.Rhs[0].(*ast.CompositeLit); ok && len(cl.Elts) == 0 {
					if at, ok := cl.Type.(*ast.ArrayType); ok && at.Len == nil {
						if se, ok := at.Elt.(*ast.SelectorExpr); ok && identName(se.X) == "net" && se.Sel.Name == "IPAddr" {
							if ipsVar != "" && identName(v.Lhs[0]) != ipsVar {
								return fail("%s: a second address list", t.pos(s))
							}
							ipsVar = identName(v.Lhs[0])
							held = -1
							continue
						}
					}
				}
				// R = &sctp.SCTPAddr{IPAddrs: ips, Port: Q}
				if ue, ok := v.Rhs[0].(*ast.UnaryExpr); ok && ue.Op == token.AND && v.Tok == token.ASSIGN {
					if cl, ok := ue.X.(*ast.CompositeLit); ok {
						if se, ok := cl.Type.(*ast.SelectorExpr); ok && identName(se.X) == "sctp" && se.Sel.Name == "SCTPAddr" && len(cl.Elts) == 2 {
							ri := indexOf(gr[:2], identName(v.Lhs[0]))
							ipOK, port := false, -1
							for _, e := range cl.Elts {
								kv, ok := e.(*ast.KeyValueExpr)
								if !ok {
									return fail("%s: SCTPAddr literal without keys", t.pos(s))
								}
								switch identName(kv.Key) {
								case "IPAddrs":
									ipOK = identName(kv.Value) == ipsVar && ipsVar != ""
								case "Port":
									port = indexOf(gp, identName(kv.Value))
								}
							}
							if ri < 0 || !ipOK || port < 0 || held < 0 {
								return fail("%s: SCTPAddr outside `r = &sctp.SCTPAddr{IPAddrs: ips, Port: p}` with ips holding one resolved parameter", t.pos(s))
							}
							for _, a := range addrs {
								if a.result == ri {
									return fail("%s: result assigned twice", t.pos(s))
								}
							}
							addrs = append(addrs, addrFact{ri, held, port})
							continue
						}
					}
				}
			}
			return fail("%s: assignment outside the getNgapIp grammar", t.pos(s))
		case *ast.IfStmt:
			// if ip, e := net.ResolveIPAddr(net, P); e != nil { …; return nil, nil, err } else { ips = append(ips, *ip) }
			as, ok := v.Init.(*ast.AssignStmt)
			if !ok || len(as.Lhs) != 2 || len(as.Rhs) != 1 || as.Tok != token.DEFINE {
				return fail("%s: if outside the resolve grammar", t.pos(s))
			}
			c, ok := as.Rhs[0].(*ast.CallExpr)
			if !ok || calleeName(c) != "net.ResolveIPAddr" || len(c.Args) != 2 {
				return fail("%s: if outside the resolve grammar", t.pos(s))
			}
			nw, ok := strLit(c.Args[0])
			p := indexOf(gp, identName(c.Args[1]))
			if !ok || p < 0 || (resolveNet != "" && resolveNet != nw) {
				return fail("%s: ResolveIPAddr arguments", t.pos(s))
			}
			resolveNet = nw
			ipV, eV := identName(as.Lhs[0]), identName(as.Lhs[1])
			be, ok := v.Cond.(*ast.BinaryExpr)
			if !ok || be.Op != token.NEQ || identName(be.X) != eV || identName(be.Y) != "nil" {
				return fail("%s: resolve error not tested", t.pos(s))
			}
			// then-branch: ends with return nil, nil, err after err = …
			if len(v.Body.List) == 0 {
				return fail("%s: resolve error ignored", t.pos(s))
			}
			rs, ok := v.Body.List[len(v.Body.List)-1].(*ast.ReturnStmt)
			if !ok || len(rs.Results) != 3 || identName(rs.Results[0]) != "nil" || identName(rs.Results[1]) != "nil" || identName(rs.Results[2]) != "err" {
				return fail("%s: resolve error does not return (nil, nil, err)", t.pos(s))
			}
			assigned := false
			for _, b := range v.Body.List[:len(v.Body.List)-1] {
				if ba, ok := b.(*ast.AssignStmt); ok && len(ba.Lhs) == 1 && identName(ba.Lhs[0]) == "err" && ba.Tok == token.ASSIGN {
					if c, ok := ba.Rhs[0].(*ast.CallExpr); ok && (calleeName(c) == "fmt.Errorf" || calleeName(c) == "errors.New") {
						assigned = true
						continue
					}
				}
				return fail("%s: statement in the resolve error branch", t.pos(b))
			}
			if !assigned {
				return fail("%s: resolve error branch returns a nil error", t.pos(s))
			}
			eb, ok := v.Else.(*ast.BlockStmt)
			if !ok || len(eb.List) != 1 {
				return fail("%s: resolve success branch", t.pos(s))
			}
			ea, ok := eb.List[0].(*ast.AssignStmt)
			if !ok || len(ea.Lhs) != 1 || identName(ea.Lhs[0]) != ipsVar || ipsVar == "" || ea.Tok != token.ASSIGN {
				return fail("%s: resolve success branch", t.pos(s))
			}
			ac, ok := ea.Rhs[0].(*ast.CallExpr)
			if !ok || calleeName(ac) != "append" || len(ac.Args) != 2 || identName(ac.Args[0]) != ipsVar {
				return fail("%s: resolve success branch", t.pos(s))
			}
			st, ok := ac.Args[1].(*ast.StarExpr)
			if !ok || identName(st.X) != ipV {
				return fail("%s: resolve success branch appends something else", t.pos(s))
			}
			if held >= 0 {
				return fail("%s: a second address appended to the same list", t.pos(s))
			}
			held = p
		case *ast.ReturnStmt:
			if i != len(gi.Body.List)-1 || len(v.Results) != 3 || identName(v.Results[2]) != "nil" {
				return fail("%s: return outside `return r0, r1, nil` at the end", t.pos(s))
			}
			for _, r := range v.Results[:2] {
				k := indexOf(gr[:2], identName(r))
				if k < 0 {
					return fail("%s: return value", t.pos(s))
				}
				retOrder = append(retOrder, k)
			}
		default:
			return fail("%s: statement outside the getNgapIp grammar: %T", t.pos(s), s)
		}
	}
	if len(addrs) != 2 || len(retOrder) != 2 {
		return fail("%s: getNgapIp does not build and return two addresses", t.pos(gi))
	}
	// ---------------------------------------------------------------- ConnectToAmf
	cp := paramNames(ca)
	if len(cp) != 4 {
		return fail("%s: ConnectToAmf parameters", t.pos(ca))
	}
	body := ca.Body.List
	k := 0
	next := func() ast.Stmt {
		if k < len(body) {
			k++
			return body[k-1]
		}
		return nil
	}
	// hook first
	adoptFirst := false
	if ifs, ok := body[0].(*ast.IfStmt); ok && ifs.Init != nil {
		if as, ok := ifs.Init.(*ast.AssignStmt); ok && len(as.Rhs) == 1 {
			if c, ok := as.Rhs[0].(*ast.CallExpr); ok && calleeName(c) == "verifAdopt" && len(ifs.Body.List) == 1 {
				if rs, ok := ifs.Body.List[0].(*ast.ReturnStmt); ok && len(rs.Results) == 2 && identName(rs.Results[0]) == identName(as.Lhs[0]) && identName(rs.Results[1]) == "nil" {
					adoptFirst = true
					k = 1
				}
			}
		}
	}
	if !adoptFirst {
		return fail("%s: ConnectToAmf does not start with the verifAdopt hook", t.pos(ca))
	}
	// getNgapIp call
	s := next()
	as, ok := s.(*ast.AssignStmt)
	if !ok || len(as.Lhs) != 3 || len(as.Rhs) != 1 || identName(as.Lhs[2]) != "err" {
		return fail("%s: expected `x, y, err := getNgapIp(…)`", t.pos(s))
	}
	c, ok := as.Rhs[0].(*ast.CallExpr)
	if !ok || calleeName(c) != "getNgapIp" || len(c.Args) != 4 {
		return fail("%s: expected `x, y, err := getNgapIp(…)`", t.pos(s))
	}
	var callArgs []int
	for _, a := range c.Args {
		p := indexOf(cp, identName(a))
		if p < 0 {
			return fail("%s: getNgapIp argument that is not a parameter of ConnectToAmf", t.pos(a))
		}
		callArgs = append(callArgs, p)
	}
	addrVars := []string{identName(as.Lhs[0]), identName(as.Lhs[1])}
	if s = next(); s == nil || !isErrReturn(s, "err", false) {
		return fail("%s: getNgapIp error not returned", t.pos(as))
	}
	// DialSCTP
	s = next()
	as, ok = s.(*ast.AssignStmt)
	if !ok || len(as.Lhs) != 2 || len(as.Rhs) != 1 || identName(as.Lhs[1]) != "err" {
		return fail("%s: expected `conn, err := sctp.DialSCTP(…)`", t.pos(s))
	}
	c, ok = as.Rhs[0].(*ast.CallExpr)
	if !ok || calleeName(c) != "sctp.DialSCTP" || len(c.Args) != 3 {
		return fail("%s: expected `conn, err := sctp.DialSCTP(net, local, remote)`", t.pos(s))
	}
	connVar := identName(as.Lhs[0])
	network, ok := strLit(c.Args[0])
	local, remote := indexOf(addrVars, identName(c.Args[1])), indexOf(addrVars, identName(c.Args[2]))
	if !ok || local < 0 || remote < 0 {
		return fail("%s: DialSCTP arguments are not the addresses getNgapIp returned", t.pos(s))
	}
	if s = next(); s == nil || !isErrReturn(s, "err", false) {
		return fail("%s: DialSCTP error not returned", t.pos(as))
	}
	// GetDefaultSentParam
	s = next()
	as, ok = s.(*ast.AssignStmt)
	if !ok || len(as.Lhs) != 2 || len(as.Rhs) != 1 || identName(as.Lhs[1]) != "err" {
		return fail("%s: expected `info, err := conn.GetDefaultSentParam()`", t.pos(s))
	}
	c, ok = as.Rhs[0].(*ast.CallExpr)
	if !ok || calleeName(c) != connVar+".GetDefaultSentParam" {
		return fail("%s: expected `info, err := conn.GetDefaultSentParam()`", t.pos(s))
	}
	infoVar := identName(as.Lhs[0])
	if s = next(); s == nil || !isErrReturn(s, "err", true) {
		return fail("%s: GetDefaultSentParam error ignored", t.pos(as))
	}
	// info.PPID = const
	s = next()
	as, ok = s.(*ast.AssignStmt)
	if !ok || len(as.Lhs) != 1 || len(as.Rhs) != 1 || as.Tok != token.ASSIGN {
		return fail("%s: expected `info.PPID = <constant>`", t.pos(s))
	}
	se, ok := as.Lhs[0].(*ast.SelectorExpr)
	if !ok || identName(se.X) != infoVar || se.Sel.Name != "PPID" {
		return fail("%s: expected `info.PPID = <constant>`", t.pos(s))
	}
	ppidText := ""
	if bl, ok := as.Rhs[0].(*ast.BasicLit); ok && bl.Kind == token.INT {
		ppidText = bl.Value
	} else if v, ok := consts[identName(as.Rhs[0])]; ok {
		ppidText = v
	}
	ppid, perr := strconv.ParseUint(ppidText, 0, 32)
	if ppidText == "" || perr != nil {
		return fail("%s: the PPID is not an integer constant of the file", t.pos(s))
	}
	// SetDefaultSentParam
	s = next()
	as, ok = s.(*ast.AssignStmt)
	if !ok || len(as.Lhs) != 1 || identName(as.Lhs[0]) != "err" || len(as.Rhs) != 1 {
		return fail("%s: expected `err = conn.SetDefaultSentParam(info)`", t.pos(s))
	}
	c, ok = as.Rhs[0].(*ast.CallExpr)
	if !ok || calleeName(c) != connVar+".SetDefaultSentParam" || len(c.Args) != 1 || identName(c.Args[0]) != infoVar {
		return fail("%s: expected `err = conn.SetDefaultSentParam(info)`", t.pos(s))
	}
	if s = next(); s == nil || !isErrReturn(s, "err", false) {
		return fail("%s: SetDefaultSentParam error not returned", t.pos(as))
	}
	s = next()
	rs, ok := s.(*ast.ReturnStmt)
	if !ok || len(rs.Results) != 2 || identName(rs.Results[0]) != connVar || identName(rs.Results[1]) != "nil" || k != len(body) {
		return fail("%s: ConnectToAmf does not end with `return conn, nil`", t.pos(ca))
	}
	// ---------------------------------------------------------------- output
	var b strings.Builder
	b.WriteString("-- GENERATED by `gen transport` from src/tglib/ngsetup.go (getNgapIp, ConnectToAmf). Do not edit.\n")
	b.WriteString("import Stgutg.Model.TransportTypes\nnamespace Stgutg.Gen.Transport\nopen Stgutg.Model.Transport\n\n")
	b.WriteString("def facts : Facts := {\n")
	fmt.Fprintf(&b, "  adoptFirst := %s,\n", lb(adoptFirst))
	fmt.Fprintf(&b, "  callArgs := [%d, %d, %d, %d],\n", callArgs[0], callArgs[1], callArgs[2], callArgs[3])
	b.WriteString("  addrs := [")
	for i, a := range addrs {
		if i > 0 {
			b.WriteString(", ")
		}
		fmt.Fprintf(&b, "{ result := %d, ipParam := %d, portParam := %d }", a.result, a.ip, a.port)
	}
	b.WriteString("],\n")
	fmt.Fprintf(&b, "  returned := [%d, %d],\n", retOrder[0], retOrder[1])
	fmt.Fprintf(&b, "  resolveNet := %s,\n  network := %s,\n", lq(resolveNet), lq(network))
	fmt.Fprintf(&b, "  dialLocal := %d,\n  dialRemote := %d,\n  ppid := %d\n}\n\nend Stgutg.Gen.Transport\n", local, remote, ppid)
	return writeIfChanged("Transport.lean", b.String())
}
