package pureselftest

// The third part of the translator's self-test: the constructs of the BUFFER grammar (harness/cmd/gen/pure_milenage.go).
// `gen pure-selftest-mil` translates THIS SOURCE TEXT (→ Gen/PureSelftestMil.lean), executes the compiled functions on fixed
// arguments and writes the outcomes — the Go results and what the call left in every out-parameter — beside the
// translation as `example … := by decide +kernel`. NewBlk / Blk are NOT translated: they play the part of aes.NewCipher /
// cipher.Block and reach the translation through the `Lib` record, instantiated by a Lean transcription (selfLibMil).
//
// Exercised: out-parameters (element writes, op-assign, copy into x[a:], destination of a library call, handed on to a
// callee whole / as x[a:] / as nil), nil-able buffers tested with != and ==, counted loops with a constant and a
// variable bound (index panics half way), a scatter index (i+s)%n, return inside a loop, copy inside one buffer (both
// directions), x[a:b] on exact slices (panic beyond len), alias locals (var t []T; t = x[a:]), make(n, blk.Size()), a local
// made again, in-place library call with dst == src, *uint read / written / nil, `f() != nil || g() != nil` with effects
// in both operands, &&, !, reflect.DeepEqual, parallel :=, an else branch, errors from the library constructor.

import (
	_ "embed"
	"errors"
	"reflect"
)

//go:embed buf.go
var BufSource string

func Fill(dst, a, b []uint8, n int) {
	for i := 0; i < n; i++ {
		dst[i] = a[i] ^ b[i]
	}
}

func Rot(dst, src []uint8, s int) {
	for i := 0; i < 4; i++ {
		dst[(i+s)%4] = src[i]
	}
	dst[3] ^= 0x80
	dst[0] += 7
}

func Cmp3(a, b []uint8, num int) int {
	for i := 0; i < num; i++ {
		if a[i] < b[i] {
			return -1
		}

		if a[i] > b[i] {
			return 1
		}
	}
	return 0
}

func Outs(a, x, y []uint8) error {
	t, u := make([]uint8, 6), make([]uint8, 2)
	copy(t[0:], a[0:4])
	copy(t[4:], t[1:3])
	copy(t[1:], t[0:3])
	copy(t[2:], t[3:6])
	copy(u[0:], t[4:])
	if x != nil {
		copy(x[0:], t[2:6])
	}
	if y != nil {
		copy(y[1:], u[0:2])
		for i := 0; i < 3; i++ {
			y[i] ^= t[i]
		}
	} else {
		t[0] = 9
	}
	return nil
}

func Seal(key, in, out []uint8) error {
	blk, err := NewBlk(key)
	if err != nil {
		return err
	}
	tmp := make([]byte, blk.Size())
	blk.Enc(tmp, in)
	blk.Enc(tmp, tmp)
	for i := 0; i < 4; i++ {
		tmp[i] ^= key[i]
	}
	blk.Enc(out, tmp)
	tmp = make([]byte, blk.Size())
	tmp[1] = 0x55
	copy(out[4:], tmp[0:2])
	return nil
}

func Top(key, in, o1, o2 []uint8, n *uint) int {
	m := make([]uint8, 4)
	if (*n) < 3 {
		*n = 0
		return -1
	}
	if Seal(key, in, m) != nil || Outs(in, o1, nil) != nil {
		*n = 1
		return -2
	}
	*n = 8
	Fill(o2[2:], m, in, 2)
	if Cmp3(m, o2, 4) <= 0 {
		return 1
	}
	var t []uint8
	t = in[1:]
	if Seal(key, t, o2[1:]) != nil || !reflect.DeepEqual(m, o2[1:5]) {
		return 2
	}
	if o1 == nil && (*n) > 7 {
		return 3
	}
	return 0
}

// ------------------------------------------------------------------------------------------------ library (not translated)

type Blk interface {
	Size() int
	Enc(dst, src []byte)
}

type xblk struct{ k [4]byte }

func NewBlk(key []byte) (Blk, error) {
	if len(key) != 4 {
		return nil, errors.New("key size")
	}
	b := &xblk{}
	copy(b.k[:], key)
	return b, nil
}

func (b *xblk) Size() int { return 4 }

func (b *xblk) Enc(dst, src []byte) {
	if len(src) < 4 {
		panic("input not full block")
	}
	if len(dst) < 4 {
		panic("output not full block")
	}
	var t [4]byte
	for i := 0; i < 4; i++ {
		t[i] = (src[(i+1)%4] ^ b.k[i]) + 1
	}
	copy(dst, t[:])
}
