package pureselftest

// The second half of the translator's self-test: the constructs of the extended grammar (harness/cmd/gen/pure_nas.go).
// `gen pure-selftest` translates THIS SOURCE TEXT (group pure-selftest-rich → Gen/PureSelftestRich.lean), executes the
// compiled functions on fixed arguments and writes the outcomes — the object behind the pointer parameter included, also
// when the call panics — beside the translation as `example … := by decide +kernel`. The functions below the line
// "library" are NOT translated: they play the part of the library calls and reach the translation through the `Lib`
// record, instantiated in the generated module by a Lean transcription of them (selfLib).
//
// Exercised: pointer parameters as Option with nil guards and without (dereference of nil = panic), state behind a
// pointer parameter returned with results, errors and panics, a receiver-mutating method of another group as a
// statement and hoisted out of an argument list, structs trimmed to the selected fields, a struct handed to library
// calls (embedded field by name, rest_), new(T), &T{}, pointer results, nil-able slice parameter, library calls with
// (value, err) results, a receiver replaced by a library call (`&x` operand), an argument overwritten IN PLACE (ok, error
// with the slice already changed, panic), x[a:b] followed by the index that forces the bound, x[k:], x[:], prepending
// with append(lit, x...), append(y, x...), reflect.DeepEqual, fmt.Errorf, return of a multi-valued call, [N]byte as a
// value, a range loop with return / break / continue and assigned variables, calls between translated functions with
// state, a slice argument the callee overwrites, conversion of a named slice type.

import (
	_ "embed"
	"fmt"
	"log"
	"reflect"
)

//go:embed rich.go
var RichSource string

type Hdr struct{ A, B uint8 }

type Body struct{ X []byte }

type Msg struct {
	Hdr
	*Body
}

type Ue struct {
	Name string
	B    Box
	Alg  uint8
	Key  [4]uint8
}

type Octets []byte

type Pdu struct{ V Octets }

type ItemVal struct {
	Other *Hdr
	P     *Pdu
}

type Item struct {
	Id  int64
	Val ItemVal
}

type Bag struct{ L []Item }

func NewMsg() *Msg {
	Msg := &Msg{}
	return Msg
}

func Second(b []byte) uint8 { return b[1] }

func Protect(u *Ue, m *Msg, on bool, fresh bool) (out []byte, err error) {
	var seq uint8
	if u == nil {
		err = fmt.Errorf("no ue")
		return
	}
	if m == nil {
		err = fmt.Errorf("no msg")
		return
	}
	if !on {
		return m.Enc()
	} else {
		if fresh {
			u.B.Bump(0 - u.B.N)
		}
		seq = u.B.M
		out, err = m.Enc()
		if err != nil {
			return
		}
		if m.Hdr.B == 2 || m.Hdr.B == 4 {
			if err = Cipher(u.Alg, u.Key, u.B.Bump(1), out); err != nil {
				return
			}
		}
		out = append([]byte{seq}, out[:]...)
		mac := make([]byte, 2)
		_ = mac
		mac, err = Mac(u.Alg, u.Key, u.B.Bump(0), out)
		if err != nil {
			return
		}
		out = append(mac, out[:]...)
		h := []byte{m.Hdr.A, m.Hdr.B}
		out = append(h, out[:]...)
		u.B.Bump(2)
	}
	return out, err
}

func Open(u *Ue, t uint8, p []byte) (m *Msg, err error) {
	if u == nil {
		err = fmt.Errorf("no ue")
		return
	}
	if p == nil {
		err = fmt.Errorf("no octets")
		return
	}
	m = new(Msg)
	if t == 0 {
		err = m.Dec(&p)
		return
	} else if u.Alg == 3 {
		log.Println("short form", p)
		p = p[2:]
		if err = Cipher(u.Alg, u.Key, u.B.Bump(1), p); err != nil {
			return nil, err
		}
		err = m.Dec(&p)
		return
	} else {
		if t == 3 {
			u.B.Bump(7)
		}
		hd := p[0:3]
		s := p[3]
		tag := hd[1:]
		p = p[3:]
		if u.B.M > s {
			u.B.Bump(256)
		}
		got, e2 := Mac(u.Alg, u.Key, u.B.Bump(0), p)
		if e2 != nil {
			return nil, e2
		}
		if !reflect.DeepEqual(got, tag) {
			log.Printf("mismatch %x %x", got, tag)
		} else {
			log.Printf("ok %x", got)
		}
		p = p[1:]
		if t == 2 {
			if err = Cipher(u.Alg, u.Key, u.B.Bump(1), p); err != nil {
				return nil, err
			}
		}
	}
	err = m.Dec(&p)
	log.Println("err", err)
	return m, err
}

func Wrap(u *Ue, pdu []byte, t uint8, on bool, fresh bool) ([]byte, error) {
	m := NewMsg()
	err := m.Dec(&pdu)
	if err != nil {
		return nil, err
	}
	m.Hdr = Hdr{A: 0x7e, B: t}
	return Protect(u, m, on, fresh)
}

func First(u *Ue, bag *Bag) (m *Msg) {
	for _, it := range bag.L {
		if it.Id == 38 {
			pkg := []byte(it.Val.P.V)
			m, err := Open(u, Second(pkg), pkg)
			if err != nil {
				return nil
			}
			return m
		}
	}
	return nil
}

func Tally(u *Ue, bag *Bag, lim int64) (n int, last int64) {
	for _, it := range bag.L {
		if it.Id == 0 {
			continue
		}
		if it.Id > lim {
			break
		}
		n++
		last = it.Id
		u.B.Bump(uint32(it.Id))
	}
	n += 100
	return
}

// ------------------------------------------------------------------------------------------------------ library

// Cipher overwrites p in place. alg 0: every octet xor (key[i%4] + n); alg 1: p[0] = 0 and an error; alg 2: panic;
// other: error, p untouched; nil p: error.
func Cipher(alg uint8, key [4]uint8, n uint32, p []byte) error {
	if p == nil {
		return fmt.Errorf("nil")
	}
	switch alg {
	case 0:
		for i := range p {
			p[i] ^= key[i%4] + uint8(n)
		}
		return nil
	case 1:
		if len(p) > 0 {
			p[0] = 0
		}
		return fmt.Errorf("half done")
	case 2:
		var q []byte
		_ = q[0]
	}
	return fmt.Errorf("alg")
}

// Mac: alg 0: nil, nil; alg 3: error; otherwise [n + sum of p, key[0]]
func Mac(alg uint8, key [4]uint8, n uint32, p []byte) ([]byte, error) {
	if p == nil {
		return nil, fmt.Errorf("nil")
	}
	if alg == 0 {
		return nil, nil
	}
	if alg == 3 {
		return nil, fmt.Errorf("alg")
	}
	s := uint8(n)
	for _, b := range p {
		s += b
	}
	return []byte{s, key[0]}, nil
}

func (m *Msg) Enc() ([]byte, error) {
	if m.Body == nil {
		return nil, fmt.Errorf("empty")
	}
	return append([]byte{m.Hdr.A, m.Hdr.B}, m.Body.X...), nil
}

// Dec keeps referring to the octets it was given (the translator is told so: retain)
func (m *Msg) Dec(b *[]byte) error {
	first := (*b)[0]
	m.Body = &Body{X: (*b)[1:]}
	m.Hdr.A = first
	if first == 0xff {
		return fmt.Errorf("bad")
	}
	return nil
}
