package pureselftest

// The fourth part of the translator's self-test: the constructs of the WORD-MACHINE grammar (harness/cmd/gen/pure_secalg.go).
// `gen pure-selftest-sec` translates THIS SOURCE TEXT (→ Gen/PureSelftestSec.lean), executes the compiled functions on fixed
// arguments and writes the outcomes — the object behind the pointer receiver as the call left it, the Go results, every
// out-parameter — beside the translation as `example … := by decide +kernel`.
//
// Exercised: structs of arrays behind a pointer receiver (element and field writes, nested paths), arrays as values (a copy
// changed, the original kept; an array parameter changed locally), package-level tables read with uint8 / uint32 / int
// indices (in and out of range), recursion on fuel over a uint8 and over an int counter (negative included), counted loops
// with a constant and a variable bound and int / uint32 / uint64 counters (index panics half way, the object lost), methods
// that change the receiver with and without results, discarded results, new(T) and a returned fresh object, a local pointer
// from a constructor, make with a variable size (negative: panic), an out-parameter filled by a callee and handed on,
// shifts by variable counts up to and beyond the width, op-assignments, ++ / --, ^x, -x, / and % by constants, && || !,
// if without else, if / else joins, a branch that returns, conversions between all widths and int, len, array literals.
// SecMac (a second group that IMPORTS the first, as pure-secnas imports pure-secalg): named results, an error result that is
// nil, binary.BigEndian.Uint32 / Uint64 / PutUint32 (too few octets: panic), x[a:b] / x[a:] of an array with constant and
// variable bounds (a > b, b > N: panic), x[a:] of a slice (a > len: panic), copy into a fresh slice from a longer and a shorter
// source, a constructor and an out-parameter method of the imported group, make with a uint32 size.
// SecOuter: a loop whose counter is declared before it (`for i = a; …`) and read afterwards, with a nested loop inside.

import (
	_ "embed"
	"encoding/binary"
)

//go:embed sec.go
var SecSource string

var secTab = [...]uint16{0x0101, 0xfffe, 7, 0x8000, 0, 42, 0x1234, 9}

var secBytes = [...]byte{3, 1, 4, 1, 5, 9, 2, 6, 5, 3, 5, 8, 9, 7, 9, 3}

type SecRegs struct {
	W [4]uint32
}

type SecMach struct {
	Reg SecRegs
	Acc [2]uint64
	N   uint8
	On  bool
}

func SecMulx(v, c uint8) uint8 {
	if v&0x80 != 0 {
		return (v << 1) ^ c
	} else {
		return v << 1
	}
}

func SecPow(b uint32, n uint8) uint32 {
	if n == 0 {
		return 1
	}
	return b * SecPow(b, n-1)
}

func SecTri(n int) int {
	if n <= 0 {
		return 0
	} else {
		return n + SecTri(n-1)
	}
}

func SecLook(a uint8, b uint32, i int) uint32 {
	x := uint32(secTab[a&7]) << 16
	y := uint32(secBytes[b>>28])
	return x | y<<8 | uint32(secTab[i])
}

func SecArr(seed [4]uint32, k int) uint32 {
	t := seed
	t[0] = 9
	seed[1] += 5
	u := [4]uint32{t[3], seed[1], 7, seed[0]}
	return t[0] + seed[0] + u[k] + t[1]
}

func (m *SecMach) Rot(k int) {
	for i := 0; i < k; i++ {
		m.Reg.W[i] = m.Reg.W[i+1]
	}
	m.N++
}

func (m *SecMach) Step(x uint32, d uint8) uint32 {
	f := (x + m.Reg.W[0]) ^ m.Reg.W[3]
	m.Acc[1] = m.Acc[0] ^ uint64(f)<<32
	m.Acc[0] += uint64(x)
	if d > 1 {
		m.On = !m.On
		m.N -= d
	}
	m.Reg.W[d&3] = f
	return f ^ uint32(m.N)
}

func (m *SecMach) Peek() uint64 {
	return m.Acc[0] ^ m.Acc[1] ^ uint64(m.Reg.W[2])
}

func NewSecMach(seed [4]uint32, rounds int) *SecMach {
	m := new(SecMach)
	m.Reg.W[0] = seed[0] ^ 0xffffffff
	m.Reg.W[1] = seed[1]
	m.Reg.W[2] = seed[2] &^ 0xff
	m.Reg.W[3] = seed[3] | 1
	m.N = 200
	for i := 0; i < 2; i++ {
		m.Acc[i] = 1
	}
	for i := 0; i < rounds; i++ {
		f := m.Step(m.Reg.W[1], 2)
		m.Rot(3)
		m.Reg.W[3] = f
	}
	return m
}

func (m *SecMach) Fill(n int, out []uint32) {
	m.Step(1, 0)
	for i := 0; i < n; i++ {
		f := m.Step(m.Reg.W[3], 1)
		out[i] = f ^ m.Reg.W[0]
		m.Rot(2)
	}
}

func (m *SecMach) FillTwice(n int, out []uint32) uint32 {
	m.Fill(n, out)
	m.Fill(n-1, out)
	return out[0]
}

func SecRun(seed [4]uint32, n int, l uint32) uint32 {
	m := NewSecMach(seed, 3)
	ks := make([]uint32, l)
	m.Fill(n, ks)
	s := uint32(len(ks))
	for i := uint32(0); i < l; i++ {
		s ^= ks[i] << (i * 5)
	}
	return s + uint32(m.Peek()>>32)
}

func SecMake(n int) int {
	b := make([]uint8, n)
	return len(b)
}

func SecShift(x uint64, y uint32, n uint64, k uint8) (uint64, uint32, uint64) {
	a := x >> n
	b := y << k
	c := uint64(0)
	for i := uint64(0); i < 64; i++ {
		if (x>>i)&1 == 1 {
			c ^= n << i
		}
	}
	return a, b, c
}

func SecOps(a uint8, b uint16, c uint32, d uint64, i int) (uint8, uint16, uint32, uint64, int, bool) {
	var z uint64
	z |= d / 7
	z &= ^uint64(c)
	a *= 3
	a -= uint8(b)
	b = -b % 1000
	c ^= uint32(i)
	c--
	j := int(d) - i*3
	ok := (a > 9 && b != 0) || !(c <= 5)
	if ok {
		z++
		j = j + int(a)
	} else {
		c = uint32(uint16(c))
	}
	if j < 0 {
		return a, b, c, z, 0, ok
	}
	return a, b, c, z, j, ok
}

func SecMac(key [8]byte, msg []byte, n uint64, a, b uint32) (mac []byte, err error) {
	var k [4]uint32
	for i := uint32(0); i < 2; i++ {
		k[i] = binary.BigEndian.Uint32(key[4*(1-i) : 4*(1-i+1)])
	}
	k[2] = binary.BigEndian.Uint32(key[a:b])
	m := NewSecMach(k, 1)
	z := make([]uint32, 3)
	m.Fill(2, z)
	var acc uint64 = uint64(z[0])<<32 | uint64(z[1])
	for i := uint64(0); i < n; i++ {
		acc ^= binary.BigEndian.Uint64(msg[8*i:])
	}
	tmp := make([]byte, 8)
	copy(tmp, msg[8*n:])
	acc += binary.BigEndian.Uint64(tmp)
	out := make([]byte, b)
	copy(out, key[2:])
	binary.BigEndian.PutUint32(out, uint32(acc>>32)^uint32(acc))
	return out, nil
}

func SecOuter(in []uint8, n uint32, a uint32) (uint32, uint32) {
	out := make([]uint8, len(in))
	var i uint32
	s := uint32(0)
	for i = a; i < n/4; i++ {
		for j := uint32(0); j < 4; j++ {
			out[4*i+j] = in[4*i+j] ^ byte(i<<j)
		}
		s += uint32(out[4*i]) + i
	}
	if n%4 != 0 {
		for j := uint32(0); j < n%4; j++ {
			out[4*i+j] = in[4*i+j] + 1
		}
		s ^= uint32(out[4*i]) << 8
	}
	return s, i
}
