// The self-test of the slice-walker grammar (harness/cmd/gen/pure_extract.go). `gen pure-selftest-ext` translates THIS
// SOURCE TEXT to Lean and, in the same run, executes the compiled functions on fixed arguments (slices with hidden
// capacity, out-of-range indices, fuel one short of what the walk needs); the outcomes are written beside the
// translation as `example : f args = outcome := by decide +kernel` (Gen/PureSelftestExt.lean).
package pureselftest

import (
	_ "embed"
	"encoding/binary"
)

//go:embed ext.go
var ExtSource string

// a named type over []byte (as net.IP)
type Addr []byte

var extLen = map[byte]int{
	0x10: 2,
	0x20: -1,
	0x30: -2,
	0x40: 5,
}

var extHalf = []byte{
	0x80,
	0xC0,
	0xE0,
}

func XIdx(p []byte, i int) byte { return p[i] }

func XFrom(p []byte, a int) []byte { return p[a:] }

func XSlice(p []byte, a int, b int) []byte { return p[a:b] }

func XTo(p []byte, b uint8) Addr {
	q := p[:]
	return Addr(q[:b])
}

// a slice of a slice: the capacity travels with the first one
func XReslice(p []byte, a int, b int) (Addr, int) {
	q := p[a:]
	r := q[0:b]
	s := (Addr)(r[1:])
	return s, len(q) + len(r)
}

func XBE(p []byte) (uint16, uint32) {
	return binary.BigEndian.Uint16(p), binary.BigEndian.Uint32(p[1:])
}

// index arithmetic in uint16 wraps before it is used as a bound
func XWrap16(p []byte, k uint16) []byte {
	return p[2 : 6+k]
}

func XIdxU(p []byte, a uint8, b uint32, c uint64) (byte, byte, byte) {
	return p[a], p[b], p[c]
}

func XConv(a uint8, b uint16, c uint32, d uint64) (int, int, int, uint8) {
	return int(a), int(b), int(c), uint8(d)
}

func XConvU(a uint8, b uint16, c uint32) (uint16, uint32, uint64, uint8) {
	return uint16(c), uint32(a), uint64(b), uint8(b)
}

func XArith(a int, b int, x uint8, y uint8) (int, uint8, bool) {
	c := a + b*3 - 7
	c += b
	c -= a & 0xff
	c++
	var z uint8 = x*y + 200 - y
	z = z&0xF0 | x ^ y
	z--
	z += 3
	ok := !(a < b) && (x >= y || c == 0)
	_ = ok
	return c ^ (b | 1), z, ok
}

func XMap(k byte) int { return extLen[k] }

// a labelled walk: break / continue with and without the label, a range over a table inside it, the map
func XWalk(p []byte) (int, Addr, int) {
	var found Addr
	var id byte
	n := 0
	i := 0
	total := len(p)
	_, _ = id, total
walk:
	for i < total {
		n++
		id = p[i]
		if id == 0xFF {
			found = Addr(p[i+1 : i+3])
			break walk
		}
		for _, h := range extHalf {
			if id&0xE0 == h {
				i += 1
				continue walk
			}
		}
		l := extLen[id]
		if l > 0 {
			i += l
		} else if l == -1 {
			i += 2 + int(p[i+1])
		} else if l == -2 {
			i += 3 + int(binary.BigEndian.Uint16(p[i+1:i+3]))
		} else if id == 0 {
			i++
			continue
		} else {
			break
		}
	}
	return n, found, i
}

// two loops one after the other (each gets the whole fuel), an `if` whose branch leaves before the statements after it
func XTwo(p []byte, k int) (int, int) {
	a := 0
	i := 0
	for i < len(p) {
		if p[i] == 0 {
			break
		}
		a += int(p[i])
		i++
	}
	j := k
	b := 0
	for j > 0 && b < 1000 {
		j--
		if j == 3 {
			continue
		}
		b += j
	}
	return a, b + i
}

func XJoin(p []byte, t int) int {
	r := 0
	i := 0
	for i < len(p) {
		if int(p[i]) > t {
			r += 1
		} else {
			i += 2
			continue
		}
		i++
	}
	return r
}

func XTop(b byte, p []byte) int {
	if len(p) == 0 {
		return -1
	}
	v := 0
	for _, h := range extHalf {
		v += int(h & b)
	}
	return v + int(p[0])
}
