// Package pureselftest: functions that exercise the grammar of the pure-* translators. `gen pure-selftest` translates
// THIS SOURCE TEXT to Lean and, in the same run, executes the compiled functions on fixed arguments; the results are
// written beside the translation as `example : f args = result := by decide +kernel`, so building Gen/PureSelftest.lean checks the
// translator and its runtime against the Go compiler on every run.
package pureselftest

import (
	_ "embed"
	"encoding/binary"
)

//go:embed fns.go
var Source string

type Box struct {
	N uint32
	M uint8
}

func Wrap8(a, b uint8) uint8 { return a*b + 200 - b }

func Shifts(x uint16) uint16 { return x<<3 | x>>13 ^ (x &^ 0xff) }

func Neg(x uint8, y int) (uint8, int, uint8) { return -x, -y, ^x }

func IntArith(a, b int) int {
	c := a*b - a
	c += b << 2
	c -= a >> 1
	return c%7 + c/3
}

func DivVar(a, b int) int { return a/b + a%b }

func Shadow(c bool, x int) int {
	y := x
	if c {
		y := y + 1
		_ = y
		x := 5
		_ = x
	}
	return y + x
}

func Chain(x int) (r int) {
	if x < 0 {
		r = -1
		return
	} else if x == 0 {
		return 7
	}
	switch {
	case x > 100:
		r = 3
	case x > 10:
		r = 2
	default:
		r = 1
	}
	r *= 2
	return
}

func Tagged(x uint8) int {
	switch x {
	case 1, 2:
		return 10
	case 3:
		return 20
	}
	return 0
}

func SumLoop(b []byte) (s uint8, n int) {
	for i := 0; i < len(b); i++ {
		if b[i] == 0 {
			continue
		}
		if b[i] == 255 {
			break
		}
		s += b[i]
		n++
	}
	return
}

func StepLoop(b []byte) []byte {
	var out []byte
	for i := 0; i <= len(b)-2; i += 2 {
		out = append(out, b[i+1], b[i])
	}
	return out
}

func Idx(b []byte, i int) byte { return b[i] }

func Tail(s string, i int) string { return s[i:] + "!" }

func (x *Box) Bump(d uint32) uint32 {
	x.N += d
	x.M++
	return x.N
}

func (x *Box) Twice(d uint32) uint32 {
	x.Bump(d)
	r := x.Bump(d)
	return r + 1
}

func Put(v uint16) []byte {
	r := make([]byte, 3)
	binary.BigEndian.PutUint16(r, v)
	r[2] = uint8(v) ^ 0xff
	return r
}

func PutShort(v uint16) []byte {
	r := make([]byte, 1)
	binary.BigEndian.PutUint16(r, v)
	return r
}

func Conv(a uint32, b int) (uint8, uint16, int, uint64) {
	return uint8(a), uint16(b), int(a) - b, uint64(a) << 33
}

func Cmp(a, b string) bool { return a == b || a+"x" != b && len(a) > 2 }

func Nested(b []byte, k int) int {
	t := 0
	if k > 0 {
		if b[0] > 5 {
			t = 1
		} else {
			t = 2
		}
		t += k
	} else {
		t = int(b[1])
	}
	return t * 3
}
