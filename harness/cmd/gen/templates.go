package main

import (
	"fmt"
	"go/ast"
	"go/parser"
	"go/token"
	"os"
	"path/filepath"
	"reflect"
	"sort"
	"strings"

	"free5gclib/aper"
	"verifharness/internal/bld"
)

// templates (C13): a model generator BY OBSERVATION. Every builder that has no hand-written template is run
// (in a worker process: the builders may os.Exit) under every nil / empty / non-empty class of its arguments,
// twice, with two different sets of distinct sentinel arguments and sentinel TestPlmn values. The reflected
// NGAPPDU is abstracted into a skeleton: sub-values equal to a sentinel become holes. Both sentinel sets must give
// the same skeleton, no sentinel octets may occur inside a longer octet string (that would be an argument flowing
// into a nested encoding: such builders need a hand template), and every probe must be reproduced by
// instantiating the skeleton it is assigned to; otherwise the translator fails closed.
// The tie of the result to the code is the correspondence run (`corr builders`), as for a hand model.
//
// It also writes the signature table (name, message, parameter roles) of ALL entry points from
// harness/internal/bld after cross-checking it against the function declarations of build.go / packet.go.
func init() {
	register("templates", genTemplates)
	register("templates-worker", func() error {
		out := bld.QuietStdout()
		bld.Serve(os.Stdin, out, func(line string) string { return bld.Run(strings.Fields(line)).Text() })
		return nil
	})
}

var tplWorker = &bld.Worker{Args: []string{"templates-worker"}}

// ---------------------------------------------------------------- source cross-check

func funcDecls(path string) (map[string]*ast.FuncDecl, error) {
	fset := token.NewFileSet()
	f, err := parser.ParseFile(fset, path, nil, 0)
	if err != nil {
		return nil, err
	}
	m := map[string]*ast.FuncDecl{}
	for _, d := range f.Decls {
		if fd, ok := d.(*ast.FuncDecl); ok && fd.Recv == nil {
			m[fd.Name.Name] = fd
		}
	}
	return m, nil
}

func nParams(fd *ast.FuncDecl) int {
	n := 0
	for _, f := range fd.Type.Params.List {
		if len(f.Names) == 0 {
			n++
		}
		n += len(f.Names)
	}
	return n
}

func crossCheck() error {
	bpath := filepath.Join(repo, "src/tglib/ngapTestpacket/build.go")
	decls, err := funcDecls(bpath)
	if err != nil {
		return err
	}
	stub := map[string]bool{}
	for _, s := range bld.Stubs {
		stub[s] = true
	}
	nBuild := 0
	for name, fd := range decls {
		if !strings.HasPrefix(name, "Build") {
			continue
		}
		nBuild++
		if stub[name] {
			// a stub is exactly `return pdu`
			if len(fd.Body.List) != 1 {
				return fail("%s: %s is listed as an empty stub but has a body of %d statements", bpath, name, len(fd.Body.List))
			}
			if _, ok := fd.Body.List[0].(*ast.ReturnStmt); !ok {
				return fail("%s: %s is listed as an empty stub but does more than return", bpath, name)
			}
			continue
		}
		e := bld.Lookup(name)
		if e == nil {
			return fail("%s: builder %s is not in the registry harness/internal/bld", bpath, name)
		}
		if nParams(fd) != len(e.Roles) {
			return fail("%s: %s has %d parameters, registry declares %d roles", bpath, name, nParams(fd), len(e.Roles))
		}
	}
	ppath := filepath.Join(repo, "src/tglib/packet.go")
	pdecls, err := funcDecls(ppath)
	if err != nil {
		return err
	}
	nWrap := 0
	for name, fd := range pdecls {
		if !strings.HasPrefix(name, "Get") {
			continue
		}
		nWrap++
		e := bld.Lookup(name)
		if e == nil || !e.Wrapper {
			return fail("%s: wrapper %s is not in the registry harness/internal/bld", ppath, name)
		}
		if nParams(fd) != len(e.Roles) {
			return fail("%s: %s has %d parameters, registry declares %d roles", ppath, name, nParams(fd), len(e.Roles))
		}
	}
	for _, e := range bld.Entries {
		if e.Wrapper {
			if _, ok := pdecls[e.Name]; !ok {
				return fail("registry entry %s does not exist in %s", e.Name, ppath)
			}
		} else if _, ok := decls[e.Name]; !ok {
			return fail("registry entry %s does not exist in %s", e.Name, bpath)
		}
	}
	_ = nBuild
	_ = nWrap
	return nil
}

// ---------------------------------------------------------------- sentinels

// fillSentinel fills an ngapType value with distinctive leaves (validity is irrelevant: builders embed, never encode, these).
func fillSentinel(v reflect.Value, seed *int, depth int, set int) {
	t := v.Type()
	*seed++
	switch t {
	case aper.BitStringType:
		v.Set(reflect.ValueOf(aper.BitString{Bytes: []byte{byte(*seed), byte(*seed >> 8)}, BitLength: 16}))
		return
	case aper.OctetStringType:
		v.SetBytes([]byte{byte(*seed), byte(*seed >> 8), 0x5a})
		return
	case aper.ObjectIdentifierType:
		return
	case aper.EnumeratedType:
		v.SetUint(uint64(2*set + *seed%2)) // the two sentinel sets never share an enumerated value
		return
	}
	switch v.Kind() {
	case reflect.Int, reflect.Int32, reflect.Int64:
		v.SetInt(int64(30000 + *seed))
	case reflect.Bool:
		v.SetBool(true)
	case reflect.String:
		v.SetString(fmt.Sprintf("sv%d", *seed))
	case reflect.Ptr:
		if depth < 3 {
			p := reflect.New(t.Elem())
			fillSentinel(p.Elem(), seed, depth+1, set)
			v.Set(p)
		}
	case reflect.Slice:
		n := 0
		if depth < 4 {
			n = 1
		}
		sl := reflect.MakeSlice(t, n, n)
		for i := 0; i < n; i++ {
			fillSentinel(sl.Index(i), seed, depth+1, set)
		}
		v.Set(sl)
	case reflect.Struct:
		if t.NumField() > 0 && t.Field(0).Name == "Present" {
			if t.NumField() > 1 {
				v.Field(0).SetInt(1)
				fillSentinel(v.Field(1), seed, depth, set) // the alternative pointer itself does not count as depth
			}
			return
		}
		for i := 0; i < t.NumField(); i++ {
			fillSentinel(v.Field(i), seed, depth, set)
		}
	}
}

// classes an argument can be probed in: 0 = nil, 1 = empty, 2 = non-empty / plain value
func classesOf(role string, t reflect.Type) []int {
	switch role {
	case bld.RAmf, bld.RRan, bld.RPsi, bld.RInt:
		return []int{2}
	case bld.RNas:
		return []int{2, 1, 0}
	case bld.RStr, bld.RName:
		return []int{2, 1}
	case bld.RPInt:
		return []int{2, 0}
	case bld.RVal:
		switch t.Kind() {
		case reflect.Ptr:
			return []int{2, 0}
		case reflect.Slice:
			return []int{2, 1, 0}
		case reflect.Struct:
			if t.NumField() == 1 && t.Field(0).Type.Kind() == reflect.Slice {
				return []int{2, 1}
			}
			return []int{2}
		}
	}
	return nil // role not supported by the prober
}

type sentinel struct {
	whole *bld.Node // the argument as it prints
	inner *bld.Node // pointee of a pointer argument
	octs  bool      // []byte argument: hole argOcts
	slice bool      // slice-of-structs argument: hole argSlice (nil prints as the empty slice)
	bytes []byte    // octets to search for inside longer strings
}

// makeArg builds argument k in class c for sentinel set s (0 = A, 1 = B): its token text and what to look for.
func makeArg(role string, t reflect.Type, k, c, s int) (string, *sentinel) {
	switch role {
	case bld.RAmf, bld.RRan, bld.RPsi:
		v := int64(770001 + 1000*k + 110002*s)
		return fmt.Sprintf("i%d", v), &sentinel{whole: &bld.Node{Kind: "int", I: v}}
	case bld.RInt:
		v := int64(6101 + 10*k + 1003*s)
		return fmt.Sprintf("i%d", v), &sentinel{whole: &bld.Node{Kind: "int", I: v}}
	case bld.RNas:
		switch c {
		case 0:
			return "n", nil
		case 1:
			return "o-", nil
		}
		b := []byte{byte(0xa0 + k), 0x11, 0x22, byte(0x33 + s), 0x44}
		if s == 1 {
			b = append(b, 0x55, 0x66)
		}
		return "o" + hexs(b), &sentinel{whole: &bld.Node{Kind: "octs", B: b}, octs: true, bytes: b}
	case bld.RStr, bld.RName:
		if c == 1 {
			return "s-", nil
		}
		b := []byte(fmt.Sprintf("sentinel-%d-%s", k, strings.Repeat("x", 1+3*s)))
		return "s" + hexs(b), &sentinel{whole: &bld.Node{Kind: "str", B: b}, bytes: b}
	case bld.RPInt:
		if c == 0 {
			return "n", nil
		}
		v := int64(41 + k + 16*s)
		return fmt.Sprintf("p i%d", v), &sentinel{whole: &bld.Node{Kind: "ptr", Kids: []*bld.Node{{Kind: "int", I: v}}}, inner: &bld.Node{Kind: "int", I: v}}
	case bld.RVal:
		if c == 0 {
			return "n", nil
		}
		v := reflect.New(t).Elem()
		seed := 100*k + 7000*s
		fillSentinel(v, &seed, 0, s)
		if c == 1 {
			switch t.Kind() {
			case reflect.Slice:
				v.Set(reflect.MakeSlice(t, 0, 0))
			case reflect.Struct:
				v.Field(0).Set(reflect.MakeSlice(t.Field(0).Type, 0, 0))
			}
			return bld.Reflect(v).Tokens(), nil
		}
		n := bld.Reflect(v)
		sn := &sentinel{whole: n, slice: t.Kind() == reflect.Slice}
		if n.Kind == "ptr" {
			sn.inner = n.Kids[0]
		}
		return n.Tokens(), sn
	}
	panic("makeArg: role " + role)
}

func hexs(b []byte) string {
	if len(b) == 0 {
		return "-"
	}
	return fmt.Sprintf("%x", b)
}

// ---------------------------------------------------------------- skeletons

// tm is a skeleton: a value tree whose leaves may be holes.
type tm struct {
	hole string // Lean `Hole` term, "" for a plain node
	n    *bld.Node
	kids []*tm
}

type probeCtx struct {
	sents []*sentinel // per argument (nil: no sentinel in this class)
	plmn  []byte
}

func containsSub(hay, needle []byte) bool {
	return len(needle) > 0 && len(hay) > len(needle) && strings.Contains(string(hay), string(needle))
}

// holeAt: the hole a node is, judged against one sentinel set ("" if none)
func holeAt(n *bld.Node, c *probeCtx) string {
	for k, s := range c.sents {
		if s == nil {
			continue
		}
		if n.Equal(s.whole) {
			switch {
			case s.octs:
				return fmt.Sprintf(".argOcts %d", k)
			case s.slice:
				return fmt.Sprintf(".argSlice %d", k)
			}
			return fmt.Sprintf(".arg %d", k)
		}
		if s.inner != nil && n.Equal(s.inner) {
			return fmt.Sprintf(".deref %d", k)
		}
	}
	if n.Kind == "octs" && string(n.B) == string(c.plmn) {
		return ".plmn"
	}
	return ""
}

// abstract walks the results of the two sentinel sets in parallel: a position is a hole iff it is the same
// sentinel in both (a coincidence with a constant in one set is not one in the other); everywhere else the two
// results must be the same constant.
func abstract(na, nb *bld.Node, ca, cb *probeCtx) (*tm, error) {
	if h := holeAt(na, ca); h != "" && h == holeAt(nb, cb) {
		return &tm{hole: h}, nil
	}
	if na.Kind != nb.Kind || na.I != nb.I || na.U != nb.U || string(na.B) != string(nb.B) || len(na.Kids) != len(nb.Kids) {
		return nil, fmt.Errorf("the two sentinel sets give different results at a position that is not an embedded argument (an argument influences the result other than by being embedded)")
	}
	switch na.Kind {
	case "octs", "str", "bits", "oid":
		if containsSub(na.B, ca.plmn) {
			return nil, fmt.Errorf("TestPlmn occurs inside a longer octet string (nested encoding): hand template needed")
		}
		for k, s := range ca.sents {
			if s != nil && containsSub(na.B, s.bytes) {
				return nil, fmt.Errorf("argument %d occurs inside a longer octet string (nested encoding): hand template needed", k)
			}
		}
	}
	t := &tm{n: na}
	for i := range na.Kids {
		kt, err := abstract(na.Kids[i], nb.Kids[i], ca, cb)
		if err != nil {
			return nil, err
		}
		t.kids = append(t.kids, kt)
	}
	return t, nil
}

func leanBytes(b []byte) string {
	parts := make([]string, len(b))
	for i, c := range b {
		parts[i] = fmt.Sprintf("0x%02x", c)
	}
	return "[" + strings.Join(parts, ", ") + "]"
}

func (t *tm) lean() string {
	if t.hole != "" {
		return "(.hole (" + t.hole + "))"
	}
	n := t.n
	switch n.Kind {
	case "int":
		return fmt.Sprintf("(.int (%d))", n.I)
	case "enum":
		return fmt.Sprintf("(.enum %d)", n.U)
	case "bits":
		return fmt.Sprintf("(.bits %s %d)", leanBytes(n.B), n.U)
	case "octs":
		return "(.octs " + leanBytes(n.B) + ")"
	case "str":
		return "(.str " + leanBytes(n.B) + ")"
	case "bool":
		if n.U != 0 {
			return "(.bool true)"
		}
		return "(.bool false)"
	case "nil":
		return ".nil"
	case "ptr":
		return "(.ptr " + t.kids[0].lean() + ")"
	case "slice":
		parts := make([]string, len(t.kids))
		for i, k := range t.kids {
			parts[i] = k.lean()
		}
		return "(.slice [" + strings.Join(parts, ", ") + "])"
	case "struct":
		// CHOICE with one alternative set: compact form
		if len(t.kids) > 3 && t.kids[0].hole == "" && t.kids[0].n.Kind == "int" {
			k := int(t.kids[0].n.I)
			if k >= 1 && k < len(t.kids) {
				ok := true
				for i := 1; i < len(t.kids); i++ {
					isNil := t.kids[i].hole == "" && t.kids[i].n.Kind == "nil"
					if (i == k) == isNil {
						ok = false
					}
				}
				if ok {
					return fmt.Sprintf("(choiceT %d %d %s)", len(t.kids)-1, k, t.kids[k].lean())
				}
			}
		}
		parts := make([]string, len(t.kids))
		for i, k := range t.kids {
			parts[i] = k.lean()
		}
		return "(.struct [" + strings.Join(parts, ", ") + "])"
	}
	panic("lean: kind " + n.Kind)
}

// instantiate mirrors Lean `Builders.eval` for the hole kinds the prober emits.
func (t *tm) instantiate(args []*bld.Node, plmn []byte) *bld.Node {
	if t.hole != "" {
		var k int
		switch {
		case t.hole == ".plmn":
			return &bld.Node{Kind: "octs", B: plmn}
		case strings.HasPrefix(t.hole, ".argOcts "):
			fmt.Sscanf(t.hole, ".argOcts %d", &k)
			if args[k].Kind == "nil" {
				return &bld.Node{Kind: "octs"}
			}
			return args[k]
		case strings.HasPrefix(t.hole, ".argSlice "):
			fmt.Sscanf(t.hole, ".argSlice %d", &k)
			if args[k].Kind == "nil" {
				return &bld.Node{Kind: "slice"}
			}
			return args[k]
		case strings.HasPrefix(t.hole, ".arg "):
			fmt.Sscanf(t.hole, ".arg %d", &k)
			return args[k]
		case strings.HasPrefix(t.hole, ".deref "):
			fmt.Sscanf(t.hole, ".deref %d", &k)
			if args[k].Kind == "ptr" {
				return args[k].Kids[0]
			}
			return &bld.Node{Kind: "nil"}
		}
		panic("instantiate: hole " + t.hole)
	}
	n := &bld.Node{Kind: t.n.Kind, I: t.n.I, U: t.n.U, B: t.n.B}
	for _, k := range t.kids {
		n.Kids = append(n.Kids, k.instantiate(args, plmn))
	}
	return n
}

// ---------------------------------------------------------------- probing

type obs struct {
	class string    // ok / err (a value was built) | panic | exit
	pdu   *bld.Node // for a value
	args  []*bld.Node
	ctx   *probeCtx
}

func probe(e *bld.Entry, cls []int, s int) (*obs, error) {
	ft := reflect.TypeOf(e.Fn)
	plmn := []byte{0xa1, 0xb2, 0xc3}
	if s == 1 {
		plmn = []byte{0xd4, 0xe5, 0xf6}
	}
	ctx := &probeCtx{plmn: plmn}
	var toks []string
	o := &obs{ctx: ctx}
	for k, role := range e.Roles {
		text, sn := makeArg(role, ft.In(k), k, cls[k], s)
		toks = append(toks, text)
		ctx.sents = append(ctx.sents, sn)
		an, rest := bld.ParseTokens(strings.Fields(text))
		if len(rest) != 0 {
			return nil, fmt.Errorf("%s: argument %d does not re-parse", e.Name, k)
		}
		o.args = append(o.args, an)
	}
	reply := tplWorker.Do(e.Name + " " + hexs(plmn) + " " + strings.Join(toks, " "))
	parts := strings.SplitN(reply, " | ", 2)
	head := strings.Fields(parts[0])
	if len(head) == 0 {
		return nil, fmt.Errorf("%s: empty reply", e.Name)
	}
	switch head[0] {
	case "panic", "exit":
		o.class = head[0]
		return o, nil
	case "ok", "err":
		if len(parts) != 2 {
			return nil, fmt.Errorf("%s: reply without a value: %q", e.Name, reply)
		}
		n, rest := bld.ParseTokens(strings.Fields(parts[1]))
		if len(rest) != 0 {
			return nil, fmt.Errorf("%s: trailing tokens in reply", e.Name)
		}
		o.class, o.pdu = "val", n
		return o, nil
	}
	return nil, fmt.Errorf("%s: unexpected reply %q", e.Name, reply)
}

type skeleton struct {
	kind string // val | panic | exit
	t    *tm
	text string
}

func (sk *skeleton) reproduces(o *obs) bool {
	if sk.kind != o.class {
		return false
	}
	if sk.kind != "val" {
		return true
	}
	return sk.t.instantiate(o.args, o.ctx.plmn).Equal(o.pdu)
}

type template struct {
	e     *bld.Entry
	dims  []int
	cases [][]int // class values on dims
	skIdx []int
	sks   []*skeleton
}

func probeEntry(e *bld.Entry) (*template, error) {
	ft := reflect.TypeOf(e.Fn)
	var classes [][]int
	for k, role := range e.Roles {
		c := classesOf(role, ft.In(k))
		if c == nil {
			return nil, fmt.Errorf("%s: parameter %d has role %s, which the prober does not support (hand template needed)", e.Name, k, role)
		}
		classes = append(classes, c)
	}
	// all class vectors, richest (all non-empty) first
	vectors := [][]int{{}}
	for _, c := range classes {
		var next [][]int
		for _, v := range vectors {
			for _, x := range c {
				next = append(next, append(append([]int{}, v...), x))
			}
		}
		vectors = next
	}
	sort.SliceStable(vectors, func(a, b int) bool {
		sa, sb := 0, 0
		for _, x := range vectors[a] {
			sa += x
		}
		for _, x := range vectors[b] {
			sb += x
		}
		return sa > sb
	})
	tp := &template{e: e}
	assign := map[string]int{}
	key := func(v []int) string { return fmt.Sprint(v) }
	for _, v := range vectors {
		oa, err := probe(e, v, 0)
		if err != nil {
			return nil, err
		}
		ob, err := probe(e, v, 1)
		if err != nil {
			return nil, err
		}
		if oa.class != ob.class {
			return nil, fmt.Errorf("%s: classes %v: sentinel set A gives %s, set B gives %s", e.Name, v, oa.class, ob.class)
		}
		found := -1
		for i, sk := range tp.sks {
			if sk.reproduces(oa) && sk.reproduces(ob) {
				found = i
				break
			}
		}
		if found < 0 {
			sk := &skeleton{kind: oa.class}
			if oa.class == "val" {
				ta, err := abstract(oa.pdu, ob.pdu, oa.ctx, ob.ctx)
				if err != nil {
					return nil, fmt.Errorf("%s: classes %v: %v", e.Name, v, err)
				}
				sk.t, sk.text = ta, ta.lean()
				if !sk.reproduces(oa) || !sk.reproduces(ob) {
					return nil, fmt.Errorf("%s: classes %v: skeleton does not reproduce its own probe", e.Name, v)
				}
			}
			tp.sks = append(tp.sks, sk)
			found = len(tp.sks) - 1
		}
		assign[key(v)] = found
	}
	// a parameter is a dimension of the decision table iff changing its class alone can change the skeleton
	for k := range e.Roles {
		relevant := false
		for _, v := range vectors {
			for _, x := range classes[k] {
				w := append([]int{}, v...)
				w[k] = x
				if assign[key(w)] != assign[key(v)] {
					relevant = true
				}
			}
		}
		if relevant {
			tp.dims = append(tp.dims, k)
		}
	}
	seen := map[string]bool{}
	for _, v := range vectors {
		var proj []int
		for _, d := range tp.dims {
			proj = append(proj, v[d])
		}
		if seen[key(proj)] {
			continue
		}
		seen[key(proj)] = true
		tp.cases = append(tp.cases, proj)
		tp.skIdx = append(tp.skIdx, assign[key(v)])
	}
	return tp, nil
}

func leanNats(l []int) string {
	parts := make([]string, len(l))
	for i, x := range l {
		parts[i] = fmt.Sprint(x)
	}
	return "[" + strings.Join(parts, ", ") + "]"
}

func leanRoles(l []string) string {
	parts := make([]string, len(l))
	for i, x := range l {
		parts[i] = "." + x
	}
	return "[" + strings.Join(parts, ", ") + "]"
}

func genTemplates() error {
	if err := crossCheck(); err != nil {
		return err
	}
	defer tplWorker.Close()
	var b strings.Builder
	b.WriteString("-- GENERATED by `gen templates` (probing the builders of src/tglib/ngapTestpacket/build.go). Do not edit.\n")
	b.WriteString("import Stgutg.Model.BuilderTypes\nnamespace Stgutg.Gen.Templates\nopen Stgutg Stgutg.Builders\n\n")
	b.WriteString("/-- signature of an entry point: name, TS 38.413 message, parameter roles, wrapper?, hand template? -/\n")
	b.WriteString("structure Sig where\n  name : String\n  message : Msg\n  roles : List Role\n  wrapper : Bool\n  hand : Bool\n  deriving Repr\n\n")
	b.WriteString("def sigs : List Sig := [\n")
	for i, e := range bld.Entries {
		sep := ","
		if i == len(bld.Entries)-1 {
			sep = ""
		}
		fmt.Fprintf(&b, "  ⟨%q, .%s, %s, %v, %v⟩%s\n", e.Name, e.Message, leanRoles(e.Roles), e.Wrapper, e.Hand, sep)
	}
	b.WriteString("]\n\n")
	var names []string
	for idx := range bld.Entries {
		e := &bld.Entries[idx]
		if e.Hand || e.Wrapper {
			continue
		}
		tp, err := probeEntry(e)
		if err != nil {
			return err
		}
		id := "t" + strings.TrimPrefix(e.Name, "Build")
		names = append(names, id)
		for i, sk := range tp.sks {
			if sk.kind == "val" {
				fmt.Fprintf(&b, "def %s_s%d : Tm :=\n  %s\n\n", id, i, sk.text)
			}
		}
		fmt.Fprintf(&b, "def %s : Template := {\n  name := %q, message := .%s, roles := %s, dims := %s,\n  cases := [\n", id, e.Name, e.Message, leanRoles(e.Roles), leanNats(tp.dims))
		for i, c := range tp.cases {
			sk := tp.sks[tp.skIdx[i]]
			out := "." + sk.kind
			if sk.kind == "val" {
				out = fmt.Sprintf(".val %s_s%d", id, tp.skIdx[i])
			}
			sep := ","
			if i == len(tp.cases)-1 {
				sep = ""
			}
			fmt.Fprintf(&b, "    ⟨%s, %s⟩%s\n", leanNats(c), out, sep)
		}
		b.WriteString("  ] }\n\n")
	}
	b.WriteString("/-- the probed templates -/\ndef table : List Template := [\n  " + strings.Join(names, ",\n  ") + "\n]\n\nend Stgutg.Gen.Templates\n")
	return writeIfChanged("Templates.lean", b.String())
}
