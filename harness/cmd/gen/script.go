package main

import (
	"fmt"
	"go/ast"
	"go/parser"
	"go/printer"
	"go/token"
	"path/filepath"
	"sort"
	"strconv"
	"strings"
)

// script (C19, C01/C02): the I/O skeleton of the procedure drivers.
//
//	src/stgutg/{ngsetup,ue,pdu,service}.go   every func with a parameter `conn *sctp.SCTPConn` that the test-mode
//	                                         branch of main calls ("procedure")
//	stg-utg.go                               func main, the `else if mode == 2 {…}` branch
//
// Output per procedure: the ordered actions build / write / read / decode / derive / use / sleep / print / report, each
// I/O action with the `checked` flag (its err reaches ManageError before the next action) and the ManageError text.
//
// Input grammar of a procedure body (anything else fails closed, naming file:line):
//
//	var x = <expr without calls other than make>            ignored
//	lhs… :=|= <call>                                        conn.Write → write, conn.Read → read, ngap.Decoder → decode,
//	                                                        any other callee → build (if `err` is assigned) or a pure value
//	lhs… :=|= <expr without calls>                          pure value (uses of decoded values are recorded)
//	ManageError("text", err)                                only directly after a statement that assigned err → checked
//	if err != nil { ManageError("text", err) }              the same
//	if v == nil || … { ManageError("text", errors.New(…)) } guarded use of v
//	if <cond without calls, without decoded values> {pure assignments} [else {pure assignments}]      ignored
//	time.Sleep(k * time.Second|time.Millisecond)            sleep
//	fmt.Println("text", …)                                  print
//	ngap.Decoder(recvMsg[:n])                               decode, result discarded, unchecked
//	return …                                                last statement only
//
// Not accepted inside a procedure: for / range / switch / select / go / defer / goto / labels / function literals /
// channel operations / calls of other procedures. A value is "decoded" if it is the result of ngap.Decoder, or is
// assigned from an expression that mentions a decoded value; mentioning it under a selector, index, slice, star or
// as a method receiver is a dereference (`use`).
//
// main's test-mode branch: fmt.Println, x := stgutg.Min(a, b) with a, b ∈ {locals so defined, c.Configuration.F},
// x := c.Configuration.F, `conn, err := tglib.ConnectToAmf(…)` + ManageError, procedure calls (as statements or as the
// right-hand side of :=), calls of stgutg functions without a conn parameter (pure), L = append(L, v), time.Sleep,
// conn.Close(), os.Exit(k), and un-nested `for i := 0; i < B; i++ {…}` whose body is made of the same statements;
// `L[i]` may appear in procedure arguments only with the loop variable.
func init() { register("script", genScript) }

type scAct struct {
	lean string
	pos  string
	// bookkeeping
	kind     string
	assignsE bool
}

type scTr struct {
	fset  *token.FileSet
	funcs map[string]*ast.FuncDecl // stgutg functions by name
	file  map[string]string        // function → file (relative)
	procs map[string]bool          // functions with a conn parameter
}

func (t *scTr) pos(n ast.Node) string {
	p := t.fset.Position(n.Pos())
	rel, err := filepath.Rel(repo, p.Filename)
	if err != nil {
		rel = p.Filename
	}
	return fmt.Sprintf("%s:%d", rel, p.Line)
}

func (t *scTr) text(n ast.Node) string {
	var b strings.Builder
	printer.Fprint(&b, t.fset, n)
	return b.String()
}

func lq(s string) string { return strconv.Quote(s) }

func lb(b bool) string {
	if b {
		return "true"
	}
	return "false"
}

func hasConnParam(fd *ast.FuncDecl) bool {
	for _, p := range fd.Type.Params.List {
		if st, ok := p.Type.(*ast.StarExpr); ok {
			if se, ok := st.X.(*ast.SelectorExpr); ok && se.Sel.Name == "SCTPConn" {
				return true
			}
		}
	}
	return false
}

func returnsIP(fd *ast.FuncDecl) bool {
	if fd.Type.Results == nil {
		return false
	}
	for _, r := range fd.Type.Results.List {
		if se, ok := r.Type.(*ast.SelectorExpr); ok {
			if id, ok := se.X.(*ast.Ident); ok && id.Name == "net" && se.Sel.Name == "IP" {
				return true
			}
		}
	}
	return false
}

// forbidden reports constructs that are never accepted anywhere in a translated body.
func (t *scTr) forbidden(n ast.Node) error {
	var err error
	ast.Inspect(n, func(x ast.Node) bool {
		if err != nil {
			return false
		}
		switch x.(type) {
		case *ast.GoStmt, *ast.DeferStmt, *ast.FuncLit, *ast.SelectStmt, *ast.SendStmt, *ast.SwitchStmt, *ast.TypeSwitchStmt,
			*ast.LabeledStmt, *ast.BranchStmt, *ast.ChanType:
			err = fail("%s: construct outside the script grammar: %T", t.pos(x), x)
		case *ast.UnaryExpr:
			if x.(*ast.UnaryExpr).Op == token.ARROW {
				err = fail("%s: channel receive outside the script grammar", t.pos(x))
			}
		}
		return err == nil
	})
	return err
}

// ------------------------------------------------------------------------------------------------ procedures

type procTr struct {
	*scTr
	name    string
	acts    []scAct
	vars    map[string]int    // decoded / derived values → id
	nasOf   map[string]string // variable → NAS constructor it was built from
	sendOf  map[string][2]string
	nextID  int
	pending int // index of the action whose err is still unchecked and may be checked by the next statement, -1 = none
}

func (p *procTr) emit(kind, lean string, n ast.Node, assignsErr bool) {
	switch kind {
	case "build", "write", "read", "decode":
		if !assignsErr {
			lean += " false \"\""
		}
	}
	p.acts = append(p.acts, scAct{lean: lean, pos: p.pos(n), kind: kind, assignsE: assignsErr})
	if assignsErr {
		p.pending = len(p.acts) - 1
	} else {
		p.pending = -1
	}
}

// mentions returns the tracked variables mentioned in e, and for each whether it is dereferenced.
func (p *procTr) mentions(e ast.Node) (order []string, deref map[string]bool) {
	deref = map[string]bool{}
	seen := map[string]bool{}
	var walk func(n ast.Node, under bool)
	walk = func(n ast.Node, under bool) {
		switch x := n.(type) {
		case nil:
			return
		case *ast.Ident:
			if _, ok := p.vars[x.Name]; ok {
				if !seen[x.Name] {
					seen[x.Name] = true
					order = append(order, x.Name)
				}
				if under {
					deref[x.Name] = true
				}
			}
		case *ast.SelectorExpr:
			walk(x.X, true)
		case *ast.IndexExpr:
			walk(x.X, true)
			walk(x.Index, false)
		case *ast.SliceExpr:
			walk(x.X, true)
			walk(x.Low, false)
			walk(x.High, false)
			walk(x.Max, false)
		case *ast.StarExpr:
			walk(x.X, true)
		case *ast.ParenExpr:
			walk(x.X, under)
		case *ast.CallExpr:
			walk(x.Fun, false) // a method call v.M() reaches the SelectorExpr case with X = v
			for _, a := range x.Args {
				walk(a, false)
			}
		case *ast.BinaryExpr:
			walk(x.X, false)
			walk(x.Y, false)
		case *ast.UnaryExpr:
			walk(x.X, false)
		case *ast.BasicLit:
		case *ast.CompositeLit:
			for _, el := range x.Elts {
				walk(el, false)
			}
		case *ast.KeyValueExpr:
			walk(x.Value, false)
		case *ast.ArrayType, *ast.MapType, *ast.InterfaceType, *ast.StructType, *ast.FuncType:
		case *ast.TypeAssertExpr:
			walk(x.X, true)
		default:
			// unknown expression node: be conservative, treat every tracked identifier below as dereferenced
			ast.Inspect(n, func(y ast.Node) bool {
				if id, ok := y.(*ast.Ident); ok {
					if _, ok := p.vars[id.Name]; ok {
						if !seen[id.Name] {
							seen[id.Name] = true
							order = append(order, id.Name)
						}
						deref[id.Name] = true
					}
				}
				return true
			})
		}
	}
	if ex, ok := e.(ast.Expr); ok {
		walk(ex, false)
	}
	return
}

// uses emits `use` for every dereferenced tracked value of e and returns all mentioned tracked values.
func (p *procTr) uses(e ast.Node) []string {
	order, deref := p.mentions(e)
	for _, v := range order {
		if deref[v] {
			save := p.pending
			p.acts = append(p.acts, scAct{lean: fmt.Sprintf(".use %d false \"\"", p.vars[v]), pos: p.pos(e), kind: "use"})
			p.pending = save // a use does not touch err
			_ = save
		}
	}
	return order
}

func (p *procTr) bind(name string, from []string, n ast.Node) {
	if name == "_" || len(from) == 0 {
		// re-assignment of a tracked name from something untracked makes it untracked
		if len(from) == 0 {
			delete(p.vars, name)
		}
		return
	}
	id := p.nextID
	p.nextID++
	for _, f := range from {
		save := p.pending
		p.acts = append(p.acts, scAct{lean: fmt.Sprintf(".derive %d %d", id, p.vars[f]), pos: p.pos(n), kind: "derive"})
		p.pending = save
	}
	p.vars[name] = id
}

func identName(e ast.Expr) string {
	if id, ok := e.(*ast.Ident); ok {
		return id.Name
	}
	return ""
}

// containsIOCall: a call below n that may do I/O, terminate the process, or that the grammar wants as a statement of its own.
// Other nested calls (conversions, accessors, string helpers, stgutg functions without a connection) are values.
func (t *scTr) containsIOCall(n ast.Node) bool {
	found := false
	ast.Inspect(n, func(x ast.Node) bool {
		if c, ok := x.(*ast.CallExpr); ok {
			name := calleeName(c)
			short := strings.TrimPrefix(name, "stgutg.")
			switch {
			case strings.HasPrefix(name, "conn."), name == "ngap.Decoder", name == "ManageError", name == "stgutg.ManageError",
				strings.HasPrefix(name, "os."), strings.HasPrefix(name, "time."), strings.HasPrefix(name, "fmt."),
				strings.HasPrefix(name, "sctp."), strings.HasPrefix(name, "net."), strings.HasPrefix(name, "syscall."),
				name == "panic", name == "recover", name == "tglib.ConnectToAmf":
				found = true
			case t.procs[short] && (name == short || name == "stgutg."+short):
				found = true
			}
		}
		return !found
	})
	return found
}

var pureBuiltins = map[string]bool{"make": true, "len": true, "int": true, "int64": true, "uint8": true, "uint32": true, "byte": true,
	"string": true, "append": true}

// isManageError recognises ManageError("text", err) and returns text and whether the second argument is the identifier err.
func (t *scTr) isManageError(s ast.Stmt) (text string, errIdent bool, ok bool) {
	es, isExpr := s.(*ast.ExprStmt)
	if !isExpr {
		return
	}
	c, isCall := es.X.(*ast.CallExpr)
	if !isCall {
		return
	}
	n := calleeName(c)
	if n != "ManageError" && n != "stgutg.ManageError" {
		return
	}
	if len(c.Args) != 2 {
		return
	}
	bl, isLit := c.Args[0].(*ast.BasicLit)
	if !isLit || bl.Kind != token.STRING {
		return
	}
	text, _ = strconv.Unquote(bl.Value)
	return text, identName(c.Args[1]) == "err", true
}

func sleepMs(c *ast.CallExpr) (int, bool) {
	if len(c.Args) != 1 {
		return 0, false
	}
	b, ok := c.Args[0].(*ast.BinaryExpr)
	if !ok || b.Op != token.MUL {
		return 0, false
	}
	bl, ok := b.X.(*ast.BasicLit)
	if !ok || bl.Kind != token.INT {
		return 0, false
	}
	k, err := strconv.Atoi(bl.Value)
	if err != nil {
		return 0, false
	}
	se, ok := b.Y.(*ast.SelectorExpr)
	if !ok || identName(se.X) != "time" {
		return 0, false
	}
	switch se.Sel.Name {
	case "Second":
		return k * 1000, true
	case "Millisecond":
		return k, true
	}
	return 0, false
}

func printText(c *ast.CallExpr) string {
	var parts []string
	for _, a := range c.Args {
		if bl, ok := a.(*ast.BasicLit); ok && bl.Kind == token.STRING {
			s, _ := strconv.Unquote(bl.Value)
			parts = append(parts, s)
		} else {
			parts = append(parts, "%")
		}
	}
	return strings.Join(parts, " ")
}

func lhsHasErr(lhs []ast.Expr) bool {
	for _, l := range lhs {
		if identName(l) == "err" {
			return true
		}
	}
	return false
}

func (p *procTr) call(lhs []ast.Expr, c *ast.CallExpr, s ast.Stmt) error {
	name := calleeName(c)
	assignsErr := lhsHasErr(lhs)
	for _, a := range c.Args {
		if p.containsIOCall(a) {
			return fail("%s: call nested in an argument: %s", p.pos(a), p.text(a))
		}
	}
	if p.procs[strings.TrimPrefix(name, "stgutg.")] && !strings.Contains(strings.TrimPrefix(name, "stgutg."), ".") {
		return fail("%s: a procedure calls the procedure %s", p.pos(c), name)
	}
	switch name {
	case "conn.Write":
		if len(c.Args) != 1 || identName(c.Args[0]) == "" {
			return fail("%s: conn.Write of something that is not a variable", p.pos(c))
		}
		if !assignsErr {
			return fail("%s: conn.Write whose error is not assigned to err", p.pos(c))
		}
		so, ok := p.sendOf[identName(c.Args[0])]
		if !ok {
			return fail("%s: conn.Write(%s): the builder of the message is not known", p.pos(c), identName(c.Args[0]))
		}
		p.emit("write", fmt.Sprintf(".write %s %s", lq(so[0]), lq(so[1])), s, true)
		return nil
	case "conn.Read":
		if len(c.Args) != 1 || identName(c.Args[0]) != "recvMsg" || len(lhs) != 2 || identName(lhs[0]) != "n" || !assignsErr {
			return fail("%s: conn.Read outside the shape `n, err := conn.Read(recvMsg)`", p.pos(c))
		}
		p.emit("read", ".read", s, true)
		return nil
	case "ngap.Decoder":
		sl, ok := c.Args[0].(*ast.SliceExpr)
		if len(c.Args) != 1 || !ok || identName(sl.X) != "recvMsg" || sl.Low != nil || identName(sl.High) != "n" {
			return fail("%s: ngap.Decoder outside the shape ngap.Decoder(recvMsg[:n])", p.pos(c))
		}
		if len(p.acts) == 0 || p.lastIO() != "read" {
			return fail("%s: ngap.Decoder that does not follow a conn.Read", p.pos(c))
		}
		v := "none"
		if len(lhs) == 2 && identName(lhs[0]) != "_" && identName(lhs[0]) != "" {
			id := p.nextID
			p.nextID++
			p.vars[identName(lhs[0])] = id
			v = fmt.Sprintf("(some %d)", id)
		} else if len(lhs) != 0 && len(lhs) != 2 {
			return fail("%s: ngap.Decoder with an unexpected left-hand side", p.pos(c))
		}
		p.emit("decode", ".decode "+v, s, assignsErr)
		return nil
	case "conn.Close":
		p.emit("close", ".closeConn", s, false)
		return nil
	}
	if strings.HasPrefix(name, "conn.") {
		return fail("%s: connection method %s outside the script grammar", p.pos(c), name)
	}
	// any other callee: a builder (err assigned) or a pure value
	from := []string{}
	for _, a := range c.Args {
		from = append(from, p.uses(a)...)
	}
	if se, ok := c.Fun.(*ast.SelectorExpr); ok {
		from = append(from, p.uses(se)...) // method receiver
	}
	// NAS / NGAP provenance for the write labels
	if strings.HasPrefix(name, "nasTestpacket.") && len(lhs) == 1 {
		p.nasOf[identName(lhs[0])] = strings.TrimPrefix(name, "nasTestpacket.")
	}
	if name == "tglib.EncodeNasPduWithSecurity" && len(lhs) == 2 && len(c.Args) >= 2 {
		p.nasOf[identName(lhs[0])] = p.nasOf[identName(c.Args[1])]
	}
	if strings.HasPrefix(name, "tglib.Get") && len(lhs) == 2 && assignsErr {
		nasName := ""
		for _, a := range c.Args {
			if n, ok := p.nasOf[identName(a)]; ok && identName(a) != "" {
				nasName = n
			}
		}
		p.sendOf[identName(lhs[0])] = [2]string{strings.TrimPrefix(name, "tglib."), nasName}
	}
	if assignsErr {
		p.emit("build", ".build "+lq(name), s, true)
	}
	for _, l := range lhs {
		if n := identName(l); n != "" && n != "err" && n != "_" {
			p.bind(n, from, s)
		} else if n == "" {
			p.uses(l)
		}
	}
	return nil
}

func (p *procTr) lastIO() string {
	for i := len(p.acts) - 1; i >= 0; i-- {
		switch p.acts[i].kind {
		case "read", "write", "decode":
			return p.acts[i].kind
		}
	}
	return ""
}

// finish closes the `checked` field of the pending action.
func (p *procTr) setChecked(idx int, checked bool, msg string) {
	a := &p.acts[idx]
	a.lean += fmt.Sprintf(" %s %s", lb(checked), lq(msg))
	a.assignsE = false
}

func (p *procTr) flushPending() {
	if p.pending >= 0 {
		p.setChecked(p.pending, false, "")
		p.pending = -1
	}
}

func pureAssignBlock(b *ast.BlockStmt) bool {
	if b == nil {
		return true
	}
	for _, s := range b.List {
		as, ok := s.(*ast.AssignStmt)
		if !ok {
			return false
		}
		for _, r := range as.Rhs {
			if containsCall(r) {
				return false
			}
		}
	}
	return true
}

func (p *procTr) stmt(s ast.Stmt, last bool) error {
	// ManageError directly after an err-producing action
	if text, errIdent, ok := p.isManageError(s); ok {
		if !errIdent {
			return fail("%s: ManageError whose argument is not err", p.pos(s))
		}
		if p.pending < 0 {
			return fail("%s: ManageError that does not directly follow a statement assigning err", p.pos(s))
		}
		p.setChecked(p.pending, true, text)
		p.pending = -1
		return nil
	}
	if ifs, ok := s.(*ast.IfStmt); ok && ifs.Init == nil {
		// if err != nil { ManageError("text", err) }
		if be, ok := ifs.Cond.(*ast.BinaryExpr); ok && be.Op == token.NEQ && identName(be.X) == "err" && identName(be.Y) == "nil" &&
			ifs.Else == nil && len(ifs.Body.List) == 1 {
			if text, errIdent, ok := p.isManageError(ifs.Body.List[0]); ok && errIdent {
				if p.pending < 0 {
					return fail("%s: err checked without a preceding statement assigning it", p.pos(s))
				}
				p.setChecked(p.pending, true, text)
				p.pending = -1
				return nil
			}
		}
		p.flushPending()
		// if v == nil || … { ManageError("text", errors.New(…)) }
		if v := nilGuarded(ifs.Cond); v != "" && ifs.Else == nil && len(ifs.Body.List) == 1 {
			if id, tracked := p.vars[v]; tracked {
				if es, ok := ifs.Body.List[0].(*ast.ExprStmt); ok {
					if c, ok := es.X.(*ast.CallExpr); ok && (calleeName(c) == "ManageError" || calleeName(c) == "stgutg.ManageError") && len(c.Args) == 2 {
						if bl, ok := c.Args[0].(*ast.BasicLit); ok && bl.Kind == token.STRING {
							if c2, ok := c.Args[1].(*ast.CallExpr); ok && calleeName(c2) == "errors.New" {
								text, _ := strconv.Unquote(bl.Value)
								order, _ := p.mentions(ifs.Cond)
								if len(order) != 1 || order[0] != v {
									return fail("%s: nil guard mentions other decoded values", p.pos(s))
								}
								p.emit("use", fmt.Sprintf(".use %d true %s", id, lq(text)), s, false)
								return nil
							}
						}
					}
				}
			}
		}
		// a condition on untracked values over pure assignments
		if order, _ := p.mentions(ifs.Cond); len(order) == 0 && !p.containsIOCall(ifs.Cond) && pureAssignBlock(ifs.Body) {
			switch e := ifs.Else.(type) {
			case nil:
				return nil
			case *ast.BlockStmt:
				if pureAssignBlock(e) {
					for _, b := range []*ast.BlockStmt{ifs.Body, e} {
						for _, st := range b.List {
							for _, r := range st.(*ast.AssignStmt).Rhs {
								if o, _ := p.mentions(r); len(o) != 0 {
									return fail("%s: decoded value used under a condition", p.pos(st))
								}
							}
						}
					}
					return nil
				}
			}
		}
		return fail("%s: if statement outside the script grammar: %s", p.pos(s), p.text(ifs.Cond))
	}
	p.flushPending()
	switch s := s.(type) {
	case *ast.DeclStmt:
		gd, ok := s.Decl.(*ast.GenDecl)
		if !ok || gd.Tok != token.VAR {
			return fail("%s: declaration outside the script grammar", p.pos(s))
		}
		for _, sp := range gd.Specs {
			for _, v := range sp.(*ast.ValueSpec).Values {
				if p.containsIOCall(v) {
					return fail("%s: call in a var declaration", p.pos(v))
				}
				if o, _ := p.mentions(v); len(o) != 0 {
					return fail("%s: decoded value in a var declaration", p.pos(v))
				}
			}
		}
		return nil
	case *ast.ExprStmt:
		c, ok := s.X.(*ast.CallExpr)
		if !ok {
			return fail("%s: expression statement that is not a call", p.pos(s))
		}
		switch calleeName(c) {
		case "time.Sleep":
			ms, ok := sleepMs(c)
			if !ok {
				return fail("%s: time.Sleep argument outside k * time.Second|Millisecond", p.pos(s))
			}
			p.emit("sleep", fmt.Sprintf(".sleep %d", ms), s, false)
			return nil
		case "fmt.Println":
			for _, a := range c.Args {
				if p.containsIOCall(a) {
					return fail("%s: call inside fmt.Println", p.pos(a))
				}
				p.uses(a)
			}
			p.emit("print", ".print "+lq(printText(c)), s, false)
			return nil
		case "os.Exit":
			return fail("%s: os.Exit inside a procedure", p.pos(s))
		}
		if err := p.call(nil, c, s); err != nil {
			return err
		}
		p.flushPending()
		return nil
	case *ast.AssignStmt:
		if len(s.Rhs) == 1 {
			if c, ok := s.Rhs[0].(*ast.CallExpr); ok && !pureBuiltins[calleeName(c)] {
				return p.call(s.Lhs, c, s)
			}
		}
		from := []string{}
		for _, r := range s.Rhs {
			if p.containsIOCall(r) {
				return fail("%s: call inside an expression: %s", p.pos(r), p.text(r))
			}
			from = append(from, p.uses(r)...)
		}
		if lhsHasErr(s.Lhs) {
			return fail("%s: err assigned from something that is not a call", p.pos(s))
		}
		for _, l := range s.Lhs {
			if n := identName(l); n != "" {
				if n != "_" {
					p.bind(n, from, s)
				}
			} else {
				p.uses(l)
			}
		}
		return nil
	case *ast.ReturnStmt:
		if !last {
			return fail("%s: return before the end of the procedure", p.pos(s))
		}
		for _, r := range s.Results {
			if p.containsIOCall(r) {
				return fail("%s: call in a return statement", p.pos(r))
			}
			p.uses(r)
		}
		if returnsIP(p.funcs[p.name]) {
			p.emit("report", ".report", s, false)
		}
		return nil
	}
	return fail("%s: statement outside the script grammar: %T", p.pos(s), s)
}

// nilGuarded: `v == nil || …` → v
func nilGuarded(e ast.Expr) string {
	for {
		be, ok := e.(*ast.BinaryExpr)
		if !ok {
			return ""
		}
		if be.Op == token.LOR {
			e = be.X
			continue
		}
		if be.Op == token.EQL && identName(be.Y) == "nil" {
			return identName(be.X)
		}
		return ""
	}
}

func (t *scTr) procedure(name string) ([]scAct, error) {
	fd := t.funcs[name]
	if err := t.forbidden(fd.Body); err != nil {
		return nil, err
	}
	p := &procTr{scTr: t, name: name, vars: map[string]int{}, nasOf: map[string]string{}, sendOf: map[string][2]string{}, pending: -1}
	for i, s := range fd.Body.List {
		switch s.(type) {
		case *ast.ForStmt, *ast.RangeStmt:
			return nil, fail("%s: loop inside a procedure", t.pos(s))
		}
		if err := p.stmt(s, i == len(fd.Body.List)-1); err != nil {
			return nil, err
		}
	}
	p.flushPending()
	return p.acts, nil
}

// ------------------------------------------------------------------------------------------------ main, test mode

type mainTr struct {
	*scTr
	counts map[string]string // local → CountExpr (Lean)
	called []string
	items  []string // Lean MainItem
	pos_   []string
}

func (m *mainTr) countExpr(e ast.Expr) (string, error) {
	if id := identName(e); id != "" {
		if c, ok := m.counts[id]; ok {
			return c, nil
		}
		return "", fail("%s: loop bound %s is not a configuration count", m.pos(e), id)
	}
	if se, ok := e.(*ast.SelectorExpr); ok {
		if s2, ok := se.X.(*ast.SelectorExpr); ok && s2.Sel.Name == "Configuration" && identName(s2.X) == "c" {
			return "(.cfg " + lq(se.Sel.Name) + ")", nil
		}
	}
	return "", fail("%s: count expression outside the script grammar: %s", m.pos(e), m.text(e))
}

// stmt translates one statement of the branch (loopVar = "" outside loops) into Lean Stmt terms.
func (m *mainTr) stmt(s ast.Stmt, next ast.Stmt, loopVar string) (out []string, skipNext bool, err error) {
	callStmt := func(c *ast.CallExpr) ([]string, error) {
		name := calleeName(c)
		short := strings.TrimPrefix(name, "stgutg.")
		if strings.HasPrefix(name, "stgutg.") && m.procs[short] {
			needs := []string{}
			for _, a := range c.Args {
				if ix, ok := a.(*ast.IndexExpr); ok {
					if identName(ix.X) == "" || loopVar == "" || identName(ix.Index) != loopVar {
						return nil, fail("%s: indexed argument outside the shape L[i]: %s", m.pos(a), m.text(a))
					}
					needs = append(needs, lq(identName(ix.X)))
					continue
				}
				if containsCall(a) {
					return nil, fail("%s: call in a procedure argument", m.pos(a))
				}
				bad := false
				ast.Inspect(a, func(x ast.Node) bool {
					if _, ok := x.(*ast.IndexExpr); ok {
						bad = true
					}
					return !bad
				})
				if bad {
					return nil, fail("%s: index expression nested in a procedure argument", m.pos(a))
				}
			}
			m.called = append(m.called, short)
			return []string{fmt.Sprintf(".call %s [%s]", lq(short), strings.Join(needs, ", "))}, nil
		}
		if strings.HasPrefix(name, "stgutg.") {
			if _, known := m.funcs[short]; known && !m.procs[short] {
				for _, a := range c.Args {
					if containsCall(a) {
						return nil, fail("%s: call in an argument", m.pos(a))
					}
				}
				return nil, nil // a function without a connection: no I/O
			}
		}
		return nil, fail("%s: call outside the script grammar: %s", m.pos(c), name)
	}
	switch s := s.(type) {
	case *ast.ExprStmt:
		c, ok := s.X.(*ast.CallExpr)
		if !ok {
			return nil, false, fail("%s: expression statement that is not a call", m.pos(s))
		}
		switch calleeName(c) {
		case "fmt.Println":
			for _, a := range c.Args {
				if containsCall(a) {
					return nil, false, fail("%s: call inside fmt.Println", m.pos(a))
				}
			}
			return []string{".act (.print " + lq(printText(c)) + ")"}, false, nil
		case "time.Sleep":
			ms, ok := sleepMs(c)
			if !ok {
				return nil, false, fail("%s: time.Sleep argument", m.pos(s))
			}
			return []string{fmt.Sprintf(".act (.sleep %d)", ms)}, false, nil
		case "conn.Close":
			return []string{".act .closeConn"}, false, nil
		case "os.Exit":
			if len(c.Args) == 1 {
				if bl, ok := c.Args[0].(*ast.BasicLit); ok && bl.Kind == token.INT {
					return []string{".act (.exit " + bl.Value + ")"}, false, nil
				}
			}
			return nil, false, fail("%s: os.Exit argument", m.pos(s))
		}
		o, err := callStmt(c)
		return o, false, err
	case *ast.AssignStmt:
		if len(s.Rhs) != 1 {
			return nil, false, fail("%s: assignment outside the script grammar", m.pos(s))
		}
		if c, ok := s.Rhs[0].(*ast.CallExpr); ok {
			switch calleeName(c) {
			case "stgutg.Min":
				if loopVar != "" || len(s.Lhs) != 1 || s.Tok != token.DEFINE || len(c.Args) != 2 {
					return nil, false, fail("%s: stgutg.Min outside `x := stgutg.Min(a, b)`", m.pos(s))
				}
				a, err := m.countExpr(c.Args[0])
				if err != nil {
					return nil, false, err
				}
				b, err := m.countExpr(c.Args[1])
				if err != nil {
					return nil, false, err
				}
				if _, dup := m.counts[identName(s.Lhs[0])]; dup {
					return nil, false, fail("%s: %s defined twice", m.pos(s), identName(s.Lhs[0]))
				}
				m.counts[identName(s.Lhs[0])] = "(.min " + a + " " + b + ")"
				return nil, false, nil
			case "tglib.ConnectToAmf":
				if !lhsHasErr(s.Lhs) {
					return nil, false, fail("%s: ConnectToAmf without err", m.pos(s))
				}
				if next != nil {
					if text, errIdent, ok := m.isManageError(next); ok && errIdent {
						return []string{".act (.build \"tglib.ConnectToAmf\" true " + lq(text) + ")"}, true, nil
					}
				}
				return []string{".act (.build \"tglib.ConnectToAmf\" false \"\")"}, false, nil
			case "append":
				if len(s.Lhs) == 1 && len(c.Args) == 2 && identName(s.Lhs[0]) != "" && identName(c.Args[0]) == identName(s.Lhs[0]) && identName(c.Args[1]) != "" {
					return []string{".append " + lq(identName(s.Lhs[0]))}, false, nil
				}
				return nil, false, fail("%s: append outside `L = append(L, v)`", m.pos(s))
			}
			for _, l := range s.Lhs {
				if identName(l) == "" || identName(l) == "err" {
					return nil, false, fail("%s: left-hand side outside the script grammar", m.pos(s))
				}
				if _, isCount := m.counts[identName(l)]; isCount {
					return nil, false, fail("%s: count %s re-assigned", m.pos(s), identName(l))
				}
			}
			o, err := callStmt(c)
			return o, false, err
		}
		// x := c.Configuration.F (a count when used as a loop bound) or any call-free value
		if containsCall(s.Rhs[0]) {
			return nil, false, fail("%s: call inside an expression", m.pos(s))
		}
		if len(s.Lhs) == 1 && s.Tok == token.DEFINE {
			if ce, err := m.countExpr(s.Rhs[0]); err == nil && loopVar == "" {
				m.counts[identName(s.Lhs[0])] = ce
			}
		}
		for _, l := range s.Lhs {
			if _, isCount := m.counts[identName(l)]; isCount && s.Tok != token.DEFINE {
				return nil, false, fail("%s: count %s re-assigned", m.pos(s), identName(l))
			}
		}
		return nil, false, nil
	}
	return nil, false, fail("%s: statement outside the script grammar: %T", m.pos(s), s)
}

func (m *mainTr) block(list []ast.Stmt, loopVar string) ([]string, error) {
	var out []string
	for i := 0; i < len(list); i++ {
		var next ast.Stmt
		if i+1 < len(list) {
			next = list[i+1]
		}
		if _, _, isME := m.isManageError(list[i]); isME {
			return nil, fail("%s: ManageError that does not follow ConnectToAmf", m.pos(list[i]))
		}
		o, skip, err := m.stmt(list[i], next, loopVar)
		if err != nil {
			return nil, err
		}
		out = append(out, o...)
		if skip {
			i++
		}
	}
	return out, nil
}

func (m *mainTr) branch(b *ast.BlockStmt) error {
	if err := m.forbidden(b); err != nil {
		return err
	}
	flush := func(stmts []string) {
		for _, s := range stmts {
			m.items = append(m.items, ".stmt ("+s+")")
		}
	}
	for i := 0; i < len(b.List); i++ {
		s := b.List[i]
		if fs, ok := s.(*ast.ForStmt); ok {
			// for i := 0; i < B; i++
			init, ok1 := fs.Init.(*ast.AssignStmt)
			cond, ok2 := fs.Cond.(*ast.BinaryExpr)
			post, ok3 := fs.Post.(*ast.IncDecStmt)
			if !ok1 || !ok2 || !ok3 || init.Tok != token.DEFINE || len(init.Lhs) != 1 || len(init.Rhs) != 1 || cond.Op != token.LSS || post.Tok != token.INC {
				return fail("%s: loop outside `for i := 0; i < B; i++`", m.pos(fs))
			}
			iv := identName(init.Lhs[0])
			if bl, ok := init.Rhs[0].(*ast.BasicLit); !ok || bl.Value != "0" || iv == "" || identName(cond.X) != iv || identName(post.X) != iv {
				return fail("%s: loop outside `for i := 0; i < B; i++`", m.pos(fs))
			}
			bound, err := m.countExpr(cond.Y)
			if err != nil {
				return err
			}
			for _, bs := range fs.Body.List {
				switch bs.(type) {
				case *ast.ForStmt, *ast.RangeStmt, *ast.IfStmt:
					return fail("%s: nested control flow inside a loop", m.pos(bs))
				}
				// the loop variable may only be printed or used as L[i]
				if as, ok := bs.(*ast.AssignStmt); ok {
					for _, l := range as.Lhs {
						if identName(l) == iv {
							return fail("%s: loop variable assigned", m.pos(bs))
						}
					}
				}
			}
			body, err := m.block(fs.Body.List, iv)
			if err != nil {
				return err
			}
			m.items = append(m.items, fmt.Sprintf(".loop %s [\n      %s]", bound, strings.Join(body, ",\n      ")))
			continue
		}
		switch s.(type) {
		case *ast.RangeStmt, *ast.IfStmt:
			return fail("%s: control flow outside the script grammar in the test-mode branch", m.pos(s))
		}
		var next ast.Stmt
		if i+1 < len(b.List) {
			next = b.List[i+1]
		}
		if _, _, isME := m.isManageError(s); isME {
			return fail("%s: ManageError that does not follow ConnectToAmf", m.pos(s))
		}
		o, skip, err := m.stmt(s, next, "")
		if err != nil {
			return err
		}
		flush(o)
		if skip {
			i++
		}
	}
	return nil
}

func genScript() error {
	t := &scTr{fset: token.NewFileSet(), funcs: map[string]*ast.FuncDecl{}, file: map[string]string{}, procs: map[string]bool{}}
	for _, f := range []string{"ngsetup.go", "ue.go", "pdu.go", "service.go", "utils.go"} {
		p := filepath.Join(repo, "src/stgutg", f)
		af, err := parser.ParseFile(t.fset, p, nil, 0)
		if err != nil {
			return err
		}
		for _, d := range af.Decls {
			if fd, ok := d.(*ast.FuncDecl); ok && fd.Recv == nil && fd.Body != nil {
				t.funcs[fd.Name.Name] = fd
				t.file[fd.Name.Name] = "src/stgutg/" + f
				if hasConnParam(fd) {
					if f == "utils.go" {
						return fail("%s: procedure with a connection in utils.go", t.pos(fd))
					}
					t.procs[fd.Name.Name] = true
				}
			}
		}
	}
	// main: if mode == 1 {…} else if mode == 2 {…}
	mf, err := parser.ParseFile(t.fset, filepath.Join(repo, "stg-utg.go"), nil, 0)
	if err != nil {
		return err
	}
	var testBranch *ast.BlockStmt
	for _, d := range mf.Decls {
		fd, ok := d.(*ast.FuncDecl)
		if !ok || fd.Name.Name != "main" {
			continue
		}
		for _, s := range fd.Body.List {
			ifs, ok := s.(*ast.IfStmt)
			if !ok {
				continue
			}
			for ifs != nil {
				if be, ok := ifs.Cond.(*ast.BinaryExpr); ok && be.Op == token.EQL && identName(be.X) == "mode" {
					if bl, ok := be.Y.(*ast.BasicLit); ok && bl.Value == "2" {
						if testBranch != nil {
							return fail("%s: two test-mode branches", t.pos(ifs))
						}
						testBranch = ifs.Body
					}
				}
				next, _ := ifs.Else.(*ast.IfStmt)
				if ifs.Else != nil && next == nil {
					return fail("%s: else branch of the mode switch", t.pos(ifs.Else))
				}
				ifs = next
			}
		}
	}
	if testBranch == nil {
		return fail("stg-utg.go: no `else if mode == 2` branch in main")
	}
	m := &mainTr{scTr: t, counts: map[string]string{}}
	if err := m.branch(testBranch); err != nil {
		return err
	}
	// procedures reachable from the branch, in order of first call
	var order []string
	seen := map[string]bool{}
	for _, c := range m.called {
		if !seen[c] {
			seen[c] = true
			order = append(order, c)
		}
	}
	var b strings.Builder
	b.WriteString("-- GENERATED by `gen script` from src/stgutg/{ngsetup,ue,pdu,service}.go and the test-mode branch of stg-utg.go. Do not edit.\n")
	b.WriteString("import Stgutg.Model.FailStopTypes\nnamespace Stgutg.Gen.Script\nopen Stgutg.Model.FailStop\n\n")
	for _, name := range order {
		acts, err := t.procedure(name)
		if err != nil {
			return err
		}
		fmt.Fprintf(&b, "/-- `%s` (%s) -/\ndef proc%s : List Act := [\n", name, t.file[name], name)
		for i, a := range acts {
			sep := ","
			if i == len(acts)-1 {
				sep = ""
			}
			fmt.Fprintf(&b, "  %s%s  -- %s\n", a.lean, sep, a.pos)
		}
		b.WriteString("]\n\n")
	}
	var unreached []string
	for p := range t.procs {
		if !seen[p] {
			unreached = append(unreached, p)
		}
	}
	sort.Strings(unreached)
	fmt.Fprintf(&b, "/-- functions with a connection parameter that the test-mode branch never calls (not translated) -/\ndef unreached : List String := [")
	for i, u := range unreached {
		if i > 0 {
			b.WriteString(", ")
		}
		b.WriteString(lq(u))
	}
	b.WriteString("]\n\n")
	b.WriteString("def procs : List (String × List Act) := [\n")
	for i, name := range order {
		sep := ","
		if i == len(order)-1 {
			sep = ""
		}
		fmt.Fprintf(&b, "  (%s, proc%s)%s\n", lq(name), name, sep)
	}
	b.WriteString("]\n\n/-- `main`, the `mode == 2` branch -/\ndef main : List MainItem := [\n")
	for i, it := range m.items {
		sep := ","
		if i == len(m.items)-1 {
			sep = ""
		}
		fmt.Fprintf(&b, "  %s%s\n", it, sep)
	}
	b.WriteString("]\n\ndef script : Script := { procs := procs, main := main }\n\nend Stgutg.Gen.Script\n")
	return writeIfChanged("Script.lean", b.String())
}
