package main

import (
	"fmt"
	"go/ast"
	"go/token"
	"go/types"
	"os"
	"path/filepath"
	"regexp"
	"sort"
	"strings"
)

// pure-extract: the hand-written parsers of src/stgutg/pdu.go → Gen/PureExtract.lean (tie: Proofs/GenTieExtract.lean).
//
// These functions walk a byte slice by index and re-slice it freely, so the carrier of a slice must keep its hidden
// capacity, and they loop on a condition, not on a counter. Neither fits the carriers of pure.go (a slice is its octets; a
// loop is counted), so this is a separate, small grammar ("slice walker") with its own runtime Gen/PureRtSl.lean
// (pure_extract_rt.go). It shares the loader, go/types' constant evaluation and the integer runtime Gen/PureRt.lean.
//
// Slice-walker grammar (go/ast + go/types; ANYTHING else fails closed with file:line):
//
//	functions   func F(p1 T1, …) (R1, …): no receiver, unnamed results, parameters and results of the types below
//	types       uint8/byte uint16 uint32 uint64 (Lean UIntN), int (Int, wrapped to 64 bits: Go.iadd …), bool in conditions,
//	            []byte and named types over it such as net.IP (Go.Sl = backing array from the first element on + len)
//	constants   every expression go/types gives a constant value is emitted as that value at its final type
//	expressions + - * & | ^ on the unsigned types (Lean's wrap-around) and on int (Go.iadd …), comparisons of integers,
//	            ! && || (the right operand of && || may not be able to fail), conversions unsigned → unsigned (truncating /
//	            zero-extending), uint8/16/32 → int, between []byte and its named types (the same slice); len(s);
//	            s[i] (trap unless 0 ≤ i < len), s[a:] (trap unless 0 ≤ a ≤ len), s[a:b] and s[:b] (trap unless
//	            0 ≤ a ≤ b ≤ CAP: the result may show octets behind len(s)), indices of any of the integer types;
//	            binary.BigEndian.Uint16(s) / Uint32(s) (trap unless len ≥ 2 / 4);
//	            M[k] for a package-level `var M = map[byte]int{const: const, …}` (0 for an absent key)
//	statements  var x T; x := e; x = e; x += e; x -= e; x++; x-- on locals and parameters (never through an index: no
//	            function of this grammar writes to memory, so a slice is a value); `_ = v` / `_, _ = v, w` on variables
//	            (nothing); if / else if / else without init — an `if` that is followed by further statements may have at
//	            most one branch that can reach them (the others end in break / continue / return);
//	            `for cond { … }`, optionally labelled, at the top level of the function only: a recursive definition
//	            F.loopN on FUEL, one unit per iteration; outliving the fuel is `.error .hang`. A function with such a loop
//	            takes (fuel : Nat) as its first argument and every loop starts with that amount; the tie theorems hold for
//	            every fuel and the property theorems say which fuel suffices. The loop's state = the variables declared
//	            before it that it assigns; its result = those of them mentioned after it;
//	            `for _, v := range T { … }` inside or outside a loop, T a package-level `var T = []byte{const, …}`: unrolled
//	            (the elements are known; see tables), the body may `continue L` / `break L` the enclosing labelled loop,
//	            not break / continue the range itself;
//	            break / continue, with the label of the enclosing `for` or without (innermost `for`), last in their block;
//	            return e1, … outside loops
//	tables      the two kinds of package-level variables above are CONSTANTS of the translation. Accepted only if the
//	            variable is declared with exactly this literal, and is used NOWHERE else: every use inside its package
//	            (go/types Uses over all files of the package) must be one of the translated M[k] / range T sites of the
//	            listed functions, and its name must not occur in any other .go file under the repo (an exported variable
//	            could be assigned from another package).
//	self-test   `gen pure-selftest-ext` translates harness/cmd/gen/pureselftest/ext.go (every construct above) and writes
//	            the outcomes of executing the compiled functions beside the translation (Gen/PureSelftestExt.lean)
//
// Not described (as in the hand model Model/Extract.lean): that the returned slices share storage with the argument; nil
// versus empty; panics are one outcome whatever their message. An int is 64 bits wide (GOARCH amd64/arm64).

type pxGroup struct {
	name, ns string
	targets  []puTarget
	header   string
}

var pxExtractGroup = &pxGroup{name: "pure-extract", ns: "Extract", targets: []puTarget{
	{pkg: "stgutg", file: "pdu.go", fn: "DecodePDUSessionResourceSetupRequestTransfer"},
	{pkg: "stgutg", file: "pdu.go", fn: "DecodePDUSessionNASPDU"},
}}

func init() {
	register("pure-extract", func() error {
		if err := writeIfChanged("PureRt.lean", puRuntimeLean); err != nil {
			return err
		}
		if err := writeIfChanged("PureRtSl.lean", pxRuntimeLean); err != nil {
			return err
		}
		out, _, err := genPx(newPuLoader([]string{"stgutg"}), pxExtractGroup, true)
		if err != nil {
			return err
		}
		return writeIfChanged("PureExtract.lean", out)
	})
}

// ---------------------------------------------------------------------------------------------- contexts

type pxTable struct {
	v     *types.Var
	isMap bool
	keys  []string // Lean literals (maps)
	vals  []string // Lean literals (map values / slice elements)
	decl  *ast.ValueSpec
}

type pxGen struct {
	g      *pxGroup
	ld     *puLoader
	p      *puPkg
	tables map[*types.Var]*pxTable
	order  []*pxTable
	sites  map[*ast.Ident]bool // approved uses of table variables
	fns    map[string]*pxFn
}

type pxLoop struct {
	label string
	cont  string // the recursive call: next iteration
	brk   string // leaving the loop
}

type pxFn struct {
	*puFn
	g     *pxGen
	loops []string // definitions of the loops, emitted before the function
	fuel  bool
}

// pxCont: what follows a statement list
type pxCont struct {
	fall    func(ind string) (string, error) // falling off the end of the list
	loop    *pxLoop                          // enclosing `for`
	inRange bool                             // inside an unrolled range body
}

func pxIsByteSlice(t types.Type) bool {
	s, ok := t.Underlying().(*types.Slice)
	if !ok {
		return false
	}
	b, ok := s.Elem().Underlying().(*types.Basic)
	return ok && b.Kind() == types.Uint8
}

// kind: the carrier of a type of the grammar
func (c *pxFn) kind(n ast.Node, t types.Type) (puKind, error) {
	if pxIsByteSlice(t) {
		return puBytes, nil
	}
	if b, ok := t.Underlying().(*types.Basic); ok {
		switch b.Kind() {
		case types.Uint8, types.Uint16, types.Uint32, types.Uint64, types.Int, types.UntypedInt, types.Bool, types.UntypedBool:
			return c.kindOf(t), nil
		}
	}
	return puBad, c.errf(n, "type %s is outside the slice-walker grammar", t)
}

func (c *pxFn) leanTy(n ast.Node, t types.Type) (string, error) {
	k, err := c.kind(n, t)
	if err != nil {
		return "", err
	}
	switch k {
	case puBytes:
		return "Go.Sl", nil
	case puInt:
		return "Int", nil
	case puBool:
		return "Bool", nil
	}
	return puLeanUint[k], nil
}

func (c *pxFn) zeroOf(n ast.Node, t types.Type) (string, error) {
	k, err := c.kind(n, t)
	if err != nil {
		return "", err
	}
	switch k {
	case puBytes:
		return "Go.Sl.nil", nil
	case puInt:
		return "(0 : Int)", nil
	case puBool:
		return "false", nil
	}
	return "(0 : " + puLeanUint[k] + ")", nil
}

// localVar: the local variable / parameter an identifier denotes (nil: something else)
func (c *pxFn) localVar(id *ast.Ident) *types.Var {
	v, ok := c.pkg.info.ObjectOf(id).(*types.Var)
	if !ok || v.IsField() || v.Pkg() == nil || v.Parent() == v.Pkg().Scope() {
		return nil
	}
	return v
}

// ---------------------------------------------------------------------------------------------- tables

func (g *pxGen) table(c *pxFn, id *ast.Ident, wantMap bool) (*pxTable, error) {
	v, ok := c.pkg.info.ObjectOf(id).(*types.Var)
	if !ok || v.Pkg() == nil || v.Parent() != v.Pkg().Scope() || v.Pkg() != c.pkg.pkg {
		return nil, c.errf(id, "%s is not a package-level variable of this package", id.Name)
	}
	if t, ok := g.tables[v]; ok {
		if t.isMap != wantMap {
			return nil, c.errf(id, "%s: wrong kind of table", id.Name)
		}
		g.sites[id] = true
		return t, nil
	}
	// its declaration: var X = T{…}, one name, one value
	var spec *ast.ValueSpec
	for _, f := range c.pkg.files {
		for _, d := range f.Decls {
			gd, ok := d.(*ast.GenDecl)
			if !ok || gd.Tok != token.VAR {
				continue
			}
			for _, s := range gd.Specs {
				vs := s.(*ast.ValueSpec)
				for _, n := range vs.Names {
					if c.pkg.info.Defs[n] == v {
						spec = vs
					}
				}
			}
		}
	}
	if spec == nil || len(spec.Names) != 1 || len(spec.Values) != 1 {
		return nil, c.errf(id, "%s: not declared as `var %s = <literal>`", id.Name, id.Name)
	}
	cl, ok := spec.Values[0].(*ast.CompositeLit)
	if !ok {
		return nil, c.errf(spec, "%s: the initialiser is not a composite literal", id.Name)
	}
	t := &pxTable{v: v, isMap: wantMap, decl: spec}
	constOf := func(e ast.Expr) (string, error) {
		tv, ok := c.pkg.info.Types[e]
		if !ok || tv.Value == nil {
			return "", c.errf(e, "%s: element is not a constant", id.Name)
		}
		return c.literal(tv.Value, tv.Type)
	}
	if wantMap {
		m, ok := v.Type().Underlying().(*types.Map)
		if !ok {
			return nil, c.errf(id, "%s is not a map", id.Name)
		}
		kb, ok1 := m.Key().Underlying().(*types.Basic)
		vb, ok2 := m.Elem().Underlying().(*types.Basic)
		if !ok1 || !ok2 || kb.Kind() != types.Uint8 || vb.Kind() != types.Int {
			return nil, c.errf(id, "%s: only map[byte]int tables are translated", id.Name)
		}
		for _, e := range cl.Elts {
			kv, ok := e.(*ast.KeyValueExpr)
			if !ok {
				return nil, c.errf(e, "%s: element is not key: value", id.Name)
			}
			k, err := constOf(kv.Key)
			if err != nil {
				return nil, err
			}
			val, err := constOf(kv.Value)
			if err != nil {
				return nil, err
			}
			t.keys = append(t.keys, k)
			t.vals = append(t.vals, val)
		}
	} else {
		if _, isSlice := v.Type().(*types.Slice); !isSlice || !pxIsByteSlice(v.Type()) {
			return nil, c.errf(id, "%s: only []byte tables are ranged over", id.Name)
		}
		if len(cl.Elts) > 32 {
			return nil, c.errf(id, "%s: more than 32 elements (the loop is unrolled)", id.Name)
		}
		for _, e := range cl.Elts {
			if _, ok := e.(*ast.KeyValueExpr); ok {
				return nil, c.errf(e, "%s: indexed element in a slice literal", id.Name)
			}
			val, err := constOf(e)
			if err != nil {
				return nil, err
			}
			t.vals = append(t.vals, val)
		}
	}
	g.tables[v] = t
	g.order = append(g.order, t)
	g.sites[id] = true
	return t, nil
}

var pxGoFileCache = map[string][]string{}

// checkTables: the table variables are used nowhere but at the translated sites
func (g *pxGen) checkTables() error {
	if len(g.order) == 0 {
		return nil
	}
	for id, o := range g.p.info.Uses {
		v, ok := o.(*types.Var)
		if !ok {
			continue
		}
		if _, isT := g.tables[v]; isT && !g.sites[id] {
			return fail("%s: %s is used outside the translated read sites: it cannot be taken for a constant",
				g.ld.fset.Position(id.Pos()), id.Name)
		}
	}
	// other packages (an exported variable can be assigned from anywhere): the name must not occur in any other .go file
	files, ok := pxGoFileCache[repo]
	if !ok {
		filepath.Walk(repo, func(p string, fi os.FileInfo, err error) error {
			if err != nil {
				return nil
			}
			if fi.IsDir() && (fi.Name() == ".git" || fi.Name() == "log") {
				return filepath.SkipDir
			}
			if !fi.IsDir() && strings.HasSuffix(p, ".go") {
				files = append(files, p)
			}
			return nil
		})
		sort.Strings(files)
		pxGoFileCache[repo] = files
	}
	var res []*regexp.Regexp
	for _, t := range g.order {
		res = append(res, regexp.MustCompile(`\b`+regexp.QuoteMeta(t.v.Name())+`\b`))
	}
	for _, f := range files {
		if filepath.Dir(f) == g.p.dir {
			continue
		}
		b, err := os.ReadFile(f)
		if err != nil {
			return err
		}
		for i, re := range res {
			if re.Match(b) {
				return fail("%s: mentions %s, which the translation takes for a constant", f, g.order[i].v.Name())
			}
		}
	}
	return nil
}

func (g *pxGen) tableDefs() string {
	var b strings.Builder
	for _, t := range g.order {
		rel, _ := filepath.Rel(repo, g.ld.fset.Position(t.decl.Pos()).Filename)
		if t.isMap {
			fmt.Fprintf(&b, "/-- %s var %s: a map[byte]int literal that nothing else in the repo mentions; an absent key reads 0 -/\n", rel, t.v.Name())
			fmt.Fprintf(&b, "def %s : List (UInt8 × Int) := [", puLeanIdent(t.v.Name()))
			for i := range t.keys {
				if i > 0 {
					b.WriteString(", ")
				}
				fmt.Fprintf(&b, "(%s, %s)", t.keys[i], t.vals[i])
			}
			b.WriteString("]\n\n")
		} else {
			fmt.Fprintf(&b, "/-- %s var %s: a []byte literal that nothing else in the repo mentions (the loops over it are unrolled) -/\n", rel, t.v.Name())
			fmt.Fprintf(&b, "def %s : List UInt8 := [%s]\n\n", puLeanIdent(t.v.Name()), strings.Join(t.vals, ", "))
		}
	}
	return b.String()
}

// ---------------------------------------------------------------------------------------------- driver

func genPx(ld *puLoader, g *pxGroup, withHeader bool) (string, *pxGen, error) {
	gen := &pxGen{g: g, ld: ld, tables: map[*types.Var]*pxTable{}, sites: map[*ast.Ident]bool{}, fns: map[string]*pxFn{}}
	dummy := &puGroupCtx{g: &puGroup{name: g.name, ns: g.ns}, ld: ld, byObj: map[*types.Func]*puFn{}, sname: map[*types.TypeName]string{},
		staken: map[string]bool{}, libUsed: map[string]string{}}
	var defs []string
	for _, t := range g.targets {
		p, err := ld.load(t.pkg)
		if err != nil {
			return "", nil, err
		}
		if gen.p == nil {
			gen.p = p
		} else if gen.p != p {
			return "", nil, fail("group %s: targets in two packages", g.name)
		}
		fd, err := puFindFunc(p, t)
		if err != nil {
			return "", nil, err
		}
		obj, _ := p.info.Defs[fd.Name].(*types.Func)
		if obj == nil {
			return "", nil, fail("%s: no type information for func %s", filepath.Join(p.dir, t.file), t.fn)
		}
		for _, te := range p.errs {
			if te.Pos >= fd.Pos() && te.Pos <= fd.End() {
				return "", nil, fail("%s: %s: type error: %s", ld.fset.Position(te.Pos), t.fn, te.Msg)
			}
		}
		c := &pxFn{puFn: &puFn{t: t, grp: dummy, pkg: p, decl: fd, obj: obj, lean: t.fn, names: map[types.Object]string{},
			used: map[string]bool{}, bound: map[*types.Var]bool{}}, g: gen}
		d, err := c.translate()
		if err != nil {
			return "", nil, err
		}
		gen.fns[t.fn] = c
		defs = append(defs, d)
	}
	if err := gen.checkTables(); err != nil {
		return "", nil, err
	}
	var b strings.Builder
	fmt.Fprintf(&b, "-- GENERATED by `gen %s` from /repo's working tree (harness/cmd/gen/pure_extract.go). Do not edit.\n", g.name)
	b.WriteString("import Stgutg.Gen.PureRtSl\n")
	fmt.Fprintf(&b, "namespace Stgutg.Gen.Pure.%s\nopen Stgutg Stgutg.Gen\nset_option linter.unusedVariables false\n\n", g.ns)
	b.WriteString(gen.tableDefs())
	for _, d := range defs {
		b.WriteString(d)
		b.WriteString("\n")
	}
	fmt.Fprintf(&b, "end Stgutg.Gen.Pure.%s\n", g.ns)
	return b.String(), gen, nil
}

func (c *pxFn) translate() (string, error) {
	sig := c.obj.Type().(*types.Signature)
	if sig.Recv() != nil || sig.Variadic() || sig.TypeParams() != nil {
		return "", c.errf(c.decl, "method / variadic / generic function")
	}
	if sig.Results().Len() == 0 {
		return "", c.errf(c.decl, "a function without results")
	}
	c.used["fuel"] = true
	var params []string
	for i := 0; i < sig.Params().Len(); i++ {
		v := sig.Params().At(i)
		if v.Name() == "" || v.Name() == "_" {
			return "", c.errf(c.decl, "unnamed parameter")
		}
		lt, err := c.leanTy(c.decl, v.Type())
		if err != nil {
			return "", err
		}
		params = append(params, "("+c.name(v)+" : "+lt+")")
	}
	var rts []string
	for i := 0; i < sig.Results().Len(); i++ {
		v := sig.Results().At(i)
		if v.Name() != "" {
			return "", c.errf(c.decl, "named results")
		}
		lt, err := c.leanTy(c.decl, v.Type())
		if err != nil {
			return "", err
		}
		rts = append(rts, lt)
	}
	rt := strings.Join(rts, " × ")
	if len(rts) > 1 {
		rt = "(" + rt + ")"
	}
	// labels are only accepted on `for` loops; goto does not exist in the grammar
	body, err := c.seq(c.decl.Body.List, 0, "  ", &pxCont{fall: func(string) (string, error) {
		return "", c.errf(c.decl, "the function can fall off its end")
	}})
	if err != nil {
		return "", err
	}
	var b strings.Builder
	for _, l := range c.loops {
		b.WriteString(l)
		b.WriteString("\n")
	}
	rel, _ := filepath.Rel(repo, filepath.Join(c.pkg.dir, c.t.file))
	fuel := ""
	note := ""
	if c.fuel {
		fuel = "(fuel : Nat) "
		note = " (fuel: the iterations each loop may make)"
	}
	fmt.Fprintf(&b, "/-- %s func %s%s -/\ndef %s %s%s : Res %s :=\n%s", rel, c.t.fn, note, c.lean, fuel, strings.Join(params, " "), rt, body)
	return b.String(), nil
}

// ---------------------------------------------------------------------------------------------- expressions

// bindOp: a failing operation, bound to a fresh name
func (c *pxFn) bindOp(pre *[]string, op string) string {
	t := c.fresh()
	c.used[t] = true
	*pre = append(*pre, op+" >>= fun "+t+" =>")
	return t
}

// index: an index operand as an Int
func (c *pxFn) index(e ast.Expr, pre *[]string) (string, error) {
	t, err := c.typeOf(e)
	if err != nil {
		return "", err
	}
	k, err := c.kind(e, t)
	if err != nil {
		return "", err
	}
	v, err := c.expr(e, pre)
	if err != nil {
		return "", err
	}
	switch {
	case k == puInt:
		return v, nil
	case k.unsigned():
		if c.isConst(e) {
			tv := c.pkg.info.Types[e]
			return "(" + tv.Value.ExactString() + " : Int)", nil
		}
		return "(" + v + ".toNat : Int)", nil
	}
	return "", c.errf(e, "index of type %s", t)
}

func (c *pxFn) expr(e ast.Expr, pre *[]string) (string, error) {
	t, err := c.typeOf(e)
	if err != nil {
		return "", err
	}
	if tv := c.pkg.info.Types[e]; tv.Value != nil {
		if _, err := c.kind(e, t); err != nil {
			return "", err
		}
		return c.literal(tv.Value, t)
	}
	switch x := e.(type) {
	case *ast.ParenExpr:
		return c.expr(x.X, pre)
	case *ast.Ident:
		v := c.localVar(x)
		if v == nil {
			return "", c.errf(x, "%s is not a local variable or parameter", x.Name)
		}
		if _, err := c.kind(x, v.Type()); err != nil {
			return "", err
		}
		return c.name(v), nil
	case *ast.UnaryExpr:
		if x.Op == token.NOT {
			a, err := c.expr(x.X, pre)
			if err != nil {
				return "", err
			}
			return "(!" + a + ")", nil
		}
		return "", c.errf(x, "unary %s outside the slice-walker grammar", x.Op)
	case *ast.BinaryExpr:
		return c.binary(x, pre)
	case *ast.IndexExpr:
		bt, err := c.typeOf(x.X)
		if err != nil {
			return "", err
		}
		if _, isMap := bt.Underlying().(*types.Map); isMap {
			id, ok := x.X.(*ast.Ident)
			if !ok {
				return "", c.errf(x, "map expression outside the slice-walker grammar")
			}
			tb, err := c.g.table(c, id, true)
			if err != nil {
				return "", err
			}
			k, err := c.expr(x.Index, pre)
			if err != nil {
				return "", err
			}
			return "(Go.mapGetU8 " + puLeanIdent(tb.v.Name()) + " " + k + ")", nil
		}
		if !pxIsByteSlice(bt) {
			return "", c.errf(x, "index into %s", bt)
		}
		s, err := c.expr(x.X, pre)
		if err != nil {
			return "", err
		}
		i, err := c.index(x.Index, pre)
		if err != nil {
			return "", err
		}
		return c.bindOp(pre, "Go.Sl.idx "+s+" "+i), nil
	case *ast.SliceExpr:
		bt, err := c.typeOf(x.X)
		if err != nil {
			return "", err
		}
		if !pxIsByteSlice(bt) || x.Slice3 {
			return "", c.errf(x, "slice expression on %s / with three indices", bt)
		}
		s, err := c.expr(x.X, pre)
		if err != nil {
			return "", err
		}
		lo, hi := "(0 : Int)", ""
		if x.Low != nil {
			if lo, err = c.index(x.Low, pre); err != nil {
				return "", err
			}
		}
		if x.High != nil {
			if hi, err = c.index(x.High, pre); err != nil {
				return "", err
			}
		}
		if x.High == nil {
			if x.Low == nil {
				return s, nil // s[:]
			}
			return c.bindOp(pre, "Go.Sl.sliceFrom "+s+" "+lo), nil
		}
		return c.bindOp(pre, "Go.Sl.slice "+s+" "+lo+" "+hi), nil
	case *ast.CallExpr:
		return c.call(x, pre)
	}
	return "", c.errf(e, "expression outside the slice-walker grammar: %s", c.text(e))
}

func (c *pxFn) binary(x *ast.BinaryExpr, pre *[]string) (string, error) {
	switch x.Op {
	case token.LAND, token.LOR:
		l, err := c.expr(x.X, pre)
		if err != nil {
			return "", err
		}
		n := len(*pre)
		r, err := c.expr(x.Y, pre)
		if err != nil {
			return "", err
		}
		if len(*pre) != n {
			return "", c.errf(x.Y, "right operand of %s can fail (short-circuit evaluation is not translated)", x.Op)
		}
		if x.Op == token.LAND {
			return "(" + l + " && " + r + ")", nil
		}
		return "(" + l + " || " + r + ")", nil
	case token.EQL, token.NEQ, token.LSS, token.LEQ, token.GTR, token.GEQ:
		tx, err := c.typeOf(x.X)
		if err != nil {
			return "", err
		}
		ty, err := c.typeOf(x.Y)
		if err != nil {
			return "", err
		}
		kx, err := c.kind(x.X, tx)
		if err != nil {
			return "", err
		}
		ky, err := c.kind(x.Y, ty)
		if err != nil {
			return "", err
		}
		if kx != ky || !kx.integer() {
			return "", c.errf(x, "comparison of %s with %s", tx, ty)
		}
		l, err := c.expr(x.X, pre)
		if err != nil {
			return "", err
		}
		r, err := c.expr(x.Y, pre)
		if err != nil {
			return "", err
		}
		op := map[token.Token]string{token.EQL: "=", token.NEQ: "≠", token.LSS: "<", token.LEQ: "≤", token.GTR: ">", token.GEQ: "≥"}[x.Op]
		return "(decide (" + l + " " + op + " " + r + "))", nil
	}
	t, err := c.typeOf(x)
	if err != nil {
		return "", err
	}
	k, err := c.kind(x, t)
	if err != nil {
		return "", err
	}
	l, err := c.expr(x.X, pre)
	if err != nil {
		return "", err
	}
	r, err := c.expr(x.Y, pre)
	if err != nil {
		return "", err
	}
	switch {
	case k.unsigned():
		if op := map[token.Token]string{token.ADD: "+", token.SUB: "-", token.MUL: "*", token.AND: "&&&", token.OR: "|||", token.XOR: "^^^"}[x.Op]; op != "" {
			return "(" + l + " " + op + " " + r + ")", nil
		}
	case k == puInt:
		if fn := map[token.Token]string{token.ADD: "Go.iadd", token.SUB: "Go.isub", token.MUL: "Go.imul", token.AND: "Go.iand", token.OR: "Go.ior", token.XOR: "Go.ixor"}[x.Op]; fn != "" {
			return "(" + fn + " " + l + " " + r + ")", nil
		}
	}
	return "", c.errf(x, "operator %s on %s outside the slice-walker grammar", x.Op, t)
}

func (c *pxFn) call(x *ast.CallExpr, pre *[]string) (string, error) {
	// conversion
	if tv, ok := c.pkg.info.Types[x.Fun]; ok && tv.IsType() {
		if len(x.Args) != 1 {
			return "", c.errf(x, "conversion with %d operands", len(x.Args))
		}
		from, err := c.typeOf(x.Args[0])
		if err != nil {
			return "", err
		}
		kf, err := c.kind(x.Args[0], from)
		if err != nil {
			return "", err
		}
		kt, err := c.kind(x, tv.Type)
		if err != nil {
			return "", err
		}
		a, err := c.expr(x.Args[0], pre)
		if err != nil {
			return "", err
		}
		switch {
		case kf == puBytes && kt == puBytes:
			return a, nil
		case kf == kt && kf.integer():
			return a, nil
		case kf.unsigned() && kt.unsigned():
			return "(" + a + ".to" + puLeanUint[kt] + ")", nil
		case (kf == puU8 || kf == puU16 || kf == puU32) && kt == puInt:
			return "(" + a + ".toNat : Int)", nil
		}
		return "", c.errf(x, "conversion from %s to %s outside the slice-walker grammar", from, tv.Type)
	}
	if id, ok := x.Fun.(*ast.Ident); ok {
		if _, isB := c.pkg.info.Uses[id].(*types.Builtin); isB && id.Name == "len" && len(x.Args) == 1 {
			at, err := c.typeOf(x.Args[0])
			if err != nil {
				return "", err
			}
			if !pxIsByteSlice(at) {
				return "", c.errf(x, "len of %s", at)
			}
			a, err := c.expr(x.Args[0], pre)
			if err != nil {
				return "", err
			}
			return "(Go.Sl.length " + a + ")", nil
		}
	}
	switch sc := c.stdCall(x); sc {
	case "encoding/binary.BigEndian.Uint16", "encoding/binary.BigEndian.Uint32":
		if len(x.Args) != 1 {
			break
		}
		at, err := c.typeOf(x.Args[0])
		if err != nil {
			return "", err
		}
		if !pxIsByteSlice(at) {
			break
		}
		a, err := c.expr(x.Args[0], pre)
		if err != nil {
			return "", err
		}
		if strings.HasSuffix(sc, "16") {
			return c.bindOp(pre, "Go.Sl.be16 "+a), nil
		}
		return c.bindOp(pre, "Go.Sl.be32 "+a), nil
	}
	return "", c.errf(x, "call outside the slice-walker grammar: %s", c.text(x.Fun))
}

// ---------------------------------------------------------------------------------------------- statements

// once: a continuation that is more than a jump is emitted once (the grammar admits no join of two paths)
func (c *pxFn) once(n ast.Node, f func(string) (string, error)) func(string) (string, error) {
	used := false
	return func(ind string) (string, error) {
		if used {
			return "", c.errf(n, "two paths reach the statements that follow this one (not in the slice-walker grammar: at most one may)")
		}
		used = true
		return f(ind)
	}
}

func pxLines(ind string, pre []string) string {
	var b strings.Builder
	for _, l := range pre {
		b.WriteString(ind + l + "\n")
	}
	return b.String()
}

// mayFall: can control reach the end of the statement list?
func (c *pxFn) mayFall(ss []ast.Stmt) bool {
	if len(ss) == 0 {
		return true
	}
	switch s := ss[len(ss)-1].(type) {
	case *ast.BranchStmt, *ast.ReturnStmt:
		return false
	case *ast.IfStmt:
		if s.Else == nil {
			return true
		}
		eb, ok := s.Else.(*ast.BlockStmt)
		if !ok {
			return c.mayFall(s.Body.List) || c.mayFall([]ast.Stmt{s.Else})
		}
		return c.mayFall(s.Body.List) || c.mayFall(eb.List)
	}
	return true
}

// assignable: the local variable an assignment writes
func (c *pxFn) assignable(e ast.Expr) (*types.Var, error) {
	id, ok := e.(*ast.Ident)
	if !ok {
		return nil, c.errf(e, "assignment to %s: only whole local variables are assigned in the slice-walker grammar", c.text(e))
	}
	v := c.localVar(id)
	if v == nil {
		return nil, c.errf(e, "assignment to %s, which is not a local variable or parameter", id.Name)
	}
	if _, err := c.kind(e, v.Type()); err != nil {
		return nil, err
	}
	return v, nil
}

func (c *pxFn) seq(ss []ast.Stmt, i int, ind string, k *pxCont) (string, error) {
	if i == len(ss) {
		return k.fall(ind)
	}
	rest := func(ind string) (string, error) { return c.seq(ss, i+1, ind, k) }
	last := i == len(ss)-1
	switch s := ss[i].(type) {
	case *ast.EmptyStmt:
		return rest(ind)
	case *ast.DeclStmt:
		gd, ok := s.Decl.(*ast.GenDecl)
		if !ok || gd.Tok != token.VAR {
			return "", c.errf(s, "declaration outside the slice-walker grammar")
		}
		var out string
		for _, sp := range gd.Specs {
			vs := sp.(*ast.ValueSpec)
			if len(vs.Values) != 0 && len(vs.Values) != len(vs.Names) {
				return "", c.errf(s, "var with a multi-valued initialiser")
			}
			for j, n := range vs.Names {
				v, _ := c.pkg.info.Defs[n].(*types.Var)
				if v == nil {
					return "", c.errf(n, "var _")
				}
				lt, err := c.leanTy(n, v.Type())
				if err != nil {
					return "", err
				}
				var pre []string
				var val string
				if len(vs.Values) == 0 {
					if val, err = c.zeroOf(n, v.Type()); err != nil {
						return "", err
					}
				} else if val, err = c.expr(vs.Values[j], &pre); err != nil {
					return "", err
				}
				out += pxLines(ind, pre) + ind + "let " + c.name(v) + " : " + lt + " := " + val + "\n"
			}
		}
		r, err := rest(ind)
		return out + r, err
	case *ast.AssignStmt:
		// _ = v / _, _ = v, w
		allBlank := true
		for _, l := range s.Lhs {
			if id, ok := l.(*ast.Ident); !ok || id.Name != "_" {
				allBlank = false
			}
		}
		if allBlank && s.Tok == token.ASSIGN && len(s.Lhs) == len(s.Rhs) {
			for _, r := range s.Rhs {
				id, ok := r.(*ast.Ident)
				if !ok || c.localVar(id) == nil {
					return "", c.errf(r, "`_ =` of something that is not a variable")
				}
			}
			return rest(ind)
		}
		if len(s.Lhs) != 1 || len(s.Rhs) != 1 {
			return "", c.errf(s, "multiple assignment")
		}
		var pre []string
		var v *types.Var
		var val string
		var err error
		switch s.Tok {
		case token.DEFINE:
			id, ok := s.Lhs[0].(*ast.Ident)
			if !ok || id.Name == "_" {
				return "", c.errf(s, ":= of something that is not a new variable")
			}
			v, _ = c.pkg.info.Defs[id].(*types.Var)
			if v == nil {
				return "", c.errf(s, ":= that declares nothing new")
			}
			if _, err = c.kind(id, v.Type()); err != nil {
				return "", err
			}
			if val, err = c.expr(s.Rhs[0], &pre); err != nil {
				return "", err
			}
		case token.ASSIGN:
			if v, err = c.assignable(s.Lhs[0]); err != nil {
				return "", err
			}
			if val, err = c.expr(s.Rhs[0], &pre); err != nil {
				return "", err
			}
		case token.ADD_ASSIGN, token.SUB_ASSIGN:
			if v, err = c.assignable(s.Lhs[0]); err != nil {
				return "", err
			}
			op := token.ADD
			if s.Tok == token.SUB_ASSIGN {
				op = token.SUB
			}
			// x op= e is x = x op (e); go/types records the operand types of the assignment's two sides
			kx, err := c.kind(s.Lhs[0], v.Type())
			if err != nil {
				return "", err
			}
			if !kx.integer() {
				return "", c.errf(s, "%s on %s", s.Tok, v.Type())
			}
			rt, err := c.typeOf(s.Rhs[0])
			if err != nil {
				return "", err
			}
			if kr, err := c.kind(s.Rhs[0], rt); err != nil || kr != kx {
				return "", c.errf(s, "%s with operands of types %s and %s", s.Tok, v.Type(), rt)
			}
			r, err := c.expr(s.Rhs[0], &pre)
			if err != nil {
				return "", err
			}
			val = c.arith(kx, op, c.name(v), r)
		default:
			return "", c.errf(s, "assignment operator %s outside the slice-walker grammar", s.Tok)
		}
		r, err := rest(ind)
		return pxLines(ind, pre) + ind + "let " + c.name(v) + " := " + val + "\n" + r, err
	case *ast.IncDecStmt:
		v, err := c.assignable(s.X)
		if err != nil {
			return "", err
		}
		kx, err := c.kind(s.X, v.Type())
		if err != nil {
			return "", err
		}
		if !kx.integer() {
			return "", c.errf(s, "%s on %s", s.Tok, v.Type())
		}
		op := token.ADD
		if s.Tok == token.DEC {
			op = token.SUB
		}
		one := "(1 : Int)"
		if kx.unsigned() {
			one = "(1 : " + puLeanUint[kx] + ")"
		}
		r, err := rest(ind)
		return ind + "let " + c.name(v) + " := " + c.arith(kx, op, c.name(v), one) + "\n" + r, err
	case *ast.IfStmt:
		if s.Init != nil {
			return "", c.errf(s, "if with an init statement")
		}
		ct, err := c.typeOf(s.Cond)
		if err != nil {
			return "", err
		}
		if kc, err := c.kind(s.Cond, ct); err != nil || kc != puBool {
			return "", c.errf(s.Cond, "condition of type %s", ct)
		}
		var pre []string
		cond, err := c.expr(s.Cond, &pre)
		if err != nil {
			return "", err
		}
		var elseList []ast.Stmt
		switch e := s.Else.(type) {
		case nil:
		case *ast.BlockStmt:
			elseList = e.List
		case *ast.IfStmt:
			elseList = []ast.Stmt{e}
		default:
			return "", c.errf(s, "else branch outside the slice-walker grammar")
		}
		if !last {
			n := 0
			if c.mayFall(s.Body.List) {
				n++
			}
			if s.Else == nil || c.mayFall(elseList) {
				n++
			}
			if n > 1 {
				return "", c.errf(s, "both branches of this `if` can reach the statements after it (not in the slice-walker grammar: at most one may)")
			}
		}
		k2 := &pxCont{fall: k.fall, loop: k.loop, inRange: k.inRange}
		if !last {
			k2.fall = c.once(s, rest)
		}
		th, err := c.seq(s.Body.List, 0, ind+"  ", k2)
		if err != nil {
			return "", err
		}
		el, err := c.seq(elseList, 0, ind+"  ", k2)
		if err != nil {
			return "", err
		}
		return pxLines(ind, pre) + ind + "if " + cond + " then\n" + th + ind + "else\n" + el, nil
	case *ast.LabeledStmt:
		f, ok := s.Stmt.(*ast.ForStmt)
		if !ok {
			return "", c.errf(s, "a label on something that is not a `for` loop")
		}
		return c.forLoop(f, s.Label.Name, ind, k, rest)
	case *ast.ForStmt:
		return c.forLoop(s, "", ind, k, rest)
	case *ast.RangeStmt:
		return c.rangeLoop(s, ind, k, rest)
	case *ast.BranchStmt:
		if !last {
			return "", c.errf(s, "statements after %s", s.Tok)
		}
		if s.Tok != token.BREAK && s.Tok != token.CONTINUE {
			return "", c.errf(s, "%s outside the slice-walker grammar", s.Tok)
		}
		if k.loop == nil {
			return "", c.errf(s, "%s outside a `for` loop", s.Tok)
		}
		if s.Label == nil && k.inRange {
			return "", c.errf(s, "%s of a range loop (only the enclosing labelled loop can be left from inside it)", s.Tok)
		}
		if s.Label != nil && s.Label.Name != k.loop.label {
			return "", c.errf(s, "label %s is not the label of the enclosing `for`", s.Label.Name)
		}
		if s.Tok == token.BREAK {
			return ind + k.loop.brk + "\n", nil
		}
		return ind + k.loop.cont + "\n", nil
	case *ast.ReturnStmt:
		if !last {
			return "", c.errf(s, "statements after return")
		}
		if k.loop != nil || k.inRange {
			return "", c.errf(s, "return inside a loop (not in the slice-walker grammar)")
		}
		sig := c.obj.Type().(*types.Signature)
		if len(s.Results) != sig.Results().Len() {
			return "", c.errf(s, "return with %d values for %d results", len(s.Results), sig.Results().Len())
		}
		var pre []string
		var vals []string
		for j, r := range s.Results {
			rt, err := c.typeOf(r)
			if err != nil {
				return "", err
			}
			kr, err := c.kind(r, rt)
			if err != nil {
				return "", err
			}
			if kw, _ := c.kind(r, sig.Results().At(j).Type()); kw != kr {
				return "", c.errf(r, "result %d of type %s returned as %s", j, rt, sig.Results().At(j).Type())
			}
			v, err := c.expr(r, &pre)
			if err != nil {
				return "", err
			}
			vals = append(vals, v)
		}
		out := strings.Join(vals, ", ")
		if len(vals) > 1 {
			out = "(" + out + ")"
		}
		return pxLines(ind, pre) + ind + ".ok " + out + "\n", nil
	}
	return "", c.errf(ss[i], "statement outside the slice-walker grammar: %T", ss[i])
}

func (c *pxFn) arith(k puKind, op token.Token, l, r string) string {
	if k == puInt {
		if op == token.ADD {
			return "(Go.iadd " + l + " " + r + ")"
		}
		return "(Go.isub " + l + " " + r + ")"
	}
	if op == token.ADD {
		return "(" + l + " + " + r + ")"
	}
	return "(" + l + " - " + r + ")"
}

// varsOf: the local variables (declared before `before`) mentioned / assigned in the nodes
func (c *pxFn) varsOf(nodes []ast.Node, before token.Pos) (mentioned, assigned map[*types.Var]bool) {
	mentioned, assigned = map[*types.Var]bool{}, map[*types.Var]bool{}
	mark := func(e ast.Expr) {
		if id, ok := e.(*ast.Ident); ok {
			if v := c.localVar(id); v != nil && v.Pos() < before {
				assigned[v] = true
			}
		}
	}
	for _, n := range nodes {
		if n == nil {
			continue
		}
		ast.Inspect(n, func(n ast.Node) bool {
			switch x := n.(type) {
			case *ast.Ident:
				if v := c.localVar(x); v != nil && v.Pos() < before {
					mentioned[v] = true
				}
			case *ast.AssignStmt:
				for _, l := range x.Lhs {
					mark(l)
				}
			case *ast.IncDecStmt:
				mark(x.X)
			}
			return true
		})
	}
	return
}

func pxProj(i, n int) string {
	if n == 1 {
		return ""
	}
	s := strings.Repeat(".2", i)
	if i < n-1 {
		s += ".1"
	}
	return s
}

func (c *pxFn) forLoop(f *ast.ForStmt, label, ind string, k *pxCont, rest func(string) (string, error)) (string, error) {
	if k.loop != nil || k.inRange || ind != "  " {
		return "", c.errf(f, "a `for` loop that is not at the top level of the function")
	}
	if f.Init != nil || f.Post != nil || f.Cond == nil {
		return "", c.errf(f, "only `for cond { … }` is in the slice-walker grammar")
	}
	c.fuel = true
	c.nloop++
	name := fmt.Sprintf("%s.loop%d", c.lean, c.nloop)
	mentioned, assigned := c.varsOf([]ast.Node{f.Cond, f.Body}, f.Pos())
	after := map[*types.Var]bool{}
	ast.Inspect(c.decl.Body, func(n ast.Node) bool {
		if id, ok := n.(*ast.Ident); ok && id.Pos() > f.End() {
			if v := c.localVar(id); v != nil {
				after[v] = true
			}
		}
		return true
	})
	var all []*types.Var
	for v := range mentioned {
		all = append(all, v)
	}
	sort.Slice(all, func(i, j int) bool { return all[i].Pos() < all[j].Pos() })
	var ro, st, out []*types.Var
	for _, v := range all {
		switch {
		case !assigned[v]:
			ro = append(ro, v)
		default:
			st = append(st, v)
			if after[v] {
				out = append(out, v)
			}
		}
	}
	var roDecl, roArgs, stTys, stNames, outTys, outNames []string
	for _, v := range ro {
		lt, err := c.leanTy(f, v.Type())
		if err != nil {
			return "", err
		}
		roDecl = append(roDecl, "("+c.name(v)+" : "+lt+")")
		roArgs = append(roArgs, c.name(v))
	}
	for _, v := range st {
		lt, err := c.leanTy(f, v.Type())
		if err != nil {
			return "", err
		}
		stTys = append(stTys, lt)
		stNames = append(stNames, c.name(v))
	}
	for _, v := range out {
		lt, _ := c.leanTy(f, v.Type())
		outTys = append(outTys, lt)
		outNames = append(outNames, c.name(v))
	}
	resTy, resVal := "Unit", "()"
	if len(out) == 1 {
		resTy, resVal = outTys[0], outNames[0]
	} else if len(out) > 1 {
		resTy, resVal = "("+strings.Join(outTys, " × ")+")", "("+strings.Join(outNames, ", ")+")"
	}
	call := func(fuel string) string {
		return strings.Join(append(append([]string{name}, roArgs...), append([]string{fuel}, stNames...)...), " ")
	}
	lp := &pxLoop{label: label, cont: call("fuel"), brk: ".ok " + resVal}
	var pre []string
	ct, err := c.typeOf(f.Cond)
	if err != nil {
		return "", err
	}
	if kc, err := c.kind(f.Cond, ct); err != nil || kc != puBool {
		return "", c.errf(f.Cond, "condition of type %s", ct)
	}
	cond, err := c.expr(f.Cond, &pre)
	if err != nil {
		return "", err
	}
	body, err := c.seq(f.Body.List, 0, "      ", &pxCont{loop: lp, fall: func(ind string) (string, error) { return ind + lp.cont + "\n", nil }})
	if err != nil {
		return "", err
	}
	var b strings.Builder
	fmt.Fprintf(&b, "/-- the loop `for %s` of %s (%s): one unit of fuel per iteration, outliving it is .error .hang; state = %s; result = %s -/\n",
		c.text(f.Cond), c.t.fn, c.pos(f), strings.Join(stNames, ", "), strings.Join(outNames, ", "))
	fmt.Fprintf(&b, "def %s %s : %s → Res %s\n", name, strings.Join(roDecl, " "), strings.Join(append([]string{"Nat"}, stTys...), " → "), resTy)
	us := make([]string, len(stNames))
	for i := range us {
		us[i] = "_"
	}
	fmt.Fprintf(&b, "  | %s => .error .hang\n", strings.Join(append([]string{"0"}, us...), ", "))
	fmt.Fprintf(&b, "  | %s =>\n", strings.Join(append([]string{"fuel + 1"}, stNames...), ", "))
	b.WriteString(pxLines("    ", pre))
	fmt.Fprintf(&b, "    if %s then\n%s    else\n      %s\n", cond, body, lp.brk)
	c.loops = append(c.loops, b.String())
	// the call
	r, err := rest(ind)
	if err != nil {
		return "", err
	}
	if len(out) == 0 {
		return ind + call("fuel") + " >>= fun _ =>\n" + r, nil
	}
	t := c.fresh()
	s := ind + call("fuel") + " >>= fun " + t + " =>\n"
	for i, n := range outNames {
		s += ind + "let " + n + " := " + t + pxProj(i, len(outNames)) + "\n"
	}
	return s + r, nil
}

func (c *pxFn) rangeLoop(s *ast.RangeStmt, ind string, k *pxCont, rest func(string) (string, error)) (string, error) {
	if k.inRange {
		return "", c.errf(s, "nested range loops")
	}
	if s.Tok != token.DEFINE {
		return "", c.errf(s, "range without :=")
	}
	if id, ok := s.Key.(*ast.Ident); !ok || id.Name != "_" {
		return "", c.errf(s, "only `for _, v := range T` is in the slice-walker grammar")
	}
	vid, ok := s.Value.(*ast.Ident)
	if !ok || vid.Name == "_" {
		return "", c.errf(s, "only `for _, v := range T` is in the slice-walker grammar")
	}
	v, _ := c.pkg.info.Defs[vid].(*types.Var)
	if v == nil {
		return "", c.errf(s, "range variable")
	}
	tid, ok := s.X.(*ast.Ident)
	if !ok {
		return "", c.errf(s.X, "range over something that is not a package-level []byte table")
	}
	tb, err := c.g.table(c, tid, false)
	if err != nil {
		return "", err
	}
	// a `for` inside the body is refused by forLoop (inRange); the range variable is a fresh variable per element
	var elem func(j int, ind string) (string, error)
	elem = func(j int, ind string) (string, error) {
		if j == len(tb.vals) {
			return rest(ind)
		}
		body, err := c.seq(s.Body.List, 0, ind, &pxCont{loop: k.loop, inRange: true,
			fall: c.once(s, func(ind string) (string, error) { return elem(j+1, ind) })})
		if err != nil {
			return "", err
		}
		return ind + "let " + c.name(v) + " : UInt8 := " + tb.vals[j] + "\n" + body, nil
	}
	return elem(0, ind)
}
