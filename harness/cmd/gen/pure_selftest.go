package main

import (
	"fmt"
	"os"
	"path/filepath"
	"strings"

	st "verifharness/cmd/gen/pureselftest"
)

// pure-selftest: see pureselftest/fns.go. Output Gen/PureSelftest.lean = the translation of that file + one
// `example … := by decide +kernel` per executed call. A disagreement between the translator (or Gen/PureRt.lean) and the Go
// compiler on any of these calls makes the module fail to build.
func init() { register("pure-selftest", genPureSelftest) }

var puSelftestGroup = &puGroup{name: "pure-selftest", ns: "Selftest", targets: []puTarget{
	{pkg: "pureselftest", file: "fns.go", fn: "Wrap8"}, {pkg: "pureselftest", file: "fns.go", fn: "Shifts"},
	{pkg: "pureselftest", file: "fns.go", fn: "Neg"},
	{pkg: "pureselftest", file: "fns.go", fn: "IntArith"}, {pkg: "pureselftest", file: "fns.go", fn: "DivVar"},
	{pkg: "pureselftest", file: "fns.go", fn: "Shadow"}, {pkg: "pureselftest", file: "fns.go", fn: "Chain"},
	{pkg: "pureselftest", file: "fns.go", fn: "Tagged"}, {pkg: "pureselftest", file: "fns.go", fn: "SumLoop"},
	{pkg: "pureselftest", file: "fns.go", fn: "StepLoop"}, {pkg: "pureselftest", file: "fns.go", fn: "Idx"},
	{pkg: "pureselftest", file: "fns.go", fn: "Tail"}, {pkg: "pureselftest", file: "fns.go", fn: "Box.Bump"},
	{pkg: "pureselftest", file: "fns.go", fn: "Box.Twice"}, {pkg: "pureselftest", file: "fns.go", fn: "Put"},
	{pkg: "pureselftest", file: "fns.go", fn: "PutShort"},
	{pkg: "pureselftest", file: "fns.go", fn: "Conv"}, {pkg: "pureselftest", file: "fns.go", fn: "Cmp"},
	{pkg: "pureselftest", file: "fns.go", fn: "Nested"},
}}

// Lean literals of Go values
func puU(v uint64, ty string) string { return fmt.Sprintf("(%d : %s)", v, ty) }
func puI(v int) string               { return fmt.Sprintf("(%d : Int)", v) }
func puB(v bool) string {
	if v {
		return "true"
	}
	return "false"
}

// puRun: the outcome of a call as Lean text (`ok` renders the results)
func puRun(f func() string) (s string, panicked bool) {
	defer func() {
		if recover() != nil {
			s, panicked = "", true
		}
	}()
	return f(), false
}

type puCase struct {
	fn   string        // Lean function name
	args string        // Lean argument text
	run  func() string // executes the Go function, renders its results as a Lean term
}

func puSelftestCases() []puCase {
	var cs []puCase
	add := func(fn, args string, run func() string) { cs = append(cs, puCase{fn, args, run}) }
	bytesOf := func(b []byte) string { return puBytesLit(b) }
	for _, p := range [][2]uint8{{0, 0}, {255, 255}, {16, 16}, {7, 250}, {200, 3}} {
		p := p
		add("Wrap8", puU(uint64(p[0]), "UInt8")+" "+puU(uint64(p[1]), "UInt8"), func() string { return puU(uint64(st.Wrap8(p[0], p[1])), "UInt8") })
	}
	for _, x := range []uint16{0, 1, 0x8001, 0xffff, 0x1234} {
		x := x
		add("Shifts", puU(uint64(x), "UInt16"), func() string { return puU(uint64(st.Shifts(x)), "UInt16") })
	}
	const minInt = -1 << 63
	const maxInt = 1<<63 - 1
	for _, p := range []struct {
		x uint8
		y int
	}{{0, 0}, {1, minInt}, {128, maxInt}, {255, -5}} {
		p := p
		add("Neg", puU(uint64(p.x), "UInt8")+" "+puI(p.y), func() string {
			a, b, c := st.Neg(p.x, p.y)
			return "(" + puU(uint64(a), "UInt8") + ", " + puI(b) + ", " + puU(uint64(c), "UInt8") + ")"
		})
	}
	for _, p := range [][2]int{{0, 0}, {3, 4}, {-3, 4}, {3, -4}, {maxInt, 2}, {minInt, -1}, {maxInt, maxInt}, {-7, 1 << 61}, {1 << 62, 5}} {
		p := p
		add("IntArith", puI(p[0])+" "+puI(p[1]), func() string { return puI(st.IntArith(p[0], p[1])) })
	}
	for _, p := range [][2]int{{7, 2}, {-7, 2}, {7, -2}, {-7, -2}, {1, 0}, {minInt, -1}, {minInt, 3}} {
		p := p
		add("DivVar", puI(p[0])+" "+puI(p[1]), func() string { return puI(st.DivVar(p[0], p[1])) })
	}
	for _, c := range []bool{false, true} {
		c := c
		add("Shadow", puB(c)+" "+puI(10), func() string { return puI(st.Shadow(c, 10)) })
	}
	for _, x := range []int{-5, 0, 1, 10, 11, 100, 101, maxInt} {
		x := x
		add("Chain", puI(x), func() string { return puI(st.Chain(x)) })
	}
	for _, x := range []uint8{0, 1, 2, 3, 4, 255} {
		x := x
		add("Tagged", puU(uint64(x), "UInt8"), func() string { return puI(st.Tagged(x)) })
	}
	for _, b := range [][]byte{nil, {1}, {0, 0}, {200, 100, 0, 7}, {1, 2, 255, 9}, {255}} {
		b := b
		add("SumLoop", bytesOf(b), func() string {
			s, n := st.SumLoop(b)
			return "(" + puU(uint64(s), "UInt8") + ", " + puI(n) + ")"
		})
	}
	for _, b := range [][]byte{nil, {1}, {1, 2}, {1, 2, 3}, {1, 2, 3, 4}, {9, 8, 7, 6, 5}} {
		b := b
		add("StepLoop", bytesOf(b), func() string { return bytesOf(st.StepLoop(b)) })
	}
	for _, i := range []int{-1, 0, 2, 3, maxInt, minInt} {
		i := i
		add("Idx", bytesOf([]byte{5, 6, 7})+" "+puI(i), func() string { return puU(uint64(st.Idx([]byte{5, 6, 7}, i)), "UInt8") })
		add("Tail", bytesOf([]byte("abc"))+" "+puI(i), func() string { return bytesOf([]byte(st.Tail("abc", i))) })
	}
	for _, p := range []struct {
		n uint32
		m uint8
		d uint32
	}{{0, 0, 1}, {0xffffffff, 255, 1}, {5, 7, 0xfffffffb}} {
		p := p
		box := func(b st.Box) string {
			return fmt.Sprintf("({ N := %s, M := %s } : Box)", puU(uint64(b.N), "UInt32"), puU(uint64(b.M), "UInt8"))
		}
		in := st.Box{N: p.n, M: p.m}
		add("Box.Bump", box(in)+" "+puU(uint64(p.d), "UInt32"), func() string {
			b := in
			r := b.Bump(p.d)
			return "(" + box(b) + ", " + puU(uint64(r), "UInt32") + ")"
		})
		add("Box.Twice", box(in)+" "+puU(uint64(p.d), "UInt32"), func() string {
			b := in
			r := b.Twice(p.d)
			return "(" + box(b) + ", " + puU(uint64(r), "UInt32") + ")"
		})
	}
	for _, v := range []uint16{0, 0x1234, 0xffff} {
		v := v
		add("Put", puU(uint64(v), "UInt16"), func() string { return bytesOf(st.Put(v)) })
		add("PutShort", puU(uint64(v), "UInt16"), func() string { return bytesOf(st.PutShort(v)) })
	}
	for _, p := range []struct {
		a uint32
		b int
	}{{0, 0}, {0xffffffff, -1}, {0x12345678, 70000}, {300, minInt}} {
		p := p
		add("Conv", puU(uint64(p.a), "UInt32")+" "+puI(p.b), func() string {
			a, b, c, d := st.Conv(p.a, p.b)
			return "(" + puU(uint64(a), "UInt8") + ", " + puU(uint64(b), "UInt16") + ", " + puI(c) + ", " + puU(d, "UInt64") + ")"
		})
	}
	for _, p := range [][2]string{{"", ""}, {"ab", "abx"}, {"abc", "abcx"}, {"abc", "zz"}, {"ab", "zz"}} {
		p := p
		add("Cmp", bytesOf([]byte(p[0]))+" "+bytesOf([]byte(p[1])), func() string { return puB(st.Cmp(p[0], p[1])) })
	}
	for _, p := range []struct {
		b []byte
		k int
	}{{[]byte{9, 1}, 2}, {[]byte{1, 1}, 2}, {[]byte{1, 77}, 0}, {[]byte{1}, 0}, {nil, 1}, {[]byte{6}, -1}} {
		p := p
		add("Nested", bytesOf(p.b)+" "+puI(p.k), func() string { return puI(st.Nested(p.b, p.k)) })
	}
	return cs
}

func genPureSelftest() error {
	tmp, err := os.MkdirTemp("", "pureselftest")
	if err != nil {
		return err
	}
	defer os.RemoveAll(tmp)
	dir := filepath.Join(tmp, "src", "pureselftest")
	if err := os.MkdirAll(dir, 0o755); err != nil {
		return err
	}
	if err := os.WriteFile(filepath.Join(dir, "fns.go"), []byte(st.Source), 0o644); err != nil {
		return err
	}
	if err := os.WriteFile(filepath.Join(dir, "rich.go"), []byte(st.RichSource), 0o644); err != nil {
		return err
	}
	saveRepo, saveRoots := repo, puRepoRoots
	repo, puRepoRoots = tmp, []string{"pureselftest"}
	defer func() { repo, puRepoRoots = saveRepo, saveRoots }()
	if err := writeIfChanged("PureRt.lean", puRuntimeLean); err != nil {
		return err
	}
	ld := newPuLoader([]string{"pureselftest"})
	out, gc, err := genPureGroupCtx(ld, puSelftestGroup)
	if err != nil {
		return err
	}
	monadic := map[string]bool{}
	for _, f := range gc.fns {
		monadic[f.lean] = f.monadic
	}
	var b strings.Builder
	b.WriteString("\n/-! ### the translated functions against the compiled ones (results computed by this run of `gen pure-selftest`) -/\n")
	b.WriteString(`local instance {α : Type} [DecidableEq α] : DecidableEq (Res α)
  | .ok a, .ok b => if h : a = b then isTrue (by rw [h]) else isFalse (by intro e; cases e; exact h rfl)
  | .error a, .error b => if h : a = b then isTrue (by rw [h]) else isFalse (by intro e; cases e; exact h rfl)
  | .ok _, .error _ => isFalse (by intro e; cases e)
  | .error _, .ok _ => isFalse (by intro e; cases e)

`)
	for _, cs := range puSelftestCases() {
		res, panicked := puRun(cs.run)
		switch {
		case panicked && !monadic[cs.fn]:
			return fail("pure-selftest: %s %s panicked but the translator classified it as total", cs.fn, cs.args)
		case panicked:
			res = ".error .panic"
		case monadic[cs.fn]:
			res = ".ok " + res
		}
		fmt.Fprintf(&b, "example : %s %s = %s := by decide +kernel\n", cs.fn, cs.args, res)
	}
	end := "end Stgutg.Gen.Pure.Selftest\n"
	out = strings.TrimSuffix(out, end) + b.String() + "\n" + end
	if err := writeIfChanged("PureSelftest.lean", out); err != nil {
		return err
	}
	// the extended grammar (pure_selftest_rich.go)
	return genPureSelftestRich(newPuLoader([]string{"pureselftest"}))
}
