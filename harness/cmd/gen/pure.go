package main

import (
	"fmt"
	"go/ast"
	"go/printer"
	"go/token"
	"go/types"
	"path/filepath"
	"sort"
	"strconv"
	"strings"
)

// pure-*: Go source text of small pure functions → Lean definitions (Gen/Pure<Group>.lean), one group per property
// so that a change (or a construct outside the grammar) in one function breaks only the property it belongs to.
// The tie theorems (lean/Stgutg/Proofs/GenTie*.lean) prove `generated = hand model`.
//
// Input grammar (go/ast + go/types; ANYTHING else fails closed with file:line):
//
//	types       uint8/byte uint16 uint32 uint64 (Lean UIntN), int int64 int32 (Int, wrapped), bool, string and []byte
//	            (Bytes), []T, error (Bool: != nil), named struct types of such fields (a Lean structure), *T only as
//	            the receiver and in `return &local`
//	constants   every expression go/types gives a constant value is emitted as that value at its final type
//	expressions + - * & | ^ &^ on the integer types with Go's wrap-around, / % by a non-zero constant (by a variable:
//	            int only, panics on 0), << >> by a constant count, comparisons, && || ! (the right operand of && ||
//	            may not index or call a function that can fail), conversions between the integer types, []byte(s),
//	            string(b []byte), x.f on struct values, len(x), x[i] and x[i:] on slices and strings (out of range =
//	            panic; x[a:b] is refused: its bound is cap(x), which the carrier does not have), composite literals
//	            of slices and structs, make([]T, n), calls of other listed functions / methods of the same group,
//	            strconv.Atoi(string(b)) for a byte b, and through the Ext record: strconv.Atoi(s), hex.DecodeString(s),
//	            fmt.Sprintf with literal text, %s, %d and %0*d
//	statements  var / := / = / op= / ++ / -- on locals, fields of local structs or of the pointer receiver, and
//	            elements `p[i] = v` / `p = append(p, …)` / binary.BigEndian.PutUint16(p, v) of slices that provably
//	            have no alias (locals initialised from a literal / make / nil, used whole only in len, index, self-append
//	            and return), if / else (with init), switch with or without tag (no fallthrough), return (also bare, with
//	            named results), `for i := a; i < b; i++ | i += k` and `i <= b` with an int counter that the body does
//	            not assign and a bound the body does not change (fuel = b - a + 1 iterations, visible in the output;
//	            outliving it is `.error .hang`), break / continue without label, statement calls of the logging
//	            functions (log.Printf, fmt.Println/Printf, logger.XLog.Y) with operands that cannot fail (ignored),
//	            `_ = x`
//	self-test   `gen pure-selftest` translates harness/cmd/gen/pureselftest/fns.go (every construct above) and writes the results
//	            of executing the compiled functions beside the translation (Gen/PureSelftest.lean, checked when built)
//	prefix mode (CreateUE): the statements before the first one that starts with a given text are translated and the
//	            named locals returned; the remaining statements are pinned as text (`<fn>.tail : List String`)
//
// Extended grammar (groups marked `rich`: pure-nasprot; code in pure_nas.go; self-test pureselftest/rich.go). Everything
// above stays as it is except switch and counted loops (refused in these groups). In addition:
//
//	pointers    *T for a named struct T is carried as Option T (none = nil). A pointer PARAMETER may be tested once, in
//	            the prologue of the function (`if p == nil { …; return … }` after declarations and other such guards): the
//	            translation is `match p with | none => … | some p => rest`, and in the rest p is the struct itself. A
//	            pointer that was not guarded is dereferenced with Go.deref (nil = panic) at every p.f. Pointer values have
//	            exactly one name: a pointer variable is assigned only from nil, new(T), &T{…} or the result of a listed
//	            function (which may return only such values or its own local), never from another variable; the same
//	            pointer is not passed twice in one call; `return p` of a parameter is refused. Pointer fields of structs
//	            are read only (Go.deref). Hence the object behind a pointer variable is a value of that variable.
//	state       a pointer parameter through which the function assigns (p.f = v, p.f.M() with a receiver-mutating M of an
//	            imported group, passing p to a listed function that does) is a STATE parameter: the function returns
//	            σ × Res ρ, σ = the objects behind the state parameters as they are when the function ends — by return, by
//	            an error return or by a panic (every failing operation is bound with Go.bindS <state now>). Refused: two
//	            parameters that could point to the object that is changed; a selected struct field that could.
//	structs     a struct type is emitted with the fields some function of the group selects (whole values of these
//	            types only move between translated functions, so the other fields cannot matter); a struct handed to a
//	            library call keeps every field of plain data in full and sums up the others (pointers into trees the group
//	            never looks into) as `rest_ : Go.Rest`. Embedded fields are selected by their own name only. [N]uint8 is
//	            Bytes, as a whole value only (no index, slice, len).
//	library     calls listed in the group's table (puLibFn) become fields of the record `Lib` emitted in the group's module,
//	            typed from the Go signature; a function that makes one takes (L : Lib). Declared per call: the receiver is
//	            replaced (recvMut), one slice argument is overwritten in place (inPlace), slice arguments that must be
//	            visibly non-nil (nonNil), arguments the receiver keeps referring to (retain). fmt.Errorf(…) is `true`.
//	in place    f(…, x) with x overwritten in place is `let x := (result).k`. Sound only if no other live name shares
//	            storage with x: the translator computes, per function, classes of variables that MAY share storage
//	            (assignment, slicing, conversion, field reads, append(a, …) with a, range, results / parameters of listed
//	            functions by their own classes; all parameters whose carriers hold references, since the caller may have
//	            passed overlapping storage; results of library calls, literals, make, new are fresh) and, along each
//	            path in execution order, marks every other member of the class of x as overwritten from that point on;
//	            reading a marked variable is refused, assigning it clears the mark. append(a, …) is an in-place write to
//	            the spare capacity of a: the other members of a's class are marked. A parameter in the class makes the
//	            function one that OVERWRITES ITS ARGUMENT (callers mark the argument and its class; the tie theorems say
//	            nothing about the caller's octets afterwards — neither do the hand models). Statements reached on two
//	            paths (the text after an `if` that returns in one branch) must be reached with the same knowledge.
//	nil slices  the carrier does not distinguish nil from empty. `if p == nil { …return… }` in the prologue makes the slice
//	            parameter p an Option Bytes; an argument for such a parameter, or for a library parameter declared
//	            nonNil, must be visibly non-nil: a guarded parameter, a slice of one, a literal, make, append to one, a
//	            library result declared non-nil, or a variable a listed callee has indexed unconditionally (b[1] in
//	            GetSecurityHeaderType). Any other comparison with nil is refused.
//	slices      x[:] is x. x[a:b] (constants) is accepted in one shape only — `y := x[a:b]` followed immediately by a
//	            call-free statement that evaluates x[k], k ≥ b-1, or x[k:], k ≥ b, unconditionally — and translated as
//	            Go.slice (panic unless b ≤ len x). Justification: if b ≤ len(x) Go yields the octets a..b. Otherwise Go
//	            either panics at the slice expression (b > cap) or yields a slice that reaches into the spare capacity and
//	            panics at the next statement (index beyond len); nothing observable lies between the two. cap(y) is
//	            never observed: y can be read, indexed, re-sliced from a low bound, copied from; append(y, …) is treated
//	            as an overwrite of everything that may share storage with y (above).
//	append      v = append(a, xs...) / append(a, e…) with any a: the value a ++ xs (rule `in place` for the storage).
//	range       `for _, v := range xs { … }` over a slice whose root variable the body does not mention: recursion over the
//	            list (xs evaluated once), the body may return (Go.Flow.ret), break, continue and assign variables.
//	copy        copy(x.f[:], src) into an array field only (an array is a value: Go.copy).
//	library+    a variadic library function takes the list of its variadic operands; a call declared noReturn
//	            (fatal.Fatalf) is a Res Unit the instantiation decides; x[a:b] is also accepted on a variable that only ever
//	            holds a library result declared resExact (cap = len: the slice expression panics exactly when b > len).
//	calls       pkg.F(…) of a listed function of another package; `return f(…)` with a multi-valued f; a receiver-mutating
//	            method of an imported group inside an argument list is moved in front of the statement, accepted only if
//	            the statement reads the receiver's root variable through other fields only (order of evaluation).
//
// Slice-walker grammar (group pure-extract: the hand-written parsers of src/stgutg/pdu.go; code and grammar description in
// pure_extract.go, runtime pure_extract_rt.go → Gen/PureRtSl.lean, self-test pureselftest/ext.go → `gen pure-selftest-ext`):
// byte slices WITH their capacity, `for cond` loops on fuel, labelled break / continue, package-level constant tables.
func init() {
	for _, g := range puGroups {
		g := g
		register(g.name, func() error { return genPureGroups([]*puGroup{g}) })
	}
	register("pure", func() error {
		if err := genPureGroups(puGroups); err != nil {
			return err
		}
		return genPureSelftest()
	})
}

type puTarget struct {
	pkg  string // import path
	file string // base name of the file that must hold it
	fn   string // "Name" or "Recv.Name"
	// prefix mode
	upto    string
	results []string
	// a function of an imported group: analysed (facts) but not emitted
	extern bool
}

type puGroup struct {
	name    string // translator name
	ns      string // Lean namespace Stgutg.Gen.Pure.<ns>, file Gen/Pure<ns>.lean
	targets []puTarget
	// the extended grammar (pure_nas.go): pointers as Option, state behind pointer parameters, library calls through a
	// group-local `Lib` record, structs trimmed to the fields the group accesses, in-place library calls, range loops
	rich    bool
	imports []string   // names of groups whose functions this group calls (their Gen module is imported, not re-emitted)
	lib     []*puLibFn // the library calls this group may make
	// total library functions (interface-typed in Go): the carriers they are used at
	libTotalSig map[string]puTotalSig
}

type puTotalSig struct {
	n        int
	arg, res string
}

var puGroups = []*puGroup{
	{name: "pure-suci", ns: "Suci", targets: []puTarget{
		{pkg: "stgutg", file: "utils.go", fn: "hexCharToByte"},
		{pkg: "stgutg", file: "utils.go", fn: "EncodeSuci"},
	}},
	{name: "pure-min", ns: "Min", targets: []puTarget{
		{pkg: "stgutg", file: "utils.go", fn: "Min"},
	}},
	{name: "pure-ue", ns: "Ue", targets: []puTarget{
		{pkg: "stgutg", file: "ue.go", fn: "CreateUE", upto: "ue := tglib.NewRanUeContext(", results: []string{"ranUeNgapId", "supi"}},
	}},
	{name: "pure-count", ns: "Count", targets: []puTarget{
		{pkg: "free5gclib/nas/security", file: "counter.go", fn: "Count.maskTo24Bits"},
		{pkg: "free5gclib/nas/security", file: "counter.go", fn: "Count.Get"},
		{pkg: "free5gclib/nas/security", file: "counter.go", fn: "Count.AddOne"},
		{pkg: "free5gclib/nas/security", file: "counter.go", fn: "Count.SQN"},
		{pkg: "free5gclib/nas/security", file: "counter.go", fn: "Count.SetSQN"},
		{pkg: "free5gclib/nas/security", file: "counter.go", fn: "Count.Overflow"},
		{pkg: "free5gclib/nas/security", file: "counter.go", fn: "Count.SetOverflow"},
		{pkg: "free5gclib/nas/security", file: "counter.go", fn: "Count.Set"},
	}},
	{name: "pure-kdf", ns: "Kdf", targets: []puTarget{
		{pkg: "free5gclib/UeauCommon", file: "UeauCommon.go", fn: "KDFLen"},
	}},
	{name: "pure-convert", ns: "Convert", targets: []puTarget{
		{pkg: "free5gclib/nas/nasConvert", file: "AmfId.go", fn: "AmfIdToNas"},
		{pkg: "free5gclib/nas/nasConvert", file: "PlmnId.go", fn: "PlmnIDToNas"},
		{pkg: "free5gclib/nas/nasConvert", file: "Snssai.go", fn: "SnssaiToNas"},
	}},
}

// ---------------------------------------------------------------------------------------------- group context

type puGroupCtx struct {
	g       *puGroup
	ld      *puLoader
	fns     []*puFn
	byObj   map[*types.Func]*puFn
	structs []string // Lean structure declarations, in order
	sname   map[*types.TypeName]string
	staken  map[string]bool
	// rich groups (pure_nas.go)
	accessed map[*types.TypeName]map[string]bool // fields some function of the group selects
	exposed  map[*types.TypeName]bool            // struct types handed to a library call
	libUsed  map[string]string                   // Lib field → its Lean type
	importNS []string                            // namespaces of the imported groups
}

func (gc *puGroupCtx) structName(c *puFn, t types.Type) (string, error) {
	n := puNamedStruct(t)
	if n == nil {
		return "", fmt.Errorf("type %s is not a named struct", t)
	}
	if s, ok := gc.sname[n.Obj()]; ok {
		return s, nil
	}
	name := n.Obj().Name()
	if gc.staken[name] {
		return "", fmt.Errorf("two struct types named %s", name)
	}
	gc.staken[name] = true
	gc.sname[n.Obj()] = name
	fields, hasRest, err := gc.structFields(n)
	if err != nil {
		return "", err
	}
	var b strings.Builder
	fmt.Fprintf(&b, "/-- %s.%s%s -/\nstructure %s where\n", n.Obj().Pkg().Path(), name, gc.structNote(n, fields, hasRest), name)
	for _, f := range fields {
		lt, err := c.leanType(f.Type())
		if err != nil {
			return "", fmt.Errorf("struct %s field %s: %v", name, f.Name(), err)
		}
		fmt.Fprintf(&b, "  %s : %s\n", puLeanIdent(f.Name()), lt)
	}
	if hasRest {
		b.WriteString("  rest_ : Go.Rest\n")
	}
	b.WriteString("  deriving DecidableEq, Repr\n")
	gc.structs = append(gc.structs, b.String())
	return name, nil
}

// ---------------------------------------------------------------------------------------------- function context

type puFn struct {
	t    puTarget
	grp  *puGroupCtx
	pkg  *puPkg
	decl *ast.FuncDecl
	obj  *types.Func
	lean string
	recv *types.Var
	// facts found before translating (fixpoint over the group)
	mutRecv bool // pointer receiver whose fields the method assigns
	monadic bool // can panic / has a loop: result type Res
	usesExt bool
	// translation state
	names map[types.Object]string
	used  map[string]bool
	tmp   int
	pre   []string
	aux   []string
	nloop int
	body  []ast.Stmt // the translated statements (a prefix in prefix mode)
	tail  []ast.Stmt
	// rich groups (pure_nas.go): facts
	state      []*types.Var        // pointer parameters whose object the function changes: returned as state, also on failure
	nilable    map[*types.Var]bool // slice parameters tested against nil in the prologue: carried as Option Bytes
	clobbers   map[*types.Var]bool // parameters whose storage the function may overwrite in place
	idxParam   map[int]bool        // parameters p with p[k] evaluated unconditionally: not nil after a normal return
	usesLib    bool
	classes    *puClasses
	resAlias   map[int]bool
	paramAlias [][2]int
	// rich groups: translation state
	bound      map[*types.Var]bool // guarded parameters, bound to the value behind the pointer / the non-nil slice
	fx         puFx
	curTop     ast.Node // the statement (or condition) being translated, for order-of-evaluation checks
	guards     map[ast.Stmt]*types.Var
	forcedHigh map[*ast.SliceExpr]bool // x[a:b] where the next statement forces b ≤ len(x)
}

func (c *puFn) pos(n ast.Node) string {
	p := c.grp.ld.fset.Position(n.Pos())
	rel, err := filepath.Rel(repo, p.Filename)
	if err != nil {
		rel = p.Filename
	}
	return fmt.Sprintf("%s:%d", rel, p.Line)
}

func (c *puFn) errf(n ast.Node, format string, a ...interface{}) error {
	return fmt.Errorf("%s: %s: %s", c.pos(n), c.t.fn, fmt.Sprintf(format, a...))
}

func (c *puFn) text(n ast.Node) string {
	var b strings.Builder
	printer.Fprint(&b, c.grp.ld.fset, n)
	return b.String()
}

func (c *puFn) fresh() string {
	for {
		c.tmp++
		n := "t" + strconv.Itoa(c.tmp)
		if !c.used[n] {
			return n
		}
	}
}

// name: the Lean name of a local variable / parameter (one name per object, distinct objects get distinct names)
func (c *puFn) name(o types.Object) string {
	if n, ok := c.names[o]; ok {
		return n
	}
	base := puLeanIdent(o.Name())
	n := base
	for i := 1; c.used[n]; i++ {
		n = base + "_" + strconv.Itoa(i)
	}
	c.used[n] = true
	c.names[o] = n
	return n
}

// ---------------------------------------------------------------------------------------------- driver

func genPureGroups(groups []*puGroup) error {
	bodies := map[string]bool{}
	for _, g := range puGroups { // every group's packages: one loader configuration whatever subset is generated
		for _, t := range g.targets {
			bodies[t.pkg] = true
		}
	}
	var bl []string
	for b := range bodies {
		bl = append(bl, b)
	}
	sort.Strings(bl)
	ld := newPuLoader(bl)
	if err := writeIfChanged("PureRt.lean", puRuntimeLean); err != nil {
		return err
	}
	for _, g := range groups {
		out, err := genPureGroup(ld, g)
		if err != nil {
			return err
		}
		if err := writeIfChanged("Pure"+g.ns+".lean", out); err != nil {
			return err
		}
	}
	return nil
}

func puFindFunc(p *puPkg, t puTarget) (*ast.FuncDecl, error) {
	f, ok := p.files[t.file]
	if !ok {
		return nil, fail("%s: file not found in package %s", filepath.Join(p.dir, t.file), p.path)
	}
	recv, name := "", t.fn
	if i := strings.IndexByte(t.fn, '.'); i >= 0 {
		recv, name = t.fn[:i], t.fn[i+1:]
	}
	for _, d := range f.Decls {
		fd, ok := d.(*ast.FuncDecl)
		if !ok || fd.Name.Name != name {
			continue
		}
		r := ""
		if fd.Recv != nil && len(fd.Recv.List) == 1 {
			rt := fd.Recv.List[0].Type
			if s, ok := rt.(*ast.StarExpr); ok {
				rt = s.X
			}
			if id, ok := rt.(*ast.Ident); ok {
				r = id.Name
			}
		}
		if r == recv {
			if fd.Body == nil {
				return nil, fail("%s: func %s has no body", filepath.Join(p.dir, t.file), t.fn)
			}
			return fd, nil
		}
	}
	return nil, fail("%s: func %s not found", filepath.Join(p.dir, t.file), t.fn)
}

func genPureGroup(ld *puLoader, g *puGroup) (string, error) {
	s, _, err := genPureGroupCtx(ld, g)
	return s, err
}

func genPureGroupCtx(ld *puLoader, g *puGroup) (string, *puGroupCtx, error) {
	gc := &puGroupCtx{g: g, ld: ld, byObj: map[*types.Func]*puFn{}, sname: map[*types.TypeName]string{}, staken: map[string]bool{},
		libUsed: map[string]string{}}
	targets := append([]puTarget(nil), g.targets...)
	for _, in := range g.imports {
		var ig *puGroup
		for _, x := range puGroups {
			if x.name == in {
				ig = x
			}
		}
		if in == puSelftestGroup.name {
			ig = puSelftestGroup
		}
		if ig == nil {
			return "", nil, fail("group %s imports unknown group %s", g.name, in)
		}
		_, igc, err := genPureGroupCtx(ld, ig)
		if err != nil {
			return "", nil, err
		}
		for tn, n := range igc.sname {
			gc.sname[tn] = n
			gc.staken[n] = true
		}
		gc.importNS = append(gc.importNS, ig.ns)
		for _, t := range ig.targets {
			t.extern = true
			targets = append(targets, t)
		}
	}
	for _, t := range targets {
		p, err := ld.load(t.pkg)
		if err != nil {
			return "", nil, err
		}
		fd, err := puFindFunc(p, t)
		if err != nil {
			return "", nil, err
		}
		obj, _ := p.info.Defs[fd.Name].(*types.Func)
		if obj == nil {
			return "", nil, fail("%s: no type information for func %s", filepath.Join(p.dir, t.file), t.fn)
		}
		c := &puFn{t: t, grp: gc, pkg: p, decl: fd, obj: obj, lean: t.fn, names: map[types.Object]string{}, used: map[string]bool{},
			bound: map[*types.Var]bool{}, fx: newPuFx()}
		// a type error inside the function is a broken tie
		// (except inside a statement call of a logging function: its callee lives in a third-party package the
		// loader does not read, and the statement is ignored after its operands were checked to be harmless)
		var logRanges [][2]token.Pos
		ast.Inspect(fd.Body, func(n ast.Node) bool {
			if es, ok := n.(*ast.ExprStmt); ok {
				if call, ok := es.X.(*ast.CallExpr); ok && (c.isLogging(call) || c.isNoReturn(call)) {
					logRanges = append(logRanges, [2]token.Pos{es.Pos(), es.End()})
				}
			}
			return true
		})
		for _, te := range p.errs {
			if te.Pos >= fd.Pos() && te.Pos <= fd.End() {
				inLog := false
				for _, r := range logRanges {
					if te.Pos >= r[0] && te.Pos <= r[1] {
						inLog = true
					}
				}
				if !inLog {
					return "", nil, fail("%s: %s: type error: %s", ld.fset.Position(te.Pos), t.fn, te.Msg)
				}
			}
		}
		sig := obj.Type().(*types.Signature)
		if sig.Recv() != nil {
			c.recv = sig.Recv()
		}
		if sig.Variadic() || sig.TypeParams() != nil {
			return "", nil, c.errf(fd, "variadic / generic function")
		}
		c.body = fd.Body.List
		if t.upto != "" {
			cut := -1
			for i, s := range c.body {
				if strings.HasPrefix(c.text(s), t.upto) {
					cut = i
					break
				}
			}
			if cut < 0 {
				return "", nil, c.errf(fd, "no statement starts with %q (prefix mode)", t.upto)
			}
			c.body, c.tail = fd.Body.List[:cut], fd.Body.List[cut:]
		}
		gc.fns = append(gc.fns, c)
		gc.byObj[obj] = c
	}
	if g.rich {
		gc.scanRich()
	}
	// facts, to a fixpoint (calls inside the group)
	richSig := map[*puFn]string{}
	for changed := true; changed; {
		changed = false
		for _, c := range gc.fns {
			m, mo, ex, err := c.facts()
			if err != nil {
				return "", nil, err
			}
			if g.rich && !c.t.extern {
				mo = true
			}
			if m != c.mutRecv || mo != c.monadic || ex != c.usesExt {
				c.mutRecv, c.monadic, c.usesExt = m, mo, ex
				changed = true
			}
			if rs := c.richFacts(); rs != richSig[c] {
				richSig[c] = rs
				changed = true
			}
		}
	}
	var defs []string
	for _, c := range gc.fns {
		if c.t.extern {
			continue
		}
		if err := c.checkOwnership(); err != nil {
			return "", nil, err
		}
		d, err := c.translate()
		if err != nil {
			return "", nil, err
		}
		defs = append(defs, d)
	}
	var b strings.Builder
	fmt.Fprintf(&b, "-- GENERATED by `gen %s` from /repo's working tree (harness/cmd/gen/pure.go). Do not edit.\n", g.name)
	b.WriteString("import Stgutg.Gen.PureRt\n")
	for _, ns := range gc.importNS {
		fmt.Fprintf(&b, "import Stgutg.Gen.Pure%s\n", ns)
	}
	fmt.Fprintf(&b, "namespace Stgutg.Gen.Pure.%s\nopen Stgutg Stgutg.Gen\nset_option linter.unusedVariables false\n", g.ns)
	for _, ns := range gc.importNS {
		fmt.Fprintf(&b, "open Stgutg.Gen.Pure.%s\n", ns)
	}
	b.WriteString("\n")
	for _, s := range gc.structs {
		b.WriteString(s)
		b.WriteString("\n")
	}
	if len(gc.libUsed) > 0 {
		b.WriteString(gc.libRecord())
		b.WriteString("\n")
	}
	for _, d := range defs {
		b.WriteString(d)
		b.WriteString("\n")
	}
	fmt.Fprintf(&b, "end Stgutg.Gen.Pure.%s\n", g.ns)
	return b.String(), gc, nil
}

// ---------------------------------------------------------------------------------------------- facts

// callee: the listed function a call expression calls, and the receiver expression of a method call
func (c *puFn) callee(call *ast.CallExpr) (*puFn, ast.Expr) {
	switch f := call.Fun.(type) {
	case *ast.Ident:
		if o, ok := c.pkg.info.Uses[f].(*types.Func); ok {
			return c.grp.byObj[o], nil
		}
	case *ast.SelectorExpr:
		if sel, ok := c.pkg.info.Selections[f]; ok && sel.Kind() == types.MethodVal {
			if o, ok := sel.Obj().(*types.Func); ok {
				return c.grp.byObj[o], f.X
			}
		}
		// pkg.F of another package of the repo
		if id, ok := f.X.(*ast.Ident); ok {
			if _, isPkg := c.pkg.info.Uses[id].(*types.PkgName); isPkg {
				if o, ok := c.pkg.info.Uses[f.Sel].(*types.Func); ok {
					return c.grp.byObj[o], nil
				}
			}
		}
	}
	return nil, nil
}

// stdCall: "pkgpath.Name" of a call of a package-level function of another package; "binary.BigEndian.PutUint16"-style
// for the methods of encoding/binary's byte orders
func (c *puFn) stdCall(call *ast.CallExpr) string {
	sel, ok := call.Fun.(*ast.SelectorExpr)
	if !ok {
		return ""
	}
	if id, ok := sel.X.(*ast.Ident); ok {
		if pn, ok := c.pkg.info.Uses[id].(*types.PkgName); ok {
			return pn.Imported().Path() + "." + sel.Sel.Name
		}
	}
	if in, ok := sel.X.(*ast.SelectorExpr); ok {
		if id, ok := in.X.(*ast.Ident); ok {
			if pn, ok := c.pkg.info.Uses[id].(*types.PkgName); ok {
				return pn.Imported().Path() + "." + in.Sel.Name + "." + sel.Sel.Name
			}
		}
	}
	return ""
}

// rootVar: the variable at the root of an assignable expression x, x.f, x[i], x.f[i]
func (c *puFn) rootVar(e ast.Expr) *types.Var {
	for {
		switch x := e.(type) {
		case *ast.Ident:
			v, _ := c.pkg.info.ObjectOf(x).(*types.Var)
			return v
		case *ast.SelectorExpr:
			e = x.X
		case *ast.IndexExpr:
			e = x.X
		case *ast.ParenExpr:
			e = x.X
		case *ast.StarExpr:
			e = x.X
		default:
			return nil
		}
	}
}

func (c *puFn) isConst(e ast.Expr) bool {
	tv, ok := c.pkg.info.Types[e]
	return ok && tv.Value != nil
}

func (c *puFn) facts() (mutRecv, monadic, usesExt bool, err error) {
	recvPtr := false
	if c.recv != nil {
		_, recvPtr = c.recv.Type().(*types.Pointer)
	}
	markAssign := func(lhs ast.Expr) {
		if _, ok := lhs.(*ast.Ident); ok {
			return // assigning the receiver variable itself changes the local pointer only (refused later)
		}
		if recvPtr && c.rootVar(lhs) == c.recv {
			mutRecv = true
		}
	}
	for _, s := range c.body {
		ast.Inspect(s, func(n ast.Node) bool {
			switch x := n.(type) {
			case *ast.AssignStmt:
				for _, l := range x.Lhs {
					markAssign(l)
				}
			case *ast.IncDecStmt:
				markAssign(x.X)
			case *ast.ForStmt, *ast.SliceExpr:
				monadic = true
			case *ast.IndexExpr:
				if t, ok := c.pkg.info.Types[x.X]; ok {
					if _, isMap := t.Type.Underlying().(*types.Map); !isMap {
						monadic = true
					}
				}
			case *ast.BinaryExpr:
				if (x.Op == token.QUO || x.Op == token.REM) && !c.isConst(x.Y) {
					monadic = true
				}
			case *ast.CallExpr:
				if f, rx := c.callee(x); f != nil {
					if f.monadic {
						monadic = true
					}
					if f.usesExt {
						usesExt = true
					}
					if f.mutRecv && rx != nil && recvPtr && c.rootVar(rx) == c.recv {
						mutRecv = true
					}
				}
				switch c.stdCall(x) {
				case "strconv.Atoi":
					if !c.isAtoiByte(x) {
						usesExt = true
					}
				case "encoding/hex.DecodeString":
					usesExt = true
				case "fmt.Sprintf":
					usesExt = true // decided per verb; %s alone does not need it, harmless
				case "encoding/binary.BigEndian.PutUint16":
					monadic = true
				}
				if c.grp.g.rich && c.builtinCall(x, "copy") != nil && len(x.Args) == 2 {
					// copy(x.f[:], …) into an array field of the receiver
					if se, ok := x.Args[0].(*ast.SliceExpr); ok {
						markAssign(se.X)
					}
				}
				if id, ok := x.Fun.(*ast.Ident); ok && id.Name == "make" {
					if _, ok := c.pkg.info.Uses[id].(*types.Builtin); ok && len(x.Args) >= 2 && !c.isConst(x.Args[1]) {
						monadic = true
					}
				}
			}
			return true
		})
	}
	return
}

// isAtoiByte: strconv.Atoi(string(b)) with b of type byte
func (c *puFn) isAtoiByte(call *ast.CallExpr) bool {
	if len(call.Args) != 1 {
		return false
	}
	in, ok := call.Args[0].(*ast.CallExpr)
	if !ok || len(in.Args) != 1 {
		return false
	}
	tv, ok := c.pkg.info.Types[in.Fun]
	if !ok || !tv.IsType() || c.kindOf(tv.Type) != puBytes {
		return false
	}
	if _, isStr := tv.Type.Underlying().(*types.Basic); !isStr {
		return false
	}
	at, ok := c.pkg.info.Types[in.Args[0]]
	return ok && c.kindOf(at.Type) == puU8
}

// the groups of the extended grammar
func init() {
	nasLib := []*puLibFn{
		{key: "(free5gclib/nas.Message).PlainNasEncode", field: "plainNasEncode", inPlace: -1, resNonNil: []int{0},
			doc: "the plain NAS encoder: (octets, err != nil). ASSUMED: the octets are not nil when they are used (a message that encodes has written at least its header)"},
		{key: "(free5gclib/nas.Message).PlainNasDecode", field: "plainNasDecode", inPlace: -1, recvMut: true, retain: []int{0},
			doc: "the plain NAS decoder on the octets *byteArray (read only): (the message afterwards, err != nil)"},
		{key: "free5gclib/nas/security.NASEncrypt", field: "nasEncrypt", inPlace: 5, nonNil: []int{5},
			doc: "ciphers payload IN PLACE: (payload afterwards, err != nil); called with a non-nil payload only"},
		{key: "free5gclib/nas/security.NASMacCalculate", field: "nasMac", inPlace: -1, nonNil: []int{5},
			doc: "(mac, err != nil); called with a non-nil msg only"},
		{key: "reflect.DeepEqual", field: "deepEqualBytes", inPlace: -1, total: true,
			doc: "on two byte slices; total, no effect (what it answers for nil against empty is not modelled: the tie holds for every function)"},
	}
	g := &puGroup{name: "pure-nasprot", ns: "NasProt", rich: true, imports: []string{"pure-count"}, lib: nasLib,
		libTotalSig: map[string]puTotalSig{"deepEqualBytes": {2, "Bytes", "Bool"}},
		targets: []puTarget{
			{pkg: "free5gclib/nas", file: "nas.go", fn: "NewMessage"},
			{pkg: "free5gclib/nas", file: "nas.go", fn: "GetSecurityHeaderType"},
			{pkg: "tglib", file: "security.go", fn: "NASEncode"},
			{pkg: "tglib", file: "security.go", fn: "NASDecode"},
			{pkg: "tglib", file: "packet.go", fn: "EncodeNasPduWithSecurity"},
			{pkg: "tglib", file: "decode.go", fn: "GetNasPdu"},
		}}
	puGroups = append(puGroups, g)
	register(g.name, func() error { return genPureGroups([]*puGroup{g}) })
}

func init() {
	keysLib := []*puLibFn{
		{key: "free5gclib/UeauCommon.GetKDFValue", field: "getKDFValue", inPlace: -1, resNonNil: []int{0}, resExact: []int{0},
			doc: "HMAC-SHA-256 of FC (hex) and the parameters under key. ASSUMED: the result has no spare capacity (it is hmac's Sum(nil): 32 octets appended to nil), so kenc[16:32] panics exactly when the result is shorter than 32 octets"},
		{key: "regexp.Compile", field: "regexpCompile", inPlace: -1,
			doc: "(the compiled expression, err != nil)"},
		{key: "(regexp.Regexp).FindStringSubmatch", field: "findStringSubmatch", inPlace: -1,
			doc: "the leftmost match and its groups; nil (here: the empty list) if there is none"},
		{key: "github.com/calee0219/fatal.Fatalf", field: "fatalf", inPlace: -1, noReturn: true,
			doc: "ends the process"},
	}
	g := &puGroup{name: "pure-keys", ns: "Keys", rich: true, imports: []string{"pure-kdf"}, lib: keysLib,
		targets: []puTarget{
			{pkg: "tglib", file: "ranUe.go", fn: "RanUeContext.DerivateKamf"},
			{pkg: "tglib", file: "ranUe.go", fn: "RanUeContext.DerivateAlgKey"},
		}}
	puGroups = append(puGroups, g)
	register(g.name, func() error { return genPureGroups([]*puGroup{g}) })
}
