package main

import (
	"bytes"
	"fmt"
	"go/ast"
	"go/parser"
	"go/printer"
	"go/token"
	"path/filepath"
	"sort"
	"strings"
)

// Translator `procs`: the statement lists of the GLUE functions — the procedures of src/stgutg (which the model
// `Model/Emulator.lean` mirrors statement by statement) and the NAS protection / wrapper layer of src/tglib (mirrored by
// `Model/NasProtect.lean`, `Model/KeyDerivation.lean`, `Model/UeIdentity.lean`, `Model/Builders.lean`). These are hand models
// written FROM this text and validated against it by the correspondence runs; what the runs cannot show is that the text
// is still the text the models were written from when an edit only matters for inputs no generator produces (an AMF-UE-NGAP-ID of
// exactly 0, an SD of ffffff, a second item in a list, a configuration nobody writes). So the text itself is tied: every function
// is rendered, statement by statement, in a normal form that forgets what cannot matter —
//   * comments, blank lines and formatting (go/printer on the comment-free AST, one line per statement);
//   * calls of fmt.Print* as statements (progress messages);
//   * the NAMES of local variables and parameters (renamed v0, v1, … in order of first appearance; struct fields, package
//     members and methods keep their names);
// and `Props/GluePinned.lean` proves the rendered lists equal to the reviewed ones (`Spec/GluePinned.lean`), per function.
// An edit of a glue function therefore breaks exactly the theorem of that function; the check then looks for a failing input with
// its generators and reports `no-failing-input-found` otherwise. A rewrite that changes the statements but not the behaviour also
// breaks it: the model then has to be re-validated against the new text and the pinned list updated in the same change.
func init() { register("procs", genProcs) }

var glueFiles = []string{
	"src/stgutg/ngsetup.go", "src/stgutg/ue.go", "src/stgutg/pdu.go", "src/stgutg/service.go", "src/stgutg/utils.go",
	"src/tglib/security.go", "src/tglib/packet.go", "src/tglib/decode.go", "src/tglib/ranUe.go",
	// the KDF front end of the key hierarchy (FC ‖ P0 ‖ L0 … around HMAC-SHA-256): thirty lines between tglib and crypto/hmac
	"src/free5gclib/UeauCommon/UeauCommon.go",
}

type alpha struct {
	names map[*ast.Object]string
	byStr map[string]string
	n     int
}

// rename every identifier that denotes a local variable / parameter / named result of the function
func alphaNormalize(fd *ast.FuncDecl) {
	a := &alpha{byStr: map[string]string{}}
	locals := map[string]bool{}
	add := func(id *ast.Ident) {
		if id == nil || id.Name == "_" {
			return
		}
		locals[id.Name] = true
	}
	if fd.Recv != nil {
		for _, f := range fd.Recv.List {
			for _, n := range f.Names {
				add(n)
			}
		}
	}
	for _, f := range fd.Type.Params.List {
		for _, n := range f.Names {
			add(n)
		}
	}
	if fd.Type.Results != nil {
		for _, f := range fd.Type.Results.List {
			for _, n := range f.Names {
				add(n)
			}
		}
	}
	ast.Inspect(fd.Body, func(x ast.Node) bool {
		switch v := x.(type) {
		case *ast.AssignStmt:
			if v.Tok == token.DEFINE {
				for _, l := range v.Lhs {
					if id, ok := l.(*ast.Ident); ok {
						add(id)
					}
				}
			}
		case *ast.ValueSpec:
			for _, n := range v.Names {
				add(n)
			}
		case *ast.RangeStmt:
			if v.Tok == token.DEFINE {
				if id, ok := v.Key.(*ast.Ident); ok {
					add(id)
				}
				if id, ok := v.Value.(*ast.Ident); ok {
					add(id)
				}
			}
		case *ast.FuncLit:
			for _, f := range v.Type.Params.List {
				for _, n := range f.Names {
					add(n)
				}
			}
		}
		return true
	})
	rename := func(id *ast.Ident) {
		if !locals[id.Name] {
			return
		}
		nn, ok := a.byStr[id.Name]
		if !ok {
			nn = fmt.Sprintf("v%d", a.n)
			a.n++
			a.byStr[id.Name] = nn
		}
		id.Name = nn
	}
	// identifiers in declaration order of the source text; selectors' Sel and composite-literal keys are not variables
	var walk func(n ast.Node)
	walk = func(n ast.Node) {
		ast.Inspect(n, func(x ast.Node) bool {
			switch v := x.(type) {
			case *ast.SelectorExpr:
				walk(v.X)
				return false
			case *ast.KeyValueExpr:
				if _, isIdent := v.Key.(*ast.Ident); !isIdent {
					walk(v.Key)
				}
				walk(v.Value)
				return false
			case *ast.Ident:
				rename(v)
			}
			return true
		})
	}
	if fd.Recv != nil {
		walk(fd.Recv)
	}
	walk(fd.Type)
	walk(fd.Body)
}

func isPrintStmt(s ast.Stmt) bool {
	es, ok := s.(*ast.ExprStmt)
	if !ok {
		return false
	}
	c, ok := es.X.(*ast.CallExpr)
	if !ok {
		return false
	}
	n := calleeName(c)
	if n != "fmt.Println" && n != "fmt.Printf" && n != "fmt.Print" {
		return false
	}
	for _, a := range c.Args {
		if containsCall(a) {
			return false
		}
	}
	return true
}

// dropPrints removes progress messages from every block of the function
func dropPrints(n ast.Node) {
	ast.Inspect(n, func(x ast.Node) bool {
		if b, ok := x.(*ast.BlockStmt); ok {
			out := b.List[:0]
			for _, s := range b.List {
				if !isPrintStmt(s) {
					out = append(out, s)
				}
			}
			b.List = out
		}
		if cc, ok := x.(*ast.CaseClause); ok {
			out := cc.Body[:0]
			for _, s := range cc.Body {
				if !isPrintStmt(s) {
					out = append(out, s)
				}
			}
			cc.Body = out
		}
		return true
	})
}

func oneLine(fset *token.FileSet, n ast.Node) string {
	var b bytes.Buffer
	cfg := printer.Config{Mode: printer.RawFormat}
	cfg.Fprint(&b, fset, n)
	return strings.Join(strings.Fields(b.String()), " ")
}

func genProcs() error {
	fset := token.NewFileSet()
	type fn struct {
		name  string
		lines []string
	}
	var fns []fn
	for _, f := range glueFiles {
		af, err := parser.ParseFile(fset, filepath.Join(repo, f), nil, 0) // no comments
		if err != nil {
			return err
		}
		pkg := filepath.Base(filepath.Dir(f))
		for _, d := range af.Decls {
			fd, ok := d.(*ast.FuncDecl)
			if !ok || fd.Body == nil {
				continue
			}
			name := pkg + "." + fd.Name.Name
			if fd.Recv != nil && len(fd.Recv.List) == 1 {
				name = pkg + "." + strings.TrimPrefix(oneLine(fset, fd.Recv.List[0].Type), "*") + "." + fd.Name.Name
			}
			dropPrints(fd.Body)
			alphaNormalize(fd)
			sig := oneLine(fset, fd.Type)
			if fd.Recv != nil {
				sig = "(" + oneLine(fset, fd.Recv.List[0].Type) + ") " + sig
			}
			lines := []string{sig}
			for _, s := range fd.Body.List {
				lines = append(lines, oneLine(fset, s))
			}
			fns = append(fns, fn{name, lines})
		}
	}
	sort.Slice(fns, func(i, j int) bool { return fns[i].name < fns[j].name })
	for i := 1; i < len(fns); i++ {
		if fns[i].name == fns[i-1].name {
			return fail("two functions named %s", fns[i].name)
		}
	}
	var b strings.Builder
	b.WriteString("-- GENERATED by `gen procs` from the glue functions of src/stgutg and src/tglib (normal form: see harness/cmd/gen/procs.go). Do not edit.\n")
	b.WriteString("namespace Stgutg.Gen.Procs\n\n")
	var names []string
	for _, f := range fns {
		id := strings.NewReplacer(".", "_", "*", "").Replace(f.name)
		names = append(names, id)
		fmt.Fprintf(&b, "/-- `%s` -/\ndef %s : List String := [\n", f.name, id)
		for i, l := range f.lines {
			sep := ","
			if i == len(f.lines)-1 {
				sep = ""
			}
			fmt.Fprintf(&b, "  %s%s\n", lq(l), sep)
		}
		b.WriteString("]\n\n")
	}
	b.WriteString("/-- the functions found, in order -/\ndef names : List String := [")
	for i, n := range names {
		if i > 0 {
			b.WriteString(", ")
		}
		b.WriteString(lq(n))
	}
	b.WriteString("]\n\nend Stgutg.Gen.Procs\n")
	return writeIfChanged("Procs.lean", b.String())
}
