package main

import (
	"fmt"
	"go/ast"
	"go/constant"
	"go/token"
	"go/types"
	"path/filepath"
	"sort"
	"strings"
)

// The statement layer, the facts and the driver of the word-machine grammar (pure_secalg.go holds the grammar description).

type saK func() ([]string, error)

func saIndent(lines []string) []string {
	out := make([]string, len(lines))
	for i, l := range lines {
		out[i] = "  " + l
	}
	return out
}

func saTuple(parts []string) string {
	switch len(parts) {
	case 0:
		return "()"
	case 1:
		return parts[0]
	}
	return "(" + strings.Join(parts, ", ") + ")"
}

func saTupleType(ts []string) string {
	switch len(ts) {
	case 0:
		return "Unit"
	case 1:
		return ts[0]
	}
	return "(" + strings.Join(ts, " × ") + ")"
}

func saProj(t string, i, n int) string {
	if n == 1 {
		return t
	}
	s := t
	for j := 0; j < i; j++ {
		s += ".2"
	}
	if i < n-1 {
		s += ".1"
	}
	return s
}

func (c *saFn) ok(s string) string {
	if c.monadic {
		return ".ok " + s
	}
	return s
}

// ---------------------------------------------------------------------------------------------- facts

func (c *saFn) isParam(v *types.Var) bool {
	for i := 0; i < c.sig.Params().Len(); i++ {
		if c.sig.Params().At(i) == v {
			return true
		}
	}
	return false
}

func (c *saFn) rootIdent(e ast.Expr) *ast.Ident {
	for {
		switch x := e.(type) {
		case *ast.Ident:
			return x
		case *ast.SelectorExpr:
			e = x.X
		case *ast.IndexExpr:
			e = x.X
		case *ast.ParenExpr:
			e = x.X
		default:
			return nil
		}
	}
}

func (c *saFn) rootVar(e ast.Expr) *types.Var {
	if id := c.rootIdent(e); id != nil {
		v, _ := c.info().ObjectOf(id).(*types.Var)
		return v
	}
	return nil
}

// written: the variables (declared anywhere) that the nodes assign — whole, through a path, through a mutating method, as an
// out-argument
func (c *saFn) written(nodes []ast.Node) map[*types.Var]bool {
	w := map[*types.Var]bool{}
	for _, n := range nodes {
		ast.Inspect(n, func(n ast.Node) bool {
			switch x := n.(type) {
			case *ast.AssignStmt:
				for _, l := range x.Lhs {
					if v := c.rootVar(l); v != nil {
						w[v] = true
					}
				}
			case *ast.IncDecStmt:
				if v := c.rootVar(x.X); v != nil {
					w[v] = true
				}
			case *ast.CallExpr:
				if (c.builtin(x) == "copy" || c.stdName(x) == "encoding/binary.BigEndian.PutUint32") && len(x.Args) == 2 {
					if v := c.rootVar(x.Args[0]); v != nil {
						w[v] = true
					}
				}
				f, rx, _ := c.callee(x)
				if f == nil {
					break
				}
				if f.mutRecv && rx != nil {
					if v, ok := c.info().ObjectOf(rx).(*types.Var); ok {
						w[v] = true
					}
				}
				for i, a := range x.Args {
					if i < f.sig.Params().Len() && f.outs[f.sig.Params().At(i)] {
						if v := c.rootVar(a); v != nil {
							w[v] = true
						}
					}
				}
			}
			return true
		})
	}
	return w
}

func (c *saFn) facts() (mutRecv, monadic, recursive bool, outs map[*types.Var]bool) {
	outs = map[*types.Var]bool{}
	w := c.written([]ast.Node{c.decl.Body})
	for v := range w {
		if v == c.recv {
			mutRecv = true
		}
		if c.isParam(v) {
			if _, isSlice := v.Type().Underlying().(*types.Slice); isSlice {
				outs[v] = true
			}
		}
	}
	ast.Inspect(c.decl.Body, func(n ast.Node) bool {
		switch x := n.(type) {
		case *ast.ForStmt, *ast.IndexExpr, *ast.SliceExpr:
			monadic = true
		case *ast.CallExpr:
			if f, _, _ := c.callee(x); f != nil {
				if f.monadic {
					monadic = true
				}
				if f == c {
					recursive, monadic = true, true
				}
			}
			if c.builtin(x) == "make" || strings.HasPrefix(c.stdName(x), "encoding/binary.BigEndian.") {
				monadic = true
			}
		}
		return true
	})
	return
}

// ---------------------------------------------------------------------------------------------- statements

func saTerminates(stmts []ast.Stmt) bool {
	if len(stmts) == 0 {
		return false
	}
	switch x := stmts[len(stmts)-1].(type) {
	case *ast.ReturnStmt:
		return true
	case *ast.IfStmt:
		if x.Else == nil || !saTerminates(x.Body.List) {
			return false
		}
		return saTerminates(saElse(x.Else))
	}
	return false
}

func saElse(s ast.Stmt) []ast.Stmt {
	if s == nil {
		return nil
	}
	if b, ok := s.(*ast.BlockStmt); ok {
		return b.List
	}
	return []ast.Stmt{s}
}

func saHasReturn(stmts []ast.Stmt) bool {
	found := false
	for _, s := range stmts {
		ast.Inspect(s, func(n ast.Node) bool {
			if _, ok := n.(*ast.ReturnStmt); ok {
				found = true
			}
			return true
		})
	}
	return found
}

// outer: the variables among w that are declared before `at` (or are parameters / the receiver), in declaration order
func (c *saFn) outer(w map[*types.Var]bool, at token.Pos) []*types.Var {
	var vs []*types.Var
	for v := range w {
		if v.Pos() < at && !v.IsField() && v.Parent() != v.Pkg().Scope() {
			vs = append(vs, v)
		}
	}
	sort.Slice(vs, func(i, j int) bool { return vs[i].Pos() < vs[j].Pos() })
	return vs
}

func (c *saFn) block(stmts []ast.Stmt, k saK) ([]string, error) {
	var lines []string
	for i, s := range stmts {
		switch x := s.(type) {
		case *ast.ReturnStmt:
			if i != len(stmts)-1 {
				return nil, c.errf(stmts[i+1], "statement after return")
			}
			l, err := c.ret(x)
			if err != nil {
				return nil, err
			}
			return append(lines, l...), nil
		case *ast.IfStmt:
			rest := stmts[i+1:]
			l, err := c.ifStmt(x, rest, k)
			if err != nil {
				return nil, err
			}
			return append(lines, l...), nil
		case *ast.ForStmt:
			l, err := c.forStmt(x)
			if err != nil {
				return nil, err
			}
			lines = append(lines, l...)
		default:
			l, err := c.simple(s)
			if err != nil {
				return nil, err
			}
			lines = append(lines, l...)
		}
	}
	l, err := k()
	if err != nil {
		return nil, err
	}
	return append(lines, l...), nil
}

func (c *saFn) resultTuple(vals []string) string {
	var parts []string
	if c.mutRecv {
		parts = append(parts, c.name(c.recv))
	}
	parts = append(parts, vals...)
	for _, o := range c.outList() {
		parts = append(parts, c.name(o))
	}
	return c.ok(saTuple(parts))
}

func (c *saFn) ret(x *ast.ReturnStmt) ([]string, error) {
	res := c.sig.Results()
	if len(x.Results) != res.Len() {
		return nil, c.errf(x, "return with %d values for %d results", len(x.Results), res.Len())
	}
	var vals []string
	for i, r := range x.Results {
		if saKindOf(res.At(i).Type()) == saPtr {
			id, ok := r.(*ast.Ident)
			if !ok {
				return nil, c.errf(r, "pointer result that is not a local variable")
			}
			v, err := c.localVar(id)
			if err != nil {
				return nil, err
			}
			if v == c.recv || c.isParam(v) {
				return nil, c.errf(r, "return of the receiver / a parameter")
			}
			vals = append(vals, c.name(v))
			continue
		}
		if saKindOf(res.At(i).Type()) == saErr {
			id, ok := r.(*ast.Ident)
			if _, isNil := c.info().ObjectOf(id).(*types.Nil); !ok || !isNil {
				return nil, c.errf(r, "error result that is not nil")
			}
			vals = append(vals, "false")
			continue
		}
		s, err := c.expr(r)
		if err != nil {
			return nil, err
		}
		vals = append(vals, s)
	}
	return append(c.takePre(), c.resultTuple(vals)), nil
}

func (c *saFn) ifStmt(x *ast.IfStmt, rest []ast.Stmt, k saK) ([]string, error) {
	if x.Init != nil {
		return nil, c.errf(x, "if with an init statement")
	}
	cond, err := c.expr(x.Cond)
	if err != nil {
		return nil, err
	}
	lines := c.takePre()
	a, b := x.Body.List, saElse(x.Else)
	ta, tb := saTerminates(a), x.Else != nil && saTerminates(b)
	ra, rb := saHasReturn(a), saHasReturn(b)
	none := func() ([]string, error) { return nil, c.errf(x, "internal: fall-through of a returning branch") }
	cont := func() ([]string, error) { return c.block(rest, k) }
	switch {
	case ta && tb:
		if len(rest) > 0 {
			return nil, c.errf(rest[0], "statement after an if / else that returns in both branches")
		}
		la, err := c.block(a, none)
		if err != nil {
			return nil, err
		}
		lb, err := c.block(b, none)
		if err != nil {
			return nil, err
		}
		lines = append(lines, "if "+cond+" then")
		lines = append(lines, saIndent(la)...)
		lines = append(lines, "else")
		return append(lines, saIndent(lb)...), nil
	case ta && !rb:
		la, err := c.block(a, none)
		if err != nil {
			return nil, err
		}
		lb, err := c.block(b, cont)
		if err != nil {
			return nil, err
		}
		lines = append(lines, "if "+cond+" then")
		lines = append(lines, saIndent(la)...)
		lines = append(lines, "else")
		return append(lines, saIndent(lb)...), nil
	case tb && !ra:
		la, err := c.block(a, cont)
		if err != nil {
			return nil, err
		}
		lb, err := c.block(b, none)
		if err != nil {
			return nil, err
		}
		lines = append(lines, "if "+cond+" then")
		lines = append(lines, saIndent(la)...)
		lines = append(lines, "else")
		return append(lines, saIndent(lb)...), nil
	case !ra && !rb:
		var nodes []ast.Node
		for _, s := range a {
			nodes = append(nodes, s)
		}
		for _, s := range b {
			nodes = append(nodes, s)
		}
		vs := c.outer(c.written(nodes), x.Pos())
		var names []string
		for _, v := range vs {
			names = append(names, c.name(v))
		}
		join := func() ([]string, error) { return []string{c.ok(saTuple(names))}, nil }
		la, err := c.block(a, join)
		if err != nil {
			return nil, err
		}
		lb, err := c.block(b, join)
		if err != nil {
			return nil, err
		}
		t := c.fresh()
		head := "(if " + cond + " then"
		if !c.monadic {
			head = "let " + t + " := " + head
		}
		lines = append(lines, head)
		lines = append(lines, saIndent(la)...)
		lines = append(lines, "else")
		lines = append(lines, saIndent(lb)...)
		if c.monadic {
			lines[len(lines)-1] += ") >>= fun " + t + " =>"
		} else {
			lines[len(lines)-1] += ")"
		}
		for i, n := range names {
			lines = append(lines, "let "+n+" := "+saProj(t, i, len(names)))
		}
		l, err := cont()
		if err != nil {
			return nil, err
		}
		return append(lines, l...), nil
	}
	return nil, c.errf(x, "if statement in which a branch returns on some paths only")
}

// assignTo: lhs = val (val already evaluated)
func (c *saFn) assignTo(lhs ast.Expr, val string) ([]string, error) {
	if id, ok := lhs.(*ast.Ident); ok {
		if id.Name == "_" {
			return nil, nil
		}
		v, err := c.localVar(id)
		if err != nil {
			return nil, err
		}
		switch saKindOf(v.Type()) {
		case saBad:
			return nil, c.errf(id, "variable %s of type %s", id.Name, v.Type())
		case saPtr:
			return nil, c.errf(id, "assignment to the pointer variable %s", id.Name)
		}
		if c.isParam(v) {
			if _, isSlice := v.Type().Underlying().(*types.Slice); isSlice {
				return nil, c.errf(id, "assignment to the slice parameter %s", id.Name)
			}
		}
		return []string{"let " + c.name(v) + " := " + val}, nil
	}
	// a path root.f.g[i]
	var idx ast.Expr
	e := lhs
	if ie, ok := e.(*ast.IndexExpr); ok {
		idx, e = ie.Index, ie.X
	}
	var fields []string
	for {
		if p, ok := e.(*ast.ParenExpr); ok {
			e = p.X
			continue
		}
		se, ok := e.(*ast.SelectorExpr)
		if !ok {
			break
		}
		sel, ok := c.info().Selections[se]
		if !ok || sel.Kind() != types.FieldVal || len(sel.Index()) != 1 {
			return nil, c.errf(lhs, "assignment to a selector outside the translated subset")
		}
		fields = append([]string{puLeanIdent(se.Sel.Name)}, fields...)
		e = se.X
	}
	id, ok := e.(*ast.Ident)
	if !ok {
		return nil, c.errf(lhs, "assignment to %T", lhs)
	}
	v, err := c.localVar(id)
	if err != nil {
		return nil, err
	}
	if _, err := c.grp.leanType(v.Type()); err != nil {
		return nil, c.errf(lhs, "%v", err)
	}
	if _, isSlice := v.Type().Underlying().(*types.Slice); isSlice && !c.isParam(v) && !c.freshSlice(v) {
		return nil, c.errf(lhs, "write to the slice %s, which is not an out-parameter and does not hold make(…) only", id.Name)
	}
	root := c.name(v)
	var lines []string
	if idx != nil {
		i, err := c.toInt(idx)
		if err != nil {
			return nil, err
		}
		lines = c.takePre()
		t := c.fresh()
		lines = append(lines, "Go.set "+strings.Join(append([]string{root}, fields...), ".")+" "+i+" "+val+" >>= fun "+t+" =>")
		val = t
	}
	for j := len(fields) - 1; j >= 0; j-- {
		val = "{ " + strings.Join(append([]string{root}, fields[:j]...), ".") + " with " + fields[j] + " := " + val + " }"
	}
	return append(lines, "let "+root+" := "+val), nil
}

// freshSlice: a local slice every assignment of which is make(…) (no other name can share its storage)
func (c *saFn) freshSlice(v *types.Var) bool {
	ok := true
	seen := false
	ast.Inspect(c.decl.Body, func(n ast.Node) bool {
		check := func(lhs ast.Expr, rhs ast.Expr) {
			if id, isId := lhs.(*ast.Ident); isId && c.info().ObjectOf(id) == v {
				seen = true
				call, isCall := rhs.(*ast.CallExpr)
				if !isCall || c.builtin(call) != "make" {
					ok = false
				}
			}
		}
		switch x := n.(type) {
		case *ast.AssignStmt:
			if len(x.Lhs) == len(x.Rhs) {
				for i := range x.Lhs {
					check(x.Lhs[i], x.Rhs[i])
				}
			} else {
				for _, l := range x.Lhs {
					check(l, nil)
				}
			}
		case *ast.ValueSpec:
			for i, id := range x.Names {
				if c.info().ObjectOf(id) == v {
					seen = true
					if i >= len(x.Values) {
						ok = false
					} else if call, isCall := x.Values[i].(*ast.CallExpr); !isCall || c.builtin(call) != "make" {
						ok = false
					}
				}
			}
		}
		return true
	})
	return ok && seen
}

func (c *saFn) simple(s ast.Stmt) ([]string, error) {
	switch x := s.(type) {
	case *ast.AssignStmt:
		return c.assign(x)
	case *ast.DeclStmt:
		gd, ok := x.Decl.(*ast.GenDecl)
		if !ok || gd.Tok != token.VAR {
			return nil, c.errf(s, "declaration outside the translated subset")
		}
		var lines []string
		for _, sp := range gd.Specs {
			vs := sp.(*ast.ValueSpec)
			if len(vs.Values) != 0 && len(vs.Values) != len(vs.Names) {
				return nil, c.errf(s, "var with a multi-valued initialiser")
			}
			for i, id := range vs.Names {
				v, _ := c.info().Defs[id].(*types.Var)
				if v == nil {
					continue
				}
				if k := saKindOf(v.Type()); k == saBad || k == saPtr {
					return nil, c.errf(id, "variable of type %s", v.Type())
				}
				var val string
				var err error
				if len(vs.Values) > 0 {
					if val, err = c.rhs(v, vs.Values[i]); err != nil {
						return nil, err
					}
				} else if val, err = c.grp.zero(v.Type()); err != nil {
					return nil, c.errf(id, "%v", err)
				}
				lines = append(lines, c.takePre()...)
				lines = append(lines, "let "+c.name(v)+" := "+val)
			}
		}
		return lines, nil
	case *ast.ExprStmt:
		call, ok := x.X.(*ast.CallExpr)
		if !ok {
			return nil, c.errf(s, "expression statement")
		}
		if isCopy, isPut := c.builtin(call) == "copy", c.stdName(call) == "encoding/binary.BigEndian.PutUint32"; (isCopy || isPut) && len(call.Args) == 2 {
			// the destination: a whole variable that holds make(…) only / an out-parameter (no other name for its storage)
			id, ok := call.Args[0].(*ast.Ident)
			if !ok {
				return nil, c.errf(call.Args[0], "destination that is not a whole variable")
			}
			v, err := c.localVar(id)
			if err != nil {
				return nil, err
			}
			if t := v.Type(); saKindOf(t) != saList || saKindOf(saElem(t)) != saU8 {
				return nil, c.errf(id, "destination of type %s", t)
			}
			if _, isSlice := v.Type().Underlying().(*types.Slice); !isSlice || !(c.freshSlice(v) || (c.isParam(v) && c.outs[v])) {
				return nil, c.errf(id, "destination %s: not a slice holding make(…) only / an out-parameter", id.Name)
			}
			if isCopy {
				src, err := c.sliceArg(call.Args[1])
				if err != nil {
					return nil, err
				}
				return append(c.takePre(), "let "+c.name(v)+" := Go.copy "+c.name(v)+" "+src), nil
			}
			val, err := c.expr(call.Args[1])
			if err != nil {
				return nil, err
			}
			lines := c.takePre()
			t := c.fresh()
			return append(lines, "Go.putU32BE "+c.name(v)+" "+val+" >>= fun "+t+" =>", "let "+c.name(v)+" := "+t), nil
		}
		return c.callStmt(call, nil, false)
	case *ast.IncDecStmt:
		t, err := c.typeOf(x.X)
		if err != nil {
			return nil, err
		}
		l, err := c.expr(x.X)
		if err != nil {
			return nil, err
		}
		one, err := c.literalOne(t)
		if err != nil {
			return nil, c.errf(x, "%v", err)
		}
		op := token.ADD
		if x.Tok == token.DEC {
			op = token.SUB
		}
		val, err := c.binop(x, op, t, l, one, true, false)
		if err != nil {
			return nil, err
		}
		pre := c.takePre()
		a, err := c.assignTo(x.X, val)
		if err != nil {
			return nil, err
		}
		return append(pre, a...), nil
	case *ast.EmptyStmt:
		return nil, nil
	}
	return nil, c.errf(s, "statement %T outside the translated subset", s)
}

func (c *saFn) literalOne(t types.Type) (string, error) {
	switch k := saKindOf(t); {
	case k.unsigned():
		return "(1 : " + saLeanUint[k] + ")", nil
	case k == saInt:
		return "(1 : Int)", nil
	}
	return "", fmt.Errorf("++ / -- on %s", t)
}

// rhs: the value assigned to the variable v (slices: only make(…) — one name per backing array)
func (c *saFn) rhs(v *types.Var, e ast.Expr) (string, error) {
	if v != nil {
		if _, isSlice := v.Type().Underlying().(*types.Slice); isSlice {
			call, ok := e.(*ast.CallExpr)
			if !ok || c.builtin(call) != "make" {
				return "", c.errf(e, "a slice variable may be assigned make(…) only (no second name for the same storage)")
			}
		}
	}
	return c.expr(e)
}

func (c *saFn) assign(x *ast.AssignStmt) ([]string, error) {
	define := x.Tok == token.DEFINE
	if len(x.Rhs) == 1 {
		if call, ok := x.Rhs[0].(*ast.CallExpr); ok {
			if c.builtin(call) == "new" && define && len(x.Lhs) == 1 {
				return c.newStmt(x, call)
			}
			if tv, ok := c.info().Types[call.Fun]; !(ok && tv.IsType()) && c.builtin(call) == "" {
				f, _, err := c.callee(call)
				if err != nil {
					return nil, err
				}
				if f != nil && (f.mutRecv || len(f.outList()) > 0 || f.sig.Results().Len() != 1 || saKindOf(f.sig.Results().At(0).Type()) == saPtr) {
					if x.Tok != token.DEFINE && x.Tok != token.ASSIGN {
						return nil, c.errf(x, "op= with a call that changes its receiver / an argument")
					}
					return c.callStmt(call, x.Lhs, define)
				}
			}
		}
	}
	if len(x.Lhs) != len(x.Rhs) {
		return nil, c.errf(x, "assignment of %d values to %d places", len(x.Rhs), len(x.Lhs))
	}
	if len(x.Lhs) > 1 {
		return nil, c.errf(x, "parallel assignment")
	}
	lhs, rhs := x.Lhs[0], x.Rhs[0]
	var val string
	var err error
	switch x.Tok {
	case token.DEFINE, token.ASSIGN:
		var v *types.Var
		if id, ok := lhs.(*ast.Ident); ok && id.Name != "_" {
			v, _ = c.info().ObjectOf(id).(*types.Var)
		}
		if val, err = c.rhs(v, rhs); err != nil {
			return nil, err
		}
	default:
		op, ok := map[token.Token]token.Token{token.ADD_ASSIGN: token.ADD, token.SUB_ASSIGN: token.SUB, token.MUL_ASSIGN: token.MUL,
			token.AND_ASSIGN: token.AND, token.OR_ASSIGN: token.OR, token.XOR_ASSIGN: token.XOR, token.AND_NOT_ASSIGN: token.AND_NOT}[x.Tok]
		if !ok {
			return nil, c.errf(x, "assignment operator %s", x.Tok)
		}
		t, err := c.typeOf(lhs)
		if err != nil {
			return nil, err
		}
		l, err := c.expr(lhs)
		if err != nil {
			return nil, err
		}
		r, err := c.expr(rhs)
		if err != nil {
			return nil, err
		}
		if val, err = c.binop(x, op, t, l, r, false, false); err != nil {
			return nil, err
		}
	}
	pre := c.takePre()
	a, err := c.assignTo(lhs, val)
	if err != nil {
		return nil, err
	}
	return append(pre, a...), nil
}

func (c *saFn) newStmt(x *ast.AssignStmt, call *ast.CallExpr) ([]string, error) {
	id, ok := x.Lhs[0].(*ast.Ident)
	if !ok || len(call.Args) != 1 {
		return nil, c.errf(x, "new outside `p := new(T)`")
	}
	v, _ := c.info().Defs[id].(*types.Var)
	if v == nil || saKindOf(v.Type()) != saPtr {
		return nil, c.errf(x, "new outside `p := new(T)` for a named struct T")
	}
	z, err := c.grp.zero(v.Type().Underlying().(*types.Pointer).Elem())
	if err != nil {
		return nil, c.errf(x, "%v", err)
	}
	return []string{"let " + c.name(v) + " := " + z}, nil
}

// callStmt: a call of a listed function as a statement / as the whole right side of an assignment
func (c *saFn) callStmt(call *ast.CallExpr, lhs []ast.Expr, define bool) ([]string, error) {
	if tv, ok := c.info().Types[call.Fun]; ok && tv.IsType() {
		return nil, c.errf(call, "conversion as a statement")
	}
	f, rx, err := c.callee(call)
	if err != nil {
		return nil, err
	}
	if f == nil {
		return nil, c.errf(call, "call of a function that is not listed")
	}
	nres := f.sig.Results().Len()
	if lhs != nil && len(lhs) != nres {
		return nil, c.errf(call, "%d places for %d results", len(lhs), nres)
	}
	var recvName string
	if f.recv != nil {
		if rx == nil {
			return nil, c.errf(call, "method expression")
		}
		v, err := c.localVar(rx)
		if err != nil {
			return nil, err
		}
		if saKindOf(v.Type()) != saPtr {
			return nil, c.errf(call, "method call on a value (the receiver is a pointer)")
		}
		recvName = c.name(v)
	}
	// out-arguments: whole variables, fresh or themselves out-parameters, each at most once
	outNames := []string{}
	seen := map[*types.Var]bool{}
	for i, a := range call.Args {
		if i >= f.sig.Params().Len() || !f.outs[f.sig.Params().At(i)] {
			continue
		}
		id, ok := a.(*ast.Ident)
		if !ok {
			return nil, c.errf(a, "out-argument that is not a whole variable")
		}
		v, err := c.localVar(id)
		if err != nil {
			return nil, err
		}
		if seen[v] || !(c.freshSlice(v) || (c.isParam(v) && c.outs[v])) {
			return nil, c.errf(a, "out-argument %s: not a slice holding make(…) / an out-parameter, or passed twice", id.Name)
		}
		seen[v] = true
		outNames = append(outNames, c.name(v))
	}
	app, err := c.app(call, f, rx)
	if err != nil {
		return nil, err
	}
	lines := c.takePre()
	t := c.fresh()
	if f.monadic {
		lines = append(lines, app+" >>= fun "+t+" =>")
	} else {
		lines = append(lines, "let "+t+" := "+app)
	}
	n := nres + len(outNames)
	if f.mutRecv {
		n++
	}
	k := 0
	if f.mutRecv {
		lines = append(lines, "let "+recvName+" := "+saProj(t, k, n))
		k++
	}
	resAt := k
	k += nres
	for _, o := range outNames {
		lines = append(lines, "let "+o+" := "+saProj(t, k, n))
		k++
	}
	for i, l := range lhs {
		val := saProj(t, resAt+i, n)
		if saKindOf(f.sig.Results().At(i).Type()) == saPtr {
			id, ok := l.(*ast.Ident)
			v, _ := c.info().Defs[id].(*types.Var)
			if !ok || !define || v == nil {
				return nil, c.errf(l, "pointer result outside `p := f(…)`")
			}
			lines = append(lines, "let "+c.name(v)+" := "+val)
			continue
		}
		a, err := c.assignTo(l, val)
		if err != nil {
			return nil, err
		}
		lines = append(lines, a...)
	}
	return lines, nil
}

// forStmt: `for i := a; i < b; i++ { … }`
func (c *saFn) forStmt(x *ast.ForStmt) ([]string, error) {
	init, ok := x.Init.(*ast.AssignStmt)
	if !ok || (init.Tok != token.DEFINE && init.Tok != token.ASSIGN) || len(init.Lhs) != 1 || len(init.Rhs) != 1 {
		return nil, c.errf(x, "loop without `i := a` / `i = a`")
	}
	iid, ok := init.Lhs[0].(*ast.Ident)
	if !ok {
		return nil, c.errf(x, "loop counter")
	}
	// `for i = a; …` with a local declared before the loop: the counter is also a RESULT of the loop (it is read afterwards)
	outerCounter := init.Tok == token.ASSIGN
	iv, _ := c.info().Defs[iid].(*types.Var)
	if outerCounter {
		if iv, _ = c.info().Uses[iid].(*types.Var); iv != nil {
			if _, err := c.localVar(iid); err != nil || c.isParam(iv) || iv == c.recv {
				return nil, c.errf(x, "loop counter that is not a local variable")
			}
		}
	}
	if iv == nil || !saKindOf(iv.Type()).integer() {
		return nil, c.errf(x, "loop counter")
	}
	cond, ok := x.Cond.(*ast.BinaryExpr)
	if !ok || cond.Op != token.LSS {
		return nil, c.errf(x, "loop condition that is not `i < b`")
	}
	if cid, ok := cond.X.(*ast.Ident); !ok || c.info().ObjectOf(cid) != iv {
		return nil, c.errf(x, "loop condition that is not `i < b`")
	}
	post, ok := x.Post.(*ast.IncDecStmt)
	if !ok || post.Tok != token.INC {
		return nil, c.errf(x, "loop step that is not `i++`")
	}
	if pid, ok := post.X.(*ast.Ident); !ok || c.info().ObjectOf(pid) != iv {
		return nil, c.errf(x, "loop step that is not `i++`")
	}
	var bad ast.Node
	ast.Inspect(x.Body, func(n ast.Node) bool {
		switch n.(type) {
		case *ast.ReturnStmt, *ast.BranchStmt, *ast.GoStmt, *ast.DeferStmt, *ast.LabeledStmt:
			bad = n
		}
		return true
	})
	if bad != nil {
		return nil, c.errf(bad, "return / break / continue / label inside a counted loop")
	}
	w := c.written([]ast.Node{x.Body})
	if w[iv] {
		return nil, c.errf(x, "the loop body assigns the counter")
	}
	var boundBad bool
	ast.Inspect(cond.Y, func(n ast.Node) bool {
		switch y := n.(type) {
		case *ast.Ident:
			if v, ok := c.info().ObjectOf(y).(*types.Var); ok && w[v] {
				boundBad = true
			}
		case *ast.CallExpr:
			if tv, ok := c.info().Types[y.Fun]; !(ok && tv.IsType()) && c.builtin(y) != "len" {
				boundBad = true
			}
		case *ast.IndexExpr:
			boundBad = true
		}
		return true
	})
	if boundBad {
		return nil, c.errf(cond.Y, "loop bound that the body changes / that can fail")
	}
	start, err := c.expr(init.Rhs[0])
	if err != nil {
		return nil, err
	}
	lines := c.takePre()
	bound, err := c.expr(cond.Y)
	if err != nil {
		return nil, err
	}
	if len(c.pre) > 0 {
		return nil, c.errf(cond.Y, "loop bound that can fail")
	}
	k := saKindOf(iv.Type())
	// fuel
	fuel := ""
	sv, bv := c.info().Types[init.Rhs[0]], c.info().Types[cond.Y]
	if sv.Value != nil && bv.Value != nil {
		a, _ := constantInt64(sv)
		b, _ := constantInt64(bv)
		n := b - a
		if n < 0 {
			n = 0
		}
		fuel = fmt.Sprint(n + 1)
	} else if k == saInt {
		fuel = "((Go.isub " + bound + " " + start + ").toNat + 1)"
	} else {
		fuel = "((" + bound + " - " + start + ").toNat + 1)"
	}
	// variables
	delete(w, iv)
	assigned := c.outer(w, x.Pos())
	isAssigned := map[*types.Var]bool{}
	for _, v := range assigned {
		isAssigned[v] = true
	}
	used := map[*types.Var]bool{}
	for _, n := range []ast.Node{x.Body, cond.Y} {
		ast.Inspect(n, func(n ast.Node) bool {
			if id, ok := n.(*ast.Ident); ok {
				if v, ok := c.info().ObjectOf(id).(*types.Var); ok && v != iv && !isAssigned[v] {
					used[v] = true
				}
			}
			return true
		})
	}
	free := c.outer(used, x.Pos())
	c.nloop++
	lname := c.lean + ".loop" + fmt.Sprint(c.nloop)
	var sigParts, freeNames, asgNames, asgTypes []string
	for _, v := range free {
		lt, err := c.grp.leanType(v.Type())
		if err != nil {
			return nil, c.errf(x, "%v", err)
		}
		sigParts = append(sigParts, "("+c.name(v)+" : "+lt+")")
		freeNames = append(freeNames, c.name(v))
	}
	for _, v := range assigned {
		lt, err := c.grp.leanType(v.Type())
		if err != nil {
			return nil, c.errf(x, "%v", err)
		}
		asgNames = append(asgNames, c.name(v))
		asgTypes = append(asgTypes, lt)
	}
	it, _ := c.grp.leanType(iv.Type())
	in := c.name(iv)
	call := func(fuelText, counter string) string {
		return strings.TrimSpace(strings.Join(append(append([]string{lname}, freeNames...), append([]string{fuelText, counter}, asgNames...)...), " "))
	}
	one, _ := c.literalOne(iv.Type())
	step, err := c.binop(x, token.ADD, iv.Type(), in, one, true, false)
	if err != nil {
		return nil, err
	}
	body, err := c.block(x.Body.List, func() ([]string, error) {
		return []string{"let " + in + " := " + step, call("fuel", in)}, nil
	})
	if err != nil {
		return nil, err
	}
	var d strings.Builder
	fmt.Fprintf(&d, "/-- the loop `%s < %s` of %s; fuel = iterations left + 1 -/\n", iid.Name, saText(c, cond.Y), c.t.fn)
	resNames, resTypes := asgNames, asgTypes
	if outerCounter {
		resNames, resTypes = append([]string{in}, asgNames...), append([]string{it}, asgTypes...)
	}
	fmt.Fprintf(&d, "def %s %s: Nat → %s → %s\n", lname, strings.Join(append(sigParts, ""), " "),
		strings.Join(append([]string{it}, asgTypes...), " → "), "Res "+saTupleType(resTypes))
	under := strings.Repeat(", _", 1+len(asgNames))
	fmt.Fprintf(&d, "  | 0%s => .error .hang\n", under)
	fmt.Fprintf(&d, "  | fuel + 1, %s =>\n", strings.Join(append([]string{in}, asgNames...), ", "))
	fmt.Fprintf(&d, "    if (decide (%s < %s)) then\n", in, bound)
	for _, l := range body {
		d.WriteString("      " + l + "\n")
	}
	fmt.Fprintf(&d, "    else\n      .ok %s\n", saTuple(resNames))
	c.aux = append(c.aux, d.String())
	t := c.fresh()
	lines = append(lines, call(fuel, start)+" >>= fun "+t+" =>")
	for i, n := range resNames {
		lines = append(lines, "let "+n+" := "+saProj(t, i, len(resNames)))
	}
	return lines, nil
}

func saText(c *saFn, n ast.Node) string {
	p := &puFn{grp: &puGroupCtx{ld: c.grp.ld}}
	return p.text(n)
}

func constantInt64(tv types.TypeAndValue) (int64, bool) { return constantToInt64(tv) }

func constantToInt64(tv types.TypeAndValue) (int64, bool) {
	if tv.Value == nil {
		return 0, false
	}
	iv := constant.ToInt(tv.Value)
	if iv.Kind() != constant.Int {
		return 0, false
	}
	return constant.Int64Val(iv)
}

// ---------------------------------------------------------------------------------------------- driver

func (c *saFn) translate() (string, error) {
	gc := c.grp
	var params []string
	if c.recv != nil {
		lt, err := gc.leanType(c.recv.Type())
		if err != nil {
			return "", c.errf(c.decl, "%v", err)
		}
		params = append(params, "("+c.name(c.recv)+" : "+lt+")")
	}
	var ptypes []string
	for i := 0; i < c.sig.Params().Len(); i++ {
		p := c.sig.Params().At(i)
		if p.Name() == "" || p.Name() == "_" {
			return "", c.errf(c.decl, "unnamed parameter")
		}
		if saKindOf(p.Type()) == saPtr {
			return "", c.errf(c.decl, "pointer parameter %s", p.Name())
		}
		lt, err := gc.leanType(p.Type())
		if err != nil {
			return "", c.errf(c.decl, "parameter %s: %v", p.Name(), err)
		}
		params = append(params, "("+c.name(p)+" : "+lt+")")
		ptypes = append(ptypes, lt)
	}
	var rts, named []string
	if c.mutRecv {
		lt, _ := gc.leanType(c.recv.Type())
		rts = append(rts, lt)
	}
	for i := 0; i < c.sig.Results().Len(); i++ {
		r := c.sig.Results().At(i)
		if r.Name() != "" && r.Name() != "_" {
			// a named result is a local variable that starts at its zero value; `return` always names its values here
			if saKindOf(r.Type()) == saPtr {
				return "", c.errf(c.decl, "named pointer result")
			}
			z, err := gc.zero(r.Type())
			if err != nil {
				return "", c.errf(c.decl, "result %s: %v", r.Name(), err)
			}
			named = append(named, "let "+c.name(r)+" := "+z)
		}
		if saKindOf(r.Type()) == saPtr && c.sig.Results().Len() != 1 {
			return "", c.errf(c.decl, "pointer result beside other results")
		}
		lt, err := gc.leanType(r.Type())
		if err != nil {
			return "", c.errf(c.decl, "result: %v", err)
		}
		rts = append(rts, lt)
	}
	for _, o := range c.outList() {
		lt, _ := gc.leanType(o.Type())
		rts = append(rts, lt)
	}
	rt := saTupleType(rts)
	if c.monadic {
		rt = "Res " + rt
	}
	if c.recursive {
		c.self = c.lean + ".rec_"
		c.used["fuel"] = true
	}
	body, err := c.block(c.decl.Body.List, func() ([]string, error) {
		if c.sig.Results().Len() != 0 {
			return nil, c.errf(c.decl, "missing return")
		}
		return []string{c.resultTuple(nil)}, nil
	})
	if err != nil {
		return "", err
	}
	body = append(named, body...)
	var b strings.Builder
	for _, a := range c.aux {
		b.WriteString(a)
		b.WriteString("\n")
	}
	file := filepath.Join("src", filepath.FromSlash(c.t.pkg), c.t.file)
	if c.recursive {
		if c.recv != nil {
			return "", c.errf(c.decl, "recursive method")
		}
		if c.fuelParam == nil {
			return "", c.errf(c.decl, "recursion without an integer parameter that every self-call passes as p - 1")
		}
		var names []string
		for i := 0; i < c.sig.Params().Len(); i++ {
			names = append(names, c.name(c.sig.Params().At(i)))
		}
		fmt.Fprintf(&b, "/-- the recursion of %s on fuel; fuel = calls left + 1 -/\n", c.t.fn)
		fmt.Fprintf(&b, "def %s : Nat → %s → %s\n", c.self, strings.Join(ptypes, " → "), rt)
		fmt.Fprintf(&b, "  | 0%s => .error .hang\n", strings.Repeat(", _", len(names)))
		fmt.Fprintf(&b, "  | fuel + 1, %s =>\n", strings.Join(names, ", "))
		for _, l := range body {
			b.WriteString("    " + l + "\n")
		}
		fmt.Fprintf(&b, "\n/-- %s func %s (fuel: %s + 1 nested calls) -/\n", file, c.t.fn, c.fuelParam.Name())
		fmt.Fprintf(&b, "def %s %s : %s :=\n  %s (%s.toNat + 1) %s\n", c.lean, strings.Join(params, " "), rt, c.self, c.name(c.fuelParam), strings.Join(names, " "))
		return b.String(), nil
	}
	fmt.Fprintf(&b, "/-- %s func %s -/\n", file, c.t.fn)
	fmt.Fprintf(&b, "def %s %s: %s :=\n", c.lean, strings.Join(append(params, ""), " "), rt)
	for _, l := range body {
		b.WriteString("  " + l + "\n")
	}
	return b.String(), nil
}

// findFuelParam: the first integer parameter p that every self-call passes as `p - 1`
func (c *saFn) findFuelParam() *types.Var {
	for i := 0; i < c.sig.Params().Len(); i++ {
		p := c.sig.Params().At(i)
		if !saKindOf(p.Type()).integer() {
			continue
		}
		all, any := true, false
		ast.Inspect(c.decl.Body, func(n ast.Node) bool {
			call, ok := n.(*ast.CallExpr)
			if !ok {
				return true
			}
			if f, _, _ := c.callee(call); f != c {
				return true
			}
			any = true
			good := false
			if i < len(call.Args) {
				if be, ok := call.Args[i].(*ast.BinaryExpr); ok && be.Op == token.SUB {
					if id, ok := be.X.(*ast.Ident); ok && c.info().ObjectOf(id) == p {
						if v, ok := constantToInt64(c.info().Types[be.Y]); ok && v == 1 {
							good = true
						}
					}
				}
			}
			if !good {
				all = false
			}
			return true
		})
		w := c.written([]ast.Node{c.decl.Body})
		if all && any && !w[p] {
			return p
		}
	}
	return nil
}

func genSaGroup(ld *puLoader, g *saGroup) (string, *saCtx, error) {
	gc := &saCtx{g: g, ld: ld, byObj: map[*types.Func]*saFn{}, sdone: map[*types.TypeName]bool{}, tname: map[*types.Var]string{},
		extStruct: map[*types.TypeName]string{}}
	type tgt struct {
		puTarget
		ns string
	}
	var targets []tgt
	for _, ig := range g.imports {
		_, igc, err := genSaGroup(ld, ig)
		if err != nil {
			return "", nil, err
		}
		for tn := range igc.sdone {
			gc.extStruct[tn] = ig.ns + "." + puLeanIdent(tn.Name())
		}
		for _, t := range ig.targets {
			targets = append(targets, tgt{t, ig.ns})
		}
	}
	for _, t := range g.targets {
		targets = append(targets, tgt{t, ""})
	}
	for _, tt := range targets {
		t := tt.puTarget
		p, err := ld.load(t.pkg)
		if err != nil {
			return "", nil, err
		}
		fd, err := puFindFunc(p, t)
		if err != nil {
			return "", nil, err
		}
		obj, _ := p.info.Defs[fd.Name].(*types.Func)
		if obj == nil {
			return "", nil, fail("%s: no type information for func %s", filepath.Join(p.dir, t.file), t.fn)
		}
		for _, te := range p.errs {
			if te.Pos >= fd.Pos() && te.Pos <= fd.End() {
				return "", nil, fail("%s: %s: type error: %s", ld.fset.Position(te.Pos), t.fn, te.Msg)
			}
		}
		c := &saFn{t: t, grp: gc, pkg: p, decl: fd, obj: obj, lean: t.fn, names: map[types.Object]string{}, used: map[string]bool{},
			outs: map[*types.Var]bool{}, sig: obj.Type().(*types.Signature)}
		if tt.ns != "" {
			c.extern, c.lean = true, tt.ns+"."+t.fn
		}
		if c.sig.Variadic() || c.sig.TypeParams() != nil {
			return "", nil, c.errf(fd, "variadic / generic function")
		}
		if r := c.sig.Recv(); r != nil {
			if saKindOf(r.Type()) != saPtr {
				return "", nil, c.errf(fd, "value receiver")
			}
			if r.Name() == "" || r.Name() == "_" {
				return "", nil, c.errf(fd, "unnamed receiver")
			}
			c.recv = r
		}
		gc.fns = append(gc.fns, c)
		gc.byObj[obj] = c
	}
	for changed := true; changed; {
		changed = false
		for _, c := range gc.fns {
			m, mo, rec, outs := c.facts()
			same := m == c.mutRecv && mo == c.monadic && rec == c.recursive && len(outs) == len(c.outs)
			for v := range outs {
				if !c.outs[v] {
					same = false
				}
			}
			if !same {
				c.mutRecv, c.monadic, c.recursive, c.outs = m, mo, rec, outs
				changed = true
			}
		}
	}
	var defs []string
	for _, c := range gc.fns {
		if c.extern {
			continue
		}
		if c.recursive {
			c.fuelParam = c.findFuelParam()
		}
		d, err := c.translate()
		if err != nil {
			return "", nil, err
		}
		defs = append(defs, d)
	}
	var b strings.Builder
	fmt.Fprintf(&b, "-- GENERATED by `gen %s` from /repo's working tree (harness/cmd/gen/pure_secalg.go). Do not edit.\n", g.name)
	b.WriteString("import Stgutg.Gen.PureRtSec\n")
	for _, ig := range g.imports {
		fmt.Fprintf(&b, "import Stgutg.Gen.Pure%s\n", ig.ns)
	}
	fmt.Fprintf(&b, "namespace Stgutg.Gen.Pure.%s\nopen Stgutg Stgutg.Gen\nset_option linter.unusedVariables false\n\n", g.ns)
	for _, s := range gc.structs {
		b.WriteString(s)
		b.WriteString("\n")
	}
	for _, s := range gc.tables {
		b.WriteString(s)
		b.WriteString("\n")
	}
	for _, d := range defs {
		b.WriteString(d)
		b.WriteString("\n")
	}
	fmt.Fprintf(&b, "end Stgutg.Gen.Pure.%s\n", g.ns)
	return b.String(), gc, nil
}
