package main

import (
	"bytes"
	"fmt"
	"go/ast"
	"go/parser"
	"go/printer"
	"go/token"
	"os"
	"path/filepath"
	"sort"
	"strconv"
	"strings"
)

// nasie: the IE struct shapes of src/free5gclib/nas/nasType/NAS_*.go.
//
// Grammar (anything else fails closed, naming file:line):
//   type X struct { [Iei uint8] [Len uint8|uint16] [Octet uint8 | Octet [N]uint8 | Buffer []uint8] }
//   func NewX(iei uint8) (x *X) { x = &X{}; [x.SetIei(iei);] return x }     |  func NewX() (x *X) { x = &X{}; return x }
//   func (a *X) GetIei() (iei uint8)  { return a.Iei }              | { return a.Octet & GetBitMask(8, 4) >> (4) }
//   func (a *X) SetIei(iei uint8)     { a.Iei = iei }               | { a.Octet = (a.Octet & 15) + ((iei & 15) << 4) }
//   func (a *X) GetLen() (len uintN)  { return a.Len }
//   func (a *X) SetLen(len uintN)     { a.Len = len [; a.Buffer = make([]uint8, a.Len)] }
// with the consistency rules: an `Iei` field <=> field-style GetIei/SetIei; a `Len` field <=> GetLen/SetLen of the
// same width; SetLen allocates <=> the body is `Buffer`.  All other methods are bit-field accessors; they are read
// by `nassetters` (C09 constructors), not here.

type ieShape struct {
	name       string
	hasIei     bool
	lenW       int
	body       string // "none" | "octet" | "arr" | "buf"
	n          int
	newSetsIei bool
	newNoArg   bool
	hasNew     bool
	ieiNibble  bool
	pos        token.Position
}

func (s ieShape) lean() string {
	body := "." + s.body
	if s.body == "arr" {
		body = fmt.Sprintf("(.arr %d)", s.n)
	}
	return fmt.Sprintf("⟨%v, %d, %s, %v, %v⟩", s.hasIei, s.lenW, body, s.newSetsIei, s.ieiNibble)
}

func src(fset *token.FileSet, n ast.Node) string {
	var b bytes.Buffer
	printer.Fprint(&b, fset, n)
	return strings.Join(strings.Fields(b.String()), " ")
}

// fieldList prints a parameter/result list as "(a T, b U)"; nil → "".
func fieldList(fset *token.FileSet, fl *ast.FieldList) string {
	if fl == nil {
		return ""
	}
	var parts []string
	for _, f := range fl.List {
		t := src(fset, f.Type)
		if len(f.Names) == 0 {
			parts = append(parts, t)
			continue
		}
		var ns []string
		for _, n := range f.Names {
			ns = append(ns, n.Name)
		}
		parts = append(parts, strings.Join(ns, ", ")+" "+t)
	}
	return "(" + strings.Join(parts, ", ") + ")"
}

func nasTypeDir() string { return filepath.Join(repo, "src/free5gclib/nas/nasType") }

func parseIEShapes() (map[string]*ieShape, []string, error) {
	dir := nasTypeDir()
	ents, err := os.ReadDir(dir)
	if err != nil {
		return nil, nil, err
	}
	shapes := map[string]*ieShape{}
	var order []string
	type methods struct {
		getIei, setIei, getLen, setLen string
		getLenT, setLenT               string
	}
	meth := map[string]*methods{}
	fset := token.NewFileSet()
	var files []*ast.File
	for _, e := range ents {
		n := e.Name()
		if !strings.HasPrefix(n, "NAS_") || !strings.HasSuffix(n, ".go") || strings.HasSuffix(n, "_test.go") {
			continue
		}
		f, err := parser.ParseFile(fset, filepath.Join(dir, n), nil, 0)
		if err != nil {
			return nil, nil, err
		}
		files = append(files, f)
	}
	// pass 1: struct declarations
	for _, f := range files {
		for _, d := range f.Decls {
			gd, ok := d.(*ast.GenDecl)
			if !ok || gd.Tok != token.TYPE {
				continue
			}
			for _, sp := range gd.Specs {
				ts := sp.(*ast.TypeSpec)
				st, ok := ts.Type.(*ast.StructType)
				if !ok {
					return nil, nil, fail("%s: type %s is not a struct", fset.Position(ts.Pos()), ts.Name.Name)
				}
				s := &ieShape{name: ts.Name.Name, body: "none", pos: fset.Position(ts.Pos())}
				stage := 0 // Iei < Len < body, each at most once, in this order
				for _, fl := range st.Fields.List {
					if len(fl.Names) != 1 {
						return nil, nil, fail("%s: %s: field list not of the form `Name Type`", fset.Position(fl.Pos()), s.name)
					}
					fn, ft := fl.Names[0].Name, src(fset, fl.Type)
					switch {
					case fn == "Iei" && ft == "uint8" && stage < 1:
						s.hasIei, stage = true, 1
					case fn == "Len" && ft == "uint8" && stage < 2:
						s.lenW, stage = 1, 2
					case fn == "Len" && ft == "uint16" && stage < 2:
						s.lenW, stage = 2, 2
					case fn == "Octet" && ft == "uint8" && stage < 3:
						s.body, stage = "octet", 3
					case fn == "Buffer" && ft == "[]uint8" && stage < 3:
						s.body, stage = "buf", 3
					case fn == "Octet" && strings.HasPrefix(ft, "[") && strings.HasSuffix(ft, "]uint8") && stage < 3:
						n, err := strconv.Atoi(ft[1 : len(ft)-len("]uint8")])
						if err != nil || n < 1 {
							return nil, nil, fail("%s: %s: array length %q", fset.Position(fl.Pos()), s.name, ft)
						}
						s.body, s.n, stage = "arr", n, 3
					default:
						return nil, nil, fail("%s: %s: unrecognised field `%s %s`", fset.Position(fl.Pos()), s.name, fn, ft)
					}
				}
				if _, dup := shapes[s.name]; dup {
					return nil, nil, fail("%s: type %s declared twice", s.pos, s.name)
				}
				shapes[s.name] = s
				meth[s.name] = &methods{}
				order = append(order, s.name)
			}
		}
	}
	// pass 2: constructors and the four structural methods
	for _, f := range files {
		for _, d := range f.Decls {
			fd, ok := d.(*ast.FuncDecl)
			if !ok {
				continue
			}
			pos := fset.Position(fd.Pos())
			body := src(fset, fd.Body)
			if fd.Recv == nil {
				if !strings.HasPrefix(fd.Name.Name, "New") {
					return nil, nil, fail("%s: unexpected function %s", pos, fd.Name.Name)
				}
				tn := strings.TrimPrefix(fd.Name.Name, "New")
				s, ok := shapes[tn]
				if !ok {
					return nil, nil, fail("%s: %s constructs an unknown type", pos, fd.Name.Name)
				}
				if fd.Type.Results == nil || len(fd.Type.Results.List) != 1 || len(fd.Type.Results.List[0].Names) != 1 ||
					src(fset, fd.Type.Results.List[0].Type) != "*"+tn {
					return nil, nil, fail("%s: %s: result is not a named *%s", pos, fd.Name.Name, tn)
				}
				r := fd.Type.Results.List[0].Names[0].Name
				params := fieldList(fset, fd.Type.Params)
				switch {
				case params == "(iei uint8)" && body == fmt.Sprintf("{ %s = &%s{} %s.SetIei(iei) return %s }", r, tn, r, r):
					s.newSetsIei = true
				case params == "(iei uint8)" && body == fmt.Sprintf("{ %s = &%s{} return %s }", r, tn, r):
				case params == "()" && body == fmt.Sprintf("{ %s = &%s{} return %s }", r, tn, r):
					s.newNoArg = true
				default:
					return nil, nil, fail("%s: %s: unrecognised constructor %s %s", pos, fd.Name.Name, params, body)
				}
				s.hasNew = true
				continue
			}
			if len(fd.Recv.List) != 1 || len(fd.Recv.List[0].Names) != 1 || fd.Recv.List[0].Names[0].Name != "a" {
				return nil, nil, fail("%s: method %s: receiver is not `a`", pos, fd.Name.Name)
			}
			rt := src(fset, fd.Recv.List[0].Type)
			tn := strings.TrimPrefix(rt, "*")
			m, ok := meth[tn]
			if !ok || !strings.HasPrefix(rt, "*") {
				return nil, nil, fail("%s: method %s on %s", pos, fd.Name.Name, rt)
			}
			sig := fieldList(fset, fd.Type.Params)
			res := fieldList(fset, fd.Type.Results)
			switch fd.Name.Name {
			case "GetIei":
				if sig != "()" || res != "(iei uint8)" {
					return nil, nil, fail("%s: %s.GetIei signature %s %s", pos, tn, sig, res)
				}
				switch body {
				case "{ return a.Iei }":
					m.getIei = "field"
				case "{ return a.Octet & GetBitMask(8, 4) >> (4) }":
					m.getIei = "nibble"
				default:
					return nil, nil, fail("%s: %s.GetIei: unrecognised body %s", pos, tn, body)
				}
			case "SetIei":
				if sig != "(iei uint8)" || res != "" {
					return nil, nil, fail("%s: %s.SetIei signature %s %s", pos, tn, sig, res)
				}
				switch body {
				case "{ a.Iei = iei }":
					m.setIei = "field"
				case "{ a.Octet = (a.Octet & 15) + ((iei & 15) << 4) }":
					m.setIei = "nibble"
				default:
					return nil, nil, fail("%s: %s.SetIei: unrecognised body %s", pos, tn, body)
				}
			case "GetLen":
				if sig != "()" || (res != "(len uint8)" && res != "(len uint16)") || body != "{ return a.Len }" {
					return nil, nil, fail("%s: %s.GetLen: unrecognised %s %s %s", pos, tn, sig, res, body)
				}
				m.getLen, m.getLenT = "field", strings.TrimSuffix(strings.TrimPrefix(res, "(len "), ")")
			case "SetLen":
				if (sig != "(len uint8)" && sig != "(len uint16)") || res != "" {
					return nil, nil, fail("%s: %s.SetLen signature %s %s", pos, tn, sig, res)
				}
				switch body {
				case "{ a.Len = len }":
					m.setLen = "plain"
				case "{ a.Len = len a.Buffer = make([]uint8, a.Len) }":
					m.setLen = "alloc"
				default:
					return nil, nil, fail("%s: %s.SetLen: unrecognised body %s", pos, tn, body)
				}
				m.setLenT = strings.TrimSuffix(strings.TrimPrefix(sig, "(len "), ")")
			}
		}
	}
	// consistency rules
	for _, n := range order {
		s, m := shapes[n], meth[n]
		lenT := map[int]string{0: "", 1: "uint8", 2: "uint16"}[s.lenW]
		switch {
		case s.hasIei && (m.getIei != "field" || m.setIei != "field"):
			return nil, nil, fail("%s: %s has an Iei field but GetIei/SetIei are %q/%q", s.pos, n, m.getIei, m.setIei)
		case !s.hasIei && (m.getIei == "field" || m.setIei == "field"):
			return nil, nil, fail("%s: %s has no Iei field but field-style GetIei/SetIei", s.pos, n)
		case !s.hasIei && m.getIei != m.setIei:
			return nil, nil, fail("%s: %s: GetIei %q vs SetIei %q", s.pos, n, m.getIei, m.setIei)
		case m.setIei == "nibble" && s.body != "octet":
			return nil, nil, fail("%s: %s: nibble SetIei on a shape without `Octet uint8`", s.pos, n)
		case s.lenW > 0 && (m.getLen != "field" || m.getLenT != lenT || m.setLenT != lenT || m.setLen == ""):
			return nil, nil, fail("%s: %s has Len %s but GetLen/SetLen are %q %s / %q %s", s.pos, n, lenT, m.getLen, m.getLenT, m.setLen, m.setLenT)
		case s.lenW == 0 && (m.getLen != "" || m.setLen != ""):
			return nil, nil, fail("%s: %s has no Len field but GetLen/SetLen", s.pos, n)
		case s.lenW > 0 && (m.setLen == "alloc") != (s.body == "buf"):
			return nil, nil, fail("%s: %s: SetLen allocation %q does not match body %s", s.pos, n, m.setLen, s.body)
		case s.body == "buf" && s.lenW == 0:
			return nil, nil, fail("%s: %s: Buffer without Len", s.pos, n)
		case s.newSetsIei && m.setIei == "":
			return nil, nil, fail("%s: New%s calls a SetIei that does not exist", s.pos, n)
		}
		s.ieiNibble = m.setIei == "nibble"
	}
	sort.Strings(order)
	return shapes, order, nil
}

func leanIdent(s string) string {
	var b strings.Builder
	for _, r := range s {
		if r == '_' || (r >= '0' && r <= '9') || (r >= 'a' && r <= 'z') || (r >= 'A' && r <= 'Z') {
			b.WriteRune(r)
		} else {
			b.WriteRune('_')
		}
	}
	return b.String()
}

func init() {
	register("nasie", func() error {
		_, _, err := parseIEShapes()
		return err // the shapes are written into Gen/NasLayouts.lean by `naslayout`
	})
}
