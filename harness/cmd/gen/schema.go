package main

import (
	"fmt"
	"go/ast"
	"go/parser"
	"go/token"
	"os"
	"path/filepath"
	"reflect"
	"sort"
	"strconv"
	"strings"
	"verifharness/internal/tags"
)

// schema: every `type X struct { F T `aper:"…"` … }` of src/free5gclib/ngap/ngapType → Lean `StructDef`s
// in topological order (a struct only mentions structs with a smaller index), plus the top-level
// parameter strings that ngap.Encoder / ngap.Decoder pass to aper.
//
// Input grammar (anything else fails closed with file:line):
//
//	field      := Name Type [`tag`]           exactly one name per field
//	Type       := Ident | "*" Type | "[]" Type | "aper." Ident
//	Ident      := int | int64 | int32 | string | bool | <struct type declared in the package>
//	aper.Ident := BitString | OctetString | Enumerated | ObjectIdentifier
//
// The `aper:"…"` tag is parsed exactly as aper/common.go parseFieldParameters does (re-implemented
// here because that function is unexported; the correspondence run cross-checks it).
func init() { register("schema", genSchema) }

type sField struct {
	name string
	tag  string
	ty   string // Lean Ty term with struct names still symbolic: S<name>
	deps []string
}

type sStruct struct {
	name   string
	fields []sField
	pos    string
}

func leanTy(fset *token.FileSet, e ast.Expr, structs map[string]bool, deps *[]string) (string, error) {
	switch t := e.(type) {
	case *ast.Ident:
		switch t.Name {
		case "int", "int64", "int32":
			return ".int", nil
		case "string":
			return ".str", nil
		case "bool":
			return ".bool", nil
		}
		if structs[t.Name] {
			*deps = append(*deps, t.Name)
			return "(.struct §" + t.Name + "§)", nil
		}
		return "", fail("%s: unknown type %s", fset.Position(e.Pos()), t.Name)
	case *ast.StarExpr:
		in, err := leanTy(fset, t.X, structs, deps)
		if err != nil {
			return "", err
		}
		return "(.ptr " + in + ")", nil
	case *ast.ArrayType:
		if t.Len != nil {
			return "", fail("%s: fixed-size array type", fset.Position(e.Pos()))
		}
		in, err := leanTy(fset, t.Elt, structs, deps)
		if err != nil {
			return "", err
		}
		return "(.slice " + in + ")", nil
	case *ast.SelectorExpr:
		pk, ok := t.X.(*ast.Ident)
		if !ok || pk.Name != "aper" {
			return "", fail("%s: unsupported qualified type", fset.Position(e.Pos()))
		}
		switch t.Sel.Name {
		case "BitString":
			return ".bits", nil
		case "OctetString":
			return ".octs", nil
		case "Enumerated":
			return ".enum", nil
		case "ObjectIdentifier":
			return ".oid", nil
		}
		return "", fail("%s: unknown aper type %s", fset.Position(e.Pos()), t.Sel.Name)
	}
	return "", fail("%s: unsupported type expression %T", fset.Position(e.Pos()), e)
}

// leanParams renders the tag as parsed by internal/tags (a re-implementation of aper.parseFieldParameters).
func leanParams(tag string) string { return tags.Parse(tag).Lean() }

func parseStructs(dir string) ([]*sStruct, error) {
	fset := token.NewFileSet()
	files, err := filepath.Glob(filepath.Join(dir, "*.go"))
	if err != nil {
		return nil, err
	}
	sort.Strings(files)
	type raw struct {
		name string
		st   *ast.StructType
	}
	var raws []raw
	structs := map[string]bool{}
	for _, fn := range files {
		if strings.HasSuffix(fn, "_test.go") {
			continue
		}
		f, err := parser.ParseFile(fset, fn, nil, 0)
		if err != nil {
			return nil, err
		}
		for _, d := range f.Decls {
			gd, ok := d.(*ast.GenDecl)
			if !ok || gd.Tok != token.TYPE {
				continue
			}
			for _, s := range gd.Specs {
				ts := s.(*ast.TypeSpec)
				st, ok := ts.Type.(*ast.StructType)
				if !ok {
					return nil, fail("%s: type %s is not a struct (the schema translator only knows struct types)", fset.Position(ts.Pos()), ts.Name.Name)
				}
				if structs[ts.Name.Name] {
					return nil, fail("%s: duplicate type %s", fset.Position(ts.Pos()), ts.Name.Name)
				}
				structs[ts.Name.Name] = true
				raws = append(raws, raw{ts.Name.Name, st})
			}
		}
	}
	var out []*sStruct
	for _, r := range raws {
		s := &sStruct{name: r.name, pos: fset.Position(r.st.Pos()).String()}
		for _, fl := range r.st.Fields.List {
			if len(fl.Names) != 1 {
				return nil, fail("%s: field with %d names", fset.Position(fl.Pos()), len(fl.Names))
			}
			if !fl.Names[0].IsExported() {
				return nil, fail("%s: unexported field %s", fset.Position(fl.Pos()), fl.Names[0].Name)
			}
			var deps []string
			ty, err := leanTy(fset, fl.Type, structs, &deps)
			if err != nil {
				return nil, err
			}
			tag := ""
			if fl.Tag != nil {
				unq, err := strconv.Unquote(fl.Tag.Value)
				if err != nil {
					return nil, fail("%s: bad tag literal", fset.Position(fl.Pos()))
				}
				tag = reflect.StructTag(unq).Get("aper")
			}
			s.fields = append(s.fields, sField{name: fl.Names[0].Name, tag: tag, ty: ty, deps: deps})
		}
		out = append(out, s)
	}
	return out, nil
}

func topoSort(ss []*sStruct) ([]*sStruct, error) {
	byName := map[string]*sStruct{}
	for _, s := range ss {
		byName[s.name] = s
	}
	state := map[string]int{}
	var order []*sStruct
	var visit func(s *sStruct, stack []string) error
	visit = func(s *sStruct, stack []string) error {
		switch state[s.name] {
		case 2:
			return nil
		case 1:
			return fail("%s: recursive type cycle through %s (%v): the schema model needs an acyclic type graph", s.pos, s.name, stack)
		}
		state[s.name] = 1
		for _, f := range s.fields {
			for _, d := range f.deps {
				if err := visit(byName[d], append(stack, s.name)); err != nil {
					return err
				}
			}
		}
		state[s.name] = 2
		order = append(order, s)
		return nil
	}
	names := make([]string, 0, len(ss))
	for _, s := range ss {
		names = append(names, s.name)
	}
	sort.Strings(names)
	for _, n := range names {
		if err := visit(byName[n], nil); err != nil {
			return nil, err
		}
	}
	return order, nil
}

// stringArgsOf finds, in ngap.go, the string literal passed as the last argument of aper.<fn>.
func topParams(file string, fn string) (string, error) {
	fset := token.NewFileSet()
	f, err := parser.ParseFile(fset, file, nil, 0)
	if err != nil {
		return "", err
	}
	found := ""
	n := 0
	ast.Inspect(f, func(nd ast.Node) bool {
		ce, ok := nd.(*ast.CallExpr)
		if !ok {
			return true
		}
		se, ok := ce.Fun.(*ast.SelectorExpr)
		if !ok || se.Sel.Name != fn {
			return true
		}
		if pk, ok := se.X.(*ast.Ident); !ok || pk.Name != "aper" {
			return true
		}
		if len(ce.Args) == 0 {
			return true
		}
		bl, ok := ce.Args[len(ce.Args)-1].(*ast.BasicLit)
		if !ok || bl.Kind != token.STRING {
			return true
		}
		s, err := strconv.Unquote(bl.Value)
		if err == nil {
			found = s
			n++
		}
		return true
	})
	if n != 1 {
		return "", fail("%s: expected exactly one aper.%s call with a literal parameter string, found %d", file, fn, n)
	}
	return found, nil
}

func genSchema() error {
	ss, err := parseStructs(filepath.Join(repo, "src/free5gclib/ngap/ngapType"))
	if err != nil {
		return err
	}
	order, err := topoSort(ss)
	if err != nil {
		return err
	}
	idx := map[string]int{}
	for i, s := range order {
		idx[s.name] = i
	}
	const chunk = 100
	nChunks := (len(order) + chunk - 1) / chunk
	for c := 0; c < nChunks; c++ {
		var b strings.Builder
		b.WriteString("-- GENERATED by `gen schema` from src/free5gclib/ngap/ngapType/*.go. Do not edit.\n")
		b.WriteString("import Stgutg.Model.AperTypes\nnamespace Stgutg.Gen.Ngap\nopen Stgutg.Aper\n\n")
		fmt.Fprintf(&b, "def schema%d : List StructDef := [\n", c)
		lo, hi := c*chunk, (c+1)*chunk
		if hi > len(order) {
			hi = len(order)
		}
		for i := lo; i < hi; i++ {
			s := order[i]
			fmt.Fprintf(&b, "  ⟨%q, [", s.name)
			for j, f := range s.fields {
				if j > 0 {
					b.WriteString(",")
				}
				ty := f.ty
				for _, d := range f.deps {
					ty = strings.Replace(ty, "§"+d+"§", strconv.Itoa(idx[d]), 1)
				}
				fmt.Fprintf(&b, "\n    ⟨%q, %s, %s⟩", f.name, leanParams(f.tag), ty)
			}
			b.WriteString("]⟩")
			if i+1 < hi {
				b.WriteString(",")
			}
			fmt.Fprintf(&b, " -- %d\n", i)
		}
		b.WriteString("]\n\nend Stgutg.Gen.Ngap\n")
		if err := writeIfChanged(fmt.Sprintf("NgapSchema%d.lean", c), b.String()); err != nil {
			return err
		}
	}
	// remove stale chunk files
	for c := nChunks; ; c++ {
		p := filepath.Join(outDir, fmt.Sprintf("NgapSchema%d.lean", c))
		if _, err := os.Stat(p); err != nil {
			break
		}
		os.Remove(p)
	}
	enc, err := topParams(filepath.Join(repo, "src/free5gclib/ngap/ngap.go"), "MarshalWithParams")
	if err != nil {
		return err
	}
	dec, err := topParams(filepath.Join(repo, "src/free5gclib/ngap/ngap.go"), "UnmarshalWithParams")
	if err != nil {
		return err
	}
	var b strings.Builder
	b.WriteString("-- GENERATED by `gen schema`. Do not edit.\n")
	for c := 0; c < nChunks; c++ {
		fmt.Fprintf(&b, "import Stgutg.Gen.NgapSchema%d\n", c)
	}
	b.WriteString("namespace Stgutg.Gen.Ngap\nopen Stgutg.Aper\n\n")
	b.WriteString("def schema : List StructDef :=\n  ")
	for c := 0; c < nChunks; c++ {
		if c > 0 {
			b.WriteString(" ++ ")
		}
		fmt.Fprintf(&b, "schema%d", c)
	}
	b.WriteString("\n\n")
	fmt.Fprintf(&b, "/-- index of `NGAPPDU` in `schema` -/\ndef pduId : Nat := %d\n\n", idx["NGAPPDU"])
	fmt.Fprintf(&b, "/-- the parameter string ngap.Encoder passes to aper.MarshalWithParams -/\ndef encoderParams : Params := %s\n", leanParams(enc))
	fmt.Fprintf(&b, "/-- the parameter string ngap.Decoder passes to aper.UnmarshalWithParams -/\ndef decoderParams : Params := %s\n\n", leanParams(dec))
	b.WriteString("end Stgutg.Gen.Ngap\n")
	return writeIfChanged("NgapSchema.lean", b.String())
}
