package main

import (
	"fmt"
	"go/ast"
	"go/parser"
	"go/token"
	"os"
	"path/filepath"
	"regexp"
	"sort"
	"strconv"
	"strings"
)

// naslayout: the 45 generated codecs src/free5gclib/nas/nasMessage/NAS_<Msg>.go and the message-type dispatch of
// src/free5gclib/nas/nas.go  →  lean/Stgutg/Gen/NasLayouts.lean.
//
// Grammar of NAS_<Msg>.go (anything else fails closed, naming file:line):
//   type <Msg> struct { nasType.T … ; *nasType.T … }                    embedded only
//   func New<Msg>(iei uint8) (x *<Msg>) { x = &<Msg>{}; return x }
//   const ( <Msg><T>Type uint8 = 0x.. … )
//   func (a *<Msg>) Encode<Msg>(buffer *bytes.Buffer) { W* ( if a.T != nil { W+ } )* }
//       W ::= binary.Write(buffer, binary.BigEndian, ARG)
//         | logger.NasMsgLog.Infoln("<string literal>")        (logging of a constant; no effect on the bytes; skipped)
//       ARG ::= &a.T.Octet | a.T.GetIei() | a.T.GetLen() | &a.T.Buffer | a.T.Octet[:a.T.GetLen()] | &a.T
//   func (a *<Msg>) Decode<Msg>(byteArray *[]byte) {
//       buffer := bytes.NewBuffer(*byteArray)
//       R*
//       for buffer.Len() > 0 { var ieiN uint8; var tmpIeiN uint8; binary.Read(buffer, binary.BigEndian, &ieiN)
//           if ieiN >= 0x80 { tmpIeiN = (ieiN & 0xf0) >> 4 } else { tmpIeiN = ieiN }
//           switch tmpIeiN { (case <Const>: a.T = nasType.NewT(ieiN) (a.T.Octet = ieiN | R)* )* default: } } }
//       R ::= binary.Read(buffer, binary.BigEndian, RARG)      ( `&a.T.Len` must be followed by `a.T.SetLen(a.T.GetLen())` )
//       RARG ::= &a.T.Octet | &a.T.Len | &a.T.Buffer | a.T.Buffer[:a.T.GetLen()] | a.T.Octet[:a.T.GetLen()] | &a.T
// Grammar of nas.go: see parseDispatch.

func init() { register("naslayout", genNasLayout) }

type nlField struct {
	name string
	ptr  bool
}
type nlGroup struct {
	field int
	ops   []string
}
type nlCase struct {
	iei   uint64
	field int
	ops   []string
}
type nlLayout struct {
	name    string
	file    string
	fields  []nlField
	encMand []nlGroup
	encOpt  []nlGroup
	decMand []nlGroup
	cases   []nlCase
	consts  map[string]uint64
}

var (
	reWrite = regexp.MustCompile(`^binary\.Write\(buffer, binary\.BigEndian, (.*)\)$`)
	reRead  = regexp.MustCompile(`^binary\.Read\(buffer, binary\.BigEndian, (.*)\)$`)
	reIdent = `([A-Za-z_][A-Za-z0-9_]*)`
	wArgs   = []struct {
		re *regexp.Regexp
		op string
	}{
		{regexp.MustCompile(`^&a\.` + reIdent + `\.Octet$`), "octet"},
		{regexp.MustCompile(`^a\.` + reIdent + `\.GetIei\(\)$`), "iei"},
		{regexp.MustCompile(`^a\.` + reIdent + `\.GetLen\(\)$`), "len"},
		{regexp.MustCompile(`^&a\.` + reIdent + `\.Buffer$`), "buf"},
		{regexp.MustCompile(`^a\.` + reIdent + `\.Octet\[:a\.` + reIdent + `\.GetLen\(\)\]$`), "octetLen"},
		{regexp.MustCompile(`^&a\.` + reIdent + `$`), "raw"},
	}
	rArgs = []struct {
		re *regexp.Regexp
		op string
	}{
		{regexp.MustCompile(`^&a\.` + reIdent + `\.Octet$`), "octet"},
		{regexp.MustCompile(`^&a\.` + reIdent + `\.Len$`), "lenSet"},
		{regexp.MustCompile(`^&a\.` + reIdent + `\.Buffer$`), "bufPtr"},
		{regexp.MustCompile(`^a\.` + reIdent + `\.Buffer\[:a\.` + reIdent + `\.GetLen\(\)\]$`), "bufLen"},
		{regexp.MustCompile(`^a\.` + reIdent + `\.Octet\[:a\.` + reIdent + `\.GetLen\(\)\]$`), "octetLen"},
		{regexp.MustCompile(`^&a\.` + reIdent + `$`), "raw"},
	}
	reNew      = regexp.MustCompile(`^a\.` + reIdent + ` = nasType\.New` + reIdent + `\(ieiN\)$`)
	reSetOctet = regexp.MustCompile(`^a\.` + reIdent + `\.Octet = ieiN$`)
	reSetLen   = regexp.MustCompile(`^a\.` + reIdent + `\.SetLen\(a\.` + reIdent + `\.GetLen\(\)\)$`)
	reLogConst = regexp.MustCompile(`^logger\.NasMsgLog\.(Infoln|Debugln|Traceln|Warnln)\("[^"\\]*"\)$`)
	reNotNil   = regexp.MustCompile(`^a\.` + reIdent + ` != nil$`)
)

// classify one `binary.Write` / `binary.Read` statement: returns (field name, op)
func classify(fset *token.FileSet, st ast.Stmt, write bool) (string, string, error) {
	es, ok := st.(*ast.ExprStmt)
	if !ok {
		return "", "", fail("%s: expected a binary.%s call, found %s", fset.Position(st.Pos()), map[bool]string{true: "Write", false: "Read"}[write], src(fset, st))
	}
	text := src(fset, es)
	re, args := reRead, rArgs
	if write {
		re, args = reWrite, wArgs
	}
	m := re.FindStringSubmatch(text)
	if m == nil {
		return "", "", fail("%s: unrecognised statement %s", fset.Position(st.Pos()), text)
	}
	for _, a := range args {
		if mm := a.re.FindStringSubmatch(m[1]); mm != nil {
			if len(mm) == 3 && mm[1] != mm[2] {
				return "", "", fail("%s: slice bound uses another field: %s", fset.Position(st.Pos()), text)
			}
			return mm[1], a.op, nil
		}
	}
	return "", "", fail("%s: unrecognised argument %s", fset.Position(st.Pos()), m[1])
}

// reads parses a statement list of R-statements (pairing `&a.T.Len` with the SetLen call).
func parseReads(fset *token.FileSet, sts []ast.Stmt) ([][2]string, error) {
	var out [][2]string
	for i := 0; i < len(sts); i++ {
		f, op, err := classify(fset, sts[i], false)
		if err != nil {
			return nil, err
		}
		if op == "lenSet" {
			if i+1 >= len(sts) {
				return nil, fail("%s: read of %s.Len is not followed by SetLen", fset.Position(sts[i].Pos()), f)
			}
			m := reSetLen.FindStringSubmatch(src(fset, sts[i+1]))
			if m == nil || m[1] != f || m[2] != f {
				return nil, fail("%s: read of %s.Len is not followed by a.%s.SetLen(a.%s.GetLen())", fset.Position(sts[i+1].Pos()), f, f, f)
			}
			i++
		}
		out = append(out, [2]string{f, op})
	}
	return out, nil
}

func groupOps(l *nlLayout, pos token.Position, pairs [][2]string) ([]nlGroup, error) {
	var out []nlGroup
	for _, p := range pairs {
		fi := l.fieldIndex(p[0])
		if fi < 0 {
			return nil, fail("%s: %s is not a field of %s", pos, p[0], l.name)
		}
		if n := len(out); n > 0 && out[n-1].field == fi {
			out[n-1].ops = append(out[n-1].ops, p[1])
		} else {
			out = append(out, nlGroup{fi, []string{p[1]}})
		}
	}
	return out, nil
}

func (l *nlLayout) fieldIndex(n string) int {
	for i, f := range l.fields {
		if f.name == n {
			return i
		}
	}
	return -1
}

func parseUintLit(fset *token.FileSet, e ast.Expr) (uint64, error) {
	bl, ok := e.(*ast.BasicLit)
	if !ok || bl.Kind != token.INT {
		return 0, fail("%s: not an integer literal: %s", fset.Position(e.Pos()), src(fset, e))
	}
	return strconv.ParseUint(bl.Value, 0, 64)
}

// uint8 constants of a file: `Name uint8 = <int literal>` inside const blocks; other constants are ignored.
func uint8Consts(fset *token.FileSet, f *ast.File, into map[string]uint64) error {
	for _, d := range f.Decls {
		gd, ok := d.(*ast.GenDecl)
		if !ok || gd.Tok != token.CONST {
			continue
		}
		for _, sp := range gd.Specs {
			vs := sp.(*ast.ValueSpec)
			if vs.Type == nil || src(fset, vs.Type) != "uint8" {
				continue
			}
			if len(vs.Names) != 1 || len(vs.Values) != 1 {
				return fail("%s: const spec is not `Name uint8 = literal`", fset.Position(vs.Pos()))
			}
			v, err := parseUintLit(fset, vs.Values[0])
			if err != nil {
				return err
			}
			if v > 255 {
				return fail("%s: uint8 constant %s out of range", fset.Position(vs.Pos()), vs.Names[0].Name)
			}
			if _, dup := into[vs.Names[0].Name]; dup {
				return fail("%s: constant %s declared twice", fset.Position(vs.Pos()), vs.Names[0].Name)
			}
			into[vs.Names[0].Name] = v
		}
	}
	return nil
}

const loopHead = "var ieiN uint8|var tmpIeiN uint8|binary.Read(buffer, binary.BigEndian, &ieiN)|" +
	"if ieiN >= 0x80 { tmpIeiN = (ieiN & 0xf0) >> 4 } else { tmpIeiN = ieiN }"

func parseMessageFile(fset *token.FileSet, path string, shapes map[string]*ieShape) (*nlLayout, error) {
	f, err := parser.ParseFile(fset, path, nil, 0)
	if err != nil {
		return nil, err
	}
	base := filepath.Base(path)
	name := strings.TrimSuffix(strings.TrimPrefix(base, "NAS_"), ".go")
	l := &nlLayout{name: name, file: path, consts: map[string]uint64{}}
	if err := uint8Consts(fset, f, l.consts); err != nil {
		return nil, err
	}
	var enc, dec *ast.FuncDecl
	seenType, seenNew := false, false
	for _, d := range f.Decls {
		switch d := d.(type) {
		case *ast.GenDecl:
			switch d.Tok {
			case token.IMPORT, token.CONST:
			case token.TYPE:
				if len(d.Specs) != 1 || seenType {
					return nil, fail("%s: expected exactly one type declaration", fset.Position(d.Pos()))
				}
				ts := d.Specs[0].(*ast.TypeSpec)
				st, ok := ts.Type.(*ast.StructType)
				if !ok || ts.Name.Name != name {
					return nil, fail("%s: expected `type %s struct`", fset.Position(ts.Pos()), name)
				}
				seenType = true
				for _, fl := range st.Fields.List {
					if len(fl.Names) != 0 {
						return nil, fail("%s: %s: named (non-embedded) field", fset.Position(fl.Pos()), name)
					}
					t := src(fset, fl.Type)
					ptr := strings.HasPrefix(t, "*")
					t = strings.TrimPrefix(t, "*")
					if !strings.HasPrefix(t, "nasType.") {
						return nil, fail("%s: %s: embedded field %s is not a nasType", fset.Position(fl.Pos()), name, t)
					}
					t = strings.TrimPrefix(t, "nasType.")
					if _, ok := shapes[t]; !ok {
						return nil, fail("%s: %s: nasType.%s has no extracted shape", fset.Position(fl.Pos()), name, t)
					}
					if l.fieldIndex(t) >= 0 {
						return nil, fail("%s: %s: field %s embedded twice", fset.Position(fl.Pos()), name, t)
					}
					l.fields = append(l.fields, nlField{t, ptr})
				}
			default:
				return nil, fail("%s: unexpected declaration", fset.Position(d.Pos()))
			}
		case *ast.FuncDecl:
			switch {
			case d.Recv == nil && d.Name.Name == "New"+name:
				r := ""
				if d.Type.Results != nil && len(d.Type.Results.List) == 1 && len(d.Type.Results.List[0].Names) == 1 {
					r = d.Type.Results.List[0].Names[0].Name
				}
				if fieldList(fset, d.Type.Params) != "(iei uint8)" || src(fset, d.Body) != fmt.Sprintf("{ %s = &%s{} return %s }", r, name, r) {
					return nil, fail("%s: unrecognised constructor New%s", fset.Position(d.Pos()), name)
				}
				seenNew = true
			case d.Recv != nil && d.Name.Name == "Encode"+name:
				enc = d
			case d.Recv != nil && d.Name.Name == "Decode"+name:
				dec = d
			default:
				return nil, fail("%s: unexpected function %s", fset.Position(d.Pos()), d.Name.Name)
			}
		}
	}
	if !seenType || !seenNew || enc == nil || dec == nil {
		return nil, fail("%s: type/New/Encode/Decode of %s not all present", path, name)
	}
	recvOK := func(d *ast.FuncDecl, params string) bool {
		return len(d.Recv.List) == 1 && len(d.Recv.List[0].Names) == 1 && d.Recv.List[0].Names[0].Name == "a" &&
			src(fset, d.Recv.List[0].Type) == "*"+name && fieldList(fset, d.Type.Params) == params && d.Type.Results == nil
	}
	if !recvOK(enc, "(buffer *bytes.Buffer)") {
		return nil, fail("%s: Encode%s signature", fset.Position(enc.Pos()), name)
	}
	if !recvOK(dec, "(byteArray *[]byte)") {
		return nil, fail("%s: Decode%s signature", fset.Position(dec.Pos()), name)
	}

	// ---- Encode
	var mand [][2]string
	inOpt := false
	for _, st := range enc.Body.List {
		if ifs, ok := st.(*ast.IfStmt); ok {
			inOpt = true
			m := reNotNil.FindStringSubmatch(src(fset, ifs.Cond))
			if m == nil || ifs.Init != nil || ifs.Else != nil {
				return nil, fail("%s: unrecognised if statement", fset.Position(ifs.Pos()))
			}
			fi := l.fieldIndex(m[1])
			if fi < 0 {
				return nil, fail("%s: %s is not a field of %s", fset.Position(ifs.Pos()), m[1], name)
			}
			g := nlGroup{field: fi}
			for _, s := range ifs.Body.List {
				if reLogConst.MatchString(src(fset, s)) {
					continue
				}
				fn, op, err := classify(fset, s, true)
				if err != nil {
					return nil, err
				}
				if fn != m[1] {
					return nil, fail("%s: write of a.%s inside `if a.%s != nil`", fset.Position(s.Pos()), fn, m[1])
				}
				g.ops = append(g.ops, op)
			}
			if len(g.ops) == 0 {
				return nil, fail("%s: empty optional block", fset.Position(ifs.Pos()))
			}
			l.encOpt = append(l.encOpt, g)
			continue
		}
		if inOpt {
			return nil, fail("%s: unconditional write after an optional block", fset.Position(st.Pos()))
		}
		fn, op, err := classify(fset, st, true)
		if err != nil {
			return nil, err
		}
		mand = append(mand, [2]string{fn, op})
	}
	if l.encMand, err = groupOps(l, fset.Position(enc.Pos()), mand); err != nil {
		return nil, err
	}

	// ---- Decode
	b := dec.Body.List
	if len(b) < 2 || src(fset, b[0]) != "buffer := bytes.NewBuffer(*byteArray)" {
		return nil, fail("%s: Decode%s does not start with buffer := bytes.NewBuffer(*byteArray)", fset.Position(dec.Pos()), name)
	}
	loop, ok := b[len(b)-1].(*ast.ForStmt)
	if !ok || loop.Init != nil || loop.Post != nil || loop.Cond == nil || src(fset, loop.Cond) != "buffer.Len() > 0" {
		return nil, fail("%s: Decode%s does not end with `for buffer.Len() > 0`", fset.Position(b[len(b)-1].Pos()), name)
	}
	pairs, err := parseReads(fset, b[1:len(b)-1])
	if err != nil {
		return nil, err
	}
	if l.decMand, err = groupOps(l, fset.Position(dec.Pos()), pairs); err != nil {
		return nil, err
	}
	lb := loop.Body.List
	if len(lb) != 5 {
		return nil, fail("%s: decode loop body has %d statements, expected 5", fset.Position(loop.Pos()), len(lb))
	}
	var head []string
	for _, s := range lb[:4] {
		head = append(head, src(fset, s))
	}
	if strings.Join(head, "|") != loopHead {
		return nil, fail("%s: unrecognised decode loop head: %s", fset.Position(loop.Pos()), strings.Join(head, "|"))
	}
	sw, ok := lb[4].(*ast.SwitchStmt)
	if !ok || sw.Init != nil || sw.Tag == nil || src(fset, sw.Tag) != "tmpIeiN" {
		return nil, fail("%s: expected `switch tmpIeiN`", fset.Position(lb[4].Pos()))
	}
	seenDefault := false
	for _, c := range sw.Body.List {
		cc := c.(*ast.CaseClause)
		if cc.List == nil {
			if len(cc.Body) != 0 || seenDefault {
				return nil, fail("%s: default clause is not empty", fset.Position(cc.Pos()))
			}
			seenDefault = true
			continue
		}
		if seenDefault {
			return nil, fail("%s: case after default", fset.Position(cc.Pos()))
		}
		if len(cc.List) != 1 {
			return nil, fail("%s: case with several values", fset.Position(cc.Pos()))
		}
		id, ok := cc.List[0].(*ast.Ident)
		if !ok {
			return nil, fail("%s: case value is not a constant name", fset.Position(cc.Pos()))
		}
		v, ok := l.consts[id.Name]
		if !ok {
			return nil, fail("%s: case constant %s is not a uint8 constant of this file", fset.Position(cc.Pos()), id.Name)
		}
		if len(cc.Body) == 0 {
			return nil, fail("%s: empty case (Go does not fall through)", fset.Position(cc.Pos()))
		}
		m := reNew.FindStringSubmatch(src(fset, cc.Body[0]))
		if m == nil || m[1] != m[2] {
			return nil, fail("%s: case does not start with a.T = nasType.NewT(ieiN)", fset.Position(cc.Body[0].Pos()))
		}
		fi := l.fieldIndex(m[1])
		if fi < 0 {
			return nil, fail("%s: %s is not a field of %s", fset.Position(cc.Body[0].Pos()), m[1], name)
		}
		sh := shapes[m[1]]
		if !sh.hasNew || sh.newNoArg {
			return nil, fail("%s: nasType.New%s(ieiN): constructor with one argument not found", fset.Position(cc.Body[0].Pos()), m[1])
		}
		nc := nlCase{iei: v, field: fi, ops: []string{"new"}}
		rest := cc.Body[1:]
		for len(rest) > 0 {
			if mm := reSetOctet.FindStringSubmatch(src(fset, rest[0])); mm != nil {
				if mm[1] != m[1] {
					return nil, fail("%s: case for %s assigns a.%s.Octet", fset.Position(rest[0].Pos()), m[1], mm[1])
				}
				if sh.body != "octet" {
					return nil, fail("%s: a.%s.Octet = ieiN on a shape whose Octet is not uint8", fset.Position(rest[0].Pos()), m[1])
				}
				nc.ops = append(nc.ops, "setOctet")
				rest = rest[1:]
				continue
			}
			n := 1
			if len(rest) > 1 && reSetLen.MatchString(src(fset, rest[1])) {
				n = 2
			}
			ps, err := parseReads(fset, rest[:n])
			if err != nil {
				return nil, err
			}
			if ps[0][0] != m[1] {
				return nil, fail("%s: case for %s reads a.%s", fset.Position(rest[0].Pos()), m[1], ps[0][0])
			}
			nc.ops = append(nc.ops, ps[0][1])
			rest = rest[n:]
		}
		l.cases = append(l.cases, nc)
	}
	if !seenDefault {
		return nil, fail("%s: switch without default clause", fset.Position(sw.Pos()))
	}
	// every op must make sense for the shape it is applied to (the Go compiler enforces the same)
	chk := func(fi int, op string, where string) error {
		sh := shapes[l.fields[fi].name]
		ok := true
		switch op {
		case "new":
		case "iei":
			ok = sh.hasIei
		case "len", "lenSet":
			ok = sh.lenW > 0
		case "octet":
			ok = sh.body == "octet" || sh.body == "arr"
		case "setOctet":
			ok = sh.body == "octet"
		case "buf", "bufPtr":
			ok = sh.body == "buf"
		case "bufLen":
			ok = sh.body == "buf" && sh.lenW > 0
		case "octetLen":
			ok = sh.body == "arr" && sh.lenW > 0
		case "raw":
			ok = sh.body == "none" && !sh.hasIei && sh.lenW == 0
		}
		if !ok {
			return fail("%s: %s: op %s does not fit the shape of %s", path, where, op, l.fields[fi].name)
		}
		return nil
	}
	for _, gs := range [][]nlGroup{l.encMand, l.encOpt, l.decMand} {
		for _, g := range gs {
			for _, op := range g.ops {
				if err := chk(g.field, op, "encode/decode"); err != nil {
					return nil, err
				}
			}
		}
	}
	for _, c := range l.cases {
		for _, op := range c.ops {
			if err := chk(c.field, op, "decode case"); err != nil {
				return nil, err
			}
		}
	}
	return l, nil
}

// ---------------------------------------------------------------- nas.go dispatch
//
//   type GmmHeader struct { Octet [3]uint8 }    func (a *GmmHeader) GetMessageType() (messageType uint8) { messageType = a.Octet[2]; return messageType }
//   const ( MsgTypeX uint8 = N … )
//   func (a *Message) GmmMessageDecode(byteArray *[]byte) error {
//       buffer := bytes.NewBuffer(*byteArray); a.GmmMessage = NewGmmMessage(); binary.Read(buffer, binary.BigEndian, &a.GmmMessage.GmmHeader)
//       switch a.GmmMessage.GmmHeader.GetMessageType() {
//       case MsgTypeX: a.GmmMessage.X = nasMessage.NewX(MsgTypeX); a.GmmMessage.DecodeX(byteArray)   …
//       default: return fmt.Errorf(…) }
//       return nil }
//   func (a *Message) GmmMessageEncode(buffer *bytes.Buffer) error {
//       switch a.GmmMessage.GmmHeader.GetMessageType() { case MsgTypeX: a.GmmMessage.EncodeX(buffer) … default: return fmt.Errorf(…) }
//       return nil }
// and the same with Gsm.  PlainNasDecode / PlainNasEncode / GetEPD are compared with their expected text verbatim
// (their semantics is hand-modelled in Model/NasCodec.lean `plainDecode` / `plainEncode`).

type nlDispatch struct {
	kind    string
	hdrLen  int
	typeIdx int
	dec     [][2]interface{} // (type value, message name)
	enc     [][2]interface{}
}

const plainDecodeText = "{ epd := GetEPD(*byteArray) switch epd { case nasMessage.Epd5GSMobilityManagementMessage: return a.GmmMessageDecode(byteArray) " +
	"case nasMessage.Epd5GSSessionManagementMessage: return a.GsmMessageDecode(byteArray) } " +
	"return fmt.Errorf(\"Extended Protocol Discriminator[%d] is not allowed in Nas Message Deocde\", epd) }"
const plainEncodeText = "{ data := new(bytes.Buffer) if a.GmmMessage != nil { err := a.GmmMessageEncode(data) return data.Bytes(), err } else " +
	"if a.GsmMessage != nil { err := a.GsmMessageEncode(data) return data.Bytes(), err } " +
	"return nil, fmt.Errorf(\"Gmm/Gsm Message are both empty in Nas Message Encode\") }"

func parseDispatch(fset *token.FileSet) ([]nlDispatch, map[string]uint64, error) {
	path := filepath.Join(repo, "src/free5gclib/nas/nas.go")
	f, err := parser.ParseFile(fset, path, nil, 0)
	if err != nil {
		return nil, nil, err
	}
	consts := map[string]uint64{}
	if err := uint8Consts(fset, f, consts); err != nil {
		return nil, nil, err
	}
	funcs := map[string]*ast.FuncDecl{}
	hdrLen := map[string]int{}
	for _, d := range f.Decls {
		switch d := d.(type) {
		case *ast.FuncDecl:
			key := d.Name.Name
			if d.Recv != nil {
				key = strings.TrimPrefix(src(fset, d.Recv.List[0].Type), "*") + "." + key
			}
			funcs[key] = d
		case *ast.GenDecl:
			if d.Tok != token.TYPE {
				continue
			}
			for _, sp := range d.Specs {
				ts := sp.(*ast.TypeSpec)
				if ts.Name.Name == "GmmHeader" || ts.Name.Name == "GsmHeader" {
					t := src(fset, ts.Type)
					m := regexp.MustCompile(`^struct { Octet \[(\d+)\]uint8 }$`).FindStringSubmatch(t)
					if m == nil {
						return nil, nil, fail("%s: unrecognised %s: %s", fset.Position(ts.Pos()), ts.Name.Name, t)
					}
					hdrLen[ts.Name.Name], _ = strconv.Atoi(m[1])
				}
			}
		}
	}
	want := func(key, text string) error {
		d, ok := funcs[key]
		if !ok {
			return fail("%s: function %s not found", path, key)
		}
		if got := src(fset, d.Body); got != text {
			return fail("%s: %s changed: %s", fset.Position(d.Pos()), key, got)
		}
		return nil
	}
	if err := want("Message.PlainNasDecode", plainDecodeText); err != nil {
		return nil, nil, err
	}
	if err := want("Message.PlainNasEncode", plainEncodeText); err != nil {
		return nil, nil, err
	}
	if err := want("GetEPD", "{ return byteArray[0] }"); err != nil {
		return nil, nil, err
	}
	if err := want("NewGmmMessage", "{ GmmMessage := &GmmMessage{} return GmmMessage }"); err != nil {
		return nil, nil, err
	}
	if err := want("NewGsmMessage", "{ GsmMessage := &GsmMessage{} return GsmMessage }"); err != nil {
		return nil, nil, err
	}
	var out []nlDispatch
	for _, k := range []string{"Gmm", "Gsm"} {
		d := nlDispatch{kind: k, hdrLen: hdrLen[k+"Header"]}
		if d.hdrLen == 0 {
			return nil, nil, fail("%s: %sHeader not found", path, k)
		}
		gm, ok := funcs[k+"Header.GetMessageType"]
		if !ok {
			return nil, nil, fail("%s: %sHeader.GetMessageType not found", path, k)
		}
		m := regexp.MustCompile(`^{ messageType = a\.Octet\[(\d+)\] return messageType }$`).FindStringSubmatch(src(fset, gm.Body))
		if m == nil {
			return nil, nil, fail("%s: unrecognised GetMessageType: %s", fset.Position(gm.Pos()), src(fset, gm.Body))
		}
		d.typeIdx, _ = strconv.Atoi(m[1])
		if d.typeIdx >= d.hdrLen {
			return nil, nil, fail("%s: GetMessageType index out of the header", fset.Position(gm.Pos()))
		}
		msgF := "a." + k + "Message"
		tag := msgF + "." + k + "Header.GetMessageType()"
		// decode
		dd, ok := funcs["Message."+k+"MessageDecode"]
		if !ok {
			return nil, nil, fail("%s: %sMessageDecode not found", path, k)
		}
		b := dd.Body.List
		if len(b) != 5 || src(fset, b[0]) != "buffer := bytes.NewBuffer(*byteArray)" || src(fset, b[1]) != msgF+" = New"+k+"Message()" ||
			src(fset, b[2]) != "binary.Read(buffer, binary.BigEndian, &"+msgF+"."+k+"Header)" || src(fset, b[4]) != "return nil" {
			return nil, nil, fail("%s: unrecognised %sMessageDecode skeleton", fset.Position(dd.Pos()), k)
		}
		cases, err := switchCases(fset, b[3], tag)
		if err != nil {
			return nil, nil, err
		}
		for _, cc := range cases {
			cn := cc.List[0].(*ast.Ident).Name
			if len(cc.Body) != 2 {
				return nil, nil, fail("%s: decode case with %d statements", fset.Position(cc.Pos()), len(cc.Body))
			}
			m := regexp.MustCompile(`^` + regexp.QuoteMeta(msgF) + `\.` + reIdent + ` = nasMessage\.New` + reIdent + `\(` + reIdent + `\)$`).FindStringSubmatch(src(fset, cc.Body[0]))
			if m == nil || m[1] != m[2] || m[3] != cn || src(fset, cc.Body[1]) != msgF+".Decode"+m[1]+"(byteArray)" {
				return nil, nil, fail("%s: unrecognised decode case body", fset.Position(cc.Pos()))
			}
			d.dec = append(d.dec, [2]interface{}{consts[cn], m[1]})
		}
		// encode
		de, ok := funcs["Message."+k+"MessageEncode"]
		if !ok {
			return nil, nil, fail("%s: %sMessageEncode not found", path, k)
		}
		b = de.Body.List
		if len(b) != 2 || src(fset, b[1]) != "return nil" {
			return nil, nil, fail("%s: unrecognised %sMessageEncode skeleton", fset.Position(de.Pos()), k)
		}
		cases, err = switchCases(fset, b[0], tag)
		if err != nil {
			return nil, nil, err
		}
		for _, cc := range cases {
			cn := cc.List[0].(*ast.Ident).Name
			m := regexp.MustCompile(`^` + regexp.QuoteMeta(msgF) + `\.Encode` + reIdent + `\(buffer\)$`).FindStringSubmatch(src(fset, cc.Body[0]))
			if len(cc.Body) != 1 || m == nil {
				return nil, nil, fail("%s: unrecognised encode case body", fset.Position(cc.Pos()))
			}
			d.enc = append(d.enc, [2]interface{}{consts[cn], m[1]})
		}
		out = append(out, d)
	}
	return out, consts, nil
}

// switchCases: `switch <tag> { case Const: … default: return fmt.Errorf(…) }` → the non-default clauses
func switchCases(fset *token.FileSet, st ast.Stmt, tag string) ([]*ast.CaseClause, error) {
	sw, ok := st.(*ast.SwitchStmt)
	if !ok || sw.Init != nil || sw.Tag == nil || src(fset, sw.Tag) != tag {
		return nil, fail("%s: expected `switch %s`", fset.Position(st.Pos()), tag)
	}
	var out []*ast.CaseClause
	seenDefault := false
	for _, c := range sw.Body.List {
		cc := c.(*ast.CaseClause)
		if cc.List == nil {
			if seenDefault || len(cc.Body) != 1 || !strings.HasPrefix(src(fset, cc.Body[0]), "return fmt.Errorf(") {
				return nil, fail("%s: default clause does not return an error", fset.Position(cc.Pos()))
			}
			seenDefault = true
			continue
		}
		if len(cc.List) != 1 {
			return nil, fail("%s: case with several values", fset.Position(cc.Pos()))
		}
		if _, ok := cc.List[0].(*ast.Ident); !ok {
			return nil, fail("%s: case value is not a constant name", fset.Position(cc.Pos()))
		}
		out = append(out, cc)
	}
	if !seenDefault {
		return nil, fail("%s: switch without default", fset.Position(sw.Pos()))
	}
	return out, nil
}

// ---------------------------------------------------------------- output

func leanOps(ops []string) string {
	var p []string
	for _, o := range ops {
		p = append(p, "."+o)
	}
	return "[" + strings.Join(p, ", ") + "]"
}

func leanGroups(gs []nlGroup) string {
	var p []string
	for _, g := range gs {
		p = append(p, fmt.Sprintf("(%d, %s)", g.field, leanOps(g.ops)))
	}
	return "[" + strings.Join(p, ", ") + "]"
}

func loadNasLayouts() ([]*nlLayout, map[string]*ieShape, []string, []nlDispatch, map[string]uint64, error) {
	shapes, order, err := parseIEShapes()
	if err != nil {
		return nil, nil, nil, nil, nil, err
	}
	dir := filepath.Join(repo, "src/free5gclib/nas/nasMessage")
	ents, err := os.ReadDir(dir)
	if err != nil {
		return nil, nil, nil, nil, nil, err
	}
	fset := token.NewFileSet()
	var layouts []*nlLayout
	for _, e := range ents {
		n := e.Name()
		if !strings.HasPrefix(n, "NAS_") || !strings.HasSuffix(n, ".go") || strings.HasSuffix(n, "_test.go") {
			continue
		}
		if n == "NAS_EPD.go" || n == "NAS_CommInfoIE.go" { // constants only; checked below
			f, err := parser.ParseFile(fset, filepath.Join(dir, n), nil, 0)
			if err != nil {
				return nil, nil, nil, nil, nil, err
			}
			for _, d := range f.Decls {
				if fd, ok := d.(*ast.FuncDecl); ok && (n == "NAS_EPD.go" || fd.Recv != nil || strings.HasPrefix(fd.Name.Name, "Encode") || strings.HasPrefix(fd.Name.Name, "Decode")) {
					return nil, nil, nil, nil, nil, fail("%s: unexpected function %s", fset.Position(fd.Pos()), fd.Name.Name)
				}
			}
			continue
		}
		l, err := parseMessageFile(fset, filepath.Join(dir, n), shapes)
		if err != nil {
			return nil, nil, nil, nil, nil, err
		}
		layouts = append(layouts, l)
	}
	sort.Slice(layouts, func(i, j int) bool { return layouts[i].name < layouts[j].name })
	disp, msgConsts, err := parseDispatch(fset)
	if err != nil {
		return nil, nil, nil, nil, nil, err
	}
	return layouts, shapes, order, disp, msgConsts, nil
}

func genNasLayout() error {
	layouts, shapes, order, disp, _, err := loadNasLayouts()
	if err != nil {
		return err
	}
	idx := map[string]int{}
	for i, l := range layouts {
		idx[l.name] = i
	}
	// EPD constants
	fset := token.NewFileSet()
	ef, err := parser.ParseFile(fset, filepath.Join(repo, "src/free5gclib/nas/nasMessage/NAS_EPD.go"), nil, 0)
	if err != nil {
		return err
	}
	epd := map[string]uint64{}
	if err := uint8Consts(fset, ef, epd); err != nil {
		return err
	}
	var b strings.Builder
	b.WriteString("-- GENERATED by `gen naslayout` from src/free5gclib/nas/{nas.go,nasMessage/NAS_*.go,nasType/NAS_*.go}. Do not edit.\n")
	b.WriteString("import Stgutg.Model.NasLayout\nnamespace Stgutg.Gen.Nas\nopen Stgutg.Nas\n\n")
	b.WriteString("/-- the IE struct shapes of nasType, by type name -/\n")
	for _, n := range order {
		fmt.Fprintf(&b, "def sh_%s : Shape := %s\n", leanIdent(n), shapes[n].lean())
	}
	b.WriteString("\ndef ieShapes : List (String × Shape) := [")
	for i, n := range order {
		if i > 0 {
			b.WriteString(",")
		}
		fmt.Fprintf(&b, "\n  (%q, sh_%s)", n, leanIdent(n))
	}
	b.WriteString("]\n\n")
	for _, l := range layouts {
		fmt.Fprintf(&b, "def layout_%s : Layout := {\n  name := %q,\n  fields := [", leanIdent(l.name), l.name)
		for i, f := range l.fields {
			if i > 0 {
				b.WriteString(",")
			}
			fmt.Fprintf(&b, "\n    ⟨%q, sh_%s, %v⟩", f.name, leanIdent(f.name), f.ptr)
		}
		fmt.Fprintf(&b, "],\n  encMand := %s,\n  encOpt := %s,\n  decMand := %s,\n  cases := [", leanGroups(l.encMand), leanGroups(l.encOpt), leanGroups(l.decMand))
		for i, c := range l.cases {
			if i > 0 {
				b.WriteString(",")
			}
			fmt.Fprintf(&b, "\n    ⟨0x%02X, %d, %s⟩", c.iei, c.field, leanOps(c.ops))
		}
		b.WriteString("] }\n\n")
	}
	b.WriteString("/-! field indices by name (hand models refer to fields through these, so a renamed or removed field breaks the build) -/\n")
	for _, l := range layouts {
		for i, f := range l.fields {
			fmt.Fprintf(&b, "def idx_%s_%s : Nat := %d\n", leanIdent(l.name), leanIdent(f.name), i)
		}
	}
	b.WriteString("\ndef layouts : List Layout := [")
	for i, l := range layouts {
		if i > 0 {
			b.WriteString(",")
		}
		fmt.Fprintf(&b, "\n  layout_%s", leanIdent(l.name))
	}
	b.WriteString("]\n\n")
	for _, d := range disp {
		e, ok := epd[map[string]string{"Gmm": "Epd5GSMobilityManagementMessage", "Gsm": "Epd5GSSessionManagementMessage"}[d.kind]]
		if !ok {
			return fail("NAS_EPD.go: EPD constant for %s not found", d.kind)
		}
		tbl := func(rows [][2]interface{}) (string, error) {
			var p []string
			for _, r := range rows {
				i, ok := idx[r[1].(string)]
				if !ok {
					return "", fail("nas.go: dispatch to %s which has no NAS_%s.go", r[1], r[1])
				}
				p = append(p, fmt.Sprintf("(%d, %d)", r[0].(uint64), i))
			}
			return "[" + strings.Join(p, ", ") + "]", nil
		}
		dec, err := tbl(d.dec)
		if err != nil {
			return err
		}
		enc, err := tbl(d.enc)
		if err != nil {
			return err
		}
		fmt.Fprintf(&b, "def dispatch%s : Dispatch := {\n  epd := 0x%02X, hdrLen := %d, typeIdx := %d,\n  dec := %s,\n  enc := %s }\n\n", d.kind, e, d.hdrLen, d.typeIdx, dec, enc)
	}
	b.WriteString("end Stgutg.Gen.Nas\n")
	return writeIfChanged("NasLayouts.lean", b.String())
}
