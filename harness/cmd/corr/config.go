package main

// Domain config (C18): stgutg.Conf.GetConfiguration (yaml.v2 against the struct tags) and stgutg.GetMode.
//
//   conf <key>=<hex of the YAML scalar text>=<value meant> …   → ok <tag>=<value read>;… (all 24 fields, sorted by tag)
//        writes `configuration:` with one `  key: text` line per token (in this order) to a scratch directory under
//        /verif/.build, changes into it (GetConfiguration reads ./config.yaml) and prints what arrived in each field.
//        Values: strings as hex (`-` empty), integers in decimal.
//   dockey <key>                                               → ok 1|0   does a value written under this key arrive in any field?
//   getmode <n> <args × n> <os.Args …>                         → ok <mode>  GetMode(args) with os.Args set as given

import (
	"fmt"
	"os"
	"path/filepath"
	"reflect"
	"sort"
	"strconv"
	"strings"
	"sync"

	"stgutg"

	"verifharness/internal/docs"
)

func init() {
	register("config", configDomain)
	registerOp("conf", opConf)
	registerOp("dockey", opDocKey)
	registerOp("getmode", opGetMode)
}

var confMu sync.Mutex

// loadConfig writes the file, runs the real GetConfiguration in that directory and restores cwd.
func loadConfig(body string) stgutg.Conf {
	confMu.Lock()
	defer confMu.Unlock()
	dir := filepath.Join("/verif/.build", "scratch-config", strconv.Itoa(os.Getpid()))
	if err := os.MkdirAll(dir, 0o755); err != nil {
		panic(err)
	}
	defer os.RemoveAll(dir)
	// decoys: files a configuration could also be looked for in (the README's src/config.yaml, the parent directory, other
	// spellings) hold a distinctive value for every key; only ./config.yaml is the configuration
	top := dir
	dir = filepath.Join(dir, "run")
	for _, d := range []string{"src/config.yaml", "config.yml", "conf/config.yaml", "../config.yaml", "config.yaml.bak", "stgutg.yaml"} {
		f := filepath.Join(dir, d)
		if err := os.MkdirAll(filepath.Dir(f), 0o755); err != nil {
			panic(err)
		}
		if err := os.WriteFile(f, []byte(decoyConfig()), 0o644); err != nil {
			panic(err)
		}
	}
	_ = top
	if err := os.WriteFile(filepath.Join(dir, "config.yaml"), []byte(body), 0o644); err != nil {
		panic(err)
	}
	old, err := os.Getwd()
	if err != nil {
		panic(err)
	}
	if err := os.Chdir(dir); err != nil {
		panic(err)
	}
	defer os.Chdir(old)
	var c stgutg.Conf
	c.GetConfiguration()
	return c
}

// decoyConfig: every key of the configuration structure with a value no generated configuration uses
func decoyConfig() string {
	t := reflect.TypeOf(stgutg.Conf{}.Configuration)
	var b strings.Builder
	b.WriteString("configuration:\n")
	for i := 0; i < t.NumField(); i++ {
		tag := t.Field(i).Tag.Get("yaml")
		if tag == "" {
			continue
		}
		if t.Field(i).Type.Kind() == reflect.String {
			b.WriteString("  " + tag + ": \"decoy-" + tag + "\"\n")
		} else {
			b.WriteString("  " + tag + ": 4242\n")
		}
	}
	return b.String()
}

func confReport(c stgutg.Conf) string {
	v := reflect.ValueOf(c.Configuration)
	t := v.Type()
	var parts []string
	for i := 0; i < t.NumField(); i++ {
		tag := t.Field(i).Tag.Get("yaml")
		var val string
		switch v.Field(i).Kind() {
		case reflect.String:
			val = hx([]byte(v.Field(i).String()))
		case reflect.Int, reflect.Int32, reflect.Int64:
			val = strconv.FormatInt(v.Field(i).Int(), 10)
		case reflect.Uint64:
			val = strconv.FormatUint(v.Field(i).Uint(), 10)
		default:
			panic("unexpected field kind")
		}
		parts = append(parts, tag+"="+val)
	}
	sort.Strings(parts)
	return "ok " + strings.Join(parts, ";")
}

func opConf(a []string) string {
	var b strings.Builder
	b.WriteString("info:\n  version: 0.9.0\n  description: generated\n\nconfiguration:\n")
	for _, tok := range a {
		if strings.HasPrefix(tok, "#pad=") {
			// n octets of comment lines at this point of the file (a documented, commented configuration is a long file)
			n := int(aU64(tok[5:]))
			for n > 0 {
				l := 78
				if l > n-1 {
					l = n - 1
				}
				if l < 1 {
					l = 1
				}
				b.WriteString("  #" + strings.Repeat("-", l-1) + "\n")
				n -= l + 3
			}
			continue
		}
		f := strings.SplitN(tok, "=", 3)
		if len(f) != 3 {
			panic(badArg{})
		}
		fmt.Fprintf(&b, "  %s: %s\n", f[0], string(aHex(f[1])))
	}
	return confReport(loadConfig(b.String()))
}

func opDocKey(a []string) string {
	exNeed(a, 1)
	c := loadConfig("configuration:\n  " + a[0] + ": 7351\n")
	v := reflect.ValueOf(c.Configuration)
	for i := 0; i < v.NumField(); i++ {
		switch v.Field(i).Kind() {
		case reflect.String:
			if v.Field(i).String() == "7351" {
				return "ok 1"
			}
		case reflect.Uint64:
			if v.Field(i).Uint() == 7351 {
				return "ok 1"
			}
		default:
			if v.Field(i).Int() == 7351 {
				return "ok 1"
			}
		}
	}
	return "ok 0"
}

func opGetMode(a []string) string {
	if len(a) < 1 {
		panic(badArg{})
	}
	n := int(aU64(a[0]))
	if len(a) < 1+n {
		panic(badArg{})
	}
	args := append([]string{}, a[1:1+n]...)
	confMu.Lock()
	defer confMu.Unlock()
	old := os.Args
	defer func() { os.Args = old }()
	os.Args = append([]string{}, a[1+n:]...)
	return "ok " + strconv.Itoa(stgutg.GetMode(args))
}

// ---------------------------------------------------------------------------------------------- generator

type confKey struct {
	key  string
	kind string // string | int | int32 | uint64
}

// the documented keys with the kind of value the documentation shows (sample file): quoted text / address → string,
// number → integer of the width the field has
var confKinds = map[string]string{
	"amf_ngap_ip": "string", "amf_ngap_port": "int", "gnb_gtp_ip": "string", "stg_ngap_ip": "string", "stg_ngap_port": "int",
	"initial_imsi": "string", "mcc": "string", "mnc": "string", "gnb_id": "string", "gnb_bitlength": "uint64", "gnb_name": "string",
	"k": "string", "opc": "string", "op": "string", "sst": "int32", "sd": "string", "downlink_iface": "string", "uplink_iface": "string",
	"ue_number": "int", "ue_registration": "int", "ue_pdu": "int", "ue_service": "int", "ue_pdu_release": "int", "ue_deregistration": "int",
}

// yamlDouble renders s as a double-quoted YAML scalar with \xNN / \uNNNN escapes for everything outside printable ASCII
// (the style of the sample file's gnb_id: "\x00\x01\x02"). In YAML \xNN denotes the code point U+00NN.
func cfgYamlDouble(s string) string {
	var b strings.Builder
	b.WriteByte('"')
	for _, r := range s {
		switch {
		case r == '"':
			b.WriteString(`\"`)
		case r == '\\':
			b.WriteString(`\\`)
		case r == '\n':
			b.WriteString(`\n`)
		case r == '\t':
			b.WriteString(`\t`)
		case r >= 0x20 && r < 0x7f:
			b.WriteRune(r)
		case r < 0x100:
			fmt.Fprintf(&b, `\x%02x`, r)
		case r < 0x10000:
			fmt.Fprintf(&b, `\u%04x`, r)
		default:
			fmt.Fprintf(&b, `\U%08x`, r)
		}
	}
	b.WriteByte('"')
	return b.String()
}

func cfgYamlSingle(s string) string { return "'" + strings.ReplaceAll(s, "'", "''") + "'" }

const cfgDigits = "0123456789"
const cfgHexUpper = "0123456789ABCDEF"

func (e *emitter) cfgPick(alpha string, n int) string {
	b := make([]byte, n)
	for i := range b {
		b[i] = alpha[e.rng.Intn(len(alpha))]
	}
	return string(b)
}

// stringValue draws (yaml text, value meant) for a string key
func (e *emitter) stringValue(key string) (string, string) {
	r := e.rng
	var s string
	switch key {
	case "initial_imsi":
		s = []string{"001010000000001", "000000000000000", "999999999999999", "208930000000003"}[r.Intn(4)]
		if r.Intn(2) == 0 {
			s = "00" + e.cfgPick(cfgDigits, 13)
		}
	case "mcc":
		s = []string{"001", "000", "208", "999", "010"}[r.Intn(5)]
	case "mnc":
		s = []string{"01", "00", "001", "93", "010", "999"}[r.Intn(6)]
	case "sd":
		s = []string{"010203", "000000", "000001", "FFFFFF", "ffffff"}[r.Intn(5)]
	case "k", "opc", "op":
		s = e.cfgPick(cfgHexUpper, 32)
		if r.Intn(4) == 0 {
			s = "0000" + s[4:]
		}
	case "gnb_id":
		// octets of the gNB id; escapes as in the sample file
		n := 3 + r.Intn(2)
		b := make([]rune, n)
		for i := range b {
			switch r.Intn(4) {
			case 0:
				b[i] = rune(r.Intn(3))
			case 1:
				b[i] = rune(0x80 + r.Intn(0x80)) // \x80..\xff: the code point, i.e. two octets in the Go string
			default:
				b[i] = rune(r.Intn(0x80))
			}
		}
		s = string(b)
		return cfgYamlDouble(s), s
	case "amf_ngap_ip", "gnb_gtp_ip", "stg_ngap_ip":
		s = fmt.Sprintf("%d.%d.%d.%d", r.Intn(256), r.Intn(256), r.Intn(256), r.Intn(256))
		if r.Intn(8) == 0 {
			s = "010.001.000.009"
		}
	case "downlink_iface", "uplink_iface":
		s = []string{"enp0s8", "enp0s9", "eth0", "lo", "0", "veth-a.1", "veth$dl", "br-${HOME}"}[r.Intn(8)]
	default:
		// names with characters that mean something to a shell, a template engine or printf: they are just text here
		s = []string{"open5gs", "free5gc", "0", "00", "gNB #1", "a: b", "it's", "007", "lab$A-gnb${1}", "$HOME/gnb", "100%s", "{{name}}", "a\\tb", " gnb 7 "}[r.Intn(14)]
	}
	switch r.Intn(5) {
	case 0:
		// plain (unquoted) when that is unambiguous YAML: no indicator characters; a numeric-looking plain scalar
		// such as 001 or 010203 is still the text for a string field
		if !strings.ContainsAny(s, ":#'\"\\ ") && s != "" && !strings.ContainsAny(s[:1], "-?[]{},&*!|>%@`") &&
			!strings.EqualFold(s, "null") && s != "~" {
			return s, s
		}
		return cfgYamlDouble(s), s
	case 1:
		return cfgYamlSingle(s), s
	default:
		return cfgYamlDouble(s), s
	}
}

func (e *emitter) intValue(kind string) (string, string) {
	r := e.rng
	var lo, hi int64
	switch kind {
	case "int32":
		lo, hi = -1<<31, 1<<31-1
	case "uint64":
		if r.Intn(6) == 0 {
			return "18446744073709551615", "18446744073709551615"
		}
		lo, hi = 0, 1<<63-1
	default:
		lo, hi = -1<<63, 1<<63-1
	}
	var v int64
	switch r.Intn(6) {
	case 0:
		v = hi
	case 1:
		v = lo
	case 2:
		v = 0
	case 3:
		v = int64(r.Intn(70000))
	case 4:
		v = int64(r.Intn(40))
	default:
		v = r.Int63()
		if kind == "int32" {
			v = int64(int32(v))
		}
		if lo < 0 && r.Intn(2) == 0 && v != lo {
			v = -v
		}
		if v < lo || v > hi {
			v = hi
		}
	}
	text := strconv.FormatInt(v, 10)
	if v > 0 && v < 1<<31 && r.Intn(8) == 0 {
		text = fmt.Sprintf("0x%X", v) // YAML 1.1 hexadecimal integer
	}
	if v >= 1000 && v < 1000000 && r.Intn(8) == 0 {
		text = strconv.FormatInt(v/1000, 10) + "_" + fmt.Sprintf("%03d", v%1000) // YAML 1.1 digit separator
	}
	if r.Intn(10) == 0 {
		text += "   # comment"
	}
	return text, strconv.FormatInt(v, 10)
}

func (e *emitter) confCase(keys []string, all bool) {
	order := append([]string{}, keys...)
	e.rng.Shuffle(len(order), func(i, j int) { order[i], order[j] = order[j], order[i] })
	var toks []string
	for _, k := range order {
		if !all && e.rng.Intn(4) == 0 {
			continue
		}
		kind, ok := confKinds[k]
		if !ok {
			continue // a documented key the generator has no value class for is exercised by dockey only
		}
		var text, meant string
		if kind == "string" {
			var s string
			text, s = e.stringValue(k)
			meant = hx([]byte(s))
		} else {
			text, meant = e.intValue(kind)
		}
		toks = append(toks, k+"="+hx([]byte(text))+"="+meant)
	}
	if len(toks) == 0 {
		return
	}
	// one file in eight repeats some keys with other values further down (overrides appended to a stock file): the last
	// occurrence counts
	if e.rng.Intn(8) == 0 {
		for k := 0; k < 1+e.rng.Intn(3); k++ {
			key := strings.SplitN(toks[e.rng.Intn(len(toks))], "=", 2)[0]
			kind := confKinds[key]
			var text, meant string
			if kind == "string" {
				var sv string
				text, sv = e.stringValue(key)
				meant = hx([]byte(sv))
			} else {
				text, meant = e.intValue(kind)
			}
			toks = append(toks, key+"="+hx([]byte(text))+"="+meant)
		}
	}
	// one file in six is long: comment blocks before, between and after the keys (files of 4 KiB .. 80 KiB)
	if e.rng.Intn(6) == 0 {
		sizes := []int{300, 2000, 4096, 5000, 9000, 33000, 70000}
		at := e.rng.Intn(len(toks) + 1)
		pad := "#pad=" + strconv.Itoa(sizes[e.rng.Intn(len(sizes))])
		toks = append(toks[:at:at], append([]string{pad}, toks[at:]...)...)
		if e.rng.Intn(2) == 0 {
			toks = append([]string{"#pad=" + strconv.Itoa(sizes[e.rng.Intn(4)])}, toks...)
		}
	}
	e.op("conf", toks...)
}

func configDomain(e *emitter) {
	keys, err := docs.ConfigYamlKeys("/repo/src/config.yaml")
	if v := os.Getenv("VERIF_REPO"); v != "" {
		keys, err = docs.ConfigYamlKeys(filepath.Join(v, "src/config.yaml"))
	}
	if err != nil {
		panic(err)
	}
	repoDir := "/repo"
	if v := os.Getenv("VERIF_REPO"); v != "" {
		repoDir = v
	}
	rm, err := docs.ReadmeKeys(filepath.Join(repoDir, "README.md"))
	if err != nil {
		panic(err)
	}
	// every key the documentation shows must be a key the program reads
	seen := map[string]bool{}
	for _, k := range append(append([]string{}, keys...), rm...) {
		if !seen[k] {
			seen[k] = true
			e.op("dockey", k)
		}
	}
	for _, k := range []string{"amf_ngap_ipp", "Amf_ngap_ip", "ue_registation", "imsi", "src_iface", "dst_iface"} {
		if !seen[k] {
			e.op("dockey", k)
		}
	}
	// the sample values of the shipped file, key by key
	e.op("conf",
		"amf_ngap_ip="+hx([]byte("192.168.61.4"))+"="+hx([]byte("192.168.61.4")),
		"amf_ngap_port="+hx([]byte("38412 #48412"))+"=38412",
		"initial_imsi="+hx([]byte(`"001010000000001"`))+"="+hx([]byte("001010000000001")),
		"mcc="+hx([]byte(`"001"`))+"="+hx([]byte("001")),
		"mnc="+hx([]byte(`"01"`))+"="+hx([]byte("01")),
		"gnb_id="+hx([]byte(`"\x00\x01\x02"`))+"=000102",
		"gnb_bitlength="+hx([]byte("24"))+"=24",
		"sd="+hx([]byte(`"010203"`))+"="+hx([]byte("010203")),
		"sst="+hx([]byte("1"))+"=1")
	// all 24 keys at once, then random subsets in random order
	for k := 0; k < e.n; k++ {
		e.confCase(keys, k%3 != 2)
	}
	// GetMode on every argument vector of length 0..3 over a small alphabet, as main calls it (args = os.Args) …
	alpha := []string{"stg-utg", "-t", "-T", "t", "--t", "-tt", "-x"}
	var vecs [][]string
	vecs = append(vecs, []string{})
	for _, a := range alpha {
		vecs = append(vecs, []string{a})
		for _, b := range alpha {
			vecs = append(vecs, []string{a, b})
			for _, c := range alpha {
				vecs = append(vecs, []string{a, b, c})
			}
		}
	}
	for _, v := range vecs {
		toks := append([]string{strconv.Itoa(len(v))}, v...)
		e.op("getmode", append(toks, v...)...)
	}
	// … and with a parameter that differs from the process arguments (pins the model's use of os.Args)
	for k := 0; k < 120; k++ {
		a := vecs[e.rng.Intn(len(vecs))]
		o := vecs[e.rng.Intn(len(vecs))]
		if k%2 == 0 { // two arguments against a process with 0..3: the os.Args[1] index expression
			a = []string{alpha[e.rng.Intn(len(alpha))], alpha[e.rng.Intn(len(alpha))]}
			o = o[:e.rng.Intn(len(o)+1)]
		}
		toks := append([]string{strconv.Itoa(len(a))}, a...)
		e.op("getmode", append(toks, o...)...)
	}
}
