package main

import (
	"bytes"
	"encoding/hex"
	"fmt"
	"reflect"
	"strconv"
	"strings"

	"free5gclib/aper"
)

// Go value <-> token text shared with the Lean driver (Driver/Aper.lean):
//   i<dec> int   e<dec> Enumerated   b<bitlen>:<hex> BitString   o<hex> OctetString   s<hex> string
//   t / f bool   d<hex> ObjectIdentifier   n nil pointer   p <v> non-nil pointer
//   ( v … ) struct   [ v … ] slice           "-" stands for the empty hex string
//   on input a hex string may be written <hex>*<n>: the octets repeated n times (long strings in corpus files)
var ngapTypes map[string]reflect.Type

func hexOrDash(b []byte) string {
	if len(b) == 0 {
		return "-"
	}
	return hex.EncodeToString(b)
}

func printVal(v reflect.Value, out *[]string) {
	t := v.Type()
	switch t {
	case aper.BitStringType:
		bs := v.Interface().(aper.BitString)
		*out = append(*out, "b"+strconv.FormatUint(bs.BitLength, 10)+":"+hexOrDash(bs.Bytes))
		return
	case aper.OctetStringType:
		*out = append(*out, "o"+hexOrDash(v.Bytes()))
		return
	case aper.ObjectIdentifierType:
		*out = append(*out, "d"+hexOrDash(v.Bytes()))
		return
	case aper.EnumeratedType:
		*out = append(*out, "e"+strconv.FormatUint(v.Uint(), 10))
		return
	}
	switch v.Kind() {
	case reflect.Int, reflect.Int32, reflect.Int64:
		*out = append(*out, "i"+strconv.FormatInt(v.Int(), 10))
	case reflect.Bool:
		if v.Bool() {
			*out = append(*out, "t")
		} else {
			*out = append(*out, "f")
		}
	case reflect.String:
		*out = append(*out, "s"+hexOrDash([]byte(v.String())))
	case reflect.Ptr:
		if v.IsNil() {
			*out = append(*out, "n")
		} else {
			*out = append(*out, "p")
			printVal(v.Elem(), out)
		}
	case reflect.Slice:
		*out = append(*out, "[")
		for i := 0; i < v.Len(); i++ {
			printVal(v.Index(i), out)
		}
		*out = append(*out, "]")
	case reflect.Struct:
		*out = append(*out, "(")
		for i := 0; i < v.NumField(); i++ {
			printVal(v.Field(i), out)
		}
		*out = append(*out, ")")
	default:
		panic("printVal: unsupported kind " + v.Kind().String())
	}
}

func valTokens(v reflect.Value) string {
	var out []string
	printVal(v, &out)
	return strings.Join(out, " ")
}

type tokStream struct {
	toks []string
	i    int
}

func (s *tokStream) next() string {
	if s.i >= len(s.toks) {
		panic(badArg{})
	}
	t := s.toks[s.i]
	s.i++
	return t
}

func unhex(s string) []byte {
	if s == "-" {
		return []byte{}
	}
	if i := strings.IndexByte(s, '*'); i >= 0 {
		n, err := strconv.Atoi(s[i+1:])
		if err != nil || n < 0 || n > 1<<20 {
			panic(badArg{})
		}
		return bytes.Repeat(unhex(s[:i]), n)
	}
	b, err := hex.DecodeString(s)
	if err != nil {
		panic(badArg{})
	}
	return b
}

// parseVal fills v (settable) from the token stream; a token that does not fit the type is a bad op.
func parseVal(v reflect.Value, s *tokStream) {
	t := v.Type()
	switch t {
	case aper.BitStringType:
		tok := s.next()
		if !strings.HasPrefix(tok, "b") {
			panic(badArg{})
		}
		parts := strings.SplitN(tok[1:], ":", 2)
		if len(parts) != 2 {
			panic(badArg{})
		}
		n, err := strconv.ParseUint(parts[0], 10, 64)
		if err != nil {
			panic(badArg{})
		}
		raw := unhex(parts[1])
		octets := make([]byte, len(raw)) // cap == len so that out-of-range reslices trap as in the model
		copy(octets, raw)
		v.Set(reflect.ValueOf(aper.BitString{Bytes: octets, BitLength: n}))
		return
	case aper.OctetStringType:
		tok := s.next()
		if !strings.HasPrefix(tok, "o") {
			panic(badArg{})
		}
		v.SetBytes(unhex(tok[1:]))
		return
	case aper.ObjectIdentifierType:
		tok := s.next()
		if !strings.HasPrefix(tok, "d") {
			panic(badArg{})
		}
		v.SetBytes(unhex(tok[1:]))
		return
	case aper.EnumeratedType:
		tok := s.next()
		if !strings.HasPrefix(tok, "e") {
			panic(badArg{})
		}
		n, err := strconv.ParseUint(tok[1:], 10, 64)
		if err != nil {
			panic(badArg{})
		}
		v.SetUint(n)
		return
	}
	switch v.Kind() {
	case reflect.Int, reflect.Int32, reflect.Int64:
		tok := s.next()
		if !strings.HasPrefix(tok, "i") {
			panic(badArg{})
		}
		n, err := strconv.ParseInt(tok[1:], 10, 64)
		if err != nil {
			panic(badArg{})
		}
		v.SetInt(n)
	case reflect.Bool:
		tok := s.next()
		if tok != "t" && tok != "f" {
			panic(badArg{})
		}
		v.SetBool(tok == "t")
	case reflect.String:
		tok := s.next()
		if !strings.HasPrefix(tok, "s") {
			panic(badArg{})
		}
		v.SetString(string(unhex(tok[1:])))
	case reflect.Ptr:
		tok := s.next()
		if tok == "n" {
			return
		}
		if tok != "p" {
			panic(badArg{})
		}
		p := reflect.New(t.Elem())
		parseVal(p.Elem(), s)
		v.Set(p)
	case reflect.Slice:
		if s.next() != "[" {
			panic(badArg{})
		}
		sl := reflect.MakeSlice(t, 0, 0)
		for {
			if s.i < len(s.toks) && s.toks[s.i] == "]" {
				s.i++
				break
			}
			e := reflect.New(t.Elem()).Elem()
			parseVal(e, s)
			sl = reflect.Append(sl, e)
		}
		v.Set(sl)
	case reflect.Struct:
		if s.next() != "(" {
			panic(badArg{})
		}
		for i := 0; i < v.NumField(); i++ {
			parseVal(v.Field(i), s)
		}
		if s.next() != ")" {
			panic(badArg{})
		}
	default:
		panic(fmt.Sprintf("parseVal: unsupported kind %s", v.Kind()))
	}
}

func typeByName(name string) reflect.Type {
	t, ok := ngapTypes[name]
	if !ok {
		panic(badArg{})
	}
	return t
}

func paramArg(s string) string {
	if s == "-" {
		return ""
	}
	return s
}

func paramTok(s string) string {
	if s == "" {
		return "-"
	}
	return s
}
