package main

import (
	"bytes"
	"crypto/sha256"
	"encoding/hex"
	"fmt"
	"math/rand"
	"os"
	"os/exec"
	"path/filepath"
	"sort"
	"strconv"
	"strings"
	"sync"
	"time"

	"free5gclib/UeauCommon"
	"free5gclib/aper"
	"free5gclib/milenage"
	"free5gclib/nas"
	"free5gclib/nas/nasMessage"
	"free5gclib/nas/nasTestpacket"
	"free5gclib/nas/nasType"
	"free5gclib/nas/security"
	"free5gclib/ngap"
	"free5gclib/ngap/ngapType"
	"tglib"
)

// Domain conc (C20): G goroutines, each performing codec / protection / derivation calls on ITS OWN UE context
// and messages, compared with the same calls made one goroutine after the other, under the race detector.
//
//	conc <G> <iters> <seed> <kinds> <names>   → ok same | ok diff <kind> | race <package of the racy frame>
//
// <kinds>: comma separated kind names (table concKinds); call j of goroutine g is of kind kinds[(g+j) mod len].
// <names>: the entry points / builders of Gen.Footprint those kinds call (what the Lean model looks up); it must
// be exactly what the kinds table says, otherwise the op is malformed.
// All arguments of a call derive from a PRNG seeded by (seed, g), so the sequential and the concurrent run make
// identical calls.  The scenario runs in a child process of this (-race) binary with GORACE=log_path=…; a
// "WARNING: DATA RACE" report takes precedence over the comparison.  Without the race detector compiled in the
// result is "norace" (fails closed).

type concState struct {
	maxLen int // longest NASEncrypt / NASMacCalculate input (SNOW 3G under the race detector costs ~30 µs per octet)
	g      int
	rng    *rand.Rand
	ue     *tglib.RanUeContext
	ran    int64
	amf    int64
}

type concKind struct {
	names []string
	run   func(st *concState) []byte
}

func must(b []byte, err error) []byte {
	if err != nil {
		return []byte("error:" + err.Error())
	}
	return b
}

func (st *concState) bytes(n int) []byte {
	b := make([]byte, n)
	st.rng.Read(b)
	return b
}

// ngapRound: decode what the builder encoded and encode it again
func ngapRound(enc []byte, err error) []byte {
	if err != nil {
		return []byte("error:" + err.Error())
	}
	pdu, err := ngap.Decoder(enc)
	if err != nil {
		return append(enc, []byte("|decerr")...)
	}
	again, err := ngap.Encoder(*pdu)
	if err != nil {
		return append(enc, []byte("|encerr")...)
	}
	return append(append(enc, '|'), again...)
}

// nasRound: decode the plain message, encode it again
func nasRound(plain []byte) []byte {
	in := append([]byte{}, plain...)
	m := new(nas.Message)
	if err := m.PlainNasDecode(&in); err != nil {
		return append(plain, []byte("|decerr")...)
	}
	again, err := m.PlainNasEncode()
	if err != nil {
		return append(plain, []byte("|encerr")...)
	}
	return append(append(append([]byte{}, plain...), '|'), again...)
}

func (st *concState) plainNas() []byte {
	switch st.rng.Intn(6) {
	case 0:
		return nasTestpacket.GetRegistrationComplete(st.bytes(1 + st.rng.Intn(60)))
	case 1:
		return nasTestpacket.GetAuthenticationResponse(st.bytes(16), "")
	case 2:
		return nasTestpacket.GetSecurityModeComplete(st.bytes(1 + st.rng.Intn(40)))
	case 3:
		return nasTestpacket.GetUlNasTransport_PduSessionEstablishmentRequest(uint8(1+st.rng.Intn(15)),
			nasMessage.ULNASTransportRequestTypeInitialRequest, "internet", nil)
	case 4:
		return nasTestpacket.GetDeregistrationRequest(nasMessage.AccessType3GPP, 0, 0x04,
			nasType.MobileIdentity5GS{Len: 11, Buffer: []uint8{0xf2, 0x02, 0xf8, 0x39, 0xca, 0xfe, 0x00, uint8(st.g), 0, 0, 1}})
	default:
		return nasTestpacket.GetServiceRequest(nasMessage.ServiceTypeData)
	}
}

var concPlainNames = []string{"nasTestpacket.GetRegistrationComplete", "nasTestpacket.GetAuthenticationResponse",
	"nasTestpacket.GetSecurityModeComplete", "nasTestpacket.GetUlNasTransport_PduSessionEstablishmentRequest",
	"nasTestpacket.GetDeregistrationRequest", "nasTestpacket.GetServiceRequest"}

func (st *concState) regRequest() []byte {
	suci := nasType.MobileIdentity5GS{Len: 13, Buffer: []uint8{0x01, 0x02, 0xf8, 0x39, 0xf0, 0xff, 0x00, 0x00,
		uint8(st.g), uint8(st.rng.Intn(256)), 0x00, 0x00, 0x10}}
	return nasTestpacket.GetRegistrationRequest(nasMessage.RegistrationType5GSInitialRegistration, suci, nil,
		st.ue.GetUESecurityCapability(), nil, nil, nil)
}

// protect: the emulator's uplink path (EncodeNasPduWithSecurity → PlainNasDecode, NASEncode → NASEncrypt, NASMacCalculate)
func concProtect(nea, nia uint8) func(st *concState) []byte {
	return func(st *concState) []byte {
		st.ue.CipheringAlg, st.ue.IntegrityAlg = nea, nia
		sht := uint8(nas.SecurityHeaderTypeIntegrityProtectedAndCiphered)
		if st.rng.Intn(4) == 0 {
			sht = nas.SecurityHeaderTypeIntegrityProtected
		}
		out := must(tglib.EncodeNasPduWithSecurity(st.ue, st.plainNas(), sht, true, st.rng.Intn(8) == 0))
		return append(out, byte(st.ue.ULCount.Get()), byte(st.ue.ULCount.Get()>>8))
	}
}

// unprotect: a downlink message protected by the harness's reference sender (refProtect, own buffers), then
// tglib.GetNasPdu → NASDecode on the goroutine's own context
func concUnprotect(nea, nia uint8) func(st *concState) []byte {
	return func(st *concState) []byte {
		st.ue.CipheringAlg, st.ue.IntegrityAlg = nea, nia
		count := (st.ue.DLCount.Get() + uint32(st.rng.Intn(3))) & 0xffffff
		sht := uint8(2)
		if st.rng.Intn(4) == 0 {
			sht = 1
		}
		plain := nasTestpacket.GetConfigurationUpdateComplete()
		if st.rng.Intn(2) == 0 {
			plain = nasTestpacket.GetStatus5GMM(uint8(st.rng.Intn(256)))
		}
		pkg := refProtect(nea, nia, st.ue.KnasEnc, st.ue.KnasInt, count, 0x7e, sht, plain)
		m := tglib.GetNasPdu(st.ue, dlTransport(pkg, true))
		if m == nil {
			return []byte("nil")
		}
		again, err := m.PlainNasEncode()
		return append(must(again, err), byte(st.ue.DLCount.Get()), byte(st.ue.DLCount.Get()>>8))
	}
}

func concEnc(alg uint8) func(st *concState) []byte {
	return func(st *concState) []byte {
		var k [16]byte
		copy(k[:], st.bytes(16))
		buf := st.bytes(1 + st.rng.Intn(st.maxLen))
		if err := security.NASEncrypt(alg, k, st.rng.Uint32(), uint8(st.rng.Intn(32)), uint8(st.rng.Intn(2)), buf); err != nil {
			return []byte("error")
		}
		return buf
	}
}

func concMac(alg uint8) func(st *concState) []byte {
	return func(st *concState) []byte {
		var k [16]byte
		copy(k[:], st.bytes(16))
		return must(security.NASMacCalculate(alg, k, st.rng.Uint32(), uint8(st.rng.Intn(32)), uint8(st.rng.Intn(2)), st.bytes(1+st.rng.Intn(st.maxLen))))
	}
}

var concKinds = map[string]concKind{
	"ngap-initialue": {[]string{"tglib.GetInitialUEMessage", "ngap.Decoder", "ngap.Encoder", "nasTestpacket.GetRegistrationRequest"},
		func(st *concState) []byte { return ngapRound(tglib.GetInitialUEMessage(st.ran, st.regRequest(), "")) }},
	"ngap-ulnas": {[]string{"tglib.GetUplinkNASTransport", "ngap.Decoder", "ngap.Encoder"},
		func(st *concState) []byte {
			return ngapRound(tglib.GetUplinkNASTransport(st.amf, st.ran, st.bytes(1+st.rng.Intn(120))))
		}},
	"ngap-icsresp": {[]string{"tglib.GetInitialContextSetupResponse", "ngap.Decoder", "ngap.Encoder"},
		func(st *concState) []byte { return ngapRound(tglib.GetInitialContextSetupResponse(st.amf, st.ran)) }},
	"ngap-pdusetup": {[]string{"tglib.GetPDUSessionResourceSetupResponse", "ngap.Decoder", "ngap.Encoder"},
		func(st *concState) []byte {
			ip := fmt.Sprintf("10.%d.%d.%d", st.g, st.rng.Intn(256), 1+st.rng.Intn(250))
			if st.rng.Intn(6) == 0 {
				// a REFUSED encoding now and then (identifier out of range): error paths must not leave state behind
				_, err := tglib.GetPDUSessionResourceSetupResponse(st.amf, 1<<32+st.ran, int64(1+st.rng.Intn(15)), ip)
				if err == nil {
					return []byte("out-of-range id accepted")
				}
			}
			return ngapRound(tglib.GetPDUSessionResourceSetupResponse(st.amf, st.ran, int64(1+st.rng.Intn(15)), ip))
		}},
	"ngap-release": {[]string{"tglib.GetUEContextReleaseRequest", "tglib.GetUEContextReleaseComplete", "tglib.GetPDUSessionResourceReleaseResponse", "ngap.Decoder", "ngap.Encoder"},
		func(st *concState) []byte {
			ids := []int64{int64(1 + st.rng.Intn(15))}
			a := ngapRound(tglib.GetUEContextReleaseRequest(st.amf, st.ran, ids))
			b := ngapRound(tglib.GetUEContextReleaseComplete(st.amf, st.ran, ids))
			c := ngapRound(tglib.GetPDUSessionResourceReleaseResponse(st.amf, st.ran, ids[0]))
			return bytes.Join([][]byte{a, b, c}, []byte{'/'})
		}},
	"aper": {[]string{"aper.MarshalWithParams", "aper.UnmarshalWithParams", "aper.Marshal", "aper.Unmarshal"},
		func(st *concState) []byte {
			v := ngapType.UserLocationInformationNR{}
			v.NRCGI.PLMNIdentity.Value = aper.OctetString(st.bytes(3))
			v.NRCGI.NRCellIdentity.Value = aper.BitString{Bytes: append(st.bytes(4), byte(st.rng.Intn(16))<<4), BitLength: 36}
			v.TAI.PLMNIdentity.Value = aper.OctetString(st.bytes(3))
			v.TAI.TAC.Value = aper.OctetString(st.bytes(3))
			enc, err := aper.MarshalWithParams(v, "valueExt")
			if err != nil {
				return []byte("error:" + err.Error())
			}
			var back ngapType.UserLocationInformationNR
			if err := aper.UnmarshalWithParams(enc, &back, "valueExt"); err != nil {
				return append(enc, []byte("|decerr")...)
			}
			id := ngapType.RANUENGAPID{Value: st.rng.Int63n(1 << 32)}
			e2, err := aper.Marshal(id)
			if err != nil {
				return []byte("error:" + err.Error())
			}
			var id2 ngapType.RANUENGAPID
			if err := aper.Unmarshal(e2, &id2); err != nil {
				return append(e2, []byte("|decerr")...)
			}
			again, _ := aper.MarshalWithParams(back, "valueExt")
			return bytes.Join([][]byte{enc, again, e2, []byte(strconv.FormatInt(id2.Value, 10))}, []byte{'|'})
		}},
	"nas-plain": {append([]string{"nas.Message.PlainNasDecode", "nas.Message.PlainNasEncode", "nasTestpacket.GetRegistrationRequest"}, concPlainNames...),
		func(st *concState) []byte {
			if st.rng.Intn(3) == 0 {
				return nasRound(st.regRequest())
			}
			return nasRound(st.plainNas())
		}},
	"derive": {[]string{"tglib.RanUeContext.DeriveRESstarAndSetKey", "tglib.GetAuthSubscription", "tglib.NewRanUeContext"},
		func(st *concState) []byte {
			ue := tglib.NewRanUeContext(fmt.Sprintf("imsi-20893%010d", st.g*1000+st.rng.Intn(1000)), st.ran, uint8(st.rng.Intn(3)), uint8(1+st.rng.Intn(2)))
			k, o := hex.EncodeToString(st.bytes(16)), hex.EncodeToString(st.bytes(16))
			subs := tglib.GetAuthSubscription(k, o, "")
			if st.rng.Intn(2) == 0 {
				subs = tglib.GetAuthSubscription(k, "", o) // the operator code configured as OP: OPc is derived per call
			}
			var autn [16]byte
			copy(autn[:], st.bytes(16))
			res := ue.DeriveRESstarAndSetKey(subs, autn, st.bytes(16), "5G:mnc093.mcc208.3gppnetwork.org", "93", "208")
			st.ue.KnasEnc, st.ue.KnasInt = ue.KnasEnc, ue.KnasInt
			return bytes.Join([][]byte{res, ue.Kamf, ue.KnasEnc[:], ue.KnasInt[:]}, nil)
		}},
	"kdf": {[]string{"UeauCommon.GetKDFValue"},
		func(st *concState) []byte {
			p0 := st.bytes(1 + st.rng.Intn(40))
			p1 := st.bytes(st.rng.Intn(10))
			return UeauCommon.GetKDFValue(st.bytes(32), UeauCommon.FC_FOR_KAMF_DERIVATION, p0, UeauCommon.KDFLen(p0), p1, UeauCommon.KDFLen(p1))
		}},
	"mil": {[]string{"milenage.F1", "milenage.F2345", "milenage.GenerateOPC", "milenage.MilenageGenerate", "milenage.Milenage_check"},
		func(st *concState) []byte {
			k, op, rnd, sqn, amf := st.bytes(16), st.bytes(16), st.bytes(16), st.bytes(6), st.bytes(2)
			opc, err := milenage.GenerateOPC(k, op)
			if err != nil {
				return []byte("error")
			}
			macA, macS := make([]byte, 8), make([]byte, 8)
			res, ck, ik, ak, aks := make([]byte, 8), make([]byte, 16), make([]byte, 16), make([]byte, 6), make([]byte, 6)
			if milenage.F1(opc, k, rnd, sqn, amf, macA, macS) != nil || milenage.F2345(opc, k, rnd, res, ck, ik, ak, aks) != nil {
				return []byte("error")
			}
			autn, ik2, ck2, ak2, res2 := make([]byte, 16), make([]byte, 16), make([]byte, 16), make([]byte, 6), make([]byte, 8)
			rl := uint(8)
			milenage.MilenageGenerate(opc, amf, k, sqn, rnd, autn, ik2, ck2, ak2, res2, &rl)
			ik3, ck3, res3, auts := make([]byte, 16), make([]byte, 16), make([]byte, 8), make([]byte, 14)
			rl3 := uint(8)
			ret := milenage.Milenage_check(opc, k, sqn, rnd, autn, ik3, ck3, res3, &rl3, auts)
			return bytes.Join([][]byte{opc, macA, macS, res, ck, ik, ak, aks, autn, res2, res3, []byte(strconv.Itoa(ret))}, nil)
		}},
}

func init() {
	for nea := uint8(0); nea <= 2; nea++ {
		for nia := uint8(1); nia <= 2; nia++ {
			concKinds[fmt.Sprintf("prot%d%d", nea, nia)] = concKind{
				append([]string{"tglib.EncodeNasPduWithSecurity", "tglib.NASEncode"}, concPlainNames...), concProtect(nea, nia)}
			concKinds[fmt.Sprintf("unprot%d%d", nea, nia)] = concKind{
				[]string{"tglib.GetNasPdu", "tglib.NASDecode", "security.NASEncrypt", "security.NASMacCalculate",
					"nasTestpacket.GetConfigurationUpdateComplete", "nasTestpacket.GetStatus5GMM", "nas.Message.PlainNasEncode"}, concUnprotect(nea, nia)}
		}
	}
	for alg := uint8(0); alg <= 2; alg++ {
		concKinds[fmt.Sprintf("enc%d", alg)] = concKind{[]string{"security.NASEncrypt"}, concEnc(alg)}
		if alg > 0 {
			concKinds[fmt.Sprintf("mac%d", alg)] = concKind{[]string{"security.NASMacCalculate"}, concMac(alg)}
		}
	}
	register("conc", concGen)
	register("conc-child", concChild)
	registerOp("conc", concOp)
	opLimits["conc"] = 120 * time.Second
}

func concNames(kinds []string) string {
	set := map[string]bool{}
	for _, k := range kinds {
		ck, ok := concKinds[k]
		if !ok {
			panic(badArg{})
		}
		for _, n := range ck.names {
			set[n] = true
		}
	}
	var ns []string
	for n := range set {
		ns = append(ns, n)
	}
	sort.Strings(ns)
	return strings.Join(ns, ",")
}

var concMaxLen = 160

// one goroutine's whole work: its own PRNG, its own UE context, its own messages
func concThread(g, iters int, seed int64, kinds []string) [][32]byte {
	st := &concState{maxLen: concMaxLen, g: g, rng: rand.New(rand.NewSource(seed*1000003 + int64(g))), ran: int64(1 + g), amf: int64(1000 + g)}
	st.ue = tglib.NewRanUeContext(fmt.Sprintf("imsi-20893%010d", g), st.ran, security.AlgCiphering128NEA0, security.AlgIntegrity128NIA2)
	copy(st.ue.KnasEnc[:], st.bytes(16))
	copy(st.ue.KnasInt[:], st.bytes(16))
	out := make([][32]byte, iters)
	for j := 0; j < iters; j++ {
		k := kinds[(g+j)%len(kinds)]
		var res []byte
		func() {
			defer func() {
				if r := recover(); r != nil {
					res = []byte("panic")
				}
			}()
			res = concKinds[k].run(st)
		}()
		out[j] = sha256.Sum256(res)
	}
	return out
}

// concRunMode performs the scenario either one goroutine after the other ("seq") or with all goroutines released
// together ("con") and returns the per-call digests. Each mode runs in a child process of its own, so the concurrent
// calls are the FIRST calls that process makes: one-time initialisation that is only safe when done sequentially
// (a lazily built table, a cache filled on first use) is exercised cold, not after a sequential warm-up.
func concRunMode(mode string, G, iters int, seed int64, kinds []string) [][][32]byte {
	out := make([][][32]byte, G)
	if mode == "seq" {
		for g := 0; g < G; g++ {
			out[g] = concThread(g, iters, seed, kinds)
		}
		return out
	}
	var wg sync.WaitGroup
	start := make(chan struct{})
	for g := 0; g < G; g++ {
		wg.Add(1)
		go func(g int) {
			defer wg.Done()
			<-start
			out[g] = concThread(g, iters, seed, kinds)
		}(g)
	}
	close(start)
	wg.Wait()
	return out
}

func concDigests(d [][][32]byte) string {
	var b strings.Builder
	for _, t := range d {
		for _, h := range t {
			b.WriteString(hex.EncodeToString(h[:8]))
		}
		b.WriteByte('.')
	}
	return b.String()
}

// concDiff compares the digest strings of the two modes; returns "same" or "diff <kind of the first differing call>"
func concDiff(seq, con string, iters int, kinds []string) string {
	if seq == con {
		return "same"
	}
	st, ct := strings.Split(seq, "."), strings.Split(con, ".")
	for g := 0; g < len(st) && g < len(ct); g++ {
		for j := 0; j < iters; j++ {
			if 16*(j+1) > len(st[g]) || 16*(j+1) > len(ct[g]) || st[g][16*j:16*j+16] != ct[g][16*j:16*j+16] {
				return "diff " + kinds[(g+j)%len(kinds)]
			}
		}
	}
	return "diff " + kinds[0]
}

func concParse(a []string) (G, iters int, seed int64, kinds []string) {
	if len(a) < 4 {
		panic(badArg{})
	}
	G, iters, seed = int(aU64(a[0])), int(aU64(a[1])), int64(aU64(a[2]))
	kinds = strings.Split(a[3], ",")
	if G < 1 || G > 64 || iters < 1 || iters > 100000 {
		panic(badArg{})
	}
	for _, k := range kinds {
		if _, ok := concKinds[k]; !ok {
			panic(badArg{})
		}
	}
	return
}

// the child: runs one scenario, prints "result\t<same|diff kind>"
func concChild(e *emitter) {
	a := strings.Fields(os.Getenv("VERIF_CONC_ARGS"))
	if e.thorough() {
		concMaxLen = 1500
	}
	res := guard0(func() string {
		G, iters, seed, kinds := concParse(a)
		return concDigests(concRunMode(os.Getenv("VERIF_CONC_MODE"), G, iters, seed, kinds))
	})
	fmt.Fprintf(e.w, "result\t%s\n", res)
}

func guard0(f func() string) (res string) {
	defer func() {
		if r := recover(); r != nil {
			res = "bad-op"
		}
	}()
	return f()
}

// racyPackage: package of the first frame of the first report that lies in the repo's packages
// (the top frame may be runtime.slicecopy, runtime.mapassign, …), else of the top frame
func racyPackage(report string) string {
	lines := strings.Split(report, "\n")
	top := ""
	for i, l := range lines {
		if !strings.Contains(l, " by goroutine ") && !strings.Contains(l, " by main goroutine") {
			continue
		}
		for _, f := range lines[i+1:] {
			f = strings.TrimSpace(f)
			if f == "" {
				break
			}
			if strings.HasPrefix(f, "/") || !strings.Contains(f, "(") {
				continue // file:line
			}
			sym := f[:strings.Index(f, "(")]
			if strings.HasPrefix(f, "free5gclib/") || strings.HasPrefix(f, "tglib") || strings.HasPrefix(f, "stgutg") {
				return pkgOfSymbol(f)
			}
			if top == "" {
				top = pkgOfSymbol(sym)
			}
		}
		if top != "" {
			return top
		}
	}
	return "unknown"
}

func pkgOfSymbol(s string) string {
	slash := strings.LastIndex(s, "/")
	dot := strings.Index(s[slash+1:], ".")
	if dot < 0 {
		return s
	}
	return s[:slash+1+dot]
}

// concRun executes the scenario in a child of this binary; returns the canonical result and the race report
func concRun(a []string) (string, string) {
	if !raceEnabled {
		return "norace", ""
	}
	dir, err := os.MkdirTemp("", "conc")
	if err != nil {
		return "bad-op", ""
	}
	defer os.RemoveAll(dir)
	self, err := os.Executable()
	if err != nil {
		return "bad-op", ""
	}
	runChild := func(mode string) (result, report string, runErr error) {
		cmd := exec.Command(self, "conc-child", "-tier", concTier)
		cmd.Dir = dir
		cmd.Env = append(os.Environ(), "VERIF_CONC_ARGS="+strings.Join(a[:4], " "), "VERIF_CONC_MODE="+mode,
			"GORACE=log_path="+filepath.Join(dir, "race-"+mode)+" halt_on_error=0 history_size=4 atexit_sleep_ms=0")
		var out bytes.Buffer
		cmd.Stdout = &out
		runErr = cmd.Run()
		logs, _ := filepath.Glob(filepath.Join(dir, "race-"+mode+".*"))
		for _, l := range logs {
			b, _ := os.ReadFile(l)
			report += string(b)
		}
		for _, line := range strings.Split(out.String(), "\n") {
			if strings.HasPrefix(line, "result\t") {
				result = strings.TrimPrefix(line, "result\t")
			}
		}
		return
	}
	// the concurrent run first (cold process), then the one-call-at-a-time reference in a process of its own
	con, report, conErr := runChild("con")
	if strings.Contains(report, "WARNING: DATA RACE") {
		return "race " + racyPackage(report), report
	}
	seq, _, seqErr := runChild("seq")
	if con == "bad-op" || seq == "bad-op" {
		return "bad-op", ""
	}
	if con == "" || seq == "" {
		return fmt.Sprintf("panic child: %v %v", conErr, seqErr), ""
	}
	G, iters, _, kinds := concParse(a)
	_ = G
	return "ok " + concDiff(seq, con, iters, kinds), ""
}

var concTier = func() string {
	for i, a := range os.Args {
		if a == "-tier" && i+1 < len(os.Args) {
			return os.Args[i+1]
		}
	}
	return "quick"
}()

func concOp(a []string) string {
	_, _, _, kinds := concParse(a)
	if len(a) != 5 || a[4] != concNames(kinds) {
		panic(badArg{})
	}
	res, report := concRun(a)
	if report != "" {
		if p := os.Getenv("VERIF_CONC_REPORT"); p != "" {
			os.WriteFile(p, []byte(report), 0o644)
		}
	}
	return res
}

// SNOW 3G costs about 10 ms per call under the race detector (mulxPow recurses 245 deep): fewer iterations
func concHeavy(k string) bool {
	return strings.Contains(strings.TrimLeft(k, "abcdefghijklmnopqrstuvwxyz-"), "1")
}

func concCase(e *emitter, G, iters int, kinds ...string) {
	for _, k := range kinds {
		if concHeavy(k) {
			iters = (iters + 3) / 4
			break
		}
	}
	e.op("conc", strconv.Itoa(G), strconv.Itoa(iters), strconv.FormatInt(e.rng.Int63n(1<<31), 10), strings.Join(kinds, ","), concNames(kinds))
}

func concGen(e *emitter) {
	concTier = e.tier
	var all []string
	for k := range concKinds {
		all = append(all, k)
	}
	sort.Strings(all)
	iters := 4
	if e.thorough() {
		iters = 16
	}
	// every kind against itself: two goroutines, then many
	for _, k := range all {
		concCase(e, 2, 3*iters, k)
	}
	for _, k := range all {
		concCase(e, 8+e.rng.Intn(57), iters, k)
	}
	// the SNOW 3G users together (F13); all kinds together at G = 64
	concCase(e, 2, 10*iters, "enc1")
	concCase(e, 2, 10*iters, "enc1", "mac1")
	concCase(e, 64, iters, "prot11", "unprot11", "enc1", "mac1")
	concCase(e, 64, iters, all...)
	// random mixes, G = 2..64
	for i := 0; i < e.n; i++ {
		n := 1 + e.rng.Intn(5)
		var ks []string
		for j := 0; j < n; j++ {
			ks = append(ks, all[e.rng.Intn(len(all))])
		}
		concCase(e, 2+e.rng.Intn(63), iters+e.rng.Intn(iters), ks...)
	}
}
